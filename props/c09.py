"""C09 - MPS / MPO arithmetic and 1D compression match dense linear algebra.

The real constructors, arithmetic, application, overlap / expectation / trace routines and the
1D compression drivers are executed on matrix product states / operators whose entries are
symbols (conj-pair complex for the LAPACK-free identities, real for the ones that go through
the QR / SVD / eigh contract stubs).  Every result is densified with the independent
sum-of-products reference (qv/ref.py reads only `.data` / `.inds`) and compared, entry by
entry, with dense linear algebra written from the *raw input arrays* in the documented
'lrp' / 'lrud' axis convention:
  * LAPACK-free paths: polynomial identities decided by z3 (Q-ID);
  * paths through QR / SVD / eigh: linear Nullstellensatz certificates modulo the stub
    contracts (Q-CERT): value unchanged when nothing is truncated, promised isometries,
    ||psi - psi'||^2 == sum of the discarded squared singular values for the canonical methods;
  * structural promises (type, site labels, bond cap) are concrete even on symbolic data.
The same harnesses are re-run on random floats with the genuine LAPACK (numeric cross-run),
where the iterative / randomised compression methods are additionally exercised.
"""
import itertools
import re
import warnings

import numpy as np

import quimb as qu
import quimb.tensor as qtn
from quimb.tensor import tensor_core as tc
from quimb.tensor import tensor_builder as tb
from quimb.tensor.tn1d import core as c1
from quimb.tensor.tn1d import compress as cp
from quimb.tensor.tnag import core as ag

from qv import poly as P
from qv import ref, stubs
from qv.harness import obligation, Skip

# Obligations run inside daemonic worker processes, which may not create a process pool: tell
# cotengra's path hyper-optimiser (reached through optimize='auto' / 'auto-hq' on networks of
# >= ~12 tensors) that it already is a worker, so that it searches serially.  Only the search
# for a contraction order is affected, never the value contracted.
import cotengra.parallel as _ctg_parallel  # noqa: E402

_ctg_parallel._IS_WORKER = True

PROP = "C09"
META = {
    "bounds": {
        "quick": {"L": "3 (2 for normalize=True; 4-5 total sites for site subsets)", "bond dim": "2 (1 x 2 / 2 x 1 for two-layer inputs, 1+1 for sums), bond-dependent (1,2,1) once",
                  "phys dim": "2, one site-dependent case (2,3,2)", "boundaries": "open + periodic wherever the routine supports it",
                  "entries": "conj-pair complex symbols (LAPACK-free goals), real symbols (goals through the QR / SVD / eigh contracts)",
                  "layouts": "3 of 6 'lrp' orders, 3 'lrud' orders",
                  "Hamiltonian builders": "SpinHam1D with 11 term-list families (0-3 one-site and 0-3 two-site default terms, the same operator twice, "
                                          "site / bond specific lists by repeated += or assignment, -=, array operators) x (L=3 open, L=4 periodic), "
                                          "S=1/2 (S=1 twice): build_mpo / build_sparse / build_local_ham; MPO_ham_ising / XY / heis / XXZ / "
                                          "bilinear_biquadratic / mbl (dh_dim 1, 2, 3, 'xz', 'y', 'yz' x dh_dist s, g, qp x scalar / triple j, tuple dh)",
                  "compression": "direct, dm, zipup x both sweep directions; cutoff=0 with max_bond in {None, 1, 2}; inputs: MPS, sum (dm), "
                                 "two-layer MPO.MPS, MPO; truncation-error identity for L = 2, 3; compress(form) / left_compress / right_compress / "
                                 "compress_site / gate_with_mpo; options normalize, inplace, max_bond=2"},
        "thorough": {"L": "2-4 (5 for constant-table generators)", "bond dim": "1-2, bond-dependent (1,2,1), (2,1,2,1)", "phys dim": "2, 3, (2,3,2), (2,3,2,3)",
                     "layouts": "all 6 'lrp' orders, 8 'lrud' orders",
                     "compression": "adds zipup-first, zipup-oversample, sdc, bond-4 two-layer inputs, MPO inputs with a cap, L = 4, complex entries, "
                                    "every documented option (canonize, permute_arrays, site_tags, cutoff_mode), every gate_with_mpo entry point",
                     "numeric only": "17 further (method, input) combinations incl. all iterative / randomised methods"},
    },
    "outside": ["floating point rounding; convergence speed of iterative methods; dtype preservation (float32 / complex64)",
                "iterative / randomised compression methods (fit, fit-zipup, fit-projector, fit-oversample, src, src-oversample, srcmps, "
                "srcmps-oversample, sdc-oversample, projector, local-early): numeric cross-run only (value reproduced to 1e-4 when the cap is "
                "not binding, binding cap respected), no symbolic claim",
                "deterministic methods with a *non-binding* cap on an inflated (rank-deficient) bond: exactness rests on discarded singular values "
                "being zero, not derivable from the decomposition contracts: numeric cross-run only",
                "compress=True of sums (add_MPS / add_MPO): block-diagonal site tensors defeat the certificate search (not mandatory, thorough); "
                "the two halves (sum; compress of an arbitrary bond-2 chain) are certified separately",
                "the error *inequality* with respect to the singular values of the original state (the check proves the stronger equality with the "
                "values actually discarded along the sweep; the textbook bound follows by interlacing and is checked numerically)",
                "the sign of the normalisation factor of normalize=True (numeric cross-run)",
                "transfer-matrix compression of long periodic expectation networks (expec_TN_1D(compress=True), n >= 100); equalize_norms",
                "random generators (MPS_rand_state, MPO_rand, MPS_rand_computational_state); MPS_sampler only through its norm",
                "Hamiltonian builders (SpinHam1D, MPO_ham_*) with symbolic coefficients: spin_ham_mpo_tensor allocates a complex table, so "
                "spin_ham_builder / hamiltonian_generators compare numeric tables with dyadic coefficients by evaluation (fixed table + random "
                "multiples of 1/16), S = 1/2 and 1, L = 3-5; MPO_ham_mbl's random fields are pinned by their support, bound and the dense "
                "builder quimb.ham_mbl at the same seed, not by a distribution test; MPO_ham_bilinear_biquadratic against the cited model cos(theta) S.S + sin(theta) (S.S)^2; "
                "build_local_ham with plain ndarray two-site operators (rejected: TypeError); NNI / LocalHam1D evolution (C18)",
                "jax / torch / block-sparse backends",
                "L = 1 chains and periodic chains of length 2 (double bond)",
                "tensor_network_align(A, B) of two operators with default ids is rejected by the library (ambiguous ids): explicit ind_ids are supplied"],
    "assumptions": ["LAPACK qr / svd / eigh return factors meeting their documented contracts (stubs); QR stub has positive diagonal",
                    "singular values are strictly positive ordered symbols (generic full-rank input); eigenvalues of reduced density matrices are "
                    "non-negative ordered symbols",
                    "Schmidt decomposition theorem: the singular values of the centre matrix of a state in mixed canonical form are its Schmidt "
                    "coefficients (bipartite_schmidt_state: the certificate shows the gauge, the isometries and which matrix was decomposed)",
                    "contraction path optimisers only reorder exact sums of products (C01); cotengra's path search runs serially in the workers"],
}

_Q = ("quick", "thorough")
_T = ("thorough",)


# ====================================================================================
# helpers: symbolic chains and references written from the raw arrays
# ====================================================================================

def _conj(a):
    a = np.asarray(a)
    if a.dtype == object:
        out = np.empty(a.shape, dtype=object)
        for idx in np.ndindex(*a.shape):
            out[idx] = P.lift(a[idx]).conjugate()
        return out
    return np.conj(a)


def _bd(D, j):
    return D if isinstance(D, int) else D[j]


def _labels(i, L, cyclic, op=False):
    """documented meaning of the axes of site i: l = bond to site i-1, r = bond to site i+1,
    p = physical (vector) / u, d = upper, lower physical (operator).  Bond j joins j and j+1."""
    lab = {}
    if cyclic or i > 0:
        lab["l"] = f"v{(i - 1) % L}"
    if cyclic or i < L - 1:
        lab["r"] = f"v{i}"
    if op:
        lab["u"] = f"u{i}"
        lab["d"] = f"d{i}"
    else:
        lab["p"] = f"p{i}"
    return lab


def _site_shape(i, L, D, dims, cyclic, layout):
    lab = _labels(i, L, cyclic, op="u" in layout)
    sz = {"p": dims[i], "u": dims[i], "d": dims[i]}
    if "l" in lab:
        sz["l"] = _bd(D, (i - 1) % L)
    if "r" in lab:
        sz["r"] = _bd(D, i)
    return tuple(sz[c] for c in layout if c in lab)


def _kind_of(i, kind):
    if kind == "mixed":
        return "cplx" if i % 2 == 1 else "real"
    return kind


def sym_arrays(mk, name, L, D, dims, cyclic, kind="cplx", layout="lrp"):
    return [mk.array(f"{name}{i}", _site_shape(i, L, D, dims, cyclic, layout), _kind_of(i, kind)) for i in range(L)]


def raw_terms(arrays, cyclic, layout):
    L = len(arrays)
    op = "u" in layout
    terms = []
    for i, a in enumerate(arrays):
        lab = _labels(i, L, cyclic, op)
        terms.append((a, tuple(lab[c] for c in layout if c in lab)))
    return terms


def raw_vec(arrays, cyclic=False, layout="lrp"):
    """dense tensor psi[p0, ..., p_{L-1}] denoted by the raw arrays (documented convention)"""
    L = len(arrays)
    return ref.sum_of_products(raw_terms(arrays, cyclic, layout), tuple(f"p{i}" for i in range(L)))


def raw_op(arrays, cyclic=False, layout="lrud"):
    """dense matrix M[(u0..), (d0..)] denoted by the raw arrays (documented convention)"""
    L = len(arrays)
    t = ref.sum_of_products(raw_terms(arrays, cyclic, layout), tuple(f"u{i}" for i in range(L)) + tuple(f"d{i}" for i in range(L)))
    n = int(np.prod(t.shape[:L]))
    return t.reshape(n, n)


def sym_mps(mk, name, L, D=2, dims=None, cyclic=False, kind="cplx"):
    dims = dims or (2,) * L
    arrays = sym_arrays(mk, name, L, D, dims, cyclic, kind, "lrp")
    return qtn.MatrixProductState(arrays), arrays


def sym_mpo(mk, name, L, D=2, dims=None, cyclic=False, kind="cplx"):
    dims = dims or (2,) * L
    arrays = sym_arrays(mk, name, L, D, dims, cyclic, kind, "lrud")
    return qtn.MatrixProductOperator(arrays), arrays


def vdense(tn, L=None, ind_id="k{}", sites=None):
    """dense tensor of a vector-like network over its site labels (reads .data / .inds only)"""
    sites = range(L if L is not None else tn.L) if sites is None else sites
    return ref.tn_dense(tn, tuple(ind_id.format(i) for i in sites))


def odense(tn, L=None, up="k{}", low="b{}", sites=None):
    sites = list(range(L if L is not None else tn.L) if sites is None else sites)
    t = ref.tn_dense(tn, tuple(up.format(i) for i in sites) + tuple(low.format(i) for i in sites))
    n = int(np.prod(t.shape[:len(sites)]))
    return t.reshape(n, -1)


def _flat(x):
    return np.asarray(x).reshape(-1)


def _sum(vals):
    tot = 0
    for v in vals:
        tot = tot + v
    return tot


def inner(a, b):
    """<a|b> = sum conj(a) b"""
    return _sum(x * y for x, y in zip(_flat(_conj(a)), _flat(b)))


def num_eq(mk, label, got, want, tol=1e-12):
    """comparison of purely numeric tables (no symbol involved): decided by evaluation in both modes"""
    got = np.asarray(got)
    want = np.asarray(want)
    if got.dtype == object or want.dtype == object:
        mk.eq(label, got, want)
        return
    if got.size == want.size and got.shape != want.shape:
        got, want = got.reshape(-1), want.reshape(-1)
    ok = got.shape == want.shape and (got.size == 0 or float(np.max(np.abs(got - want))) <= tol * max(1.0, float(np.max(np.abs(want)))))
    mk.same(label, bool(ok), True)


def iso_goal(mk, label, t, over):
    """sum over labels `over` of conj(t) t == identity on the remaining label(s)"""
    rest = tuple(i for i in t.inds if i not in over)
    ren = {i: i + "'" for i in rest}
    g = ref.sum_of_products([(t.data, t.inds), (_conj(t.data), tuple(ren.get(i, i) for i in t.inds))],
                            rest + tuple(ren[i] for i in rest))
    n = int(np.prod([t.ind_size(i) for i in rest])) if rest else 1
    mk.eq(label, g.reshape(n, n), ref.eye(n, like=g))


def canonical_goals(mk, tag, tn, form, L=None):
    """'right': every site but 0 is a right isometry (centre at 0); 'left': every site but L-1 a
    left isometry; an int c: mixed canonical around site c"""
    L = L if L is not None else tn.L
    c = {"right": 0, "left": L - 1}.get(form, form)
    for k in range(L):
        t = tn[k]
        if k < c:
            (b,) = t.bonds(tn[k + 1])
            iso_goal(mk, f"{tag}: site {k} left-isometric", t, tuple(i for i in t.inds if i != b))
        elif k > c:
            (b,) = t.bonds(tn[k - 1])
            iso_goal(mk, f"{tag}: site {k} right-isometric", t, tuple(i for i in t.inds if i != b))


def _perm(src, dst):
    """axes permutation taking an array laid out as `src` to layout `dst` (same characters)"""
    return tuple(src.index(c) for c in dst)


def _present(layout, lab):
    return "".join(c for c in layout if c in lab)


# ====================================================================================
# 1. constructors
# ====================================================================================

_MPS_LAYOUTS = ["".join(p) for p in itertools.permutations("lrp")]
_MPO_LAYOUTS = ["lrud", "udlr", "ldur", "rlud", "uldr", "dulr", "lurd", "drul"]

_CONS_CASES = []
for L_, D_, dims_, cyc_ in [(3, 2, (2, 2, 2), False), (3, 2, (2, 2, 2), True), (3, 2, (2, 3, 2), False),
                            (2, 2, (2, 2), False), (4, 2, (2, 2, 2, 2), False), (4, (1, 2, 1, 2), (2, 2, 2, 2), True),
                            (3, (1, 2, 1), (3, 3, 3), False), (3, 1, (2, 2, 2), True), (4, (2, 1, 2, 2), (2, 3, 2, 3), False)]:
    quick = L_ == 3 and D_ == 2 and (dims_ == (2, 2, 2) or not cyc_)
    _CONS_CASES.append((L_, D_, dims_, cyc_, quick))


@obligation(PROP, params=[{"L": L, "D": D, "dims": dims, "cyclic": cyc, "layout": lay,
                           "_tiers": _Q if (q and lay in ("lrp", "plr", "rpl")) else _T}
                          for (L, D, dims, cyc, q) in _CONS_CASES for lay in _MPS_LAYOUTS])
def mps_constructor(mk, L, D, dims, cyclic, layout):
    """MatrixProductState(arrays, shape=layout): structure, dense value, permute_arrays"""
    mk.encodes(c1.MatrixProductState.__init__, c1.MatrixProductState.permute_arrays, ag.TensorNetworkGenVector.to_dense,
               c1.TensorNetwork1DFlat.bond, c1.TensorNetwork1DFlat.bond_sizes)
    arrays = sym_arrays(mk, "T", L, D, dims, cyclic, "mixed", layout)
    psi = qtn.MatrixProductState(arrays, shape=layout)
    mk.same("type", type(psi) is qtn.MatrixProductState, True)
    mk.same("L", psi.L, L)
    mk.same("cyclic flag", bool(psi.cyclic), cyclic)
    mk.same("site tags", tuple(psi.site_tags), tuple(f"I{i}" for i in range(L)))
    mk.same("site labels are the outer labels", set(psi.outer_inds()), {f"k{i}" for i in range(L)})
    mk.same("one tensor per site", [len(psi.select_tensors(f"I{i}")) for i in range(L)], [1] * L)
    nb = L if cyclic else L - 1
    mk.same("bond sizes", list(psi.bond_sizes()), [_bd(D, j) for j in range(nb)])
    for i in range(L):
        mk.same(f"phys_dim({i})", psi.phys_dim(i), dims[i])
    want = raw_vec(arrays, cyclic, layout)
    mk.eq("dense value == sum of products of the given arrays", vdense(psi), want)
    mk.eq("to_dense() is the column vector, site 0 most significant", _flat(psi.to_dense()), _flat(want))
    mk.same("to_dense() shape", tuple(psi.to_dense().shape), (int(np.prod(dims)), 1))
    # arrays are stored as 'lrp'; permute_arrays(x) stores them as x, value unchanged
    for target in ("lrp", "plr", "rpl") if layout != "prl" else _MPS_LAYOUTS:
        psi.permute_arrays(target)
        for i in range(L):
            lab = _labels(i, L, cyclic)
            src, dst = _present(layout, lab), _present(target, lab)
            mk.eq(f"permute_arrays({target}): array {i}", psi[i].data, np.transpose(arrays[i], _perm(src, dst)))
            names = {"p": psi.site_ind(i)}
            if "l" in lab:
                names["l"] = psi.bond((i - 1) % L, i)
            if "r" in lab:
                names["r"] = psi.bond(i, (i + 1) % L)
            mk.same(f"permute_arrays({target}): labels of site {i}", tuple(psi[i].inds), tuple(names[c] for c in dst))
        mk.eq(f"permute_arrays({target}): value unchanged", vdense(psi), want)
    # other label / tag conventions
    psi2 = qtn.MatrixProductState(arrays, shape=layout, site_ind_id="q{}", site_tag_id="S{}", tags="ALL")
    mk.same("custom site_ind_id / site_tag_id / tags", (set(psi2.outer_inds()), tuple(psi2.site_tags), all("ALL" in t.tags for t in psi2)),
            ({f"q{i}" for i in range(L)}, tuple(f"S{i}" for i in range(L)), True))
    mk.eq("custom labels: value", vdense(psi2, ind_id="q{}"), want)
    cp_ = qtn.MatrixProductState(psi)
    mk.eq("copy-construct: value", vdense(cp_), want)


@obligation(PROP, params=[{"L": L, "D": D, "dims": dims, "cyclic": cyc, "layout": lay,
                           "_tiers": _Q if (q and lay in ("lrud", "udlr", "ldur") and len(dims) * max(dims) <= 9 and dims[1] == 2) else _T}
                          for (L, D, dims, cyc, q) in _CONS_CASES for lay in _MPO_LAYOUTS
                          if int(np.prod(dims)) <= 24])
def mpo_constructor(mk, L, D, dims, cyclic, layout):
    """MatrixProductOperator(arrays, shape=layout): structure, dense value, permute_arrays"""
    mk.encodes(c1.MatrixProductOperator.__init__, c1.MatrixProductOperator.permute_arrays, ag.TensorNetworkGenOperator.to_dense,
               ag.TensorNetworkGenOperator.phys_dim)
    arrays = sym_arrays(mk, "W", L, D, dims, cyclic, "mixed", layout)
    A = qtn.MatrixProductOperator(arrays, shape=layout)
    mk.same("type", type(A) is qtn.MatrixProductOperator, True)
    mk.same("L", A.L, L)
    mk.same("cyclic flag", bool(A.cyclic), cyclic)
    mk.same("outer labels", set(A.outer_inds()), {f"k{i}" for i in range(L)} | {f"b{i}" for i in range(L)})
    nb = L if cyclic else L - 1
    mk.same("bond sizes", list(A.bond_sizes()), [_bd(D, j) for j in range(nb)])
    for i in range(L):
        mk.same(f"phys_dim({i})", (A.phys_dim(i), A.phys_dim(i, "lower")), (dims[i], dims[i]))
    want = raw_op(arrays, cyclic, layout)
    mk.eq("dense value == sum of products of the given arrays", odense(A), want)
    mk.eq("to_dense(): rows = upper labels, columns = lower labels", A.to_dense(), want)
    for target in ("lrud", "dulr"):
        A.permute_arrays(target)
        for i in range(L):
            lab = _labels(i, L, cyclic, op=True)
            src, dst = _present(layout, lab), _present(target, lab)
            mk.eq(f"permute_arrays({target}): array {i}", A[i].data, np.transpose(arrays[i], _perm(src, dst)))
        mk.eq(f"permute_arrays({target}): value unchanged", odense(A), want)
    A2 = qtn.MatrixProductOperator(arrays, shape=layout, upper_ind_id="x{}", lower_ind_id="y{}", site_tag_id="S{}")
    mk.eq("custom upper / lower labels: value", odense(A2, up="x{}", low="y{}"), want)
    mk.same("custom labels: ids", (A2.upper_ind(1), A2.lower_ind(1), A2.site_tag(1)), ("x1", "y1", "S1"))


def attempt(mk, label, fn):
    """run a documented call of the real code; an exception is recorded as a failed goal"""
    try:
        return fn()
    except P.Unsupported:
        raise
    except Exception as e:  # noqa
        mk.note(f"{label}: raised {type(e).__name__}: {e}"[:200])
        mk.same(f"{label} (call raised {type(e).__name__})", False, True)
        return None


@obligation(PROP, params=[{"sites": (1, 3), "Ltot": 5}, {"sites": (0, 2, 3), "Ltot": None}, {"sites": (0, 1, 2), "Ltot": 3, "_tiers": _T}])
def mps_site_subset(mk, sites, Ltot):
    """MatrixProductState(arrays, sites=..., L=...): a state defined on a subset of the sites of a longer chain"""
    mk.encodes(c1.MatrixProductState.__init__, ag.TensorNetworkGen.gen_sites_present, ag.TensorNetworkGenVector.to_dense)
    n = len(sites)
    arrays = sym_arrays(mk, "T", n, 2, (2,) * n, False, "cplx", "lrp")
    kw = {} if Ltot is None else {"L": Ltot}
    psi = qtn.MatrixProductState(arrays, sites=sites, **kw)
    want_L = Ltot if Ltot is not None else max(sites) + 1
    mk.same("site labels follow `sites`", set(psi.outer_inds()), {f"k{s}" for s in sites})
    mk.same("site tags follow `sites`", {t for ts in psi for t in ts.tags}, {f"I{s}" for s in sites})
    want = raw_vec(arrays)
    mk.eq("dense value over the labels of `sites`", vdense(psi, sites=sites), want)
    mk.same("L is the documented number of sites (L argument, else max(sites)+1)", psi.L, want_L)
    mk.same("sites present", tuple(psi.gen_sites_present()), tuple(sites))
    got = attempt(mk, "to_dense() over the sites present", lambda: psi.to_dense())
    if got is not None:
        mk.same("to_dense() size", got.size, want.size)
        if got.size == want.size:
            mk.eq("to_dense() over the sites present == dense value", _flat(got), _flat(want))


@obligation(PROP, params=[{"sites": (0, 2), "Ltot": 4}, {"sites": (1, 2), "Ltot": 4}, {"sites": (1, 3), "Ltot": None},
                          {"sites": (0, 3), "Ltot": 4, "_tiers": _T}, {"sites": (0, 1, 3), "Ltot": 5, "_tiers": _T}])
def mpo_site_subset(mk, sites, Ltot):
    """MatrixProductOperator(arrays, sites=..., L=...) and fill_empty_sites: the sub-operator embedded with identities"""
    mk.encodes(c1.MatrixProductOperator.__init__, c1.MatrixProductOperator.fill_empty_sites, tc.TensorNetwork.drape_bond_between,
               tc.new_bond, ag.TensorNetworkGenOperator.to_dense)
    n = len(sites)
    d = 2
    arrays = sym_arrays(mk, "W", n, 2, (d,) * n, False, "cplx", "lrud")
    kw = {} if Ltot is None else {"L": Ltot}
    A = qtn.MatrixProductOperator(arrays, sites=sites, **kw)
    want_L = Ltot if Ltot is not None else max(sites) + 1
    mk.same("L is the documented number of sites", A.L, want_L)
    mk.same("sites present", tuple(A.gen_sites_present()), tuple(sites))
    sub = raw_op(arrays)
    mk.eq("dense value over the labels of `sites`", odense(A, sites=sites), sub)
    mk.eq("to_dense() over the sites present", A.to_dense(), sub)

    def nn_only(F, present):
        ok = True
        for ix, tids in F.ind_map.items():
            if len(tids) == 2:
                sa, sb = sorted(present.index(int(next(iter(F.tensor_map[t].tags))[1:])) for t in tids)
                ok = ok and sb - sa == 1
        return ok

    for mode in ("full", "minimal"):
        F = A.fill_empty_sites(mode)
        present = list(range(want_L)) if mode == "full" else list(range(min(sites), max(sites) + 1))
        mk.same(f"fill_empty_sites({mode}): sites present", tuple(F.gen_sites_present()), tuple(present))
        mk.same(f"fill_empty_sites({mode}): one tensor per site", F.num_tensors, len(present))
        mk.same(f"fill_empty_sites({mode}): nearest neighbour bonds only", nn_only(F, present), True)
        mk.same(f"fill_empty_sites({mode}): chain is connected", len(F.subgraphs()), 1)
        emb = ref.embed(sub, [d] * len(present), [present.index(s) for s in sites])
        mk.eq(f"fill_empty_sites({mode}) == sub-operator (x) identities", odense(F, sites=present), emb)
        mk.same(f"fill_empty_sites({mode}): input untouched", A.num_tensors, n)
    # explicit list of sites to add
    missing = [s for s in range(want_L) if s not in sites]
    if missing:
        F = A.fill_empty_sites(missing[:1])
        present = sorted(list(sites) + missing[:1])
        emb = ref.embed(sub, [d] * len(present), [present.index(s) for s in sites])
        mk.eq("fill_empty_sites([site]) == sub-operator (x) identity", odense(F, sites=present), emb)


@obligation(PROP, params=[{"sites": (0, 2), "Ltot": 4}, {"sites": (1, 2), "Ltot": 3, "_tiers": _T}])
def fill_empty_sites_options(mk, sites, Ltot):
    """documented options of fill_empty_sites: phys_dim, fill_array, in-place variant"""
    mk.encodes(c1.MatrixProductOperator.fill_empty_sites)
    n = len(sites)
    d = 2
    arrays = sym_arrays(mk, "W", n, 2, (d,) * n, False, "cplx", "lrud")
    A = qtn.MatrixProductOperator(arrays, sites=sites, L=Ltot)
    sub = raw_op(arrays)
    present = list(range(Ltot))
    emb = ref.embed(sub, [d] * Ltot, list(sites))
    F = attempt(mk, "fill_empty_sites(phys_dim=2)", lambda: A.fill_empty_sites("full", phys_dim=d))
    if F is not None:
        mk.eq("fill_empty_sites(phys_dim=2) == sub-operator (x) identities", odense(F, sites=present), emb)
    G = mk.array("G", (d, d), "cplx")
    F = attempt(mk, "fill_empty_sites(fill_array=G)", lambda: A.fill_empty_sites("full", fill_array=G))
    if F is not None:
        # reference: sub-operator on `sites`, G on every other site
        full = emb
        for s in present:
            if s not in sites:
                full = ref.matmul(full, ref.embed(G, [d] * Ltot, [s]))
        mk.eq("fill_empty_sites(fill_array=G) == sub-operator (x) G on the empty sites", odense(F, sites=present), full)
    B = A.copy()
    r = B.fill_empty_sites_("full")
    mk.same("fill_empty_sites_ is in place", r is B and B.num_tensors == Ltot, True)
    mk.eq("fill_empty_sites_ value", odense(B, sites=present), emb)


@obligation(PROP, params=[{"sites": (0, 3), "Ltot": 4}, {"sites": (0, 2), "Ltot": 3, "_tiers": _T}])
def fill_empty_sites_unbonded(mk, sites, Ltot):
    """fill_empty_sites on an operator whose present sites share no bond ('adding size 1 bonds where necessary')"""
    mk.encodes(c1.MatrixProductOperator.fill_empty_sites, tc.new_bond)
    d = 2
    A = qtn.MatrixProductOperator.new(L=Ltot, cyclic=False, upper_ind_id="k{}", lower_ind_id="b{}", site_tag_id="I{}")
    ops = []
    for s in sites:
        X = mk.array(f"X{s}", (d, d), "cplx")
        ops.append(X)
        A |= qtn.Tensor(X, (f"k{s}", f"b{s}"), tags=f"I{s}")
    F = A.fill_empty_sites("full")
    present = list(range(Ltot))
    want = ref.embed(ref.kron(*ops), [d] * Ltot, list(sites))
    mk.eq("value == product operator (x) identities", odense(F, sites=present), want)
    mk.same("one tensor per site", F.num_tensors, Ltot)
    nn = all(abs(int(next(iter(F.tensor_map[a].tags))[1:]) - int(next(iter(F.tensor_map[b].tags))[1:])) == 1
             for ix, (a, b) in ((ix, tuple(t)) for ix, t in F.ind_map.items() if len(t) == 2))
    mk.same("nearest neighbour bonds only", nn, True)
    mk.same("chain is connected", len(F.subgraphs()), 1)
    r = attempt(mk, "bond_sizes() of the filled operator", lambda: F.bond_sizes())
    if r is not None:
        mk.same("all new bonds have size 1", list(r), [1] * (Ltot - 1))


# ---------------------------------------------------------------------- from_dense

@obligation(PROP, params=[{"dims": (2, 2), "kind": "cplx", "opts": "default"}, {"dims": (2, 2, 2), "kind": "real", "opts": "default"},
                          {"dims": (2, 2, 2), "kind": "real", "opts": "svd"}, {"dims": (2, 3), "kind": "real", "opts": "svd"},
                          {"dims": (2, 2, 2), "kind": "cplx", "opts": "default", "_tiers": _T},
                          {"dims": (2, 2, 2), "kind": "real", "opts": "left", "_tiers": _T},
                          {"dims": (3, 2, 2), "kind": "real", "opts": "svd", "_tiers": _T},
                          {"dims": (2, 2, 2, 2), "kind": "real", "opts": "default", "_tiers": _T},
                          {"dims": 2, "kind": "real", "opts": "qr"}],
            rounds=2, timeout_s=300)
def mps_from_dense(mk, dims, kind, opts):
    """MatrixProductState.from_dense(x, dims, cutoff=0): densifying gives x back; promised canonical form"""
    mk.encodes(c1.MatrixProductState.from_dense, tc.tensor_split, c1.set_default_compress_mode)
    dd = (2, 2, 2) if dims == 2 else dims
    L = len(dd)
    x = mk.array("x", (int(np.prod(dd)),), kind)
    kw = {"default": {"cutoff": 0.0}, "svd": {"cutoff": 0.0, "method": "svd"}, "qr": {"method": "qr"},
          "left": {"cutoff": 0.0, "method": "svd", "absorb": "left"}}[opts]
    psi = qtn.MatrixProductState.from_dense(x, dims=dims, **kw)
    mk.same("type / L", (type(psi) is qtn.MatrixProductState, psi.L), (True, L))
    mk.same("site labels", set(psi.outer_inds()), {f"k{i}" for i in range(L)})
    mk.same("one tensor per site", [len(psi.select_tensors(f"I{i}")) for i in range(L)], [1] * L)
    mk.same("phys dims", [psi.phys_dim(i) for i in range(L)], list(dd))
    mk.same("bonds never exceed the exact Schmidt-rank bound", all(
        psi.bond_size(i, i + 1) <= min(int(np.prod(dd[:i + 1])), int(np.prod(dd[i + 1:]))) for i in range(L - 1)), True)
    mk.eq("from_dense(x).to_dense() == x", _flat(psi.to_dense()), x)
    mk.eq("dense value (reference contraction) == x", _flat(vdense(psi)), x)
    if opts != "left":
        # absorb='right' (the default): every site but the last is a left isometry
        canonical_goals(mk, "from_dense", psi, "left")
    psi2 = qtn.MatrixProductState.from_dense(x, dims=dims, site_ind_id="q{}", site_tag_id="S{}", tags="X", **kw)
    mk.same("custom ids", (set(psi2.outer_inds()), all("X" in t.tags for t in psi2)), ({f"q{i}" for i in range(L)}, True))


@obligation(PROP, params=[{"dims": (2, 2), "sites": None, "Ltot": None, "kind": "real", "opts": "default"},
                          {"dims": (2, 2), "sites": (2, 0), "Ltot": 4, "kind": "real", "opts": "default"},
                          {"dims": (2, 1), "sites": (1, 0), "Ltot": 3, "kind": "real", "opts": "svd"},
                          {"dims": (2, 2), "sites": (0, 1), "Ltot": None, "kind": "cplx", "opts": "default", "_tiers": _T},
                          {"dims": (2, 3), "sites": (1, 2), "Ltot": None, "kind": "real", "opts": "default", "_tiers": _T},
                          {"dims": 2, "sites": None, "Ltot": None, "kind": "real", "opts": "default", "_tiers": _T}],
            rounds=2, timeout_s=400)
def mpo_from_dense(mk, dims, sites, Ltot, kind, opts):
    """MatrixProductOperator.from_dense(A, dims, sites, L, cutoff=0): densifying gives A back (factor k of A sits on sites[k])"""
    mk.encodes(c1.MatrixProductOperator.from_dense, tc.tensor_split)
    dd = (2, 2) if dims == 2 else dims
    n = len(dd)
    N = int(np.prod(dd))
    A = mk.array("A", (N, N), kind)
    kw = {"default": {"cutoff": 0.0}, "svd": {"cutoff": 0.0, "method": "svd"}}[opts]
    if sites is not None:
        kw["sites"] = sites
    if Ltot is not None:
        kw["L"] = Ltot
    M = qtn.MatrixProductOperator.from_dense(A, dims=dims, **kw)
    ss = tuple(range(n)) if sites is None else tuple(sites)
    mk.same("type / L", (type(M) is qtn.MatrixProductOperator, M.L), (True, Ltot if Ltot is not None else max(ss) + 1))
    mk.same("sites present", tuple(M.gen_sites_present()), tuple(sorted(ss)))
    mk.same("outer labels", set(M.outer_inds()), {f"k{s}" for s in ss} | {f"b{s}" for s in ss})
    # value over the labels in the order of `sites` is A itself
    mk.eq("dense value over (k_sites, b_sites) == A", odense(M, sites=ss), A)
    if tuple(sorted(ss)) == ss:
        mk.eq("from_dense(A).to_dense() == A", M.to_dense(), A)
    else:
        # sorted site order: A with its tensor factors permuted
        perm = [ss.index(s) for s in sorted(ss)]
        T = A.reshape(tuple(dd) + tuple(dd))
        T = np.transpose(T, perm + [n + p for p in perm])
        mk.eq("to_dense() == A with its factors sorted by site", M.to_dense(), T.reshape(N, N))


# ---------------------------------------------------------------------- from_fill_fn

def _filler(mk, name, kind, log):
    def fill_fn(shape):
        a = mk.array(f"{name}{len(log)}", tuple(int(s) for s in shape), kind)
        log.append((tuple(int(s) for s in shape), a))
        return a
    return fill_fn


_FILL = [
    {"L": 3, "D": 2, "phys": 2, "cyclic": False, "layout": "lrp", "sites": None},
    {"L": 3, "D": 2, "phys": (2, 3), "cyclic": True, "layout": "plr", "sites": None},
    {"L": 4, "D": 2, "phys": 2, "cyclic": False, "layout": "lrp", "sites": (0, 1)},
    {"L": 4, "D": 2, "phys": 2, "cyclic": False, "layout": "rpl", "sites": (1, 3), "_tiers": _T},
    {"L": 2, "D": 1, "phys": 3, "cyclic": False, "layout": "prl", "sites": None, "_tiers": _T},
    {"L": 4, "D": 2, "phys": (2, 3, 2, 2), "cyclic": False, "layout": "lpr", "sites": None, "_tiers": _T},
]


@obligation(PROP, params=_FILL)
def mps_from_fill_fn(mk, L, D, phys, cyclic, layout, sites):
    """MatrixProductState.from_fill_fn: requested shapes, structure and dense value"""
    mk.encodes(c1.MatrixProductState.from_fill_fn)
    log = []
    kw = {} if sites is None else {"sites": sites}
    psi = qtn.MatrixProductState.from_fill_fn(_filler(mk, "F", "cplx", log), L, D, phys_dim=phys, cyclic=cyclic, shape=layout, **kw)
    ss = tuple(range(L)) if sites is None else tuple(sites)
    n = len(ss)
    dims = [phys if isinstance(phys, int) else phys[k % len(phys)] for k in range(n)]
    mk.same("one request per site present", len(log), n)
    mk.same("requested shapes follow `shape`, bond_dim and the cycled phys_dim",
            [s for s, _ in log], [_site_shape(i, n, D, dims, cyclic, layout) for i in range(n)])
    mk.same("L / cyclic", (psi.L, bool(psi.cyclic)), (L, cyclic))
    mk.same("sites present", tuple(psi.gen_sites_present()), ss)
    mk.same("outer labels are the site labels", set(psi.outer_inds()), {f"k{s}" for s in ss})
    if [s for s, _ in log] == [_site_shape(i, n, D, dims, cyclic, layout) for i in range(n)]:
        want = raw_vec([a for _, a in log], cyclic, layout)
        mk.eq("dense value == sum of products of the filled arrays", vdense(psi, sites=ss), want)
        mk.eq("to_dense()", _flat(psi.to_dense()), _flat(want))
    mk.raises("invalid layout string is rejected", lambda: qtn.MatrixProductState.from_fill_fn(_filler(mk, "Z", "real", []), L, D, shape="lrx"),
              (ValueError,))


_FILLO = [
    {"L": 3, "D": 2, "phys": 2, "cyclic": False, "layout": "lrud", "sites": None},
    {"L": 3, "D": 2, "phys": (2, 3), "cyclic": True, "layout": "udlr", "sites": None, "_tiers": _T},
    {"L": 3, "D": 1, "phys": 2, "cyclic": True, "layout": "uldr", "sites": None},
    {"L": 4, "D": 2, "phys": 2, "cyclic": False, "layout": "lrud", "sites": (0, 1)},
    {"L": 4, "D": 2, "phys": 2, "cyclic": False, "layout": "lrud", "sites": (2, 3), "_tiers": _T},
    {"L": 4, "D": 2, "phys": 2, "cyclic": False, "layout": "dulr", "sites": (0, 2), "_tiers": _T},
    {"L": 2, "D": 2, "phys": 3, "cyclic": False, "layout": "rlud", "sites": None, "_tiers": _T},
]


# (two names for one harness: the site-subset cases form their own obligation family)
@obligation(PROP, name="mpo_fill_fn_site_subset", params=[p for p in _FILLO if p["sites"] is not None])
@obligation(PROP, params=[p for p in _FILLO if p["sites"] is None])
def mpo_from_fill_fn(mk, L, D, phys, cyclic, layout, sites):
    """MatrixProductOperator.from_fill_fn: requested shapes, structure and dense value"""
    mk.encodes(c1.MatrixProductOperator.from_fill_fn)
    log = []
    kw = {} if sites is None else {"sites": sites}
    A = qtn.MatrixProductOperator.from_fill_fn(_filler(mk, "F", "cplx", log), L, D, phys_dim=phys, cyclic=cyclic, shape=layout, **kw)
    ss = tuple(range(L)) if sites is None else tuple(sites)
    n = len(ss)
    dims = [phys if isinstance(phys, int) else phys[k % len(phys)] for k in range(n)]
    shapes_want = [_site_shape(i, n, D, dims, cyclic, layout) for i in range(n)]
    mk.same("one request per site present", len(log), n)
    mk.same("requested shapes follow `shape`, bond_dim and the cycled phys_dim", [s for s, _ in log], shapes_want)
    mk.same("L / cyclic", (A.L, bool(A.cyclic)), (L, cyclic))
    mk.same("sites present", tuple(A.gen_sites_present()), ss)
    mk.same("outer labels are the upper / lower site labels", set(A.outer_inds()), {f"k{s}" for s in ss} | {f"b{s}" for s in ss})
    if [s for s, _ in log] == shapes_want:
        want = raw_op([a for _, a in log], cyclic, layout)
        mk.eq("dense value == sum of products of the filled arrays", odense(A, sites=ss), want)
        mk.eq("to_dense()", A.to_dense(), want)
    mk.raises("invalid layout string is rejected", lambda: qtn.MatrixProductOperator.from_fill_fn(_filler(mk, "Z", "real", []), L, D, shape="lrpd"),
              (ValueError,))


# ====================================================================================
# 2. arithmetic
# ====================================================================================

def direct_sum_ref(X, Y, sum_axes):
    """documented direct product of two arrays: block diagonal in every axis not in sum_axes,
    plain sum along the axes in sum_axes"""
    shp = tuple(x if k in sum_axes else x + y for k, (x, y) in enumerate(zip(X.shape, Y.shape)))
    obj = X.dtype == object or Y.dtype == object
    Z = np.empty(shp, dtype=object if obj else np.result_type(X.dtype, Y.dtype))
    for idx in np.ndindex(*shp):
        inX = all(idx[k] < X.shape[k] for k in range(len(shp)))
        inY = all(k in sum_axes or idx[k] >= X.shape[k] for k in range(len(shp)))
        v = P.ZERO if obj else 0
        if inX:
            v = v + X[idx]
        if inY:
            v = v + Y[tuple(i if k in sum_axes else i - X.shape[k] for k, i in enumerate(idx))]
        Z[idx] = v
    return Z


_ARITH = [
    {"L": 3, "D": 2, "dims": (2, 2, 2), "cyclic": False},
    {"L": 3, "D": 2, "dims": (2, 2, 2), "cyclic": True},
    {"L": 3, "D": (1, 2, 1), "dims": (2, 3, 2), "cyclic": False},
    {"L": 2, "D": 2, "dims": (2, 2), "cyclic": False, "_tiers": _T},
    {"L": 4, "D": 2, "dims": (2, 2, 2, 2), "cyclic": False, "_tiers": _T},
    {"L": 4, "D": (2, 1, 2, 1), "dims": (2, 2, 2, 2), "cyclic": True, "_tiers": _T},
    {"L": 3, "D": 1, "dims": (3, 3, 3), "cyclic": True, "_tiers": _T},
]


def _scalars(mk, n):
    z = mk.scalar("z", "cplx")
    q = mk.scalar("q", "pos")
    return z, q, q ** n


@obligation(PROP, params=_ARITH)
def mps_arithmetic(mk, L, D, dims, cyclic):
    """sums, differences, negation and scalar multiples of matrix product states"""
    mk.encodes(c1.MatrixProductState.add_MPS, ag.tensor_network_ag_sum, ag.create_lazy_edge_map, tc.tensor_direct_product,
               tc.array_direct_product, tc.tensor_network_sum, tc.TensorNetwork.multiply, tc.TensorNetwork.multiply_each,
               tc.TensorNetwork.negate, ag.TensorNetworkGen.__add__, ag.TensorNetworkGen.__sub__)
    a, A = sym_mps(mk, "A", L, D, dims, cyclic, "cplx")
    b, B = sym_mps(mk, "B", L, D, dims, cyclic, "mixed")
    da, db = raw_vec(A, cyclic), raw_vec(B, cyclic)
    nb = L if cyclic else L - 1
    for label, fn, want in [("a + b", lambda: a + b, da + db), ("a - b", lambda: a - b, da - db),
                            ("a.add_MPS(b)", lambda: a.add_MPS(b), da + db),
                            ("tensor_network_ag_sum(a, b, negate=True)", lambda: ag.tensor_network_ag_sum(a, b, negate=True), da - db)]:
        s = fn()
        mk.same(f"{label}: is an MPS on the same sites", (type(s) is qtn.MatrixProductState, s.L, set(s.outer_inds())),
                (True, L, {f"k{i}" for i in range(L)}))
        mk.same(f"{label}: bond dimensions add", list(s.bond_sizes()), [2 * _bd(D, j) for j in range(nb)])
        mk.eq(f"{label}: dense value", vdense(s), want)
    mk.eq("operands untouched by a + b", vdense(a), da)
    c = a.copy()
    c += b
    mk.eq("a += b", vdense(c), da + db)
    c -= b
    c -= b
    mk.eq("(a + b) -= b twice", vdense(c), da - db)
    c = a.copy()
    r = c.add_MPS_(b)
    mk.same("add_MPS_ is in place", r is c, True)
    mk.eq("add_MPS_ value", vdense(c), da + db)
    mk.eq("(a + b) + a (three terms)", vdense((a + b) + a), da + db + da)
    # tensor_network_sum: same labels on both networks
    b2 = a.copy()
    for i in range(L):
        b2[i].modify(data=B[i])
    mk.eq("tensor_network_sum(a, b')", vdense(tc.tensor_network_sum(a, b2)), da + db)
    # the block structure of one summed site
    i = 1
    s = a + b
    mk.same("summed site keeps the stored axis order (.., physical)", s[i].inds[-1], "k1")
    mk.eq("site tensor of a + b is the direct sum over the bonds", s[i].data, direct_sum_ref(A[i], B[i], (A[i].ndim - 1,)))
    mk.raises("tensor_direct_product rejects unequal summed sizes",
              lambda: tc.array_direct_product(np.zeros((2, 2)), np.zeros((2, 3)), (1,)), (ValueError,))
    # scalars
    z, q, qn = _scalars(mk, L)
    mk.eq("-a", vdense(-a), -da)
    mk.eq("a.negate()", vdense(a.negate()), -da)
    mk.eq("a * z (complex scalar, spread_over=1)", vdense(a.multiply(z, spread_over=1)), da * z)
    mk.eq("a * q^L (positive scalar spread over all sites)", vdense(a * qn), da * qn)
    mk.eq("q^L * a", vdense(qn * a), da * qn)
    mk.eq("a.multiply(-q^L, spread_over='all')", vdense(a.multiply(-qn, spread_over="all")), -da * qn)
    mk.eq("a.multiply(q^2, spread_over=2)", vdense(a.multiply(q ** 2, spread_over=2)), da * q ** 2)
    mk.eq("a.multiply_each(z) == z^L a", vdense(a.multiply_each(z)), da * z ** L)
    c = a.copy()
    c *= qn
    mk.eq("a *= q^L", vdense(c), da * qn)
    mk.eq("a / q^L", vdense(a / qn), da / qn)
    c /= qn
    mk.eq("(a *= x) /= x", vdense(c), da)
    mk.eq("linear combination z a - q^L b", vdense(a.multiply(z, spread_over=1) - b * qn), da * z - db * qn)


@obligation(PROP, params=[p for p in _ARITH if int(np.prod(p["dims"])) <= 16])
def mpo_arithmetic(mk, L, D, dims, cyclic):
    """sums, differences and scalar multiples of matrix product operators"""
    mk.encodes(c1.MatrixProductOperator.add_MPO, ag.tensor_network_ag_sum, tc.tensor_direct_product, tc.TensorNetwork.multiply)
    a, A = sym_mpo(mk, "A", L, D, dims, cyclic, "cplx")
    b, B = sym_mpo(mk, "B", L, D, dims, cyclic, "mixed")
    da, db = raw_op(A, cyclic), raw_op(B, cyclic)
    nb = L if cyclic else L - 1
    outer = {f"k{i}" for i in range(L)} | {f"b{i}" for i in range(L)}
    for label, fn, want in [("A + B", lambda: a + b, da + db), ("A - B", lambda: a - b, da - db),
                            ("A.add_MPO(B)", lambda: a.add_MPO(b), da + db)]:
        s = fn()
        mk.same(f"{label}: is an MPO on the same sites", (type(s) is qtn.MatrixProductOperator, s.L, set(s.outer_inds())), (True, L, outer))
        mk.same(f"{label}: bond dimensions add", list(s.bond_sizes()), [2 * _bd(D, j) for j in range(nb)])
        mk.eq(f"{label}: dense value", odense(s), want)
        mk.eq(f"{label}: to_dense()", s.to_dense(), want)
    c = a.copy()
    r = c.add_MPO_(b)
    mk.same("add_MPO_ is in place", r is c, True)
    mk.eq("add_MPO_ value", odense(c), da + db)
    c -= b
    mk.eq("(A + B) -= B", odense(c), da)
    z, q, qn = _scalars(mk, L)
    mk.eq("-A", odense(-a), -da)
    mk.eq("A * z (spread_over=1)", odense(a.multiply(z, spread_over=1)), da * z)
    mk.eq("A * q^L", odense(a * qn), da * qn)
    mk.eq("A / q^L", odense(a / qn), da / qn)
    mk.eq("z A + q^L B", odense(a.multiply(z, spread_over=1) + qn * b), da * z + db * qn)


@obligation(PROP, params=[{"L": 3, "cyclic": False}, {"L": 3, "cyclic": True, "_tiers": _T}], rounds=2)
def scalar_division(mk, L, cyclic):
    """division by a complex / real scalar (defined inverse symbols: certificate modulo their defining relations)"""
    mk.encodes(tc.TensorNetwork.__truediv__, tc.TensorNetwork.__itruediv__, tc.TensorNetwork.multiply)
    a, A = sym_mps(mk, "A", L, 2, None, cyclic, "cplx")
    da = raw_vec(A, cyclic)
    z = mk.scalar("z", "cplx")
    r = a / z
    mk.eq("(a / z) * z == a", vdense(r) * z, da)
    c = a.copy()
    c /= z
    mk.eq("(a /= z) * z == a", vdense(c) * z, da)
    mk.eq("a * z (complex scalar spread over the sites: |z|^(1/L) phases)", vdense(a * z), da * z)


# ---------------------------------------------------------------------- operator application

_APPLY = [
    {"L": 3, "D": 2, "dims": (2, 2, 2), "cyclic": False},
    {"L": 3, "D": 2, "dims": (2, 2, 2), "cyclic": True},
    {"L": 3, "D": (2, 1, 2), "dims": (2, 3, 2), "cyclic": False, "_tiers": _T},
    {"L": 2, "D": 2, "dims": (2, 2), "cyclic": False, "_tiers": _T},
    {"L": 4, "D": 2, "dims": (2, 2, 2, 2), "cyclic": False, "_tiers": _T},
]


@obligation(PROP, params=_APPLY)
def apply_operator_to_state(mk, L, D, dims, cyclic):
    """MPO applied to an MPS: A.apply(x), lazy / contracted, transposed application"""
    mk.encodes(ag.TensorNetworkGenOperator.apply, ag.tensor_network_apply_op_vec, ag.TensorNetworkGenVector.gate_with_op_lazy,
               tc.TensorNetwork.fuse_multibonds, cp.mps_gate_with_mpo_lazy)
    A, Ar = sym_mpo(mk, "A", L, D, dims, cyclic, "cplx")
    x, Xr = sym_mps(mk, "X", L, D, dims, cyclic, "mixed")
    MA, vx = raw_op(Ar, cyclic), _flat(raw_vec(Xr, cyclic))
    want = ref.matmul(MA, vx)
    wantT = ref.matmul(MA.T, vx)
    nb = L if cyclic else L - 1
    sites = {f"k{i}" for i in range(L)}
    y = A.apply(x)
    mk.same("A.apply(x): MPS with the site labels of x", (type(y) is qtn.MatrixProductState, set(y.outer_inds()), y.num_tensors), (True, sites, L))
    mk.same("A.apply(x): bond dimensions multiply", list(y.bond_sizes()), [_bd(D, j) ** 2 for j in range(nb)])
    mk.eq("A.apply(x) == A @ x", _flat(vdense(y)), want)
    mk.eq("A.apply(x).to_dense()", _flat(y.to_dense()), want)
    mk.eq("state untouched", _flat(vdense(x)), vx)
    mk.eq("operator untouched", odense(A), MA)
    y = A.apply(x, contract=False)
    mk.same("A.apply(x, contract=False): two tensors per site, site labels of x", (y.num_tensors, set(y.outer_inds())), (2 * L, sites))
    mk.eq("A.apply(x, contract=False) == A @ x", _flat(vdense(y, L)), want)
    y = A.dot(x)
    mk.eq("A.dot(x) == A @ x", _flat(vdense(y)), want)
    y = ag.tensor_network_apply_op_vec(A, x, which_A="upper", contract=True)
    mk.eq("apply_op_vec(which_A='upper') == A^T @ x", _flat(vdense(y)), wantT)
    y = ag.tensor_network_apply_op_vec(A, x, contract=True, fuse_multibonds=False)
    mk.eq("apply_op_vec(fuse_multibonds=False) == A @ x", _flat(vdense(y, L)), want)
    y = x.gate_with_op_lazy(A)
    mk.same("x.gate_with_op_lazy(A): site labels of x", set(y.outer_inds()), sites)
    mk.eq("x.gate_with_op_lazy(A) == A @ x", _flat(vdense(y, L)), want)
    y = x.gate_with_op_lazy(A, transpose=True)
    mk.eq("x.gate_with_op_lazy(A, transpose=True) == A^T @ x", _flat(vdense(y, L)), wantT)
    y = cp.mps_gate_with_mpo_lazy(x, A)
    mk.eq("mps_gate_with_mpo_lazy == A @ x", _flat(vdense(y, L)), want)
    # other label conventions on the operands
    A2 = qtn.MatrixProductOperator(Ar, upper_ind_id="up{}", lower_ind_id="lo{}")
    x2 = qtn.MatrixProductState(Xr, site_ind_id="s{}")
    y = A2.apply(x2)
    mk.same("result carries the site labels of the state", set(y.outer_inds()), {f"s{i}" for i in range(L)})
    mk.eq("custom labels: A.apply(x) == A @ x", _flat(vdense(y, ind_id="s{}")), want)
    # in place on the operator
    Ac = A.copy()
    y = Ac.apply(x, inplace=True)
    mk.eq("A.apply(x, inplace=True) == A @ x", _flat(vdense(y)), want)
    mk.eq("x untouched by inplace application", _flat(vdense(x)), vx)


@obligation(PROP, params=[{"L": 3, "sites": (0, 2)}, {"L": 4, "sites": (0, 1, 3), "_tiers": _T}, {"L": 4, "sites": (1, 2), "_tiers": _T}])
def apply_suboperator_to_state(mk, L, sites):
    """an MPO defined on a subset of the sites acts as sub-operator (x) identity"""
    mk.encodes(ag.tensor_network_apply_op_vec, ag.TensorNetworkGenOperator.apply, c1.MatrixProductOperator.__init__)
    d = 2
    n = len(sites)
    Ar = sym_arrays(mk, "A", n, 2, (d,) * n, False, "cplx", "lrud")
    A = qtn.MatrixProductOperator(Ar, sites=sites, L=L)
    x, Xr = sym_mps(mk, "X", L, 2, None, False, "mixed")
    vx = _flat(raw_vec(Xr))
    want = ref.matmul(ref.embed(raw_op(Ar), [d] * L, list(sites)), vx)
    y = A.apply(x)
    mk.same("site labels of x", set(y.outer_inds()), {f"k{i}" for i in range(L)})
    mk.eq("A_sub.apply(x) == (A_sub (x) 1) @ x", _flat(vdense(y, L)), want)
    y = A.apply(x, contract=False)
    mk.eq("A_sub.apply(x, contract=False)", _flat(vdense(y, L)), want)
    y = A.fill_empty_sites("full").apply(x)
    mk.same("filled operator: MPS", type(y) is qtn.MatrixProductState, True)
    mk.eq("A_sub.fill_empty_sites().apply(x)", _flat(vdense(y)), want)


@obligation(PROP, params=[p for p in _APPLY if int(np.prod(p["dims"])) <= 12])
def apply_operator_to_operator(mk, L, D, dims, cyclic):
    """MPO applied to an MPO for every (which_A, which_B) combination"""
    mk.encodes(ag.TensorNetworkGenOperator.apply, ag.tensor_network_apply_op_op, tc.TensorNetwork.fuse_multibonds)
    A, Ar = sym_mpo(mk, "A", L, D, dims, cyclic, "cplx")
    B, Br = sym_mpo(mk, "B", L, D, dims, cyclic, "mixed")
    MA, MB = raw_op(Ar, cyclic), raw_op(Br, cyclic)
    nb = L if cyclic else L - 1
    outer = {f"k{i}" for i in range(L)} | {f"b{i}" for i in range(L)}
    C = A.apply(B)
    mk.same("A.apply(B): MPO with the labels of B", (type(C) is qtn.MatrixProductOperator, set(C.outer_inds()), C.num_tensors), (True, outer, L))
    mk.same("A.apply(B): bond dimensions multiply", list(C.bond_sizes()), [_bd(D, j) ** 2 for j in range(nb)])
    mk.eq("A.apply(B) == A @ B", odense(C), ref.matmul(MA, MB))
    mk.eq("A.apply(B).to_dense()", C.to_dense(), ref.matmul(MA, MB))
    C = A.apply(B, contract=False)
    mk.same("contract=False: two tensors per site", (C.num_tensors, set(C.outer_inds())), (2 * L, outer))
    mk.eq("A.apply(B, contract=False) == A @ B", odense(C, L), ref.matmul(MA, MB))
    # the index pictures of the four combinations (contracted index of A with contracted index of B;
    # the free index of A takes the place of the contracted index of B)
    combos = {("lower", "upper"): ref.matmul(MA, MB), ("lower", "lower"): ref.matmul(MB, MA.T),
              ("upper", "upper"): ref.matmul(MA.T, MB), ("upper", "lower"): ref.matmul(MB, MA)}
    for (wa, wb), want in combos.items():
        C = ag.tensor_network_apply_op_op(A, B, which_A=wa, which_B=wb, contract=True)
        mk.same(f"apply_op_op({wa},{wb}): labels of B", set(C.outer_inds()), outer)
        mk.eq(f"apply_op_op(which_A={wa}, which_B={wb})", odense(C), want)
    mk.raises("invalid which_A / which_B combination rejected", lambda: ag.tensor_network_apply_op_op(A, B, which_A="x", which_B="upper"), (ValueError,))
    B2 = qtn.MatrixProductOperator(Br, upper_ind_id="up{}", lower_ind_id="lo{}")
    C = A.apply(B2)
    mk.eq("custom labels on B: A.apply(B) == A @ B", odense(C, up="up{}", low="lo{}"), ref.matmul(MA, MB))
    mk.eq("operands untouched", odense(A), MA)
    mk.raises("apply rejects a non-network operand", lambda: A.apply(3.0), (TypeError,))


# ---------------------------------------------------------------------- overlaps, expectation values, norms

_EXPEC = [
    {"L": 3, "D": 2, "dims": (2, 2, 2), "cyclic": False},
    {"L": 3, "D": 2, "dims": (2, 2, 2), "cyclic": True},
    {"L": 3, "D": (1, 2, 2), "dims": (2, 3, 2), "cyclic": False, "_tiers": _T},
    {"L": 2, "D": 2, "dims": (2, 2), "cyclic": False, "_tiers": _T},
    {"L": 4, "D": (2, 1, 2), "dims": (2, 2, 2, 2), "cyclic": False, "_tiers": _T},
    {"L": 4, "D": (2, 1, 2, 1), "dims": (2, 2, 2, 2), "cyclic": True, "_tiers": _T},
]


@obligation(PROP, params=_EXPEC)
def overlap_expectation(mk, L, D, dims, cyclic):
    """overlaps, norms, <bra|op|ket> through align / expec_TN_1D, against dense sums"""
    mk.encodes(c1.expec_TN_1D, ag.tensor_network_align, ag.TensorNetworkGen.align, tc.TensorNetwork.overlap, tc.TensorNetwork.norm,
               tc.TensorNetwork.make_overlap, tc.TensorNetwork.conj, c1.TensorNetwork1D.contract_structured, tc.TensorNetwork.__matmul__)
    a, Ar = sym_mps(mk, "A", L, D, dims, cyclic, "cplx")
    b, Br = sym_mps(mk, "B", L, D, dims, cyclic, "mixed")
    O, Or = sym_mpo(mk, "O", L, D, dims, cyclic, "cplx")
    va, vb, MO = _flat(raw_vec(Ar, cyclic)), _flat(raw_vec(Br, cyclic)), raw_op(Or, cyclic)
    mk.eq("a.H dense == conj(a)", _flat(vdense(a.H)), _conj(va))
    mk.eq("a.H @ b == <a|b>", a.H @ b, inner(va, vb))
    mk.eq("a @ b (no conjugation)", a @ b, _sum(x * y for x, y in zip(va, vb)))
    mk.eq("b.overlap(a) == <a|b> (the argument is conjugated)", b.overlap(a), inner(va, vb))
    mk.eq("expec_TN_1D(a.H, b) == <a|b>", c1.expec_TN_1D(a.H, b), inner(va, vb))
    mk.eq("norm(squared=True) == <a|a>", a.norm(squared=True), inner(va, va))
    n = a.norm()
    mk.eq("norm()**2 == <a|a>", n * n, inner(va, va))
    want = inner(va, ref.matmul(MO, vb))
    mk.eq("expec_TN_1D(a.H, O, b) == <a|O|b>", c1.expec_TN_1D(a.H, O, b), want)
    mk.eq("expec_TN_1D(..., compress=False)", c1.expec_TN_1D(a.H, O, b, compress=False), want)
    mk.eq("a.H @ O.apply(b) == <a|O|b>", a.H @ O.apply(b), want)
    # align: stack (bra, op, ket) such that consecutive layers share their physical labels
    al = ag.tensor_network_align(a.H, O, b)
    mk.same("align: copies, inputs keep their labels", (set(a.outer_inds()), set(O.upper_inds)), ({f"k{i}" for i in range(L)}, {f"k{i}" for i in range(L)}))
    mk.same("align: bra labels == operator upper labels", al[0].site_ind_id, al[1].upper_ind_id)
    mk.same("align: operator lower labels == ket labels", al[1].lower_ind_id, al[2].site_ind_id)
    tn = al[0] | al[1] | al[2]
    mk.same("align: stacked network is closed", tuple(tn.outer_inds()), ())
    mk.eq("aligned stack contracts to <a|O|b>", ref.tn_dense(tn, ()), want)
    al = O.align(b)
    mk.same("O.align(b): lower labels of O are the labels of b", al[0].lower_ind_id, al[1].site_ind_id)
    if int(np.prod(dims)) <= 8:
        O2, O2r = sym_mpo(mk, "Q", L, 1, dims, cyclic, "mixed")
        want2 = inner(va, ref.matmul(MO, ref.matmul(raw_op(O2r, cyclic), vb)))
        mk.eq("expec_TN_1D(a.H, O, Q, b) == <a|O Q|b>", c1.expec_TN_1D(a.H, O, O2, b), want2)
        al = ag.tensor_network_align(O, O2, ind_ids=["_x{}_"], trace=True)
        mk.eq("align(O, Q, ind_ids, trace=True) contracts to tr(O Q)", ref.tn_dense(al[0] | al[1], ()), ref.trace(ref.matmul(MO, raw_op(O2r, cyclic))))
    mk.raises("align rejects a vector in the middle of the stack", lambda: ag.tensor_network_align(a, b, a), (ValueError,))


@obligation(PROP, params=[{"L": 3, "cyclic": False, "kind": "cplx"}, {"L": 3, "cyclic": True, "kind": "real"},
                          {"L": 4, "cyclic": False, "kind": "real", "_tiers": _T}, {"L": 3, "cyclic": True, "kind": "cplx", "_tiers": _T}],
            rounds=2, timeout_s=300)
def normalize_state(mk, L, cyclic, kind):
    """normalize(): returns the old <psi|psi>, divides one site by its square root"""
    mk.encodes(c1.MatrixProductState.normalize, c1.expec_TN_1D)
    a, Ar = sym_mps(mk, "A", L, 2, None, cyclic, kind)
    va = _flat(raw_vec(Ar, cyclic))
    n2 = inner(va, va)
    for insert in (None, 0, 1):
        c = a.copy()
        kw = {} if insert is None else {"insert": insert}
        r = c.normalize(**kw)
        mk.eq(f"normalize(insert={insert}) returns the old <psi|psi>", r, n2)
        vc = _flat(vdense(c))
        root = n2 ** 0.5
        mk.eq(f"normalize(insert={insert}): new state * sqrt(<psi|psi>) == old state", vc * root, va)
        mk.eq(f"normalize(insert={insert}): new <psi|psi> == 1", inner(vc, vc), 1)
        mk.eq(f"normalize(insert={insert}): new norm via the library == 1", c.H @ c, 1)
        site = L - 1 if insert is None else insert
        for k in range(L):
            if k != site:
                mk.eq(f"normalize(insert={insert}): site {k} untouched", c[k].data, a[k].data)
    c = a.copy()
    bra = a.H
    c.normalize(bra=bra)
    mk.eq("normalize(bra=a.H): bra rescaled with the same factor", _flat(vdense(bra)) * n2 ** 0.5, _conj(va))


# ---------------------------------------------------------------------- traces and transposes of operators

@obligation(PROP, params=[p for p in _EXPEC if int(np.prod(p["dims"])) <= 12])
def operator_trace_transpose(mk, L, D, dims, cyclic):
    """trace, partial transpose, conjugate of an MPO against explicit index manipulation"""
    mk.encodes(ag.TensorNetworkGenOperator.trace, ag.TensorNetworkGenOperator.partial_transpose, tc.TensorNetwork.trace,
               tc.TensorNetwork.conj, ag.TensorNetworkGenOperator.to_dense)
    O, Or = sym_mpo(mk, "O", L, D, dims, cyclic, "cplx")
    M = raw_op(Or, cyclic)
    T = M.reshape(tuple(dims) + tuple(dims))
    mk.eq("trace() == dense trace", O.trace(), ref.trace(M))
    mk.eq("trace(upper labels, lower labels)", O.trace(O.upper_inds, O.lower_inds), ref.trace(M))
    mk.eq("O.H == entry-wise conjugate (no transposition)", odense(O.H), _conj(M))
    for sysa in ([0], [1], [0, L - 1], list(range(L)), 1):
        sa = [sysa] if isinstance(sysa, int) else sysa
        perm = list(range(2 * L))
        for s in sa:
            perm[s], perm[L + s] = perm[L + s], perm[s]
        want = np.transpose(T, perm).reshape(M.shape)
        R = O.partial_transpose(sysa)
        mk.same(f"partial_transpose({sysa}): MPO with the same labels", (type(R) is qtn.MatrixProductOperator, set(R.outer_inds())),
                (True, set(O.outer_inds())))
        mk.eq(f"partial_transpose({sysa}) == explicit index swap", odense(R), want)
        mk.eq(f"partial_transpose({sysa}).to_dense()", R.to_dense(), want)
    mk.eq("partial_transpose(all sites) == transpose", odense(O.partial_transpose(range(L))), M.T)
    mk.eq("input untouched", odense(O), M)
    R = O.copy()
    r = R.partial_transpose_([0])
    mk.same("partial_transpose_ is in place", r is R, True)
    mk.eq("trace is invariant under full transposition", O.partial_transpose(range(L)).trace(), ref.trace(M))
    # trace of a product through apply
    Q, Qr = sym_mpo(mk, "Q", L, 1, dims, cyclic, "mixed")
    mk.eq("O.apply(Q).trace() == tr(O Q)", O.apply(Q).trace(), ref.trace(ref.matmul(M, raw_op(Qr, cyclic))))


# ---------------------------------------------------------------------- partial trace of a state

_PT = [
    {"L": 3, "keep": (0, 1), "rescale": True, "cyclic": False},
    {"L": 3, "keep": (1,), "rescale": True, "cyclic": False},
    {"L": 3, "keep": (0, 2), "rescale": False, "cyclic": False},
    {"L": 3, "keep": (1, 2), "rescale": True, "cyclic": True, "_tiers": _T},
    {"L": 4, "keep": (1, 3), "rescale": True, "cyclic": False, "_tiers": _T},
    {"L": 4, "keep": (0, 1, 2, 3), "rescale": True, "cyclic": False, "_tiers": _T},
    {"L": 4, "keep": (2, 1), "rescale": False, "cyclic": False, "_tiers": _T},
    {"L": 3, "keep": "slice", "rescale": True, "cyclic": False, "_tiers": _T},
]


def reduced_state_ref(v, dims, keep):
    """rho[k.., b..] = sum_env psi[k, env] conj(psi[b, env]) : the reduced density operator of |psi><psi|"""
    L = len(dims)
    T = v.reshape(dims)
    ki = tuple(f"k{i}" if i in keep else f"e{i}" for i in range(L))
    bi = tuple(f"b{i}" if i in keep else f"e{i}" for i in range(L))
    out = tuple(f"k{i}" for i in keep) + tuple(f"b{i}" for i in keep)
    r = ref.sum_of_products([(T, ki), (_conj(T), bi)], out)
    n = int(np.prod([dims[i] for i in keep]))
    return r.reshape(n, n)


@obligation(PROP, name="partial_trace_complex_state", params=[dict(p, kind="cplx") for p in _PT])
@obligation(PROP, name="partial_trace_real_state", params=[dict(p, kind="real") for p in _PT])
def partial_trace_to_operator(mk, L, keep, rescale, cyclic, kind):
    """partial_trace_to_mpo(keep): the reduced density operator of |psi><psi| on the kept sites"""
    mk.encodes(c1.MatrixProductState.partial_trace_to_mpo, tc.TensorNetwork.fuse_multibonds, c1.TensorNetwork1D.slice2sites)
    a, Ar = sym_mps(mk, "A", L, 2, None, cyclic, kind)
    va = _flat(raw_vec(Ar, cyclic))
    arg = slice(0, 2) if keep == "slice" else keep
    keep = (0, 1) if keep == "slice" else keep
    ks = sorted(keep)
    rho = a.partial_trace_to_mpo(arg, rescale_sites=rescale)
    mk.same("returns an MPO", type(rho) is qtn.MatrixProductOperator, True)
    sites = list(range(len(ks))) if rescale else ks
    mk.same("upper / lower labels on the (rescaled) kept sites", set(rho.outer_inds()), {f"k{s}" for s in sites} | {f"b{s}" for s in sites})
    mk.same("L", rho.L, len(ks) if rescale else L)
    mk.same("one tensor per kept site", rho.num_tensors, len(ks))
    want = reduced_state_ref(va, (2,) * L, ks)
    got = odense(rho, sites=sites)
    mk.eq("trace of the reduced operator == <psi|psi>", ref.trace(got), inner(va, va))
    mk.eq("reduced operator is Hermitian", got, ref.dag(got))
    mk.eq("dense value (rows = upper labels) == reduced density operator Tr_env |psi><psi|", got, want)
    mk.eq("to_dense() == reduced density operator", rho.to_dense(), want)
    # consumer: expectation value of an operator on the kept sites, tr(rho X) == <psi| X (x) 1 |psi>
    X = mk.array("X", want.shape, "cplx")
    full = inner(va, ref.matmul(ref.embed(X, [2] * L, ks), va))
    mk.eq("tr(rho X) == <psi|X (x) 1|psi>", ref.trace(ref.matmul(got, X)), full)
    mk.eq("state untouched", _flat(vdense(a)), va)


_PTC = [{"L": L, "where": w, "_tiers": _Q if (L == 3 and w in ((1,), (1, 0), (0, 2), (2, 0))) else _T}
        for L, ws in ((3, ((1,), (0, 1), (1, 0), (0, 2), (2, 0), (2, 1), (1, 2))), (4, ((3, 1), (1, 3), (2, 0, 3), (0, 2, 3))))
        for w in ws]


@obligation(PROP, params=_PTC, rounds=2, timeout_s=400, wall_s=300, max_rows=60000)
def partial_trace_dense_canonical(mk, L, where):
    """partial_trace_to_dense_canonical(where) / local_expectation_canonical(G, where): the reduced state over the requested
    sites IN THE ORDER GIVEN (ascending or not) equals the dense partial trace; tr(rho G) consumers agree"""
    mk.encodes(c1.MatrixProductState.partial_trace_to_dense_canonical, c1.MatrixProductState.local_expectation_canonical,
               c1.TensorNetwork1DFlat.canonicalize)
    a, Ar = sym_mps(mk, "A", L, 2, None, False, "real")
    va = _flat(raw_vec(Ar, False))
    want = reduced_state_ref(va, (2,) * L, tuple(where))
    rho = a.copy().partial_trace_to_dense_canonical(where, normalized=False)
    rho = np.asarray(rho)
    mk.same(f"partial_trace_to_dense_canonical{where}: a square matrix over the requested sites", tuple(rho.shape), tuple(want.shape))
    mk.eq(f"partial_trace_to_dense_canonical{where} == Tr_env |psi><psi| (rows / columns in the requested site order)", rho, want)
    G = mk.array("G", want.shape, "real")
    val = a.copy().local_expectation_canonical(G, where, normalized=False)
    mk.eq(f"local_expectation_canonical(G, {where}) == <psi|G on {where}|psi>", val, inner(va, ref.matmul(ref.embed(G, [2] * L, where), va)))
    b = a.copy()
    b.partial_trace_to_dense_canonical(where, normalized=False)
    mk.eq("the state's value is not changed by the query (gauge only)", _flat(vdense(b)), va)


# ---------------------------------------------------------------------- bipartite Schmidt state

def _stub_syms(prefix):
    """symbols handed out by the decomposition stubs on this path: {call number: [sym_0, sym_1, ...]}"""
    out = {}
    pat = re.compile(rf"^{prefix}(\d+)_(\d+)$")
    for i, nm in enumerate(P.TAB.names):
        m = pat.match(nm)
        if m:
            out.setdefault(int(m.group(1)), {})[int(m.group(2))] = P._mono(i)
    return {k: [v[j] for j in sorted(v)] for k, v in out.items()}


_BSS = [{"L": L, "sz_a": z, "get": g, "_tiers": _Q if (L == 3 and (g == "ket" or z == 1)) else _T}
        for (L, z) in ((3, 1), (3, 2), (2, 1), (4, 2)) for g in ("ket", "rho", "ket-dense", "rho-dense")]


@obligation(PROP, params=_BSS, rounds=2, timeout_s=400, max_rows=60000)
def bipartite_schmidt(mk, L, sz_a, get):
    """bipartite_schmidt_state(sz_a, get) == diag(s) (or its projector) where s are the singular values of the centre
    matrix of the state brought to mixed canonical form at the cut; chain of certificates: state unchanged, both blocks
    isometric, SVD taken of the centre matrix, sum s^2 == <psi|psi>  (=> s are the Schmidt coefficients, Schmidt decomposition)"""
    mk.encodes(c1.MatrixProductState.bipartite_schmidt_state, c1.TensorNetwork1DFlat.singular_values, c1.TensorNetwork1DFlat.canonicalize,
               tc.Tensor.singular_values)
    a, Ar = sym_mps(mk, "A", L, 2, None, False, "real")
    va = raw_vec(Ar)
    M = va.reshape(2 ** sz_a, -1)
    p1 = inner(va, va)
    chi = a.bond_size(sz_a - 1, sz_a)
    r = a.bipartite_schmidt_state(sz_a, get=get)
    # --- the values the routine used
    if mk.sym:
        fam = _stub_syms("s")
        s = fam[max(fam)]
        mk.same("one SVD, of a matrix with chi rows", (stubs.USED.get("linalg.svd"), len(s)), (1, chi))
        t = a[sz_a]
        lb = a.bond(sz_a - 1, sz_a)
        C = t.transpose(lb, *[ix for ix in t.inds if ix != lb]).data.reshape(chi, -1)
        mk.eq("singular values were taken of the centre matrix (left bond | rest) of the gauged state", stubs.LAST["svd"], C)
        mk.eq("state unchanged by the gauge transformation", vdense(a), va)
        canonical_goals(mk, "after the call", a, sz_a)
    else:
        s = list(np.linalg.svd(np.asarray(M, dtype=float), compute_uv=False)[:chi])
    mk.eq("sum s_i^2 == <psi|psi>", _sum(x * x for x in s), p1)
    k = np.array([[s[i] if i == j else s[i] * 0 for j in range(chi)] for i in range(chi)], dtype=object if mk.sym else float)
    kv = k.reshape(-1)
    tol = 1e-7
    if get == "ket":
        mk.same("get='ket': tensor over (kA, kB)", (isinstance(r, qtn.Tensor), tuple(r.inds)), (True, ("kA", "kB")))
        mk.eq("ket == diag(s)", r.data, k, tol=tol)
    elif get == "ket-dense":
        mk.same("get='ket-dense': column vector", tuple(r.shape), (chi * chi, 1))
        mk.eq("ket-dense == vec(diag(s))", np.asarray(r).reshape(-1), kv, tol=tol)
    else:
        if get == "rho":
            mk.same("get='rho': network over (kA, kB, bA, bB)", set(r.outer_inds()), {"kA", "kB", "bA", "bB"})
            R = ref.tn_dense(r, ("kA", "kB", "bA", "bB")).reshape(chi * chi, chi * chi)
        else:
            mk.same("get='rho-dense': matrix", tuple(r.shape), (chi * chi, chi * chi))
            R = np.asarray(r)
        mk.eq(f"{get} == |ket><ket| with ket = vec(diag(s))", R, np.array([[x * y for y in kv] for x in kv], dtype=k.dtype), tol=tol)
    cyc, _ = sym_mps(mk, "C", 3, 1, None, True, "real")
    mk.raises("periodic states are rejected", lambda: cyc.bipartite_schmidt_state(1), (NotImplementedError,))


# ====================================================================================
# 3. named state / operator generators
# ====================================================================================

_R2 = 2 ** -0.5
_VEC = {"0": [1.0, 0.0], "1": [0.0, 1.0], "+": [_R2, _R2], "-": [_R2, -_R2]}


def _product_vec(chars):
    v = np.array([1.0])
    for c in chars:
        v = np.kron(v, np.array(_VEC[str(c)]))
    return v


def _basis(L, bits):
    v = np.zeros(2 ** L)
    v[int("".join(map(str, bits)), 2)] = 1.0
    return v


@obligation(PROP, params=[{"L": 3}, {"L": 2, "_tiers": _T}, {"L": 4, "_tiers": _T}, {"L": 5, "_tiers": _T}], numeric=False)
def named_states(mk, L):
    """constant-table generators (numeric arrays whatever the mode): dense value == the explicit state"""
    mk.encodes(tb.MPS_computational_state, tb.MPS_neel_state, tb.MPS_ghz_state, tb.MPS_w_state, tb.MPS_zero_state, tb.MPS_COPY,
               tb.MPS_product_state, c1.MatrixProductState.from_product, tb.MPS_sampler)
    out = tuple(f"k{i}" for i in range(L))

    def chk(label, psi, want, Lx=L, bonds=None, dtype=None):
        mk.same(f"{label}: MPS of length {Lx}", (type(psi) is qtn.MatrixProductState, psi.L), (True, Lx))
        num_eq(mk, f"{label}: dense value", _flat(vdense(psi, Lx)), want)
        num_eq(mk, f"{label}: to_dense()", _flat(psi.to_dense()), want)
        if bonds is not None:
            mk.same(f"{label}: bond dimension", set(psi.bond_sizes()), {bonds})
        if dtype is not None:
            mk.same(f"{label}: dtype", psi.dtype, dtype)

    for bits in itertools.product("01", repeat=L):
        s = "".join(bits)
        chk(f"MPS_computational_state('{s}')", qtn.MPS_computational_state(s), _basis(L, bits), bonds=1)
    s = ("01+-" * L)[:L]
    chk(f"MPS_computational_state('{s}')", qtn.MPS_computational_state(s), _product_vec(s))
    if L > 2:
        chk(f"MPS_computational_state('{s}', cyclic=True)", qtn.MPS_computational_state(s, cyclic=True), _product_vec(s), bonds=1)
    ints = [i % 2 for i in range(1, L + 1)]
    chk(f"MPS_computational_state({ints})", qtn.MPS_computational_state(ints), _basis(L, ints))
    for dt in ("float64", "complex128", "float32", "complex64"):
        chk(f"MPS_computational_state(dtype={dt})", qtn.MPS_computational_state("10" + "0" * (L - 2), dtype=dt),
            _basis(L, "10" + "0" * (L - 2)), dtype=dt)
    up = [i % 2 for i in range(L)]
    chk("MPS_neel_state", qtn.MPS_neel_state(L), _basis(L, up))
    chk("MPS_neel_state(down_first=True)", qtn.MPS_neel_state(L, down_first=True), _basis(L, [1 - b for b in up]))
    ghz = (_basis(L, [0] * L) + _basis(L, [1] * L)) * _R2
    chk("MPS_ghz_state", qtn.MPS_ghz_state(L), ghz, bonds=2)
    chk("MPS_ghz_state(dtype=complex128)", qtn.MPS_ghz_state(L, dtype="complex128"), ghz, dtype="complex128")
    w = sum(_basis(L, [1 if j == i else 0 for j in range(L)]) for i in range(L)) / L ** 0.5
    chk("MPS_w_state", qtn.MPS_w_state(L), w, bonds=2)
    for d in (2, 3):
        copy = np.zeros(d ** L)
        for x in range(d):
            copy[sum(x * d ** k for k in range(L))] = 1.0
        chk(f"MPS_COPY(phys_dim={d})", qtn.MPS_COPY(L, phys_dim=d), copy, bonds=d)
    for (bd, pd, cyc) in ((1, 2, False), (2, 3, False), (2, 2, True)):
        if cyc and L < 3:
            continue
        z = qtn.MPS_zero_state(L, bond_dim=bd, phys_dim=pd, cyclic=cyc)
        chk(f"MPS_zero_state(bond_dim={bd}, phys_dim={pd}, cyclic={cyc})", z, np.zeros(pd ** L), bonds=bd)
        mk.same(f"MPS_zero_state(cyclic={cyc}): cyclic flag", bool(z.cyclic), cyc)
    for squeeze in (True, False):
        smp = qtn.MPS_sampler(L, squeeze=squeeze)
        mk.same(f"MPS_sampler(squeeze={squeeze}): <psi|psi> == 2^L whatever the draw", round(float(abs(smp.H @ smp)), 9), float(2 ** L))
    mk.same("norms: computational / ghz / w states are normalised",
            [round(float(abs(p.H @ p)), 12) for p in (qtn.MPS_computational_state("+" * L), qtn.MPS_ghz_state(L), qtn.MPS_w_state(L))], [1.0] * 3)


@obligation(PROP, params=[{"L": 3, "cyclic": False}, {"L": 3, "cyclic": True}, {"L": 2, "cyclic": False, "_tiers": _T},
                          {"L": 4, "cyclic": True, "_tiers": _T}])
def product_generators(mk, L, cyclic):
    """MPS_product_state / MPO_product_operator on symbolic single-site factors"""
    mk.encodes(tb.MPS_product_state, c1.MatrixProductState.from_product, tb.MPO_product_operator)
    dims = [2, 3, 2, 2][:L]
    vs = [mk.array(f"v{i}", (dims[i],), "cplx") for i in range(L)]
    psi = qtn.MPS_product_state(vs, cyclic=cyclic)
    want = ref.sum_of_products([(v, (f"p{i}",)) for i, v in enumerate(vs)], tuple(f"p{i}" for i in range(L)))
    mk.same("MPS_product_state: MPS, bond dimension 1", (type(psi) is qtn.MatrixProductState, psi.L, set(psi.bond_sizes()), bool(psi.cyclic)),
            (True, L, {1}, cyclic))
    mk.eq("MPS_product_state == v0 (x) v1 (x) ...", vdense(psi), want)
    mk.eq("from_product(site_ind_id=...)", vdense(qtn.MatrixProductState.from_product(vs, cyclic=cyclic, site_ind_id="q{}"), ind_id="q{}"), want)
    ops = [mk.array(f"o{i}", (dims[i], dims[i]), "cplx") for i in range(L)]
    A = qtn.MPO_product_operator(ops, cyclic=cyclic)
    mk.same("MPO_product_operator: MPO, bond dimension 1", (type(A) is qtn.MatrixProductOperator, A.L, set(A.bond_sizes()), bool(A.cyclic)),
            (True, L, {1}, cyclic))
    mk.eq("MPO_product_operator == o0 (x) o1 (x) ...", odense(A), ref.kron(*ops))
    mk.eq("MPO_product_operator(...).to_dense()", A.to_dense(), ref.kron(*ops))
    mk.eq("product operator applied to product state == product of (o_i v_i)", _flat(vdense(A.apply(psi))),
          _flat(ref.sum_of_products([(ref.matmul(o, v), (f"p{i}",)) for i, (o, v) in enumerate(zip(ops, vs))], tuple(f"p{i}" for i in range(L)))))
    if not cyclic:
        A1 = qtn.MPO_product_operator(ops[:1])
        mk.same("single-site product operator: L == 1", A1.L, 1)
        mk.eq("single-site product operator value", odense(A1), ops[0])


@obligation(PROP, params=[{"L": 3}, {"L": 2, "_tiers": _T}, {"L": 4, "_tiers": _T}], numeric=False)
def named_operators(mk, L):
    """MPO_identity / MPO_zeros and their *_like variants"""
    mk.encodes(tb.MPO_identity, tb.MPO_zeros, tb.MPO_identity_like, tb.MPO_zeros_like, c1.MatrixProductOperator.identity)
    for d in (2, 3):
        for cyc in (False, True):
            if cyc and L < 3:
                continue
            I = qtn.MPO_identity(L, phys_dim=d, cyclic=cyc)
            mk.same(f"MPO_identity(d={d}, cyclic={cyc}): structure", (type(I) is qtn.MatrixProductOperator, I.L, bool(I.cyclic), set(I.bond_sizes())),
                    (True, L, cyc, {1}))
            num_eq(mk, f"MPO_identity(d={d}, cyclic={cyc}) == identity matrix", odense(I), np.eye(d ** L))
            num_eq(mk, f"MPO_identity(d={d}, cyclic={cyc}).to_dense()", I.to_dense(), np.eye(d ** L))
            Z = qtn.MPO_zeros(L, phys_dim=d, cyclic=cyc)
            mk.same(f"MPO_zeros(d={d}, cyclic={cyc}): structure", (type(Z) is qtn.MatrixProductOperator, Z.L, bool(Z.cyclic)), (True, L, cyc))
            num_eq(mk, f"MPO_zeros(d={d}, cyclic={cyc}) == zero matrix", odense(Z), np.zeros((d ** L, d ** L)))
    for dt in ("float64", "complex128", "float32"):
        mk.same(f"MPO_identity(dtype={dt})", qtn.MPO_identity(L, dtype=dt).dtype, dt)
    A = qtn.MatrixProductOperator([np.ones(_site_shape(i, L, 2, (3,) * L, False, "lrud")) for i in range(L)], upper_ind_id="x{}", lower_ind_id="y{}",
                                  site_tag_id="S{}")
    for label, I in (("MPO_identity_like", qtn.MPO_identity_like(A)), ("mpo.identity()", A.identity())):
        mk.same(f"{label}: ids, length, phys dim of the model", (I.upper_ind_id, I.lower_ind_id, I.site_tag_id, I.L, I.phys_dim()), ("x{}", "y{}", "S{}", L, 3))
        num_eq(mk, f"{label} == identity", odense(I, up="x{}", low="y{}"), np.eye(3 ** L))
    Z = qtn.MPO_zeros_like(A)
    mk.same("MPO_zeros_like: ids, length", (Z.upper_ind_id, Z.lower_ind_id, Z.L), ("x{}", "y{}", L))
    num_eq(mk, "MPO_zeros_like == 0", odense(Z, up="x{}", low="y{}"), np.zeros((3 ** L, 3 ** L)))
    x = qtn.MPS_computational_state("01+-"[:L] if L <= 4 else "0" * L)
    num_eq(mk, "MPO_identity.apply(x) == x", _flat(vdense(qtn.MPO_identity(L).apply(x))), _flat(vdense(x)))
    mk.raises("identity on a single site (start == end) is rejected", lambda: qtn.MPO_identity(1), (ValueError,))


@obligation(PROP, params=[{"Ltot": 5, "sites": (1, 3)}, {"Ltot": 4, "sites": (0, 1, 2), "_tiers": _T}], numeric=False)
def identity_on_site_subset(mk, Ltot, sites):
    """MPO_identity(L, sites=...): identity defined on a subset of the sites of a chain of length L"""
    mk.encodes(tb.MPO_identity)
    I = qtn.MPO_identity(Ltot, sites=sites)
    mk.same("sites present", tuple(I.gen_sites_present()), tuple(sites))
    num_eq(mk, "value on the sites present == identity", odense(I, sites=sites), np.eye(2 ** len(sites)))
    mk.same("L is the requested number of sites", I.L, Ltot)
    F = attempt(mk, "fill_empty_sites('full') of the sub-identity", lambda: I.fill_empty_sites("full"))
    if F is not None:
        mk.same("filled identity covers the whole chain", tuple(F.gen_sites_present()), tuple(range(Ltot)))


# ------------------------------------------------------------------------------------
# 3b. Hamiltonian builders: SpinHam1D (build_mpo / build_sparse / build_local_ham) and MPO_ham_*
# ------------------------------------------------------------------------------------
# The MPO tensors are numeric tables (spin_ham_mpo_tensor allocates a complex array, symbolic
# coefficients cannot enter): coefficients are distinct dyadic rationals (exactly representable,
# every sum below is exact to rounding of a few additions) - a fixed table in the symbolic-mode
# run, random multiples of 1/16 in the numeric cross-run; the comparison is by evaluation.

_S2 = 2 ** 0.5
_SPIN = {
    2: {"X": np.array([[0, 0.5], [0.5, 0]], dtype=complex), "Y": np.array([[0, -0.5j], [0.5j, 0]]),
        "Z": np.array([[0.5, 0], [0, -0.5]], dtype=complex), "+": np.array([[0, 1.0], [0, 0]], dtype=complex),
        "-": np.array([[0, 0], [1.0, 0]], dtype=complex), "I": np.eye(2, dtype=complex)},
    3: {"X": np.array([[0, 1, 0], [1, 0, 1], [0, 1, 0]], dtype=complex) / _S2,
        "Y": np.array([[0, -1j, 0], [1j, 0, -1j], [0, 1j, 0]]) / _S2,
        "Z": np.diag([1.0, 0.0, -1.0]).astype(complex),
        "+": np.array([[0, 1, 0], [0, 0, 1], [0, 0, 0]], dtype=complex) * _S2,
        "-": np.array([[0, 0, 0], [1, 0, 0], [0, 1, 0]], dtype=complex) * _S2, "I": np.eye(3, dtype=complex)},
}


def _sop(D, s):
    return _SPIN[D][s] if isinstance(s, str) else np.asarray(s, dtype=complex)


def _embed_sites(L, D, op, sites):
    """op (acting on `sites`, in that order; any distinct sites) embedded in D^L: explicit index placement"""
    k = len(sites)
    opk = np.asarray(op, dtype=complex).reshape((D,) * (2 * k))
    I = np.eye(D ** L, dtype=complex).reshape((D,) * L + (D ** L,))
    out = np.tensordot(opk, I, axes=(list(range(k, 2 * k)), list(sites)))
    out = np.moveaxis(out, list(range(k)), list(sites))
    return out.reshape(D ** L, D ** L)


def spin_ham_ref(L, D, cyclic, one, two, var_one=None, var_two=None):
    """sum over sites of the one-site terms (site-specific list replaces the default list) and over bonds
    (i, i+1) (+ the wrap bond if cyclic) of the two-site terms, every term embedded explicitly"""
    var_one, var_two = var_one or {}, var_two or {}
    H = np.zeros((D ** L, D ** L), dtype=complex)
    for i in range(L):
        for c, a in var_one.get(i, one):
            H = H + c * _embed_sites(L, D, _sop(D, a), (i,))
    for i in range(L if cyclic else L - 1):
        j = (i + 1) % L
        for c, a, b in var_two.get((i, j), two):
            H = H + c * _embed_sites(L, D, np.kron(_sop(D, a), _sop(D, b)), (i, j))
    return H


def _einsum_dense_op(tn, L, up="k{}", low="b{}"):
    """dense matrix of an operator chain by one numpy einsum over the tensors' own (data, inds)"""
    labels, args = {}, []
    for t in tn:
        args += [np.asarray(t.data), [labels.setdefault(ix, len(labels)) for ix in t.inds]]
    out = [labels[up.format(i)] for i in range(L)] + [labels[low.format(i)] for i in range(L)]
    d = np.einsum(*args, out)
    n = int(np.prod(d.shape[:L]))
    return d.reshape(n, -1)


class _Coefs:
    """distinct non-zero dyadic coefficients: fixed table (symbolic-mode run) / random multiples of 1/16 (numeric run)"""

    def __init__(self, mk):
        self.mk, self.k = mk, 0

    def __call__(self):
        self.k += 1
        if self.mk.sym:
            return (-1) ** self.k * (2 * self.k + 1) / 16
        return float(self.mk._draw(f"c{self.k}", "real"))


# term-list families: (default one-site ops, default two-site ops, {site: one-site ops}, {bond: two-site ops})
_RAISE = np.array([[0.0, 1.0], [0.0, 0.0]])
_SPECS = {
    "tilted": (["Z", "X"], [("X", "X"), ("Y", "Y"), ("Z", "Z")], {}, {}),
    "xyz_field": (["X", "Y", "Z"], [("Z", "Z"), ("+", "-")], {}, {}),
    "repeat_same_op": (["Z", "Z", "X"], [("X", "X")], {}, {}),
    "fields_only": (["X", "Z"], [], {}, {}),
    "one_field": (["Z"], [("X", "X"), ("Y", "Y")], {}, {}),
    "site_override": (["Z"], [("X", "X"), ("Z", "Z")], {1: ["X", "Y", "Z"], 0: ["X", "X"]}, {}),
    "site_override_last": (["Z", "X"], [("+", "-"), ("-", "+")], {-1: ["Y", "Z"]}, {}),
    "bond_override": (["Z", "Y"], [("X", "X"), ("Y", "Y"), ("Z", "Z")], {}, {(1, 2): [("Z", "X")], (0, 1): [("X", "Z"), ("Y", "Y")]}),
    "both_overrides": (["X"], [("Z", "Z")], {1: ["Z", "X", "Y"]}, {(0, 1): [("X", "X"), ("Y", "Z"), ("Z", "Y")]}),
    "no_default_fields": ([], [("X", "X"), ("Z", "Z")], {0: ["Z", "X"], 2: ["Y", "Z", "X"]}, {}),
    "array_ops": ([_RAISE, "Z"], [(_RAISE, _RAISE.T), ("Z", "Z")], {1: [_RAISE.T, _RAISE, "X"]}, {}),
}


def _spin_ham_params():
    out = []
    for spec in _SPECS:
        for L, S, cyc in ((3, 1 / 2, False), (4, 1 / 2, True), (4, 1 / 2, False), (3, 1, False), (3, 1, True), (5, 1 / 2, False)):
            if spec == "array_ops" and S != 1 / 2:
                continue
            quick = (L, S, cyc) in ((3, 1 / 2, False), (4, 1 / 2, True)) or (spec in ("tilted", "site_override") and (L, S, cyc) == (3, 1, False))
            out.append({"spec": spec, "L": L, "S": S, "cyclic": cyc, "_tiers": _Q if quick else _T})
    return out


@obligation(PROP, params=_spin_ham_params())
def spin_ham_builder(mk, spec, L, S, cyclic):
    """SpinHam1D: any list of one-site terms (several on the same site, the same operator twice) and two-site terms,
    site- and bond-specific lists entered by repeated `b[i] += ...` / `b[i, j] += ...` or by assignment, `+=` / `-=`,
    string and array operators, open and periodic: build_mpo (dense value, bond dimension), build_sparse and
    build_local_ham all equal the explicit sum of embedded terms"""
    mk.encodes(tb.SpinHam1D.build_mpo, tb.SpinHam1D.build_sparse, tb.SpinHam1D.build_local_ham, tb.spin_ham_mpo_tensor,
               tb.SpinHam1D.add_term, tb.SpinHam1D.__setitem__, tb.SpinHam1D.__getitem__)
    D = int(2 * S + 1)
    coef = _Coefs(mk)
    ones, twos, vones, vtwos = _SPECS[spec]
    one = [(coef(), a) for a in ones]
    two = [(coef(), a, b) for a, b in twos]
    var_one = {i % L: [(coef(), a) for a in ops] for i, ops in vones.items()}
    var_two = {bond: [(coef(), a, b) for a, b in ops] for bond, ops in vtwos.items()}
    want = spin_ham_ref(L, D, cyclic, one, two, var_one, var_two)

    def build(style):
        b = qtn.SpinHam1D(S=S, cyclic=cyclic)
        terms = [t for pair in itertools.zip_longest(two, one) for t in pair if t is not None] if style == "interleaved" else two + one
        for k, t in enumerate(terms):
            if style != "add" and k % 2:
                b -= (-t[0],) + tuple(t[1:])
            else:
                b += t
        for i, ts in var_one.items():
            if style == "assign":
                b[i] = list(ts)
            else:
                for t in ts:
                    b[i] += t
        for bond, ts in var_two.items():
            if style == "assign":
                b[bond] = list(ts)
            else:
                for t in ts:
                    b[bond] += t
        return b

    for style in ("add", "interleaved", "assign"):
        b = build(style)
        tag = f"SpinHam1D[{spec}, {style}] L={L} S={S} cyclic={cyclic}"
        if True:
            A = b.build_mpo(L)
            mk.same(f"{tag}: build_mpo gives an MPO of length L", (type(A) is qtn.MatrixProductOperator, A.L), (True, L))
            num_eq(mk, f"{tag}: build_mpo(L) dense value (explicit einsum over the site tensors) == sum of embedded terms",
                   _einsum_dense_op(A, L), want, tol=1e-11)
            num_eq(mk, f"{tag}: build_mpo(L).to_dense() == sum of embedded terms", A.to_dense(), want, tol=1e-11)
            if not var_two:
                mk.same(f"{tag}: MPO bond dimension == number of two-site terms + 2", set(A.bond_sizes()), {len(two) + 2})
            A2 = b.build_mpo(L, upper_ind_id="u{}", lower_ind_id="l{}", site_tag_id="S{}")
            num_eq(mk, f"{tag}: build_mpo with custom ids", _einsum_dense_op(A2, L, "u{}", "l{}"), want, tol=1e-11)
        Hs = b.build_sparse(L)
        num_eq(mk, f"{tag}: build_sparse(L) == sum of embedded terms", np.asarray(Hs.todense()), want, tol=1e-11)
        if two and spec != "array_ops":
            # (plain ndarray two-site operators are rejected by build_local_ham: `s1 & s2` needs a quimb qarray -> TypeError)
            lh = b.build_local_ham(L)
            tot = np.zeros_like(want)
            for sites, h in lh.terms.items():
                tot = tot + _embed_sites(L, D, np.asarray(h), tuple(sites))
            num_eq(mk, f"{tag}: build_local_ham(L): sum of its embedded local terms == sum of embedded terms", tot, want, tol=1e-11)
            mk.same(f"{tag}: build_local_ham(L): terms live on nearest-neighbour bonds",
                    all(len(s) == 2 and (abs(s[0] - s[1]) == 1 or (cyclic and set(s) == {0, L - 1})) for s in lh.terms), True)


def _field_components(Hd, L, D):
    """coefficients h[d][i] of S^d_i (d = x, y, z) in a dense operator and the remainder after removing them
    (S^x, S^y, S^z on different sites / directions are trace-orthogonal)"""
    h = {}
    rest = np.array(Hd, dtype=complex)
    for d in "XYZ":
        for i in range(L):
            E = _embed_sites(L, D, _SPIN[D][d], (i,))
            c = np.trace(E.conj().T @ Hd) / np.trace(E.conj().T @ E)
            h[d, i] = c
            rest = rest - c * E
    return h, rest


_NAMED_HAMS = ("ising", "XY", "heis", "XXZ", "bilinear_biquadratic", "mbl")


@obligation(PROP, params=[{"name": n, "L": L, "cyclic": cyc, "_tiers": _Q if (L == 3 and not cyc) or (n == "mbl" and L == 4) else _T}
                          for n in _NAMED_HAMS for L, cyc in ((3, False), (4, True), (4, False), (3, True))])
def hamiltonian_generators(mk, name, L, cyclic):
    """named Hamiltonian MPO generators with every documented form of their arguments (scalar / per-direction
    couplings, field, spin S, MPO_ham_mbl's dh_dim / dh_dist / tuple dh) against the explicit sum of embedded
    spin-operator terms written from the documented formula"""
    mk.encodes(tb.MPO_ham_ising, tb.MPO_ham_XY, tb.MPO_ham_heis, tb.MPO_ham_XXZ, tb.MPO_ham_bilinear_biquadratic, tb.MPO_ham_mbl,
               tb.spin_ham_mpo_tensor, tb.SpinHam1D.build_mpo)
    coef = _Coefs(mk)

    def chk(label, A, want, Lx=L):
        mk.same(f"{label}: MPO of length L, cyclic flag", (type(A) is qtn.MatrixProductOperator, A.L, bool(A.cyclic)), (True, Lx, cyclic))
        num_eq(mk, f"{label}: dense value == documented sum of terms", _einsum_dense_op(A, Lx), want, tol=1e-11)
        num_eq(mk, f"{label}: to_dense()", A.to_dense(), want, tol=1e-11)

    for S in (1 / 2, 1):
        D = int(2 * S + 1)
        hr = lambda one, two: spin_ham_ref(L, D, cyclic, one, two)
        if name == "ising":
            j, bx = coef(), coef()
            chk(f"MPO_ham_ising(j, bx, S={S})", tb.MPO_ham_ising(L, j, bx, S=S, cyclic=cyclic), hr([(-bx, "X")], [(j, "Z", "Z")]))
            chk(f"MPO_ham_ising(j, S={S}) (no field)", tb.MPO_ham_ising(L, j, S=S, cyclic=cyclic), hr([], [(j, "Z", "Z")]))
        elif name == "XY":
            j, jx, jy, bz = coef(), coef(), coef(), coef()
            chk(f"MPO_ham_XY(j, bz, S={S})", tb.MPO_ham_XY(L, j, bz, S=S, cyclic=cyclic), hr([(-bz, "Z")], [(j, "X", "X"), (j, "Y", "Y")]))
            chk(f"MPO_ham_XY((jx, jy), bz, S={S})", tb.MPO_ham_XY(L, (jx, jy), bz, S=S, cyclic=cyclic),
                hr([(-bz, "Z")], [(jx, "X", "X"), (jy, "Y", "Y")]))
            chk(f"MPO_ham_XY((jx, jx), S={S})", tb.MPO_ham_XY(L, (jx, jx), S=S, cyclic=cyclic), hr([], [(jx, "X", "X"), (jx, "Y", "Y")]))
        elif name == "heis":
            j, jx, jy, jz, bz = coef(), coef(), coef(), coef(), coef()
            chk(f"MPO_ham_heis(j, bz, S={S})", tb.MPO_ham_heis(L, j, bz, S=S, cyclic=cyclic),
                hr([(-bz, "Z")], [(j, "X", "X"), (j, "Y", "Y"), (j, "Z", "Z")]))
            chk(f"MPO_ham_heis((jx, jy, jz), bz, S={S})", tb.MPO_ham_heis(L, (jx, jy, jz), bz, S=S, cyclic=cyclic),
                hr([(-bz, "Z")], [(jx, "X", "X"), (jy, "Y", "Y"), (jz, "Z", "Z")]))
            chk(f"MPO_ham_heis((jx, jx, jz), S={S})", tb.MPO_ham_heis(L, (jx, jx, jz), S=S, cyclic=cyclic),
                hr([], [(jx, "X", "X"), (jx, "Y", "Y"), (jz, "Z", "Z")]))
        elif name == "XXZ":
            delta, jxy = coef(), coef()
            chk(f"MPO_ham_XXZ(delta, jxy, S={S})", tb.MPO_ham_XXZ(L, delta, jxy, S=S, cyclic=cyclic),
                hr([], [(jxy, "X", "X"), (jxy, "Y", "Y"), (delta, "Z", "Z")]))
            chk(f"MPO_ham_XXZ(delta, S={S})", tb.MPO_ham_XXZ(L, delta, S=S, cyclic=cyclic),
                hr([], [(1.0, "X", "X"), (1.0, "Y", "Y"), (delta, "Z", "Z")]))
        elif name == "bilinear_biquadratic":
            theta = coef()
            # the chain of the cited paper (PhysRevB.93.184428): cos(theta) S_i.S_{i+1} + sin(theta) (S_i.S_{i+1})^2, with
            # (S_i.S_j)^2 = sum_{a,b} (S^a S^b)_i (S^a S^b)_j.  (Until the third round the generator built
            # sum_{a,b} (S^a S^a)_i (S^b S^b)_j = (S(S+1))^2 * identity instead: genuine defect, fixed.)
            two = [(np.cos(theta), a, a) for a in "XYZ"] + \
                  [(np.sin(theta), _SPIN[D][a] @ _SPIN[D][b], _SPIN[D][a] @ _SPIN[D][b]) for a in "XYZ" for b in "XYZ"]
            for comp in (True, False):
                A = tb.MPO_ham_bilinear_biquadratic(L, theta, S=S, cyclic=cyclic, compress=comp)
                mk.same(f"MPO_ham_bilinear_biquadratic(theta, S={S}, compress={comp}): MPO of length L", (type(A) is qtn.MatrixProductOperator, A.L), (True, L))
                num_eq(mk, f"MPO_ham_bilinear_biquadratic(theta, S={S}, compress={comp}): dense value == cos(theta) S.S + sin(theta) (S.S)^2 summed over the bonds",
                       _einsum_dense_op(A, L), hr([], two), tol=1e-9)
        elif name == "mbl":
            dh, j, jz = abs(coef()) + 0.5, coef(), coef()
            for dh_dim, dirs in ((1, "Z"), (2, "XY"), (3, "XYZ"), ("xz", "XZ"), ("y", "Y"), ("yz", "YZ")):
                for dist in ("s", "g") + (("qp",) if dh_dim == 1 else ()):
                    for jj in (j, (j, j, jz)):
                        seed = 7 + len(dirs)
                        lab = f"MPO_ham_mbl(dh, j={'scalar' if jj is j else 'triple'}, seed, S={S}, dh_dist={dist!r}, dh_dim={dh_dim!r})"
                        A = tb.MPO_ham_mbl(L, dh, jj, seed=seed, S=S, cyclic=cyclic, dh_dist=dist, dh_dim=dh_dim)
                        Hd = _einsum_dense_op(A, L)
                        jt = (jj, jj, jj) if jj is j else jj
                        H0 = hr([], [(jt[0], "X", "X"), (jt[1], "Y", "Y"), (jt[2], "Z", "Z")])
                        h, rest = _field_components(Hd - H0, L, D)
                        num_eq(mk, f"{lab}: H - H_heis(j) is a sum of one-site fields", rest, np.zeros_like(rest), tol=1e-10)
                        num_eq(mk, f"{lab}: to_dense()", A.to_dense(), Hd, tol=1e-11)
                        active = {d: [abs(h[d, i]) for i in range(L)] for d in "XYZ"}
                        mk.same(f"{lab}: a random field on every site in exactly the directions of dh_dim",
                                {d: all(x > 1e-9 for x in active[d]) if d in dirs else all(x < 1e-10 for x in active[d]) for d in "XYZ"},
                                {d: True for d in "XYZ"})
                        if dist in ("s", "qp"):
                            mk.same(f"{lab}: |field| <= dh", all(x <= dh + 1e-12 for d in dirs for x in active[d]), True)
                        if S == 1 / 2:
                            Hq = qu.ham_mbl(L, dh, jj, seed=seed, cyclic=cyclic, dh_dist=dist, dh_dim=dh_dim, sparse=False)
                            num_eq(mk, f"{lab}: == quimb.ham_mbl with the same seed (dense builder)", Hd, np.asarray(Hq), tol=1e-10)
            # per-direction noise strengths given as a tuple
            dhs = (abs(coef()) + 0.25, 0.0, abs(coef()) + 0.25)
            A = tb.MPO_ham_mbl(L, dhs, j, seed=3, S=S, cyclic=cyclic)
            h, rest = _field_components(_einsum_dense_op(A, L) - hr([], [(j, a, a) for a in "XYZ"]), L, D)
            num_eq(mk, f"MPO_ham_mbl(dh=(hx, 0, hz), S={S}): H - H_heis is a sum of one-site fields", rest, np.zeros_like(rest), tol=1e-10)
            mk.same(f"MPO_ham_mbl(dh=(hx, 0, hz), S={S}): fields in x and z only, bounded by their strengths",
                    [all(1e-9 < abs(h["X", i]) <= dhs[0] for i in range(L)), all(abs(h["Y", i]) < 1e-10 for i in range(L)),
                     all(1e-9 < abs(h["Z", i]) <= dhs[2] for i in range(L))], [True, True, True])


# ====================================================================================
# 4. 1D compression
# ====================================================================================

def _compress_input(mk, inp, L, ekind="real"):
    """(network to compress, dense value, output labels as a flat tuple, kind 'vec' / 'op')"""
    if inp == "mps":
        a, Ar = sym_mps(mk, "A", L, 2, None, False, ekind)
        return a, raw_vec(Ar), tuple(f"k{i}" for i in range(L)), "vec"
    if inp == "sum":          # two product states: bond dimension 1 + 1
        a, Ar = sym_mps(mk, "A", L, 1, None, False, ekind)
        b, Br = sym_mps(mk, "B", L, 1, None, False, ekind)
        return a + b, raw_vec(Ar) + raw_vec(Br), tuple(f"k{i}" for i in range(L)), "vec"
    if inp in ("op1.vec2", "op2.vec1", "op2.vec2"):   # two-layer network: operator on state, not contracted
        Do, Dv = int(inp[2]), int(inp[7])
        O, Or = sym_mpo(mk, "O", L, Do, None, False, ekind)
        x, Xr = sym_mps(mk, "X", L, Dv, None, False, ekind)
        tn = O.apply(x, contract=False)
        want = ref.matmul(raw_op(Or), _flat(raw_vec(Xr))).reshape((2,) * L)
        return tn, want, tuple(f"k{i}" for i in range(L)), "vec"
    if inp == "mpo":
        O, Or = sym_mpo(mk, "O", L, 2, None, False, ekind)
        want = raw_op(Or).reshape((2,) * (2 * L))
        return O, want, tuple(f"k{i}" for i in range(L)) + tuple(f"b{i}" for i in range(L)), "op"
    raise ValueError(inp)


def _structure_goals(mk, tag, c, L, out, kind, layered_input=False):
    mk.same(f"{tag}: result type", type(c) is (qtn.MatrixProductState if kind == "vec" else qtn.MatrixProductOperator), True)
    mk.same(f"{tag}: same outer labels", set(c.outer_inds()), set(out))
    mk.same(f"{tag}: exactly one tensor per site", [len(c.select_tensors(f"I{i}")) for i in range(L)] + [c.num_tensors], [1] * L + [L])
    nn = True
    for i in range(L):
        for j in range(i + 1, L):
            nb = len(c[i].bonds(c[j]))
            nn = nn and (nb == 1 if j == i + 1 else nb == 0)
    mk.same(f"{tag}: single bonds between nearest neighbours only", nn, True)
    if nn and kind == "vec":
        want = []
        for i in range(L):
            ix = []
            if i > 0:
                ix.append(c.bond(i - 1, i))
            if i < L - 1:
                ix.append(c.bond(i, i + 1))
            want.append(tuple(ix) + (f"k{i}",))
        mk.same(f"{tag}: arrays stored in the default (left, right, physical) order", [tuple(c[i].inds) for i in range(L)], want)


_DIRECT = ("direct", "dm", "zipup")
# the reduced density matrices diagonalised by the 'dm' method are positive semi-definite and, where the bond is inflated,
# rank deficient: the eigh stub hands out non-negative (not strictly positive) eigenvalues
_DM_SPECTRUM = "nonneg"
# inputs per method.  Sums of product states have block-diagonal site tensors: the structural zeros turn the QR contracts
# into relations the certificate search cannot orient (the generic bond-2 state 'mps' subsumes them: the identity is proved
# for every value of the entries); the eigh-based 'dm' route certifies them directly.
_EXACT_INPUTS = {"direct": ("mps", "op1.vec2", "op2.vec1", "op2.vec2", "mpo"), "zipup": ("mps", "op1.vec2", "op2.vec1", "op2.vec2", "mpo"),
                 "dm": ("mps", "sum", "op1.vec2", "op2.vec1"), "zipup-first": ("mps",), "zipup-oversample": ("mps",), "sdc": ("mps",)}
_EXACT = []
for m_, inputs_ in _EXACT_INPUTS.items():
    for inp_ in inputs_:
        for rev_ in (False, True):
            quick = m_ in _DIRECT and (inp_ in ("mps", "sum") or (inp_ in ("op1.vec2", "mpo") and not rev_))
            if m_ == "zipup-oversample" and rev_:
                continue
            _EXACT.append({"method": m_, "inp": inp_, "L": 3, "reverse": rev_, "_tiers": _Q if quick else _T})
_EXACT += [{"method": m_, "inp": "mps", "L": 4, "reverse": False, "_tiers": _T} for m_ in ("direct", "zipup")]
_EXACT += [{"method": m_, "inp": "mps", "L": 2, "reverse": True, "_tiers": _T} for m_ in _DIRECT]
for p_ in _EXACT:
    p_["kind"] = "real"
_EXACT += [{"method": m_, "inp": i_, "L": 3, "reverse": r_, "kind": "cplx", "_tiers": _T}
           for m_ in ("direct", "zipup") for (i_, r_) in (("mps", False), ("mps", True), ("op1.vec2", False), ("mpo", False))]
_EXACT += [{"method": "dm", "inp": "mps", "L": 2, "reverse": False, "kind": "cplx", "_tiers": _T}]


@obligation(PROP, params=_EXACT, rounds=2, timeout_s=600, max_rows=60000, wall_s=500)
def compress_exact(mk, method, inp, L, reverse, kind):
    """tensor_network_1d_compress(cutoff=0, max_bond=None): nothing needs truncating -> value reproduced, one tensor per
    site, promised canonical form (right; left with sweep_reverse)"""
    mk.encodes(cp.tensor_network_1d_compress, cp._TN1D_COMPRESS_METHODS[method], cp.enforce_1d_like, cp._form_final_tn_from_tensor_sequence,
               cp.possibly_permute_, tc.TensorNetwork.compress_between, tc.TensorNetwork.canonize_between, tc.tensor_compress_bond,
               tc.tensor_canonize_bond)
    tn, want, out, kind = _compress_input(mk, inp, L, kind)
    if method in ("dm",):
        stubs.OPTIONS["eigh_spectrum"] = _DM_SPECTRUM
    try:
        with warnings.catch_warnings():
            warnings.simplefilter("ignore")
            c = cp.tensor_network_1d_compress(tn, max_bond=None, cutoff=0.0, method=method, sweep_reverse=reverse)
    finally:
        stubs.OPTIONS["eigh_spectrum"] = "real"
    tag = f"{method}{'/reverse' if reverse else ''}"
    _structure_goals(mk, tag, c, L, out, kind)
    mk.eq(f"{tag}: dense value reproduced", ref.tn_dense(c, out), want)
    canonical_goals(mk, tag, c, "left" if reverse else "right", L)
    mk.eq(f"{tag}: input untouched", ref.tn_dense(tn, out), want)


def _discarded(mk, method):
    """sum of the squared singular values (eigenvalues of the reduced density matrix for 'dm') the decomposition stubs
    handed out beyond the first one, over every decomposition made on this path (symbolic mode)"""
    fams = _stub_syms("w" if method == "dm" else "s")
    tot = P.ZERO
    for k, vals in fams.items():
        if method == "dm":
            for v in vals[:-1]:        # eigh: ascending order, the largest (last) one is kept
                tot = tot + v
        else:
            for v in vals[1:]:         # svd: descending order, the first one is kept
                tot = tot + v * v
    return tot, {k: len(v) for k, v in fams.items()}


def _sequential_truncation_ref(psi, reverse):
    """plain numpy reference for a bond-1 sweep: truncate one cut after the other (right to left; left to right if
    `reverse`) to the leading singular triplet; returns (truncated state, sum of the discarded squared singular values)"""
    L = psi.ndim
    cur = np.asarray(psi)
    disc = 0.0
    cuts = range(L - 1, 0, -1) if not reverse else range(1, L)
    for cut in cuts:
        M = cur.reshape(int(np.prod(cur.shape[:cut])), -1)
        U, s, VH = np.linalg.svd(M, full_matrices=False)
        disc += float(np.sum(s[1:] ** 2))
        cur = (s[0] * np.outer(U[:, 0], VH[0])).reshape(cur.shape)
    return cur, disc


_CAP = []
for m_ in _DIRECT:
    for L_ in (2, 3):
        for rev_ in (False, True):
            _CAP.append({"method": m_, "inp": "mps", "L": L_, "reverse": rev_, "kind": "real", "_tiers": _Q})
_CAP += [{"method": m_, "inp": "op1.vec2", "L": 3, "reverse": False, "kind": "real", "_tiers": _T} for m_ in _DIRECT]
_CAP += [{"method": m_, "inp": "mps", "L": 2, "reverse": False, "kind": "cplx", "_tiers": _T} for m_ in ("direct", "zipup")]
_CAP += [{"method": m_, "inp": "mps", "L": 3, "reverse": r_, "kind": "real", "_tiers": _T} for m_ in ("zipup-first", "sdc") for r_ in (False, True)]
_CAP += [{"method": "direct", "inp": "mps", "L": 4, "reverse": False, "kind": "real", "_tiers": _T}]
_CAP += [{"method": m_, "inp": i_, "L": 3, "reverse": r_, "kind": "real", "_tiers": _T}
         for m_ in ("direct", "zipup") for (i_, r_) in (("mpo", False), ("mpo", True), ("op2.vec2", False))]


@obligation(PROP, params=_CAP, rounds=2, rounds2=3, timeout_s=600, max_rows=60000, wall_s=500)
def compress_capped(mk, method, inp, L, reverse, kind):
    """tensor_network_1d_compress(max_bond=1, cutoff=0) of a bond-2 state: cap respected, canonical form, and
    ||psi - psi'||^2 == sum of the squared singular values discarded along the sweep (canonical methods)"""
    mk.encodes(cp.tensor_network_1d_compress, cp._TN1D_COMPRESS_METHODS[method], tc.tensor_compress_bond, tc.tensor_split)
    tn, va, out, okind = _compress_input(mk, inp, L, kind)
    if method == "dm":
        stubs.OPTIONS["eigh_spectrum"] = _DM_SPECTRUM
    try:
        with warnings.catch_warnings():
            warnings.simplefilter("ignore")
            c = cp.tensor_network_1d_compress(tn, max_bond=1, cutoff=0.0, method=method, sweep_reverse=reverse)
    finally:
        stubs.OPTIONS["eigh_spectrum"] = "real"
    tag = f"{method}{'/reverse' if reverse else ''} max_bond=1"
    _structure_goals(mk, tag, c, L, out, okind)
    mk.same(f"{tag}: bond cap respected", c.max_bond() <= 1, True)
    canonical_goals(mk, tag, c, "left" if reverse else "right", L)
    vc = ref.tn_dense(c, out)
    diff = _flat(va - vc)
    err2 = inner(diff, diff)
    # the error identity holds for the methods that truncate in an exactly canonical gauge: direct and dm on any input,
    # zipup on a single-layer state (its pseudo-canonical gauge is then the canonical one)
    canonical_method = method in ("direct", "dm") or (method == "zipup" and inp in ("mps", "mpo"))
    if not canonical_method:
        return
    if mk.sym and inp != "mps":
        mk.note("two-layer input: error identity checked in the numeric cross-run only (certificate too large)")
        return
    if mk.sym:
        disc, fams = _discarded(mk, method)
        mk.same(f"{tag}: one truncating decomposition per bond", sorted(fams.values()), [2] * (L - 1))
        mk.eq(f"{tag}: ||psi - psi'||^2 == sum of discarded squared singular values", err2, disc)
    else:
        def per_site(x):      # one axis per site (an operator site groups its upper and lower label)
            x = np.asarray(x)
            if okind == "op":
                x = np.transpose(x, [j for i in range(L) for j in (i, L + i)]).reshape((4,) * L)
            return x
        pa, pc = per_site(va), per_site(vc)
        refstate, disc = _sequential_truncation_ref(pa, reverse)
        mk.eq(f"{tag}: ||psi - psi'||^2 == sum of discarded squared singular values", err2, disc, tol=1e-9)
        mk.eq(f"{tag}: result == sequential best rank-1 truncation (plain numpy)", pc, refstate, tol=1e-8)
        dloc = pa.shape[0]
        s_orig = [np.linalg.svd(pa.reshape(dloc ** k, -1), compute_uv=False) for k in range(1, L)]
        bound = sum(float(np.sum(s[1:] ** 2)) for s in s_orig)
        mk.same(f"{tag}: error within the bound from the singular values of the original state",
                bool(float(abs(err2)) <= bound * (1 + 1e-9) + 1e-14), True)


# ---------------------------------------------------------------------- compression methods of the MPS / MPO classes

_FORMS = [("right", 3), ("left", 3), (None, 3), (1, 3), (0, 3), (2, 3), ("flat", 3), ("left", 4), (2, 4), ("right", 2)]


@obligation(PROP, params=[{"form": f, "L": L, "what": w, "kind": "real", "_tiers": _Q if (L == 3 and f in ("right", "left", 1, "flat")) else _T}
                          for (f, L) in _FORMS for w in ("mps", "mpo") if not (w == "mpo" and (L != 3 or f in (0, 2, None)))]
            + [{"form": f, "L": 3, "what": "mps", "kind": "cplx", "_tiers": _T} for f in ("right", "left", 1, "flat")],
            rounds=2, timeout_s=600, max_rows=60000, wall_s=500)
def class_compress(mk, form, L, what, kind):
    """MatrixProductState.compress / MatrixProductOperator.compress(form, cutoff=0): value unchanged, promised form"""
    mk.encodes(c1.TensorNetwork1DFlat.compress, c1.TensorNetwork1DFlat.left_compress, c1.TensorNetwork1DFlat.right_compress,
               c1.TensorNetwork1DFlat.left_compress_site, c1.TensorNetwork1DFlat.right_compress_site,
               c1.TensorNetwork1DFlat.left_canonicalize, c1.TensorNetwork1DFlat.right_canonicalize, tc.tensor_compress_bond)
    tn, want, out, kind = _compress_input(mk, what, L, kind)
    c = tn.copy()
    r = c.compress(form=form, cutoff=0.0)
    mk.same("in place, returns None", r is None, True)
    tag = f"compress(form={form})"
    _structure_goals(mk, tag, c, L, out, kind)
    mk.eq(f"{tag}: dense value unchanged", ref.tn_dense(c, out), want)
    if form != "flat":
        canonical_goals(mk, tag, c, "right" if form is None else form, L)
    mk.raises("unknown form rejected", lambda: tn.copy().compress(form="middle"), (ValueError,))


@obligation(PROP, params=[{"which": w, "L": 3} for w in ("left_compress", "right_compress", "compress_site")]
            + [{"which": w, "L": 4, "_tiers": _T} for w in ("left_compress", "right_compress", "compress_site")],
            rounds=2, timeout_s=600, max_rows=60000, wall_s=500)
def sweep_compress(mk, which, L):
    """left_compress / right_compress / compress_site with cutoff=0 on an arbitrary (non canonical) state"""
    mk.encodes(c1.TensorNetwork1DFlat.left_compress, c1.TensorNetwork1DFlat.right_compress, c1.TensorNetwork1DFlat.compress_site,
               tc.tensor_compress_bond)
    a, Ar = sym_mps(mk, "A", L, 2, None, False, "real")
    va = raw_vec(Ar)
    out = tuple(f"k{i}" for i in range(L))
    c = a.copy()
    if which == "left_compress":
        c.left_compress(cutoff=0.0)
        mk.eq("left_compress: value unchanged", vdense(c), va)
        canonical_goals(mk, "left_compress", c, "left", L)      # documented: becomes left-canonical
        c2 = a.copy()
        c2.left_compress(start=0, stop=1, cutoff=0.0)
        mk.eq("left_compress(start=0, stop=1): value unchanged", vdense(c2), va)
        (b,) = c2[0].bonds(c2[1])
        iso_goal(mk, "left_compress(stop=1): site 0 left-isometric", c2[0], tuple(i for i in c2[0].inds if i != b))
    elif which == "right_compress":
        c.right_compress(cutoff=0.0)
        mk.eq("right_compress: value unchanged", vdense(c), va)
        canonical_goals(mk, "right_compress", c, "right", L)
        c2 = a.copy()
        c2.right_compress(start=L - 1, stop=L - 2, cutoff=0.0)
        mk.eq("right_compress(start=L-1, stop=L-2): value unchanged", vdense(c2), va)
        (b,) = c2[L - 1].bonds(c2[L - 2])
        iso_goal(mk, "right_compress(stop=L-2): last site right-isometric", c2[L - 1], tuple(i for i in c2[L - 1].inds if i != b))
    else:
        info = {"cur_orthog": None}
        c.compress_site(1, info=info, cutoff=0.0)
        mk.eq("compress_site(1): value unchanged", vdense(c), va)
        mk.same("compress_site(1): recorded centre", info["cur_orthog"], (1, 1))
        canonical_goals(mk, "compress_site(1)", c, 1, L)
    _structure_goals(mk, which, c, L, out, "vec")


# 'add' / 'add_mpo': the summed tensors are block diagonal; the structural zeros keep the QR contracts from being oriented by
# the certificate search (see _EXACT_INPUTS) -> not mandatory, thorough tier, numeric cross-run still applies.  The two
# halves are certified separately: the sum (mps_arithmetic, Q-ID) and compress() of an arbitrary bond-2 chain (class_compress).
@obligation(PROP, params=[{"case": c} for c in ("apply_vec", "apply_op")]
            + [{"case": c, "_tiers": _T, "_mandatory": False} for c in ("add", "add_mpo")],
            rounds=2, timeout_s=600, max_rows=60000, wall_s=500)
def arithmetic_with_compress(mk, case):
    """compress=True options of the sum / apply routines with cutoff=0: same value as the uncompressed result"""
    mk.encodes(ag.tensor_network_ag_sum, ag.tensor_network_apply_op_vec, ag.tensor_network_apply_op_op, c1.TensorNetwork1DFlat.compress)
    L = 3
    if case == "add":
        a, Ar = sym_mps(mk, "A", L, 1, None, False, "real")
        b, Br = sym_mps(mk, "B", L, 2, None, False, "real")
        c = a.add_MPS(b, compress=True, cutoff=0.0)
        want, out, kind = raw_vec(Ar) + raw_vec(Br), tuple(f"k{i}" for i in range(L)), "vec"
    elif case == "add_mpo":
        a, Ar = sym_mpo(mk, "A", L, 1, None, False, "real")
        b, Br = sym_mpo(mk, "B", L, 1, None, False, "real")
        c = a.add_MPO(b, compress=True, cutoff=0.0)
        want, out, kind = (raw_op(Ar) + raw_op(Br)).reshape((2,) * (2 * L)), tuple(f"k{i}" for i in range(L)) + tuple(f"b{i}" for i in range(L)), "op"
    elif case == "apply_vec":
        O, Or = sym_mpo(mk, "O", L, 1, None, False, "real")
        x, Xr = sym_mps(mk, "X", L, 2, None, False, "real")
        c = O.apply(x, compress=True, cutoff=0.0)
        want, out, kind = ref.matmul(raw_op(Or), _flat(raw_vec(Xr))).reshape((2,) * L), tuple(f"k{i}" for i in range(L)), "vec"
    else:
        O, Or = sym_mpo(mk, "O", L, 1, None, False, "real")
        Q, Qr = sym_mpo(mk, "Q", L, 2, None, False, "real")
        c = O.apply(Q, compress=True, cutoff=0.0)
        want, out, kind = ref.matmul(raw_op(Or), raw_op(Qr)).reshape((2,) * (2 * L)), tuple(f"k{i}" for i in range(L)) + tuple(f"b{i}" for i in range(L)), "op"
    _structure_goals(mk, case, c, L, out, kind)
    mk.eq(f"{case}(compress=True, cutoff=0): dense value", ref.tn_dense(c, out), want)
    canonical_goals(mk, f"{case}(compress=True)", c, "right", L)     # compress() defaults to the right canonical form


_GATE = [{"entry": e, "_tiers": _Q if e in ("gate_with_mpo:direct", "gate_with_mpo:dm", "mps_gate_with_mpo_zipup") else _T}
         for e in ("gate_with_mpo:direct", "gate_with_mpo:dm", "gate_with_mpo:zipup", "gate_with_mpo:zipup-first", "gate_with_mpo:direct:transpose",
                   "mps_gate_with_mpo_direct", "mps_gate_with_mpo_dm", "mps_gate_with_mpo_zipup", "mps_gate_with_mpo_zipup_first")]


@obligation(PROP, params=_GATE, rounds=2, timeout_s=600, max_rows=60000, wall_s=500)
def gate_with_mpo_entry_points(mk, entry):
    """MPO applied to an MPS and compressed back (cutoff=0) through the MPS-level entry points"""
    mk.encodes(c1.MatrixProductState.gate_with_mpo, cp.mps_gate_with_mpo_direct, cp.mps_gate_with_mpo_dm, cp.mps_gate_with_mpo_zipup,
               cp.mps_gate_with_mpo_zipup_first, cp.mps_gate_with_mpo_lazy, cp.tensor_network_1d_compress)
    L = 3
    O, Or = sym_mpo(mk, "O", L, 1, None, False, "real")
    x, Xr = sym_mps(mk, "X", L, 2, None, False, "real")
    MO, vx = raw_op(Or), _flat(raw_vec(Xr))
    out = tuple(f"k{i}" for i in range(L))
    if "dm" in entry:
        stubs.OPTIONS["eigh_spectrum"] = _DM_SPECTRUM
    try:
        with warnings.catch_warnings():
            warnings.simplefilter("ignore")
            if entry.startswith("gate_with_mpo:"):
                parts = entry.split(":")
                tr = len(parts) > 2
                y = x.gate_with_mpo(O, method=parts[1], transpose=tr, cutoff=0.0)
                want = ref.matmul(MO.T if tr else MO, vx)
            else:
                y = getattr(cp, entry)(x, O, cutoff=0.0)
                want = ref.matmul(MO, vx)
    finally:
        stubs.OPTIONS["eigh_spectrum"] = "real"
    _structure_goals(mk, entry, y, L, out, "vec")
    mk.eq(f"{entry}: dense value == A @ x", _flat(vdense(y)), want)
    canonical_goals(mk, entry, y, "right", L)
    mk.eq(f"{entry}: state untouched", _flat(vdense(x)), vx)
    mk.eq(f"{entry}: operator untouched", odense(O), MO)


# ---------------------------------------------------------------------- iterative / randomised methods: numeric cross-run only

_ITER = ["fit", "fit-zipup", "fit-projector", "fit-oversample", "src", "src-oversample", "srcmps", "srcmps-oversample", "sdc", "sdc-oversample",
         "zipup-oversample", "projector", "local-early",
         # deterministic methods on a bond-4 two-layer input with a non-binding cap (the cap makes them take the truncating SVD /
         # eigh route on rank-deficient matrices, which the certificates do not cover)
         "direct", "dm", "zipup", "zipup-first"]


@obligation(PROP, params=[{"method": m, "_tiers": _Q if m in ("fit", "src", "sdc-oversample") else _T} for m in _ITER], num_trials=2, numeric_required=True)
def compress_iterative_numeric(mk, method):
    """NUMERIC ONLY (no symbolic claim): iterative / randomised methods reproduce the input to 1e-4 when the cap is not
    binding and never exceed a binding cap.  The symbolic run only records that the dispatcher knows the method."""
    mk.encodes(cp.tensor_network_1d_compress)
    if mk.sym:
        from quimb.tensor.tnag.compress import _TNAG_COMPRESS_METHODS as _AG  # noqa
        mk.same(f"method '{method}' is known to a dispatcher", method in cp._TN1D_COMPRESS_METHODS or method in _AG, True)
        mk.note("iterative / randomised method: numeric cross-run only")
        return
    L = 4
    O, Or = sym_mpo(mk, "O", L, 2, None, False, "real")
    x, Xr = sym_mps(mk, "X", L, 2, None, False, "real")
    tn = O.apply(x, contract=False)
    want = ref.matmul(raw_op(Or), _flat(raw_vec(Xr)))
    out = tuple(f"k{i}" for i in range(L))
    with warnings.catch_warnings():
        warnings.simplefilter("ignore")
        c = cp.tensor_network_1d_compress(tn, max_bond=4, cutoff=0.0, method=method)
        c1_ = cp.tensor_network_1d_compress(tn, max_bond=1, cutoff=0.0, method=method)
    _structure_goals(mk, method, c, L, out, "vec")
    mk.same(f"{method}: max_bond=4 respected", c.max_bond() <= 4, True)
    mk.eq(f"{method}: value reproduced when the cap is not binding", _flat(vdense(c)), want, tol=1e-4)
    mk.same(f"{method}: max_bond=1 respected", c1_.max_bond() <= 1, True)
    _structure_goals(mk, f"{method} max_bond=1", c1_, L, out, "vec")
    # caps above the methods' internal starting / doubling sizes and off their grids (a long chain whose exact
    # bonds exceed every cap): the cap is a promise about shapes, whatever the values
    rng = np.random.default_rng(11)
    big = qtn.MatrixProductState([rng.normal(size=((24, 2) if i in (0, 9) else (24, 24, 2))) for i in range(10)])
    big = big / big.norm()
    for cap in (3, 9, 12, 20):
        with warnings.catch_warnings():
            warnings.simplefilter("ignore")
            cb = cp.tensor_network_1d_compress(big, max_bond=cap, cutoff=0.0, method=method)
        mk.same(f"{method}: max_bond={cap} respected on a long chain (exact bonds up to 24)", cb.max_bond() <= cap, True)


# ---------------------------------------------------------------------- documented options of the 1D compression drivers

_OPTS = []
for m_ in _DIRECT:
    for o_ in ("canonize=False", "normalize", "normalize,sweep_reverse", "inplace", "permute=plr", "max_bond=2", "max_bond=2,cutoff_mode=rel", "site_tags"):
        if m_ == "dm" and (o_ == "canonize=False" or o_.startswith("max_bond")):
            # canonize is a dummy argument of dm; with a cap, dm keeps the leading eigenvectors of a rank-deficient reduced
            # density matrix: exactness then rests on the discarded eigenvalues being zero, which is not a consequence the
            # certificate search can derive from the eigh contract (covered numerically by compress_iterative_numeric-like runs)
            continue
        _OPTS.append({"method": m_, "option": o_, "_tiers": _Q if ((m_ == "direct" and o_ in ("normalize", "inplace", "max_bond=2"))
                                                                   or (m_ in ("direct", "zipup", "dm") and o_ == "normalize,sweep_reverse")) else _T})


@obligation(PROP, params=_OPTS, rounds=2, rounds2=3, timeout_s=600, max_rows=60000, wall_s=500)
def compress_options(mk, method, option):
    """documented options of tensor_network_1d_compress on a bond-2 state, nothing truncated"""
    mk.encodes(cp.tensor_network_1d_compress, cp._TN1D_COMPRESS_METHODS[method], cp._form_final_tn_from_tensor_sequence, cp.possibly_permute_)
    L = 2 if option.startswith("normalize") else 3       # (the proportionality certificate is too large for L = 3)
    a, Ar = sym_mps(mk, "A", L, 2, None, False, "real")
    va = raw_vec(Ar)
    out = tuple(f"k{i}" for i in range(L))
    kw = {"canonize=False": {"canonize": False}, "normalize": {"normalize": True}, "inplace": {"inplace": True},
          "normalize,sweep_reverse": {"normalize": True, "sweep_reverse": True},
          "permute=plr": {"permute_arrays": "plr"}, "max_bond=2": {"max_bond": 2}, "max_bond=2,cutoff_mode=rel": {"max_bond": 2, "cutoff_mode": "rel"},
          "site_tags": {"site_tags": tuple(f"I{i}" for i in reversed(range(L)))}}[option]
    tn = a.copy()
    if method == "dm":
        stubs.OPTIONS["eigh_spectrum"] = _DM_SPECTRUM
    try:
        with warnings.catch_warnings():
            warnings.simplefilter("ignore")
            c = cp.tensor_network_1d_compress(tn, cutoff=0.0, method=method, **kw)
    finally:
        stubs.OPTIONS["eigh_spectrum"] = "real"
    tag = f"{method}({option})"
    vc = vdense(c)
    if option.startswith("normalize"):
        n2 = inner(va, va)
        fa, fc = _flat(va), _flat(vc)
        if mk.sym:
            # the routine divided the centre tensor by r = sqrt(its squared norm) (a defined symbol): state the goals on
            # u = r * result, which is free of 1/r, so that the defining relation r^2 = ... can be used as a rewrite rule
            roots = [P._mono(i) for i, (k, nm) in enumerate(zip(P.TAB.kind, P.TAB.names)) if k == "def" and nm.startswith("sqrt")]
            mk.same(f"{tag}: exactly one square root taken (the norm of the centre tensor)", len(roots), 1)
            r = roots[0]
            u = fc * r
            mk.eq(f"{tag}: result has unit norm  (<u|u> == r^2, u = r * result)", inner(u, u), r * r)
            mk.eq(f"{tag}: result is proportional to the input  (r^2 input == <u|input> u)", u * inner(u, fa), fa * (r * r))
            mk.eq(f"{tag}: r^2 == <input|input>", r * r, n2)
        else:
            mk.eq(f"{tag}: result has unit norm", inner(fc, fc), 1)
            mk.eq(f"{tag}: result == input / ||input||", vc * float(n2) ** 0.5, va)
        mk.same(f"{tag}: exponent reset", float(c.exponent), 0.0)
    else:
        mk.eq(f"{tag}: dense value reproduced", vc, va)
    if option == "inplace":
        mk.same(f"{tag}: the input object is returned", c is tn, True)
    else:
        mk.eq(f"{tag}: input untouched", vdense(tn), va)
    if option == "permute=plr":
        want = []
        for i in range(L):
            ix = [f"k{i}"]
            if i > 0:
                ix.append(c.bond(i - 1, i))
            if i < L - 1:
                ix.append(c.bond(i, i + 1))
            want.append(tuple(ix))
        mk.same(f"{tag}: arrays stored in (physical, left, right) order", [tuple(c[i].inds) for i in range(L)], want)
        mk.same(f"{tag}: type / labels", (type(c) is qtn.MatrixProductState, set(c.outer_inds())), (True, set(out)))
    else:
        _structure_goals(mk, tag, c, L, out, "vec")
    if option.startswith("max_bond"):
        mk.same(f"{tag}: cap respected", c.max_bond() <= 2, True)
    if option != "canonize=False":
        canonical_goals(mk, tag, c, "left" if option in ("site_tags", "normalize,sweep_reverse") else "right", L)
