"""C07 - all circuit simulators implement the same unitary semantics, no stale caches.

 (a) gate vocabulary: every registered constant gate (exact algebraic lift of its float table) and
     every registered parametrised gate (parameters symbolic: cos / sin / exp become unit symbols
     with exact relations) is unitary for ALL parameter values; a textbook table is an independent
     oracle; controlled forms equal |0><0| (x) 1 + |1><1| (x) U.
 (b) simulators: Circuit (every gate_contract mode), CircuitDense, CircuitMPS, CircuitPermMPS on
     programs over the vocabulary (constant, parametrised, controlled / multi-controlled, SWAP,
     IDEN, raw symbolic matrices): the held state and every query (dense state, amplitudes,
     unitary, reduced density matrices, local expectations, marginals) equal the reference
     product U_n ... U_1 |psi0> built from the table.
 (c) histories: apply -> query -> apply -> update parameters -> query equals a fresh circuit; circuits with
     named parameters (register_named_params / OpenQASM 3 input): updates by name, by gate index, mixed and
     through update_params_from, every query kind before and after.
 (d) permutation tracking: a non-adjacent two-qubit gate followed by SWAP on every qubit pair and further gates,
     on every simulator (CircuitPermMPS then works through a non-trivial site <-> qubit map).
"""
import itertools
import math

import numpy as np

import quimb as qu
import quimb.tensor as qtn
from quimb.tensor.circuit import gates as G
from quimb.tensor.circuit import core as ccore
from quimb.tensor.circuit import exact as cexact
from quimb.tensor.circuit import mps as cmps

from qv import poly as P
from qv import ref, stubs
from qv.harness import obligation, Skip

PROP = "C07"
META = {
    "bounds": {
        "quick": {"qubits": "3 (4 in the perm4-* programs and perm_tracking N=4)", "program length": "<= 8 gates",
                  "parameters": "symbolic reals (all values at once)",
                  "simulators": "Circuit x {False, True, auto-split-gate, split-gate, swap-split-gate}, CircuitDense, CircuitMPS, CircuitPermMPS; "
                                "CircuitMPSLazy x {dm, direct} in the labelled numeric-only supplement mps_lazy_numeric",
                  "queries": "to_dense, amplitude, uni, partial_trace, local_expectation (non-symmetric symbolic operator), compute_marginal",
                  "MPS queries": "partial_trace / local_expectation (symbolic complex operator) on one and two sites in both orders, adjacent and "
                                 "non-adjacent, bare-integer argument; compute_marginal on one / two / all sites; to_dense and amplitude "
                                 "after the in-place re-canonisation of local_expectation; on programs with complex amplitudes (RX, RZ, T, Y, CY) "
                                 "and with a permuted site order",
                  "perm_tracking": "first two-qubit gate on every ordered non-adjacent pair (N = 3, 4) x SWAP on every ordered pair (N = 3) / every "
                                   "unordered pair (N = 4), then IDEN, RY, CX on the swapped qubits; all simulator classes",
                  "named parameters": "2 names + 1 directly parametrised gate; expressions: bare name, arithmetic string, callable; built by "
                                      "register_named_params and by OpenQASM 3 input declarations; histories of <= 3 updates by name only / "
                                      "one name / gate index only / mixed / update_params_from, old and new values symbolic; every query kind "
                                      "before and after each update"},
        "thorough": {"program length": "<= 8", "more programs and query arguments": True},
    },
    "outside": ["sampling statistics (samplers run in the numeric cross-run only: support on non-zero probability strings, MPS sample probability == |amplitude|^2; "
                "after a parameter update: same seed gives the samples of a fresh circuit)",
                "strength / optimality of simplification and light-cone cancellation", "N > 4 (N = 4 only for the permutation programs)", "PEPS / PEPO simple-update circuit classes symbolically (numerical gauge conditioning): numeric-only supplement simple_update_circuits_numeric on tree geometries, untruncated; 2D lattices (approximate by design) not covered",
                "qasm / qsim parsers (only the OpenQASM 3 input-parameter registration is exercised)",
                "gate-splitting of *symbolic* two-qubit gates by numerical rank detection (cutoff on symbolic singular values): numeric cross-run only",
                "truncating MPS options",
                "CircuitMPSLazy (compression by eigen-decomposition with numerical rank detection): numeric cross-run only",
                "MPS compute_marginal with fix= (the library rescales tensors by float roots of 2: equal to floating point only): numeric runs only",
                "MPS local_expectation on the 4-qubit programs: numeric cross-run only (isometry certificates > 10**5 rows)",
                "CircuitMPS (swap + swap back) with a two-qubit gate at distance 3: not in perm_tracking (certificate search beyond the budget)",
                "S / SDG in MPS programs (their float table carries a 6e-17 real residue that exact certificates cannot absorb): T, RX, RZ, Y, CY supply the complex amplitudes",
                "named-parameter expressions with additive constants (pi ...): exp of a non-zero constant is not modelled",
                "named parameters on the MPS classes (documented as non-functional there)"],
    "assumptions": ["float gate tables denote the algebraic numbers they round (k/96, k*sqrt(2)/96, ...)",
                    "constants produced by numeric LAPACK on constant gate arrays are compared up to 1e-9 in polynomial coefficients",
                    "LAPACK contracts (stubs) for the MPS simulators; singular values only assumed non-negative there",
                    "MPS partial_trace / local_expectation / compute_marginal: decided in two stages on separate paths (held dense state == reference state; "
                    "query == the quantity computed from the held dense state), composed by transitivity"],
}


# ---------------------------------------------------------------------- mode-agnostic scalar functions

def _cos(mk, x):
    return P.lift(x).cos() if mk.sym else math.cos(x)


def _sin(mk, x):
    return P.lift(x).sin() if mk.sym else math.sin(x)


def _expi(mk, x):
    return (P.lift(x) * P.I).exp() if mk.sym else complex(math.cos(x), math.sin(x))


def _I(mk):
    return P.I if mk.sym else 1j


def mat(mk, rows):
    n = len(rows)
    a = np.empty((n, len(rows[0])), dtype=object if mk.sym else complex)
    for i, r in enumerate(rows):
        for j, v in enumerate(r):
            a[i, j] = (P.lift(v) if mk.sym else v)
    return a


def S2(mk):
    return P.alg_sqrt(2) if mk.sym else math.sqrt(2)


# textbook table (independent of quimb's tables): name -> function(mk, *params) -> matrix
def tb_const(mk, name):
    i = _I(mk)
    r = 1 / S2(mk) if not mk.sym else S2(mk) * P.lift(1) / 2
    t = {
        "H": [[r, r], [r, -r]],
        "X": [[0, 1], [1, 0]],
        "Y": [[0, -i], [i, 0]],
        "Z": [[1, 0], [0, -1]],
        "S": [[1, 0], [0, i]],
        "SDG": [[1, 0], [0, -i]],
        "T": [[1, 0], [0, (1 + i) * r]],
        "TDG": [[1, 0], [0, (1 - i) * r]],
        "IDEN": [[1, 0], [0, 1]],
        "CX": [[1, 0, 0, 0], [0, 1, 0, 0], [0, 0, 0, 1], [0, 0, 1, 0]],
        "CNOT": [[1, 0, 0, 0], [0, 1, 0, 0], [0, 0, 0, 1], [0, 0, 1, 0]],
        "CY": [[1, 0, 0, 0], [0, 1, 0, 0], [0, 0, 0, -i], [0, 0, i, 0]],
        "CZ": [[1, 0, 0, 0], [0, 1, 0, 0], [0, 0, 1, 0], [0, 0, 0, -1]],
        "SWAP": [[1, 0, 0, 0], [0, 0, 1, 0], [0, 1, 0, 0], [0, 0, 0, 1]],
        "ISWAP": [[1, 0, 0, 0], [0, 0, i, 0], [0, i, 0, 0], [0, 0, 0, 1]],
    }
    if name in t:
        return mat(mk, t[name])
    if name in ("CCX", "CCNOT", "TOFFOLI", "CCY", "CCZ"):
        u = tb_const(mk, {"CCX": "X", "CCNOT": "X", "TOFFOLI": "X", "CCY": "Y", "CCZ": "Z"}[name])
        return controlled(mk, u, 2)
    if name in ("CSWAP", "FREDKIN"):
        return controlled(mk, tb_const(mk, "SWAP"), 1)
    return None


def controlled(mk, U, ncontrol=1):
    n = U.shape[0]
    for _ in range(ncontrol):
        out = ref.eye(2 * n, like=U)
        out = np.array(out, dtype=U.dtype)
        for a in range(n):
            for b in range(n):
                out[n + a, n + b] = U[a, b]
        U = out
        n = 2 * n
    return U


def tb_param(mk, name, p):
    i = _I(mk)
    c = lambda x: _cos(mk, x)
    s = lambda x: _sin(mk, x)
    e = lambda x: _expi(mk, x)
    half = (lambda x: x / 2) if not mk.sym else (lambda x: P.lift(x) * P.lift(1) / 2)
    if name == "RX":
        return mat(mk, [[c(half(p[0])), -i * s(half(p[0]))], [-i * s(half(p[0])), c(half(p[0]))]])
    if name == "RY":
        return mat(mk, [[c(half(p[0])), -s(half(p[0]))], [s(half(p[0])), c(half(p[0]))]])
    if name == "RZ":
        return mat(mk, [[e(-half(p[0]) if not mk.sym else half(p[0]) * -1), 0], [0, e(half(p[0]))]])
    if name == "U3":
        th, ph, la = p
        return mat(mk, [[c(half(th)), -e(la) * s(half(th))], [e(ph) * s(half(th)), e(la + ph) * c(half(th))]])
    if name == "U2":
        ph, la = p
        r = (1 / S2(mk)) if not mk.sym else S2(mk) * P.lift(1) / 2
        return mat(mk, [[r, -e(la) * r], [e(ph) * r, e(ph + la) * r]])
    if name in ("U1", "PHASE"):
        return mat(mk, [[1, 0], [0, e(p[0])]])
    if name in ("CU3", "CU2", "CU1", "CPHASE", "CRX", "CRY", "CRZ"):
        base = {"CU3": "U3", "CU2": "U2", "CU1": "U1", "CPHASE": "U1", "CRX": "RX", "CRY": "RY", "CRZ": "RZ"}[name]
        return controlled(mk, tb_param(mk, base, p), 1)
    if name in ("RXX", "RYY", "RZZ"):
        pa = tb_const(mk, {"RXX": "X", "RYY": "Y", "RZZ": "Z"}[name])
        PP = ref.kron(pa, pa)
        I4 = ref.eye(4, like=PP)
        return I4 * c(half(p[0])) + PP * (-i * s(half(p[0])))
    if name in ("FSIM", "FS"):
        th, ph = p
        return mat(mk, [[1, 0, 0, 0], [0, c(th), -i * s(th), 0], [0, -i * s(th), c(th), 0], [0, 0, 0, e(ph * -1 if mk.sym else -ph)]])
    if name == "GIVENS":
        th = p[0]
        return mat(mk, [[1, 0, 0, 0], [0, c(th), -s(th), 0], [0, s(th), c(th), 0], [0, 0, 0, 1]])
    return None


_NPARAMS = {"RX": 1, "RY": 1, "RZ": 1, "U3": 3, "U2": 2, "U1": 1, "PHASE": 1, "CU3": 3, "CU2": 2, "CU1": 1, "CPHASE": 1,
            "CRX": 1, "CRY": 1, "CRZ": 1, "FSIM": 2, "FS": 2, "FSIMG": 5, "GIVENS": 1, "GIVENS2": 2, "XXPLUSYY": 2,
            "XXMINUSYY": 2, "RXX": 1, "RYY": 1, "RZZ": 1, "SU4": 15}


def params(mk, name, tag=""):
    n = _NPARAMS[name]
    ps = [mk.scalar(f"{tag}p{i}", "real") for i in range(n)]
    return ps


def as_param_array(mk, ps):
    return np.array(ps, dtype=object) if mk.sym else np.array(ps, dtype=float)


def unitary_goal(mk, label, U):
    U = np.asarray(U)
    n = int(round(math.sqrt(U.size)))
    U = U.reshape(n, n)
    mk.eq(f"{label}: U^dag U == 1", ref.matmul(ref.dag(U), U), ref.eye(n, like=U))
    mk.eq(f"{label}: U U^dag == 1", ref.matmul(U, ref.dag(U)), ref.eye(n, like=U))


# ---------------------------------------------------------------------- (a) vocabulary

@obligation(PROP)
def constant_gates(mk):
    """every registered constant gate is unitary; textbook values"""
    mk.encodes(G.register_constant_gate)
    seen = 0
    for name, arr in sorted(G.CONSTANT_GATES.items()):
        U = mk.const(np.asarray(arr))
        unitary_goal(mk, f"constant gate {name}", U)
        want = tb_const(mk, name)
        if want is not None:
            n = want.shape[0]
            mk.eq(f"constant gate {name} == textbook matrix", np.asarray(U).reshape(n, n), want)
            seen += 1
        mk.same(f"{name}: size matches the registered qubit count", np.asarray(arr).size, 4 ** G.GATE_SIZE[name])
    mk.same("textbook table covers the common gates", seen >= 15, True)
    # square roots: X_1_2 squared is X etc.
    for nm, base in (("X_1_2", "X"), ("Y_1_2", "Y"), ("Z_1_2", "Z")):
        # documented as rotations by pi/2: they square to the Pauli up to the global phase -i
        U = mk.const(np.asarray(G.CONSTANT_GATES[nm]))
        mk.eq(f"{nm} squared == -i {base}", ref.matmul(U, U), tb_const(mk, base) * (_I(mk) * -1))
    sx_ = mk.const(np.asarray(G.CONSTANT_GATES["SX"]))
    mk.eq("SX squared == X", ref.matmul(sx_, sx_), tb_const(mk, "X"))
    mk.eq("SXDG == SX^dag", mk.const(np.asarray(G.CONSTANT_GATES["SXDG"])), ref.dag(sx_))


@obligation(PROP, params=[{"name": n} for n in sorted(_NPARAMS)])
def param_gate(mk, name):
    """a registered parametrised gate: unitary for all parameter values; textbook formula"""
    mk.encodes(G.PARAM_GATES[name])
    ps = params(mk, name)
    U = np.asarray(G.PARAM_GATES[name](as_param_array(mk, ps)))
    n = 2 ** G.GATE_SIZE[name]
    U = U.reshape(n, n)
    unitary_goal(mk, f"{name}(params)", U)
    want = tb_param(mk, name, ps)
    if want is not None:
        mk.eq(f"{name}(params) == textbook formula", U, want)
    # Gate object gives the same array
    g = qtn.Gate(name, as_param_array(mk, ps), tuple(range(G.GATE_SIZE[name])))
    mk.eq(f"Gate('{name}', params).array == registered builder", np.asarray(g.array).reshape(n, n), U)


@obligation(PROP)
def param_gate_relations(mk):
    """relations between parametrised gates that pin conventions down"""
    a, b, c = (mk.scalar(x, "real") for x in "abc")
    arr = lambda *xs: as_param_array(mk, list(xs))
    rx, ry, rz = (np.asarray(G.PARAM_GATES[k](arr(a))).reshape(2, 2) for k in ("RX", "RY", "RZ"))
    X, Y, Z = (tb_const(mk, k) for k in "XYZ")
    i = _I(mk)
    # d/da at 0 is not available symbolically: use the group law R(a) R(b) == R(a + b)
    for nm, gen in (("RX", X), ("RY", Y), ("RZ", Z)):
        Ra = np.asarray(G.PARAM_GATES[nm](arr(a))).reshape(2, 2)
        Rb = np.asarray(G.PARAM_GATES[nm](arr(b))).reshape(2, 2)
        Rab = np.asarray(G.PARAM_GATES[nm](arr(a + b))).reshape(2, 2)
        mk.eq(f"{nm}(a) {nm}(b) == {nm}(a+b)", ref.matmul(Ra, Rb), Rab)
        mk.eq(f"{nm}(a) commutes with its Pauli", ref.matmul(Ra, gen), ref.matmul(gen, Ra))
    u3 = np.asarray(G.PARAM_GATES["U3"](arr(a, b, c))).reshape(2, 2)
    ph = _expi(mk, (b + c) * (P.lift(1) / 2 if mk.sym else 0.5))
    mk.eq("U3(a,b,c) == e^{i(b+c)/2} RZ(b) RY(a) RZ(c)",
          u3, ref.matmul(ref.matmul(np.asarray(G.PARAM_GATES["RZ"](arr(b))).reshape(2, 2), np.asarray(G.PARAM_GATES["RY"](arr(a))).reshape(2, 2)),
                         np.asarray(G.PARAM_GATES["RZ"](arr(c))).reshape(2, 2)) * ph)


# ---------------------------------------------------------------------- (b) simulators

# gate spec: (name, params..., qubits...) with params given as letters; raw gates ("RAW", k, qubits)
PROGRAMS = {
    "bell+ry": [("H", 0), ("RY", "a", 1), ("CX", 0, 2), ("RZ", "b", 1)],
    "reversed-cx": [("RY", "a", 0), ("RY", "b", 2), ("CX", 2, 0), ("CZ", 1, 0)],
    "swap-iden": [("RY", "a", 0), ("RX", "b", 1), ("SWAP", 0, 2), ("IDEN", 1), ("CX", 2, 1)],
    "idle-qubit": [("H", 0), ("SWAP", 1, 2), ("RY", "a", 0)],
    "u3-cu3": [("U3", "a", "b", "c", 1), ("CU3", "a", "b", "c", 1, 0), ("H", 2)],
    "rzz-fsim": [("H", 0), ("H", 1), ("RZZ", "a", 0, 1), ("FSIM", "a", "b", 2, 1)],
    "raw": [("RAW", 1, 1), ("RAW", 2, 2, 0), ("H", 1)],
    "toffoli": [("H", 0), ("RY", "a", 1), ("CCX", 0, 1, 2), ("CSWAP", 2, 0, 1)],
    "controls": [("RY", "a", 0), ("RY", "b", 1), ("X", 2, {"controls": (0, 1)}), ("RZ", "c", 0, {"controls": (2,)})],
    "distant-param": [("RY", "a", 0), ("CRX", "b", 0, 2), ("CRY", "c", 2, 0), ("PHASE", "a", 1)],
    # genuinely complex amplitudes (RX / T / RZ / Y): reduced density matrices have imaginary off-diagonal
    # entries on every site subset, so a transposed / conjugated answer differs from the true one
    "complex": [("RX", "a", 0), ("RY", "b", 2), ("CX", 0, 2), ("T", 2), ("RX", "b", 1), ("CX", 2, 1), ("RZ", "a", 1)],
    "complex-y": [("RX", "a", 1), ("T", 1), ("RY", "b", 0), ("CY", 1, 0), ("RZ", "b", 2), ("RX", "a", 2), ("CZ", 0, 2)],
    # a non-adjacent two-qubit gate comes first (the permutation-tracking simulator then holds a non-trivial
    # site <-> qubit map), followed by SWAP / IDEN specials and further one- and two-qubit gates
    "perm-swap01": [("RY", "a", 0), ("RX", "b", 1), ("RY", "c", 2), ("CX", 0, 2), ("SWAP", 0, 1), ("IDEN", 2), ("CX", 1, 2)],
    "perm-swap12": [("RY", "a", 0), ("RX", "b", 1), ("CX", 0, 2), ("SWAP", 1, 2), ("RY", "c", 1), ("CX", 1, 0)],
    "perm-swap20": [("RY", "a", 0), ("RX", "b", 1), ("RY", "c", 2), ("CX", 2, 0), ("SWAP", 2, 0), ("CZ", 0, 1), ("RY", "a", 1)],
    "perm4-swap12": [("RY", "a", 0), ("RX", "b", 1), ("RY", "c", 2), ("CX", 1, 3), ("SWAP", 1, 2), ("IDEN", 0), ("CX", 2, 3)],
    "perm4-mixed": [("RY", "a", 0), ("RX", "b", 1), ("RY", "c", 3), ("CX", 0, 2), ("SWAP", 0, 1), ("CZ", 1, 3), ("SWAP", 3, 2),
                    ("CX", 2, 0)],
}
# number of qubits of a program (default 3)
PROG_N = {"perm4-swap12": 4, "perm4-mixed": 4}
# programs added for the query / permutation coverage of the MPS classes
_NEW_PROGS = ("complex", "complex-y", "perm-swap01", "perm-swap12", "perm-swap20", "perm4-swap12", "perm4-mixed")
TWOQ_PARAM = {"RZZ", "RXX", "RYY", "FSIM", "CU3", "CU2", "CU1", "CRX", "CRY", "CRZ", "CPHASE", "GIVENS"}


def build_program(mk, key, kind="cplx"):
    """key: name in PROGRAMS or a list of gate specs.
    returns list of (name, params list, qubits tuple, controls tuple|None, array)"""
    letters = {}
    out = []
    rawn = 0
    for spec in (PROGRAMS[key] if isinstance(key, str) else key):
        opts = {}
        if isinstance(spec[-1], dict):
            opts = spec[-1]
            spec = spec[:-1]
        name = spec[0]
        if name == "RAW":
            k = spec[1]
            qs = tuple(spec[2:])
            rawn += 1
            U = mk.array(f"RAW{rawn}", (2 ** k, 2 ** k), kind)
            out.append(("RAW", [], qs, None, U))
            continue
        nq = G.GATE_SIZE[name]
        ps = list(spec[1:len(spec) - nq])
        qs = tuple(spec[len(spec) - nq:])
        pv = []
        for l in ps:
            if l not in letters:
                letters[l] = mk.scalar(l, "real")
            pv.append(letters[l])
        arr = tb_param(mk, name, pv) if pv else tb_const(mk, name)
        assert arr is not None, name
        ctr = opts.get("controls")
        out.append((name, pv, qs, ctr, arr))
    return out


def ref_state(mk, prog, N, v0):
    v = v0
    dims = [2] * N
    for name, pv, qs, ctr, arr in prog:
        if ctr:
            U = controlled(mk, arr, len(ctr))
            where = tuple(ctr) + tuple(qs)
        else:
            U, where = arr, qs
        v = ref.matmul(ref.embed(U, dims, where), v)
    return v


def ref_unitary(mk, prog, N):
    dims = [2] * N
    Ut = ref.eye(2 ** N, like=prog[0][4])
    Ut = np.array(Ut, dtype=object if mk.sym else complex)
    for name, pv, qs, ctr, arr in prog:
        if ctr:
            U = controlled(mk, arr, len(ctr))
            where = tuple(ctr) + tuple(qs)
        else:
            U, where = arr, qs
        Ut = ref.matmul(ref.embed(U, dims, where), Ut)
    return Ut


def apply_program(mk, circ, prog, **kw):
    for name, pv, qs, ctr, arr in prog:
        if name == "RAW":
            circ.apply_gate_raw(arr, qs, **kw)
        elif ctr:
            circ.apply_gate(name, *pv, *qs, controls=ctr, **kw)
        else:
            circ.apply_gate(name, *pv, *qs, **kw)


def basis0(mk, N):
    v = np.zeros(2 ** N, dtype=object if mk.sym else complex)
    if mk.sym:
        for i in range(v.size):
            v[i] = P.ZERO
        v[0] = P.ONE
    else:
        v[0] = 1.0
    return v


def _conj(a):
    a = np.asarray(a)
    if a.dtype == object:
        return np.array([P.lift(x).conjugate() for x in a.reshape(-1)], dtype=object).reshape(a.shape)
    return np.conj(a)


NOSIMP = dict(simplify_sequence="", simplify_equalize_norms=False)


# ---- reference values of the queries, from a dense state vector (explicit loops: qv.ref)

def ref_rdm(v, N, keep):
    """reduced density matrix of the sites ``keep`` (rows / columns ordered as requested)"""
    T = np.asarray(v).reshape((2,) * N)
    lab = tuple(f"k{i}" for i in range(N))
    out = tuple(f"k{i}" for i in keep) + tuple(f"b{i}" for i in keep)
    bl = tuple(f"b{i}" if i in keep else f"k{i}" for i in range(N))
    return ref.sum_of_products([(T, lab), (_conj(T), bl)], out).reshape(2 ** len(keep), 2 ** len(keep))


def ref_expect(v, N, O, where):
    """<v| O_where |v>"""
    M = ref.embed(O, [2] * N, where)
    want = 0
    for x, y in zip(_conj(v), ref.matmul(M, v)):
        want = want + x * y
    return want


def ref_marginal(v, N, where, fix=None):
    """probability tensor of the qubits ``where`` (other qubits traced out, or projected on ``fix``)"""
    v = np.asarray(v).reshape(-1)
    probs = np.array([x * y for x, y in zip(_conj(v), v)], dtype=v.dtype).reshape((2,) * N)
    if fix:
        idx = tuple(int(fix[i]) if i in fix else slice(None) for i in range(N))
        rest = [i for i in range(N) if i not in fix]
        probs = probs[idx]
        lab = tuple(f"k{i}" for i in rest)
    else:
        lab = tuple(f"k{i}" for i in range(N))
    return ref.sum_of_products([(probs, lab)], tuple(f"k{i}" for i in where))


def query_args(N):
    """query arguments used for an N-qubit program: bit strings, kept / acted-on site tuples (one- and
    two-site, in increasing and in decreasing order)"""
    if N == 3:
        return dict(bits=("000", "101", "011"), keep=((1,), (2, 0)), where=((0,), (2, 0)), marg=((1,), (2, 0)))
    assert N == 4
    return dict(bits=("0000", "1010", "0111"), keep=((1,), (3, 0), (1, 2)), where=((0,), (3, 1), (0, 2)), marg=((3,), (2, 0)))


def query_goals(mk, circ, v, N, tag, full=True, otag=""):
    """all value queries of a circuit holding the reference state v (simplification passes are
    switched off here: their value-dependent structure detection is the subject of C04)"""
    kw = NOSIMP if isinstance(circ, qtn.Circuit) else {}
    qa = query_args(N)
    dense = np.asarray(circ.to_dense(**kw)).reshape(-1)
    mk.eq(f"{tag}: to_dense() == reference state", dense, v)
    if not full:
        return
    for b in qa["bits"]:
        idx = int(b, 2)
        mk.eq(f"{tag}: amplitude('{b}')", circ.amplitude(b, **kw), v[idx])
    for keep in qa["keep"]:
        want = ref_rdm(v, N, keep)
        rho = np.asarray(circ.partial_trace(keep, **kw))
        mk.eq(f"{tag}: partial_trace({keep}) == dense reduced state (sites in the requested order)", rho, want.reshape(rho.shape))
    for where in qa["where"]:
        nm = (f"O{len(where)}" if N == 3 else "O" + "".join(map(str, where))) + otag
        O = mk.array(nm, (2 ** len(where),) * 2, "cplx")
        want = ref_expect(v, N, O, where)
        mk.eq(f"{tag}: local_expectation(O, {where}) == <psi|O|psi>", circ.local_expectation(O, where, **kw), want)
    # marginals
    if hasattr(circ, "compute_marginal"):
        for where in qa["marg"]:
            want = ref_marginal(v, N, where)
            try:
                m = circ.compute_marginal(where, dtype="complex128", **kw)
            except (TypeError, NotImplementedError) as e:
                mk.note(f"compute_marginal{where} rejected: {type(e).__name__}")
                continue
            m = m.data if hasattr(m, "data") and not isinstance(m, np.ndarray) else m
            if mk.sym:
                # the library returns abs(.) of the contracted value: compare squares (|x|**2 needs no sign decision)
                mk.eq(f"{tag}: compute_marginal({where})**2 == (marginal probabilities)**2", np.asarray(m) ** 2, want * want)
            else:
                mk.eq(f"{tag}: compute_marginal({where}) == marginal probabilities", np.asarray(m), want)


_EXACT_CFG = {
    "lazy": dict(gate_contract=False),
    "eager": dict(gate_contract=True),
    "default": dict(),
    "split-gate": dict(gate_contract="split-gate"),
    "swap-split-gate": dict(gate_contract="swap-split-gate"),
}


def _has_sym_2q(prog):
    return any((name in TWOQ_PARAM or (name == "RAW" and len(qs) == 2) or (ctr and pv)) for name, pv, qs, ctr, arr in prog)


_SP = []
for key in PROGRAMS:
    for cfg in _EXACT_CFG:
        quick = cfg in ("lazy", "default") or key in ("bell+ry", "swap-iden", "perm-swap01")
        _SP.append({"sim": "Circuit", "cfg": cfg, "prog": key, "_tiers": ("quick", "thorough") if quick else ("thorough",)})
    _SP.append({"sim": "CircuitDense", "cfg": "-", "prog": key})


@obligation(PROP, params=_SP, timeout_s=400, wall_s=300)
def exact_simulators(mk, sim, cfg, prog):
    """Circuit / CircuitDense: state and every query equal the reference"""
    mk.encodes(ccore.CircuitBase.apply_gate, ccore.CircuitBase._apply_gate, cexact.Circuit.to_dense, cexact.Circuit.amplitude,
               cexact.Circuit.partial_trace, cexact.Circuit.local_expectation, cexact.Circuit.compute_marginal,
               cexact.Circuit.get_uni, G.Gate, G.apply_swap)
    N = PROG_N.get(prog, 3)
    p = build_program(mk, prog)
    if sim == "Circuit" and cfg in ("default", "split-gate", "swap-split-gate") and _has_sym_2q(p) and mk.sym:
        mk.note("numerical rank detection on a symbolic two-qubit gate: numeric cross-run only")
        mk.same("numeric-only configuration (symbolic run skipped)", True, True)
        return
    circ = qtn.Circuit(N, **_EXACT_CFG[cfg]) if sim == "Circuit" else qtn.CircuitDense(N)
    if cfg == "lazy" and any(ctr and len(ctr) > 1 for _, _, _, ctr, _ in p):
        mk.raises("multi-controlled gate with contract=False is rejected", lambda: apply_program(mk, circ, p), (ValueError,))
        return
    try:
        apply_program(mk, circ, p)
    except ValueError as e:
        if sim == "Circuit" and cfg in ("split-gate", "swap-split-gate") and "invalid for >2 sites" in str(e):
            # the gate-splitting modes are defined for two-site gates only: a rejection, never a wrong state
            mk.note(f"contract={cfg!r}: gate on more than two sites rejected by raising ValueError")
            mk.same("gate on more than two sites with a gate-splitting mode: rejected by raising", True, True)
            return
        raise
    v = ref_state(mk, p, N, basis0(mk, N))
    mk.same("gate record length", circ.num_gates, len(p))
    # light-cone based queries assume unitary gates: raw symbolic matrices are not unitary
    query_goals(mk, circ, v, N, f"{sim}[{cfg}]", full=(prog != "raw"))
    if sim == "Circuit":
        Uref = ref_unitary(mk, p, N)
        try:
            U = np.asarray(circ.get_uni().to_dense())
        except ValueError as e:
            if cfg == "eager":
                # gate_contract=True absorbs gates into the initial-state tensors: there is no separate
                # unitary network; an error is a rejection (never a silently wrong unitary)
                mk.note(f"uni rejected for gate_contract=True: {type(e).__name__}")
                mk.same("uni with gate_contract=True: rejected by raising", True, True)
                return
            mk.same(f"{sim}[{cfg}]: uni can be formed", f"raised {type(e).__name__}: {e}"[:80], "a unitary network")
            return
        mk.eq(f"{sim}[{cfg}]: uni == U_n ... U_1", U.reshape(2 ** N, 2 ** N), Uref)
    else:
        mk.raises("CircuitDense has no unitary network", lambda: circ.get_uni(), (NotImplementedError,))


_MPS_SIMS = ("CircuitMPS", "CircuitPermMPS")
_MP = [{"sim": s, "prog": k, "q": q,
        "_tiers": ("quick", "thorough") if (k in ("bell+ry", "swap-iden") and q == "state") else ("thorough",),
        "_mandatory": k in ("bell+ry", "swap-iden") and q == "state"}
       for s in _MPS_SIMS for k in PROGRAMS if k not in _NEW_PROGS for q in ("state", "expec")]
# query kinds decided against the *held* state (see mps_simulators): every program x class; quick for the
# programs with complex amplitudes / permuted site order and one older program
_MPQ = ("rdm", "expect", "marginal")
_MP += [{"sim": s, "prog": k, "q": "state", "_tiers": ("quick", "thorough"), "_mandatory": True} for s in _MPS_SIMS for k in _NEW_PROGS]
_MARG_SLOW = ("perm-swap20", "perm4-swap12", "perm4-mixed")      # (marginal)**2 identities of degree 8 in the tensors: 10 - 90 s
_MP += [{"sim": s, "prog": k, "q": q,
         "_tiers": ("quick", "thorough") if (k in _NEW_PROGS + ("swap-iden",) and not (k in _MARG_SLOW and q == "marginal"))
         else ("thorough",),
         # older programs whose state goal is itself beyond the certificate search (raw, toffoli ...) stay
         # non-mandatory in the thorough tier, as for q = state / expec
         "_mandatory": k in _NEW_PROGS + ("bell+ry", "swap-iden")}
        for s in _MPS_SIMS for k in PROGRAMS for q in _MPQ
        # stage A (state == reference) of these is itself beyond the certificate search (inconclusive / 500 s timeouts)
        if not (k == "raw" or (k == "toffoli" and s == "CircuitMPS"))]


def mps_query_args(N):
    """one- and two-site arguments in both orders (and a bare integer), adjacent and non-adjacent"""
    if N == 3:
        return dict(keep=(1, (0,), (0, 1), (1, 0), (2, 0), (0, 2)), where=(1, (2,), (0, 1), (1, 0), (2, 0), (0, 2)),
                    # (where, fix, decided symbolically?)  with fix the library rescales every tensor by the float
                    # nfact ** (1 / (2 * ntensors)) for numerical stability: equal to floating point only -> numeric runs
                    marg=(((1,), None, True), ((2, 0), None, True), ((0, 1, 2), None, True), ((2, 1), {0: "0"}, False),
                          ((1,), {0: "1", 2: "0"}, False), ((1,), {0: "1"}, False)))
    return dict(keep=(3, (1, 2), (2, 1), (3, 0), (0, 3), (1, 3)), where=(0, (3,), (1, 2), (2, 1), (3, 0), (0, 2)),
                marg=(((3,), None, True), ((2, 0), None, True), ((1, 0, 3, 2), None, True), ((1, 3), {0: "1", 2: "0"}, False),
                      ((2,), {3: "0"}, False)))


@obligation(PROP, params=_MP, rounds=2, timeout_s=500, wall_s=400, max_rows=80000)
def mps_simulators(mk, sim, prog, q):
    """CircuitMPS / CircuitPermMPS (no truncation): supported gates give the reference state; a
    gate the class does not support must be rejected (raise), never applied wrongly.

    q = state / expec: dense state, amplitudes, one local expectation against the reference.
    q = rdm / expect / marginal: two stages, decided on separate paths (so that the hypotheses of one stage do
    not enter the certificate search of the other); together they give  query == reference value:
      A  to_dense() == reference state                                   (LAPACK contracts, Q-CERT)
      B  query == the same quantity computed (qv.ref, explicit loops) from the dense state the object holds.
         rdm / marginal: a polynomial identity in the MPS tensor entries - decided with the factorisation
         contracts switched OFF (fresh unconstrained factors: it holds for every tensor content, and a
         false identity is refuted by a witness at once);  expect: needs the isometry contracts of the
         re-canonised tensors (Q-CERT), stated call by call relative to the held state.
    The numeric runs do both stages and also compare every query with the reference state directly."""
    mk.encodes(cmps.CircuitMPS, cmps.CircuitPermMPS, cmps.CircuitMPS.to_dense, cmps.CircuitMPS.amplitude,
               cmps.CircuitMPS.local_expectation, cmps.CircuitMPS.partial_trace, cmps.CircuitPermMPS.get_psi, G.apply_swap)
    N = PROG_N.get(prog, 3)
    staged = q in _MPQ
    if q == "expect" and N > 3 and mk.sym:
        # the isometry certificates of a 4-site canonical form exceed the row budget (> 10**5 rows): labelled
        # numeric-only supplement (the numeric runs below compare every call with the reference state)
        mk.note("local_expectation on 4-qubit MPS programs: numeric cross-run only")
        mk.same("numeric-only configuration (symbolic run skipped)", True, True)
        return
    stage = (mk.choice("stage", ("A", "B")) if mk.sym else "AB") if staged else "A"
    p = build_program(mk, prog, kind="real")
    stubs.OPTIONS["svd_positive"] = False
    if stage == "B" and q in ("rdm", "marginal"):
        stubs.OPTIONS["contracts"] = False
    try:
        cls = getattr(qtn, sim)
        circ = cls(N, gate_opts={"cutoff": 0.0})
        applied = []
        for item in p:
            try:
                apply_program(mk, circ, [item])
                applied.append(item)
            except (TypeError, ValueError, NotImplementedError, KeyError) as e:
                mk.note(f"{sim} rejected {item[0]} on {item[2]}: {type(e).__name__}")
                mk.same(f"{sim}: rejection of {item[0]}{item[2]} is clean (raises)", True, True)
                break
        v = ref_state(mk, applied, N, basis0(mk, N)) if applied else basis0(mk, N)
        if q == "state":
            dense = np.asarray(circ.to_dense()).reshape(-1)
            mk.eq(f"{sim}: to_dense() == reference state of the applied gates", dense, v)
            for b in (("000", "110") if N == 3 else ("0000", "1101", "0110")):
                mk.eq(f"{sim}: amplitude('{b}')", circ.amplitude(b), v[int(b, 2)])
            return
        if q == "expec":
            O = mk.array("O1", (2, 2), "real")
            M = ref.embed(O, [2] * N, (1,))
            want = 0
            for x, y in zip(_conj(v), ref.matmul(M, v)):
                want = want + x * y
            mk.eq(f"{sim}: local_expectation(O, 1) == <psi|O|psi>", circ.local_expectation(O, (1,)), want)
            return
        mk.encodes(cmps.CircuitMPS.compute_marginal, cmps.CircuitPermMPS.local_expectation, cmps.CircuitPermMPS._apply_gate)
        qa = mps_query_args(N)
        held = np.asarray(circ.to_dense()).reshape(-1)
        if "A" in stage:
            mk.eq(f"{sim}: to_dense() == reference state of the applied gates", held, v)
        if "B" not in stage:
            return
        # in the numeric runs the queries are also compared with the reference state directly
        targets = [("the held state", held)] + ([] if mk.sym else [("the reference state", v)])
        if q == "rdm":
            for keep in qa["keep"]:
                kt = (keep,) if isinstance(keep, int) else keep
                rho = np.asarray(circ.partial_trace(keep))
                mk.same(f"{sim}: partial_trace({keep}) shape", rho.shape, (2 ** len(kt),) * 2)
                for nm, vv in targets:
                    mk.eq(f"{sim}: partial_trace({keep}) == reduced density matrix of {nm} (sites in the requested order)",
                          rho, ref_rdm(vv, N, kt))
        elif q == "marginal":
            for where, fix, symbolic in qa["marg"]:
                if mk.sym and not symbolic:
                    # fix=...: float rescaling inside the library (equal to floating point only): this argument
                    # combination runs in the numeric cross-run / replays only
                    continue
                m = np.asarray(circ.compute_marginal(where, fix=fix))
                for nm, vv in targets:
                    want = ref_marginal(vv, N, where, fix)
                    if mk.sym:
                        # the library returns abs(.) of the contracted value: compare squares
                        mk.eq(f"{sim}: compute_marginal({where}, fix={fix})**2 == (marginal probabilities of {nm})**2",
                              m ** 2, want * want)
                    else:
                        mk.eq(f"{sim}: compute_marginal({where}, fix={fix}) == marginal probabilities of {nm}", m, want)
        elif q == "expect":
            prev = held
            for where in qa["where"]:
                wt = (where,) if isinstance(where, int) else where
                O = mk.array("O" + "".join(map(str, wt)), (2 ** len(wt),) * 2, "cplx")
                got = circ.local_expectation(O, where)
                post = np.asarray(circ.to_dense()).reshape(-1)
                mk.eq(f"{sim}: to_dense() after local_expectation(O, {where}) == to_dense() before it (the call moves the "
                      "orthogonality centre in place; the held state must not change)", post, prev)
                mk.eq(f"{sim}: local_expectation(O, {where}) == <psi|O|psi> of the held state", got, ref_expect(post, N, O, wt))
                if not mk.sym:
                    mk.eq(f"{sim}: local_expectation(O, {where}) == <psi|O|psi> of the reference state", got, ref_expect(v, N, O, wt))
                prev = post
            mk.eq(f"{sim}: amplitude after the local_expectation calls == entry of the held state", circ.amplitude("1" * N), prev[2 ** N - 1])
    finally:
        stubs.OPTIONS["svd_positive"] = True
        stubs.OPTIONS["contracts"] = True


def _ordered_pairs(N, nonadjacent=False):
    return [(i, j) for i in range(N) for j in range(N) if i != j and (not nonadjacent or abs(i - j) > 1)]


_PT = []
for _sim, _cfg in (("CircuitPermMPS", "-"), ("CircuitMPS", "-"), ("Circuit", "lazy"), ("Circuit", "default"), ("CircuitDense", "-")):
    for _n in (3, 4):
        for _g in _ordered_pairs(_n, nonadjacent=True):
            far = abs(_g[0] - _g[1]) > 2
            if _sim == "CircuitMPS" and far:
                continue        # swap + swap-back over three bonds: certificate search beyond the budget (see META outside)
            quick = _sim == "CircuitPermMPS" or (_n == 3 and _g == (0, 2)) or (_n == 4 and _g == (3, 0) and _sim != "CircuitMPS")
            _PT.append({"sim": _sim, "cfg": _cfg, "N": _n, "g": _g, "_tiers": ("quick", "thorough") if quick else ("thorough",)})


@obligation(PROP, params=_PT, rounds=2, timeout_s=500, wall_s=400, max_rows=80000)
def perm_tracking(mk, sim, cfg, N, g):
    """a non-adjacent two-qubit gate on the ordered pair g, then SWAP on EVERY ordered pair of qubits (one path
    per pair), then IDEN, RY and CX on the swapped qubits: every simulator holds the
    reference state.  For CircuitPermMPS the first gate makes the tracked site <-> qubit map non-trivial, and
    the SWAP / later gates must address logical qubits through it."""
    mk.encodes(cmps.CircuitPermMPS._apply_gate, cmps.CircuitPermMPS.get_psi, cmps.CircuitPermMPS.calc_qubit_ordering,
               cmps.CircuitMPS.to_dense, cmps.CircuitMPS.amplitude, ccore.CircuitBase._apply_gate, G.apply_swap)
    # SWAP qubit pairs: every ordered pair on 3 qubits, every unordered pair (alternating orientation) on 4
    pairs = _ordered_pairs(N) if N == 3 else [(i, j) if (i + j) % 2 else (j, i) for i in range(N) for j in range(i + 1, N)]
    sw = mk.choice("swap_pair", pairs)
    t = next(q for q in range(N) if q not in sw) if N > 2 else sw[1]
    specs = [("RY", "a", 0), ("RX", "b", 1), ("RY", "c", 2)] + ([("RX", "a", 3)] if N == 4 else [])
    specs += [("CX",) + tuple(g), ("SWAP",) + tuple(sw), ("IDEN", sw[0]), ("RY", "b", sw[1]), ("CX", sw[0], t)]
    p = build_program(mk, specs, kind="real")
    v = ref_state(mk, p, N, basis0(mk, N))
    mps = sim in _MPS_SIMS
    if mps:
        stubs.OPTIONS["svd_positive"] = False
    try:
        if mps:
            circ = getattr(qtn, sim)(N, gate_opts={"cutoff": 0.0})
        else:
            circ = qtn.Circuit(N, **_EXACT_CFG[cfg]) if sim == "Circuit" else qtn.CircuitDense(N)
        apply_program(mk, circ, p)
        kw = {} if mps else NOSIMP
        tag = f"{sim}: CX{tuple(g)}; SWAP{tuple(sw)}; IDEN; RY; CX"
        mk.eq(f"{tag}: to_dense() == reference state", np.asarray(circ.to_dense(**kw)).reshape(-1), v)
        for b in ("0" * N, "1" * N, ("10" * N)[:N], ("011" * N)[:N]):
            mk.eq(f"{tag}: amplitude('{b}')", circ.amplitude(b, **kw), v[int(b, 2)])
        if sim == "CircuitPermMPS":
            mk.same(f"{tag}: tracked ordering is a permutation of the qubits", sorted(circ.qubits), list(range(N)))
            mk.same(f"{tag}: calc_qubit_ordering() == tracked ordering", tuple(circ.calc_qubit_ordering()), tuple(circ.qubits))
        if not mk.sym:
            # numeric supplement (sampling is value-dependent control flow): samples have non-zero probability
            probs = np.abs(np.asarray(v, dtype=complex)) ** 2
            for x in circ.sample(12, seed=mk.rng.randint(0, 10 ** 6)):
                mk.same(f"{tag}: sampled string {x} has non-zero probability", bool(probs[int(x, 2)] > 1e-12), True)
    finally:
        stubs.OPTIONS["svd_positive"] = True


@obligation(PROP, params=[{"prog": k, "method": m, "_tiers": ("quick", "thorough") if (m == "dm" and k in _NEW_PROGS + ("swap-iden", "toffoli")) else ("thorough",)}
                          for k in PROGRAMS if k != "raw" for m in ("dm", "direct")], numeric=True, num_trials=2)
def mps_lazy_numeric(mk, prog, method):
    """LABELLED NUMERIC-ONLY SUPPLEMENT.  CircuitMPSLazy (gates applied lazily as sub-MPOs, compressed by an
    eigen-decomposition with numerical rank detection: value-dependent, not modelled symbolically).  It inherits
    to_dense / amplitude / partial_trace / compute_marginal from CircuitMPS: at random parameter values every
    query equals the reference value (no truncation requested: cutoff=0)."""
    if mk.sym:
        mk.note("CircuitMPSLazy: numeric cross-run only (numerical rank detection inside the compression)")
        mk.same("numeric-only obligation", True, True)
        return
    N = PROG_N.get(prog, 3)
    p = build_program(mk, prog, kind="real")
    circ = qtn.CircuitMPSLazy(N, cutoff=0.0, method=method)
    applied = []
    for item in p:
        try:
            apply_program(mk, circ, [item])
            applied.append(item)
        except (TypeError, ValueError, NotImplementedError, KeyError) as e:
            mk.note(f"CircuitMPSLazy rejected {item[0]} on {item[2]}: {type(e).__name__}")
            break
    v = ref_state(mk, applied, N, basis0(mk, N)) if applied else basis0(mk, N)
    v = np.asarray(v, dtype=complex)
    tol = 1e-6
    mk.eq("CircuitMPSLazy: to_dense() == reference state", np.asarray(circ.to_dense()).reshape(-1), v, tol=tol)
    qa = mps_query_args(N)
    for b in (("000", "110", "011") if N == 3 else ("0000", "1101", "0110")):
        mk.eq(f"CircuitMPSLazy: amplitude('{b}')", circ.amplitude(b), v[int(b, 2)], tol=tol)
    for keep in qa["keep"]:
        kt = (keep,) if isinstance(keep, int) else keep
        mk.eq(f"CircuitMPSLazy: partial_trace({keep}) == reduced density matrix of the reference state", np.asarray(circ.partial_trace(keep)),
              ref_rdm(v, N, kt), tol=tol)
    for where in qa["where"]:
        wt = (where,) if isinstance(where, int) else where
        O = mk.array("O" + "".join(map(str, wt)), (2 ** len(wt),) * 2, "cplx")
        mk.eq(f"CircuitMPSLazy: local_expectation(O, {where}) == <psi|O|psi>", circ.local_expectation(O, where), ref_expect(v, N, O, wt), tol=tol)
    for where, fix, _ in qa["marg"]:
        mk.eq(f"CircuitMPSLazy: compute_marginal({where}, fix={fix})", np.asarray(circ.compute_marginal(where, fix=fix)), ref_marginal(v, N, where, fix), tol=tol)
    mk.eq("CircuitMPSLazy: to_dense() after the queries == reference state", np.asarray(circ.to_dense()).reshape(-1), v, tol=tol)
    probs = np.abs(v) ** 2
    for x in circ.sample(16, seed=mk.rng.randint(0, 10 ** 6)):
        mk.same(f"CircuitMPSLazy: sampled string {x} has non-zero probability", bool(probs[int(x, 2)] > 1e-12), True)


# ---------------------------------------------------------------------- (c) histories

@obligation(PROP, params=[{"cfg": c} for c in ("lazy", "default")], timeout_s=400)
def history_no_stale_cache(mk, cfg):
    """apply -> query -> apply -> query: the second answers equal those of a fresh circuit"""
    mk.encodes(cexact.Circuit.get_reverse_lightcone_tags, cexact.Circuit.get_psi_simplified, cexact.Circuit.get_rdm_lightcone_simplified,
               cexact.Circuit.local_expectation, cexact.Circuit.compute_marginal, ccore.CircuitBase.apply_gate)
    N = 3
    p1 = build_program(mk, "bell+ry")
    circ = qtn.Circuit(N, **_EXACT_CFG[cfg])
    apply_program(mk, circ, p1)
    v1 = ref_state(mk, p1, N, basis0(mk, N))
    query_goals(mk, circ, v1, N, "after first block")
    # second block touches the qubits the first queries looked at
    p2 = [("RX", [mk.scalar("d", "real")], (0,), None, None), ("CX", [], (1, 0), None, tb_const(mk, "CX")),
          ("RY", [mk.scalar("e", "real")], (2,), None, None)]
    p2 = [(n, pv, qs, c, (tb_param(mk, n, pv) if pv else a)) for n, pv, qs, c, a in p2]
    apply_program(mk, circ, p2)
    v2 = ref_state(mk, p2, N, v1)
    query_goals(mk, circ, v2, N, "after second block (same object, caches warm)")
    fresh = qtn.Circuit(N, **_EXACT_CFG[cfg])
    apply_program(mk, fresh, p1 + p2)
    mk.eq("same object == fresh circuit", np.asarray(circ.to_dense(**NOSIMP)).reshape(-1), np.asarray(fresh.to_dense(**NOSIMP)).reshape(-1))


@obligation(PROP, params=[{"cfg": c} for c in ("lazy", "default")], timeout_s=400)
def history_param_update(mk, cfg):
    """parametrize=True + set_params / update_params_from: queries follow the new parameters"""
    mk.encodes(ccore.CircuitBase.get_params, ccore.CircuitBase.set_params, ccore.CircuitBase.update_params_from)
    N = 3
    a0, b0 = 0.3, -1.1
    circ = qtn.Circuit(N, **_EXACT_CFG[cfg])
    circ.apply_gate("H", 0)
    circ.apply_gate("RY", a0, 1, parametrize=True)
    circ.apply_gate("CX", 0, 1)
    circ.apply_gate("RZ", b0, 2, parametrize=True)
    circ.apply_gate("CX", 1, 2)
    O = mk.array("O", (4, 4), "cplx")
    q0 = circ.local_expectation(O, (2, 0), **NOSIMP)     # warm every cache with the old parameters
    m0 = circ.amplitude("011", **NOSIMP)
    a1 = mk.scalar("a", "real")
    b1 = mk.scalar("b", "real")
    ps = circ.get_params()
    mk.same("two parametrised gates recorded", len(ps), 2)
    keys = sorted(ps)
    newp = {keys[0]: as_param_array(mk, [a1]), keys[1]: as_param_array(mk, [b1])}
    circ.set_params(newp)
    prog = [("H", [], (0,), None, tb_const(mk, "H")), ("RY", [a1], (1,), None, tb_param(mk, "RY", [a1])),
            ("CX", [], (0, 1), None, tb_const(mk, "CX")), ("RZ", [b1], (2,), None, tb_param(mk, "RZ", [b1])),
            ("CX", [], (1, 2), None, tb_const(mk, "CX"))]
    v = ref_state(mk, prog, N, basis0(mk, N))
    mk.eq("after set_params: to_dense follows the new parameters", np.asarray(circ.to_dense(**NOSIMP)).reshape(-1), v)
    M = ref.embed(O, [2] * N, (2, 0))
    want = 0
    for x, y in zip(_conj(v), ref.matmul(M, v)):
        want = want + x * y
    mk.eq("after set_params: local_expectation (cached query) follows the new parameters", circ.local_expectation(O, (2, 0), **NOSIMP), want)
    mk.eq("after set_params: amplitude follows the new parameters", circ.amplitude("011", **NOSIMP), v[int("011", 2)])


# circuit with *named* parameters: gate index -> (label, qubits, parameter source)
#   source "theta" / "theta + 2*phi": string expression over the registered names; callable: function of the
#   name -> value mapping; ("#", key): directly parametrised gate updated through its integer gate index
_NP_GATES = [
    ("H", (0,), None),
    ("RY", (1,), "theta"),
    ("CX", (0, 1), None),
    ("RX", (2,), ("#", "b")),
    ("RZ", (0,), "theta + 2*phi"),
    ("CX", (1, 2), None),
    ("RY", (0,), "callable:-phi"),
]
_NP_QASM3 = """OPENQASM 3.0;
include "stdgates.inc";
input float theta;
input float phi;
qubit[3] q;
h q[0];
ry(theta) q[1];
cx q[0], q[1];
"""
_NP_QASM3_TAIL = """rz(theta + 2*phi) q[0];
cx q[1], q[2];
ry(-phi) q[0];
"""
# update histories: each step is the set of keys given NEW values in one set_params call ("b" is the integer gate
# key); "tn" = update_params_from(a network carrying new values for every parametrised gate)
_NP_HIST = {
    "theta": [("theta",)], "phi": [("phi",)], "names": [("theta", "phi")], "index": [("b",)],
    "theta+index": [("theta", "b")], "phi+index": [("phi", "b")], "all": [("theta", "phi", "b")],
    "names>index": [("theta", "phi"), ("b",)], "index>names": [("b",), ("phi", "theta")], "names>names": [("theta",), ("phi",)],
    "tn": ["tn"], "names>tn>names": [("phi",), "tn", ("theta",)],
}
_NPP = []
for _b in ("register", "qasm3"):
    for _c in ("lazy", "default"):
        for _h in _NP_HIST:
            if _b == "qasm3" and "tn" in _h:
                continue
            quick = (_b == "register" and (_c == "lazy" or _h in ("names", "theta+index", "names>index"))) or \
                    (_b == "qasm3" and _c == "default" and _h in ("phi", "names", "all", "index>names"))
            _NPP.append({"build": _b, "cfg": _c, "hist": _h, "_tiers": ("quick", "thorough") if quick else ("thorough",)})


def _np_values_to_program(mk, val):
    """reference program of the named-parameter circuit for the current values (expressions evaluated here,
    independently of the library's expression evaluator)"""
    th, ph, b = val["theta"], val["phi"], val["b"]
    pv = {1: th, 3: b, 4: th + ph * 2, 6: ph * -1}
    prog = []
    for i, (lab, qs, src) in enumerate(_NP_GATES):
        if src is None:
            prog.append((lab, [], qs, None, tb_const(mk, lab)))
        else:
            prog.append((lab, [pv[i]], qs, None, tb_param(mk, lab, [pv[i]])))
    return prog


@obligation(PROP, params=_NPP, timeout_s=500, wall_s=400)
def history_named_params(mk, build, cfg, hist):
    """circuits with registered *named* parameters (register_named_params / OpenQASM 3 ``input``) next to a directly
    parametrised gate: query everything (warm every cache) -> set_params by name only / by gate index only /
    mixed / update_params_from, possibly several times -> every query kind follows the NEW values, the gate
    record and get_params() report them, and the answers equal those of the reference state"""
    mk.encodes(ccore.CircuitBase.register_named_params, ccore.CircuitBase.set_params, ccore.CircuitBase.get_params,
               ccore.CircuitBase._apply_named_param_updates, ccore.CircuitBase.update_params_from, ccore.CircuitBase.clear_storage,
               ccore.CircuitBase.from_openqasm3_str, cexact.Circuit.get_psi_simplified, cexact.Circuit.get_rdm_lightcone_simplified,
               cexact.Circuit.compute_marginal, cexact.Circuit.sample)
    N = 3
    nan = float("nan")
    val = {k: mk.scalar(f"{k}0", "real") for k in ("theta", "phi", "b")}      # the OLD values are symbolic as well
    arr1 = lambda x: as_param_array(mk, [x])
    if build == "register":
        circ = qtn.Circuit(N, **_EXACT_CFG[cfg])
        exprs = {}
        for i, (lab, qs, src) in enumerate(_NP_GATES):
            if src is None:
                circ.apply_gate(lab, *qs)
            elif isinstance(src, tuple):
                circ.apply_gate(lab, val[src[1]], *qs, parametrize=True)
            else:
                circ.apply_gate(lab, nan, *qs, parametrize=True)
                exprs[i] = ((lambda env: -env["phi"]) if src.startswith("callable") else src,)
        circ.register_named_params({"theta": val["theta"], "phi": val["phi"]}, exprs)
    else:
        # OpenQASM 3 ``input`` declarations register the names (values nan until bound); the directly
        # parametrised gate (integer key 3) is applied through the Python API in between
        circ = qtn.Circuit.from_openqasm3_str(_NP_QASM3, **_EXACT_CFG[cfg])
        mk.same("qasm3: named parameters registered by the input declarations", tuple(circ.named_param_names), ("theta", "phi"))
        circ.apply_gate("RX", val["b"], 2, parametrize=True)
        tail = qtn.Circuit.from_openqasm3_str(_NP_QASM3.split("h q[0]")[0] + _NP_QASM3_TAIL)
        base = circ.num_gates
        for g in tail.gates:
            circ.apply_gate(g.label, *g.params, *g.qubits, parametrize=g.parametrize)
        ex = dict(circ.param_expressions)
        ex.update({base + i: e for i, e in tail.param_expressions.items()})
        circ.register_named_params(dict(circ.named_params), ex)
        circ.set_params({"theta": val["theta"], "phi": val["phi"]})       # first binding
    mk.same("gate count", circ.num_gates, len(_NP_GATES))
    mk.same("get_params keys: names + unmanaged gate indices", sorted(map(str, circ.get_params())), ["3", "phi", "theta"])

    def check_all(stage, k):
        prog = _np_values_to_program(mk, val)
        v = ref_state(mk, prog, N, basis0(mk, N))
        query_goals(mk, circ, v, N, stage, otag=f"s{k}")
        gp = circ.get_params()
        mk.eq(f"{stage}: get_params() reports the current named values",
              np.concatenate([np.asarray(gp["theta"]).reshape(-1), np.asarray(gp["phi"]).reshape(-1)]), [val["theta"], val["phi"]])
        mk.eq(f"{stage}: get_params()[3] reports the current direct value", np.asarray(gp[3]).reshape(-1), [val["b"]])
        for i, want in ((1, prog[1][1][0]), (3, prog[3][1][0]), (4, prog[4][1][0]), (6, prog[6][1][0])):
            mk.eq(f"{stage}: gate record {i} carries the current parameter", np.asarray(circ.gates[i].params).reshape(-1), [want])
        if not mk.sym:
            # numeric supplement (sampling is value-dependent control flow): same seed, same samples as a circuit
            # built from scratch with the current values; cached conditionals of earlier values must not survive
            fresh = qtn.Circuit(N, **_EXACT_CFG[cfg])
            for lab, pv, qs, _, _ in prog:
                fresh.apply_gate(lab, *pv, *qs)
            seed = 1234 + k
            mk.same(f"{stage}: sample(24, seed) == samples of a fresh circuit with the current values",
                    list(circ.sample(24, seed=seed)), list(fresh.sample(24, seed=seed)))

    check_all("before any update (named values as registered)", 0)
    for k, step in enumerate(_NP_HIST[hist], 1):
        if step == "tn":
            new = {key: mk.scalar(f"{key}{k}", "real") for key in ("theta", "phi", "b")}
            val.update(new)
            want = {1: val["theta"], 3: val["b"], 4: val["theta"] + val["phi"] * 2, 6: val["phi"] * -1}
            tn = circ.psi
            for i, x in want.items():
                tn[circ.gate_tag(i)].params = arr1(x)
            circ.update_params_from(tn)
            # update_params_from writes the gate tensors only: bring the registered names in line by name
            stage = f"after step {k}: update_params_from(tn)"
            prog = _np_values_to_program(mk, val)
            v = ref_state(mk, prog, N, basis0(mk, N))
            query_goals(mk, circ, v, N, stage, otag=f"s{k}")
            circ.set_params({"theta": val["theta"], "phi": val["phi"]})
            continue
        upd = {}
        for key in step:
            val[key] = mk.scalar(f"{key}{k}", "real")
            upd[3 if key == "b" else key] = arr1(val[key]) if key == "b" else val[key]
        circ.set_params(upd)
        check_all(f"after step {k}: set_params({sorted(map(str, upd))})", k)


_SU_GEOMS = {"chain4": (4, [(0, 1), (1, 2), (2, 3)]), "star4": (4, [(0, 1), (0, 2), (0, 3)]), "chain3": (3, [(0, 1), (1, 2)])}


@obligation(PROP, params=[{"sim": s_, "geom": g_, "_tiers": ("quick", "thorough") if g_ == "chain4" else ("thorough",)}
                          for s_ in ("CircuitPEPOSimpleUpdate", "CircuitPEPSSimpleUpdate") for g_ in _SU_GEOMS], numeric=True, num_trials=2)
def simple_update_circuits_numeric(mk, sim, geom):
    """LABELLED NUMERIC-ONLY SUPPLEMENT (third round).  The simple-update circuit simulators (Schroedinger-picture PEPS and
    Heisenberg-picture PEPO on an arbitrary edge list) are exact on TREE geometries when nothing is truncated (cutoff=0, bond cap
    2**N): local_expectation of one- and two-site observables equals <0|U^dag G U|0> of the dense reference for every edge in BOTH
    orientations with observables that are not symmetric under exchange of their qubits.  Gauge conditioning takes numerical
    inverses / roots of singular values: not modelled symbolically."""
    if mk.sym:
        mk.note("numeric-only: simple-update circuit classes (numerical gauge conditioning)")
        mk.same("numeric-only obligation", True, True)
        return
    import quimb as qu
    cls = getattr(qtn, sim, None)
    if cls is None:
        mk.note(f"{sim} not present in this quimb")
        mk.same("class absent: nothing to check", True, True)
        return
    N, edges = _SU_GEOMS[geom]
    rng = np.random.default_rng(17 + len(geom))
    gates = []
    for layer in range(3):
        for i in range(N):
            gates.append(qtn.Gate.from_raw(qu.rand_uni(2, seed=int(rng.integers(1 << 30))), qubits=[i]))
        for (a, b) in edges[layer % 2::2] + edges[(layer + 1) % 2::2][:1]:
            q = [a, b] if (layer + a) % 2 == 0 else [b, a]          # gates given in both orientations of an edge
            gates.append(qtn.Gate.from_raw(qu.rand_uni(4, seed=int(rng.integers(1 << 30))), qubits=q))
    circ = cls(edges=edges, max_bond=2 ** N, cutoff=0.0)
    circ.apply_gates(gates)
    psi = np.zeros((2 ** N, 1), dtype=complex)
    psi[0, 0] = 1.0
    for g in gates:
        psi = qu.pkron(np.asarray(g.array).reshape(2 ** len(g.qubits), -1), [2] * N, list(g.qubits)) @ psi
    G1 = qu.rand_herm(2, seed=3) + 0.3j * (qu.pauli("Y") @ qu.pauli("Z") - qu.pauli("Z") @ qu.pauli("Y")) * 0
    G2 = qu.rand_herm(4, seed=5)
    ZX = qu.pauli("Z") & qu.pauli("X")
    for i in range(N):
        mk.eq(f"[numeric-only] {sim}.local_expectation(G, {i}) == dense", complex(circ.local_expectation(G1, i)),
              complex(qu.expec(qu.pkron(G1, [2] * N, [i]), psi)), tol=1e-6)
    for (a, b) in edges:
        for where in ((a, b), (b, a), [b, a]):
            for nm, G in (("Z(x)X", ZX), ("random hermitian", G2)):
                mk.eq(f"[numeric-only] {sim}.local_expectation({nm}, {where!r}) == dense <G on where, in the order given>",
                      complex(circ.local_expectation(G, where)), complex(qu.expec(qu.pkron(G, [2] * N, list(where)), psi)), tol=1e-6)


@obligation(PROP, numeric=True)
def samplers_numeric(mk):
    """numeric cross-run only: samples are supported on non-zero probability strings and the MPS
    sampler reports the true probability"""
    if mk.sym:
        mk.same("numeric-only obligation", True, True)
        return
    N = 3
    seed = mk.rng.randint(0, 10 ** 6)
    for cls, kw in ((qtn.Circuit, {}), (qtn.CircuitMPS, {}), (qtn.CircuitPermMPS, {})):
        c = cls(N, **kw)
        c.apply_gate("H", 0)
        c.apply_gate("CX", 0, 1)
        c.apply_gate("RY", 0.7, 2)
        try:
            c.apply_gate("SWAP", 1, 2)
        except Exception as e:
            mk.note(f"{cls.__name__} rejected SWAP: {type(e).__name__}")
        v = np.asarray(c.to_dense()).reshape(-1)
        probs = np.abs(v) ** 2
        out = list(c.sample(40, seed=seed))
        for s in out:
            b = s[0] if isinstance(s, tuple) else s
            b = "".join(map(str, b))
            mk.same(f"{cls.__name__}: sampled string has non-zero probability", bool(probs[int(b, 2)] > 1e-12), True)
            if isinstance(s, tuple) and len(s) == 2 and not isinstance(s[1], str):
                mk.eq(f"{cls.__name__}: reported probability == |amplitude|^2", s[1], probs[int(b, 2)], tol=1e-8)
    # the dense-state based counter, in both qubit-order conventions, for every simulator class (the state is not
    # symmetric under reversing the qubit order)
    for cls in (qtn.Circuit, qtn.CircuitDense, qtn.CircuitMPS, qtn.CircuitPermMPS):
        c = cls(N)
        c.apply_gate("H", 0)
        c.apply_gate("CX", 0, 1)
        c.apply_gate("RY", 0.7, 2)
        c.apply_gate("X", 2)
        v = np.asarray(c.to_dense()).reshape(-1)
        probs = np.abs(v) ** 2
        vr = np.asarray(c.to_dense(reverse=True)).reshape(-1)
        mk.eq(f"{cls.__name__}: to_dense(reverse=True) is the state with the qubit order reversed",
              vr, v.reshape((2,) * N).transpose(tuple(reversed(range(N)))).reshape(-1))
        for rev in (False, True):
            counts = c.simulate_counts(60, seed=seed, reverse=rev)
            mk.same(f"{cls.__name__}: simulate_counts(60, reverse={rev}) distributes exactly 60 counts", sum(counts.values()), 60)
            for b, n in counts.items():
                bb = b[::-1] if rev else b
                mk.same(f"{cls.__name__}: simulate_counts(reverse={rev}) string (read in the requested convention) has non-zero probability",
                        bool(n == 0 or probs[int(bb, 2)] > 1e-12), True)
