"""C16 - threaded / parallel kernels give the serial answer for every schedule.

(a) partition arithmetic: the real ``threading_choose_num_blocks`` / ``threading_get_block_range``
    (JIT off = the Python source) are executed on symbolic N, target_block_size (unbounded
    integers) for each concrete thread count k; goals: no exception, >= 1 block, the block
    ranges tile [0, N) contiguously, every block index is owned by exactly one rank.
(b) kernels: every ``_*_numba`` / ``_*_par`` kernel of quimb/core.py is run once per
    thread_rank on symbolic data into a write-recording buffer; goals: every element written
    exactly once over all ranks (=> interleaving independent) and the union equals the serial
    reference.  In numeric (replay) mode the public threaded entry points run with real threads.
(c) ``maybe_multithread`` dispatch, ``par_reduce`` == ``functools.reduce``.
"""
import functools
import itertools

import numpy as np

import quimb as qu
import quimb.core as qc

from qv import poly as P
from qv.harness import obligation, Skip

PROP = "C16"
META = {
    "bounds": {
        "quick": {"num_threads": "{2,3,4,5,7,8,11,16} (each concrete)", "N": "unbounded symbolic integer >= 1",
                  "target_block_size": "sign symbolic; negative values from {-1,-2,-3,-7,-128,-1024}",
                  "kernel data": "N<=6 rows, k<=4, symbolic entries",
                  "operators from terms": "4-5 sites, symmetries None / Z2 / U1 / U1U1 (every sector with D >= 2), world_size in {2,3,5,D+1}: "
                                          "matvec kernels on a symbolic vector, COO builds as multisets"},
        "thorough": {"num_threads": "2..48", "N": "unbounded symbolic integer >= 1",
                     "target_block_size": "negative values from a 10-element list", "kernel data": "N<=8, k<=5"},
    },
    "outside": ["OS scheduler / real interleavings (replaced by write-disjointness)",
                "numba's compilation of the kernels (the Python source is what is executed)",
                "statistics of the per-thread RNG streams of quimb/gen/rand.py (their seeding structure is checked numerically by rng_streams_distinct)",
                "MPI launching of the operator builders (the world_rank / world_size striding itself is covered by operator_parallel)"],
    "assumptions": ["float-typed block counts are used as integers the way numba truncates them",
                    "`complex(a, b)` on symbolic scalars is modelled as a + i*b"],
}


def _ks(tier):
    return list(range(2, 17)) if tier == "quick" else list(range(2, 49))


def _tile_goals(mk, N, tb, k):
    nb, base, rem = qc.threading_choose_num_blocks(N, tb, k)
    mk.check(nb >= 1, "num_blocks >= 1")
    mk.check(nb == nb // 1, "num_blocks integral")
    # enumerate the (bounded by construction) number of blocks; N stays symbolic
    nbc = int(nb)
    mk.check(base * nbc + rem == N, "divmod identity")
    prev_stop = 0
    for b in range(nbc):
        start, stop = qc.threading_get_block_range(b, base, rem)
        mk.check(start == prev_stop, f"block {b} starts where block {b - 1} stops")
        mk.check(stop >= start, f"block {b} non-negative size")
        prev_stop = stop
    mk.check(prev_stop == N, "last block stops at N")
    # ownership: block b is visited by rank r iff b in range(r, nb, k)
    for b in range(nbc):
        owners = [r for r in range(k) if b in range(r, nbc, k)]
        mk.check(len(owners) == 1, f"block {b} owned by exactly one rank")


@obligation(PROP, params=[{"k": k, "_tiers": ("quick", "thorough") if k in (2, 3, 4, 5, 7, 8, 11, 16) else ("thorough",)} for k in range(2, 49)],
            exc_is_violation=True, max_paths=4000, wall_s=200)
def partition_positive_tb(mk, k):
    """target_block_size >= 0: blocks at least that big; N any positive size (also < k)."""
    mk.encodes(qc.threading_choose_num_blocks, qc.threading_get_block_range)
    N = mk.int("N", 1, None)
    tb = mk.int("tb", 0, None)
    _tile_goals(mk, N, tb, k)


_NEG = [-1, -2, -3, -7, -128, -1024]
_NEG_T = [-1, -2, -3, -4, -5, -7, -16, -100, -128, -1024]


def _negq(k, tb):
    return (k in (2, 3, 4) and tb in _NEG) or (k in (7, 16) and tb in (-1, -3))


@obligation(PROP, params=[{"k": k, "tb": tb, "m": m, "_tiers": tiers}
                          for k in (2, 3, 4, 5, 7, 8, 16) for tb in _NEG_T
                          for m, tiers in ((3, ("quick",)), (6, ("thorough",))) if m == 6 or _negq(k, tb)],
            exc_is_violation=True, max_paths=6000, wall_s=600, timeout_s=900)
def partition_negative_tb(mk, k, tb, m):
    """target_block_size < 0: blocks close to |tb|, count rounded to a multiple of k.
    N symbolic with N <= m*k*|tb| so the block count is enumerable (<= (m+1)k blocks)."""
    mk.encodes(qc.threading_choose_num_blocks, qc.threading_get_block_range)
    N = mk.int("N", 1, m * k * (-tb))
    _tile_goals(mk, N, tb, k)


# ---------------------------------------------------------------------- kernels

class Rec(np.ndarray):
    """object buffer that records how often each element is written"""

    def __new__(cls, shape):
        o = np.empty(shape, dtype=object).view(cls)
        o.count = np.zeros(shape, dtype=int)
        return o

    def __array_finalize__(self, obj):
        if obj is not None and not hasattr(self, "count"):
            self.count = getattr(obj, "count", None)

    def __setitem__(self, idx, val):
        self.count[idx] += 1
        np.ndarray.__setitem__(self, idx, val)


def _cplx(a, b=0):
    return a + P.I * b


def _sym_case(mk, kind, a, k, tb):
    """run the real kernel once per thread_rank into a recording buffer (symbolic mode)"""
    from qv import sx
    import z3
    tbs = sx.SymInt(z3.IntVal(tb))   # keeps np.ceil(...) integer-like, as numba's typing does
    kw = lambda r: dict(thread_rank=r, num_threads=k, target_block_size=tbs)
    if kind in ("sub1", "sub2"):
        out = Rec(a["X"].shape)
        np.ndarray.__setitem__(out, Ellipsis, a["X"])
        kern = qc._subtract_update_1d_numba if kind == "sub1" else qc._subtract_update_2d_numba
        for r in range(k):
            kern(out, a["c"], a["Y"], **kw(r))
    else:
        shape = {"complex_array": lambda: a["x"].shape, "ldmul": lambda: a["A"].shape, "rdmul": lambda: a["A"].shape,
                 "outer": lambda: (a["x"].size, a["y"].size), "div1": lambda: a["X"].shape, "div2": lambda: a["X"].shape,
                 "kron": lambda: (a["a"].shape[0] * a["b"].shape[0], a["a"].shape[1] * a["b"].shape[1]),
                 "csr": lambda: a["vec"].shape}[kind]()
        out = Rec(shape)
        for r in range(k):
            if kind == "complex_array":
                qc._complex_array_numba(a["x"], a["y"], out, **kw(r))
            elif kind == "ldmul":
                qc._l_diag_dot_dense_par(a["l"], a["A"], out, **kw(r))
            elif kind == "rdmul":
                qc._r_diag_dot_dense_par(a["A"], a["r"], out, **kw(r))
            elif kind == "outer":
                qc._outer_par(a["x"], a["y"], out, a["x"].size, a["y"].size, **kw(r))
            elif kind == "kron":
                (m, n), (p, q) = a["a"].shape, a["b"].shape
                qc._kron_dense_numba(a["a"], a["b"], out, m, n, p, q, **kw(r))
            elif kind in ("div1", "div2"):
                (qc._divide_update_1d_numba if kind == "div1" else qc._divide_update_2d_numba)(a["X"], a["c"], out, **kw(r))
            elif kind == "csr":
                qc._dot_csr_matvec_numba(a["data"], a["indptr"], a["indices"], a["vec"], out, **kw(r))
    mk.same(f"{kind} k={k} tb={tb}: each element written exactly once across ranks",
            out.count.tolist(), np.ones(out.shape, dtype=int).tolist())
    return np.asarray(out)


def _jit_cases(cases):
    """(child process, JIT on, real threads) public entry points on concrete data"""
    import scipy.sparse as sp
    outs = []
    for kind, a, k, tb in cases:
        kw = dict(num_threads=k, target_block_size=tb)
        if kind == "complex_array":
            o = qc.complex_array(a["x"], a["y"], **kw)
        elif kind == "ldmul":
            o = qc.l_diag_dot_dense(a["l"], a["A"], **kw)
        elif kind == "rdmul":
            o = qc.r_diag_dot_dense(a["A"], a["r"], **kw)
        elif kind == "outer":
            o = qc.outer(a["x"], a["y"], **kw)
        elif kind == "kron":
            o = qc.kron_dense(a["a"], a["b"], **kw)
        elif kind in ("div1", "div2"):
            o = np.full_like(a["X"], np.nan)
            qc.divide_update_(a["X"], a["c"], o, **kw)
        elif kind in ("sub1", "sub2"):
            o = a["X"].copy()
            qc.subtract_update_(o, a["c"], a["Y"], **kw)
        elif kind == "csr":
            A = sp.csr_matrix((a["data"], a["indices"], a["indptr"]), shape=(a["vec"].size,) * 2)
            o = qc.par_dot_csr_matvec(A, a["vec"], **kw)
        outs.append(np.asarray(o))
    return outs


def _decide_cases(mk, cases):
    """cases: list of (label, kind, args, k, tb, reference)"""
    if mk.sym:
        old = qc.__dict__.get("complex")
        qc.complex = _cplx
        try:
            for label, kind, a, k, tb, ref in cases:
                mk.eq(label, _sym_case(mk, kind, a, k, tb), ref)
        finally:
            if old is None:
                del qc.complex
            else:
                qc.complex = old
    else:
        from qv import jitrun
        outs = jitrun.call("props.c16", "_jit_cases", [(kind, a, k, tb) for _, kind, a, k, tb, _ in cases])
        for (label, kind, a, k, tb, ref), o in zip(cases, outs):
            mk.eq(label, o, ref)


_KCFG_Q = [(N, k, tb) for N in (1, 2, 3, 5, 6) for k in (1, 2, 3, 4) for tb in (1, 2, -1, -2)]
_KCFG_T = [(N, k, tb) for N in range(1, 9) for k in (1, 2, 3, 4, 5) for tb in (0, 1, 2, 3, -1, -2, -3)]


def _cfgs(depth):
    return _KCFG_Q if depth == "q" else _KCFG_T


_DEPTH = [{"depth": "q", "_tiers": ("quick",)}, {"depth": "t", "_tiers": ("thorough",)}]


@obligation(PROP, params=_DEPTH, exc_is_violation=True)
def kernel_complex_array(mk, depth):
    mk.encodes(qc._complex_array_numba, qc.complex_array)
    cases = []
    for N, k, tb in _cfgs(depth):
        x = mk.array(f"x{N}", (N,))
        y = mk.array(f"y{N}", (N,))
        cases.append((f"complex_array N={N} k={k} tb={tb}", "complex_array", {"x": x, "y": y}, k, tb,
                      x + (P.I if mk.sym else 1j) * y))
    _decide_cases(mk, cases)


@obligation(PROP, params=_DEPTH, exc_is_violation=True)
def kernel_diag_mul(mk, depth):
    mk.encodes(qc._l_diag_dot_dense_par, qc._r_diag_dot_dense_par, qc.l_diag_dot_dense, qc.r_diag_dot_dense)
    cases = []
    for N, k, tb in _cfgs(depth):
        for M in (1, 3):
            A = mk.array(f"A{N}{M}", (N, M), "cplx")
            l = mk.array(f"l{N}", (N,))
            r = mk.array(f"r{M}", (M,))
            cases.append((f"ldmul N={N} M={M} k={k} tb={tb}", "ldmul", {"l": l, "A": A}, k, tb, l[:, None] * A))
            cases.append((f"rdmul N={N} M={M} k={k} tb={tb}", "rdmul", {"r": r, "A": A}, k, tb, A * r[None, :]))
    _decide_cases(mk, cases)


@obligation(PROP, params=_DEPTH, exc_is_violation=True)
def kernel_outer_kron(mk, depth):
    mk.encodes(qc._outer_par, qc._kron_dense_numba, qc.outer, qc.kron_dense)
    cases = []
    for N, k, tb in _cfgs(depth):
        x = mk.array(f"x{N}", (N,), "cplx")
        y = mk.array("y", (2,), "cplx")
        cases.append((f"outer N={N} k={k} tb={tb}", "outer", {"x": x, "y": y}, k, tb, x[:, None] * y[None, :]))
    for (m, p), k, tb in itertools.product([(1, 2), (2, 2), (3, 1), (2, 3)], (1, 2, 3, 4), (1, 2, -1, -2)):
        a = mk.array(f"a{m}", (m, 2))
        b = mk.array(f"b{p}", (p, 2))
        ref = np.empty((m * p, 4), dtype=a.dtype)
        for i, j, u, v in itertools.product(range(m), range(2), range(p), range(2)):
            ref[i * p + u, j * 2 + v] = a[i, j] * b[u, v]
        cases.append((f"kron_dense m={m} p={p} k={k} tb={tb}", "kron", {"a": a, "b": b}, k, tb, ref))
    _decide_cases(mk, cases)


@obligation(PROP, params=_DEPTH, exc_is_violation=True)
def kernel_updates(mk, depth):
    mk.encodes(qc._subtract_update_1d_numba, qc._subtract_update_2d_numba, qc._divide_update_1d_numba,
               qc._divide_update_2d_numba, qc.subtract_update_, qc.divide_update_)
    cases = []
    c = mk.scalar("c", "pos")
    cinv = (P.lift(1) / c) if mk.sym else 1 / c
    for N, k, tb in _cfgs(depth):
        X = mk.array(f"X{N}", (N,))
        Y = mk.array(f"Y{N}", (N,))
        X2 = mk.array(f"W{N}", (N, 2))
        Y2 = mk.array(f"Z{N}", (N, 2))
        cases.append((f"divide1d N={N} k={k} tb={tb}", "div1", {"X": X, "c": c}, k, tb, X * cinv))
        cases.append((f"divide2d N={N} k={k} tb={tb}", "div2", {"X": X2, "c": c}, k, tb, X2 * cinv))
        cases.append((f"subtract1d N={N} k={k} tb={tb}", "sub1", {"X": X, "c": c, "Y": Y}, k, tb, X - c * Y))
        cases.append((f"subtract2d N={N} k={k} tb={tb}", "sub2", {"X": X2, "c": c, "Y": Y2}, k, tb, X2 - c * Y2))
    _decide_cases(mk, cases)


@obligation(PROP, params=_DEPTH, exc_is_violation=True)
def kernel_csr_matvec(mk, depth):
    """sparse matvec: concrete sparsity patterns, symbolic values"""
    import scipy.sparse as sp
    mk.encodes(qc._dot_csr_matvec_numba, qc.par_dot_csr_matvec)
    pats = {
        3: [(0, 0), (0, 2), (2, 1)],
        4: [(0, 1), (1, 1), (1, 3), (3, 0), (3, 3)],
        5: [(0, 4), (1, 0), (2, 2), (2, 3), (4, 1), (4, 4)],
        6: [(0, 0), (1, 5), (2, 2), (3, 3), (3, 4), (5, 0), (5, 1), (5, 5)],
    }
    cases = []
    for N, pat in pats.items():
        for k, tb in itertools.product((1, 2, 3, 4), (1, 2, -1, -2, -1024)):
            if depth == "q" and (k, tb) not in ((1, 1), (2, -1), (3, 2), (4, -2), (4, 1), (3, -1024), (2, 1)):
                continue
            rows = np.array([i for i, _ in pat])
            cols = np.array([j for _, j in pat])
            patm = sp.csr_matrix((np.arange(1, len(pat) + 1), (rows, cols)), shape=(N, N))
            patm.sort_indices()
            order = patm.data - 1  # position in csr order -> index in pat
            vals = mk.array(f"v{N}", (len(pat),), "cplx")
            data = vals[order]
            vec = mk.array(f"vec{N}", (N,), "cplx")
            ref = np.zeros(N, dtype=vec.dtype) if not mk.sym else np.array([P.ZERO] * N, dtype=object)
            for e, (i, j) in enumerate(pat):
                ref[i] = ref[i] + vals[e] * vec[j]
            cases.append((f"csr matvec N={N} k={k} tb={tb}", "csr",
                          {"data": data, "indptr": patm.indptr.copy(), "indices": patm.indices.copy(), "vec": vec}, k, tb, ref))
    _decide_cases(mk, cases)


@obligation(PROP, exc_is_violation=True, params=[{"k": k} for k in (1, 2, 3, 16)])
def multithread_dispatch(mk, k):
    """maybe_multithread: direct call iff size <= block size, else every rank exactly once"""
    mk.encodes(qc.maybe_multithread)
    N = mk.int("N", 0, None)
    tb = mk.int("tb", None, None)
    calls = []

    def fn(*a, thread_rank=None, num_threads=None, target_block_size=None):
        calls.append((thread_rank, num_threads, target_block_size))

    qc.maybe_multithread(fn, size_total=N, target_block_size=tb, num_threads=k)
    if len(calls) == 1 and calls[0][0] is None:
        mk.check(N <= tb, "direct (serial) call only when size <= block size")
        mk.same("serial call uses kernel defaults", calls[0], (None, None, None))
    else:
        mk.check(N > tb, "threaded only when size > block size")
        mk.same("every rank submitted exactly once", sorted(c[0] for c in calls), list(range(k)))
        mk.same("all ranks see the same thread count", {c[1] for c in calls}, {k})
        mk.check(functools.reduce(lambda a, b: a & b, [c[2] == tb for c in calls]), "block size forwarded unchanged")


@obligation(PROP, params=[{"n": n, "k": k} for n in (1, 2, 3, 4, 5, 7) for k in (1, 2, 3)])
def par_reduce_matches_reduce(mk, n, k):
    """par_reduce(fn, seq) == functools.reduce(fn, seq) for an associative, non-commutative fn
    (2x2 matrix product with symbolic entries)"""
    mk.encodes(qc.par_reduce)
    mats = [mk.array(f"M{i}", (2, 2), "cplx") for i in range(n)]
    f = lambda a, b: a.dot(b)
    mk.eq(f"par_reduce n={n} k={k}", qc.par_reduce(f, mats, num_threads=k), functools.reduce(f, mats))


# ---------------------------------------------------------------------- operators built from terms

def _term_models():
    import quimb.operator as qop
    out = {}
    hs = qop.HilbertSpace(4)
    H = qop.SparseOperatorBuilder(hilbert_space=hs)
    for i in range(3):
        H += 0.5 + 0.25 * i, ("+", i), ("-", i + 1)
        H += 0.5 + 0.25 * i, ("-", i), ("+", i + 1)
        H += 0.75 - 0.5 * i, ("z", i), ("z", i + 1)
    H += 0.3, ("z", 0)
    out["hop4"] = H
    # hopping only inside the two species blocks (sites 0-1 | 2-3), interaction across: conserves U1 x U1
    G = qop.SparseOperatorBuilder(hilbert_space=qop.HilbertSpace(4))
    for i in (0, 2):
        G += 0.5 + 0.25 * i, ("+", i), ("-", i + 1)
        G += 0.5 + 0.25 * i, ("-", i), ("+", i + 1)
    for i in range(3):
        G += 0.75 - 0.5 * i, ("z", i), ("z", i + 1)
    G += 0.3, ("z", 3)
    out["blocks4"] = G
    return out


_OP = [{"symmetry": s, "W": W, "_tiers": ("quick", "thorough") if W in (2, 3) else ("thorough",)}
       for s in ("None", "Z2", "U1", "U1U1") for W in (2, 3, 5, 99)]


@obligation(PROP, params=_OP, timeout_s=300)
def operator_parallel(mk, symmetry, W):
    """application / construction of an operator built from terms, split over world_size workers by
    world_rank striding: the partial results add up to the serial one (symbolic input vector; the COO
    pieces form the same multiset), for every sector"""
    import quimb.operator as qop
    from quimb.operator import configcore as cc
    mk.encodes(cc.matvec_numba, cc.matvec_nosymm, cc.matvec_z2, cc.matvec_u1, cc.matvec_u1u1, cc.build_coo_numba_core,
               qop.SparseOperatorBuilder.matvec, qop.SparseOperatorBuilder.build_coo_data)
    H = _term_models()["blocks4" if symmetry == "U1U1" else "hop4"]
    n = 4
    if symmetry == "None":
        sectors = [None]
    elif symmetry == "Z2":
        sectors = [0, 1]
    elif symmetry == "U1":
        sectors = [1, 2, 3]
    else:
        sectors = [((2, 1), (2, 1)), ((2, 1), (2, 0)), ((2, 2), (2, 1))]
    for sec in sectors:
        sym = None if symmetry == "None" else symmetry
        sector_nb, symmetry_nb = H.hilbert_space.get_sector_numba(sector=sec, symmetry=sym)
        cmap = H.get_coupling_map(dtype="float64", blocked=symmetry_nb == 3)
        D = H.hilbert_space.get_size(sector=sec, symmetry=sym) if hasattr(H.hilbert_space, "get_size") else None
        if D is None:
            D = H.build_dense(sector=sec, symmetry=sym).shape[0]
        Wn = D + 1 if W == 99 else W
        x = mk.array(f"x{sectors.index(sec)}", (D,), "real")
        zero = (lambda: np.array([P.ZERO] * D, dtype=object)) if mk.sym else (lambda: np.zeros(D))
        serial = zero()
        cc.matvec_numba(x, serial, coupling_map=cmap, sector=sector_nb, symmetry=symmetry_nb)
        tot = zero()
        for r in range(Wn):
            part = zero()
            cc.matvec_numba(x, part, coupling_map=cmap, sector=sector_nb, symmetry=symmetry_nb, world_size=Wn, world_rank=r)
            tot = tot + part
        mk.eq(f"sector {sec}: sum over {Wn} ranks of the strided matvec == serial matvec", tot, serial)
        # reference: the dense matrix of the builder (representation equality itself is C19's subject)
        A = H.build_dense(sector=sec, symmetry=sym)
        mk.eq(f"sector {sec}: serial matvec == dense matrix times x", serial, np.asarray(A).dot(x) if not mk.sym else
              np.array([sum((float(A[i, j]) * x[j] for j in range(D) if A[i, j] != 0), P.ZERO) for i in range(D)], dtype=object))
        # COO construction: the union of the strided pieces is the serial triple list (as a multiset)
        kw = dict(coupling_map=cmap, sector=sector_nb, symmetry=symmetry_nb)
        d0, r0, c0 = cc.build_coo_numba_core(**kw)
        pieces = [cc.build_coo_numba_core(world_size=Wn, world_rank=r, **kw) for r in range(Wn)]
        got = sorted((int(a), int(b), float(v)) for d_, r_, c_ in pieces for v, a, b in zip(d_, r_, c_))
        mk.same(f"sector {sec}: COO pieces of {Wn} ranks == serial COO data", got, sorted((int(a), int(b), float(v)) for v, a, b in zip(d0, r0, c0)))
        if not mk.sym:
            xv = np.asarray(x, dtype=float)
            mk.eq(f"sector {sec}: builder.matvec(parallel={min(Wn, 4)}) == serial", H.matvec(xv.copy(), sector=sec, symmetry=sym, parallel=min(Wn, 4)),
                  H.matvec(xv.copy(), sector=sec, symmetry=sym))
            sp = H.build_sparse_matrix(sector=sec, symmetry=sym, parallel=min(Wn, 4))
            mk.eq(f"sector {sec}: build_sparse_matrix(parallel) == dense", np.asarray(sp.todense()), np.asarray(A))


@obligation(PROP, numeric=True)
def rng_streams_distinct(mk):
    """[numeric-only, structural] the per-thread random generators: for an explicit seed, generator i is built from the
    i-th child of ONE numpy SeedSequence(seed) (so all streams differ), for every thread count up to 16; a threaded
    fill then consists of pairwise different chunks and is reproducible.  (The statistics of the streams are outside.)"""
    import quimb.gen.rand as qr
    mk.encodes(qr._RGenHandler.set_seed, qr._RGenHandler.get_rgens, qr.randn)
    if mk.sym:
        mk.same("numeric-only obligation", True, True)
        return
    for seed in (0, 7, 12345):
        for k in (1, 2, 4, 5, 8, 9, 16):
            qr.seed_rand(seed)
            gens = qr._RG_HANDLER.get_rgens(k) if hasattr(qr, "_RG_HANDLER") else None
            if gens is None:
                raise Skip("generator handler not found")
            firsts = [g.bit_generator.state["state"]["state"] for g in gens[:k]]
            mk.same(f"seed={seed}, {k} threads: all generator states differ", len(set(map(int, firsts))), k)
            children = np.random.SeedSequence(seed).spawn(k)
            want = [type(gens[0].bit_generator)(ch).state["state"]["state"] for ch in children]
            mk.same(f"seed={seed}, {k} threads: generator i is seeded by child i of SeedSequence(seed)", list(map(int, firsts)), list(map(int, want)))
        for k in (2, 5, 8, 16):
            x = qr.randn(64 * k, seed=seed, num_threads=k)
            y = qr.randn(64 * k, seed=seed, num_threads=k)
            mk.same(f"seed={seed}, {k} threads: a seeded fill is reproducible", bool(np.array_equal(x, y)), True)
            chunks = [tuple(np.round(ch, 12)) for ch in np.array_split(x, k)]
            mk.same(f"seed={seed}, {k} threads: the chunks of a threaded fill are pairwise different", len(set(chunks)), k)
