"""C08 - an MPS's recorded canonical form is always true, and its consumers are correct.

The real MPS routines are executed on a symbolic matrix product state while one `info` record
is threaded through a history of operations.  After every operation the *outgoing* record is
checked: every site left of the recorded range must be a left isometry, every site right of it
a right isometry, every tensor flagged through `left_inds` isometric -- as polynomial
identities certified modulo the LAPACK stub contracts (Q-CERT).  Consumers of the canonical
form (Schmidt values, canonical expectations / reduced density matrices, magnetization,
measurement probabilities and post-measurement states) are compared with the dense definition
computed by an independent reference from the state *before* the call.
"""
import itertools

import numpy as np

import quimb as qu
import quimb.tensor as qtn
from quimb.tensor.tn1d import core as c1
from quimb.tensor import tensor_core as tc

from qv import poly as P
from qv import ref, stubs
from qv.harness import obligation, Skip

PROP = "C08"
META = {
    "bounds": {
        "quick": {"L": "3-4", "bond dim": 2, "phys dim": 2, "entries": "real symbols", "history length": "<= 3 operations",
                  "gates": "symbolic 4x4 (non-unitary)", "truncation": "none (cutoff=0)"},
        "thorough": {"L": 4, "history length": "<= 3, all ordered pairs of operations from the vocabulary"},
        "numeric-only sweeps (labelled)": {"swap_all_pairs_numeric": "L=4 (quick), 5-6: every ordered site pair x absorb x starting centre, random complex states",
                                           "nonlocal_gate_options_numeric": "L=4 (quick), 5: gate_nonlocal / gate(contract='nonlocal') / gate_with_submpo x method in (direct, dm, zipup) x normalize x sweep_reverse x 7 site tuples x 4 starting records, cutoff=0",
                                           "circuit_copy_independence_numeric": "CircuitMPS / CircuitPermMPS / Circuit N=4 (quick), N=5 and CircuitDense (thorough): copy() then gates on one object, every query on the other; random unitaries"},
    },
    "outside": ["whether canonicalize() reaches the requested window with the fewest moves",
                "calc_current_orthog_center / count_canonized (numerical detector using allclose): a record is always supplied",
                "cyclic MPS", "truncating calls", "equalize_norms=True in the sub-MPO gate (rescales the isometric tensors; reported separately)",
                "sub-MPO gate compression methods other than direct / dm / zipup (zipup-first raises on a sub-region; sdc / src* / fit are randomised or iterative)",
                "CircuitMPS(convert_eager=False) (dtype= queries ARE exercised by circuit_copy_independence_numeric)", "random sampling statistics (outcomes are fixed / enumerated)",
                "complex entries in the history / canonicalize_window families (real symbols there; complex states and operators are symbolic in the consumer family, L = 3, kind=cplx cells)"],
    "assumptions": ["LAPACK qr/svd return factors meeting their contracts (stubs); QR stub has positive diagonal",
                    "singular values strictly positive (generic full-rank state)"],
}

D, d = 2, 2
KIND = ["real"]          # entry kind of the operator / gate arrays drawn by apply_op (set by the obligation)


def mps_sym(mk, L, kind="real"):
    arrays = []
    for i in range(L):
        shp = (D, d) if i in (0, L - 1) else (D, D, d)
        arrays.append(mk.array(f"T{i}", shp, kind))
    return qtn.MatrixProductState(arrays)


def dense(psi):
    return ref.tn_dense(psi, tuple(psi.site_ind(i) for i in range(psi.L)))


def _conj(a):
    if a.dtype == object:
        out = np.empty(a.shape, dtype=object)
        for idx in np.ndindex(*a.shape):
            out[idx] = P.lift(a[idx]).conjugate()
        return out
    return np.conj(a)


def iso_goal(mk, label, t, over):
    """sum over labels `over` of conj(t) t == identity on the remaining label(s)"""
    rest = tuple(i for i in t.inds if i not in over)
    ren = {i: i + "'" for i in rest}
    g = ref.sum_of_products([(t.data, t.inds), (_conj(t.data), tuple(ren.get(i, i) for i in t.inds))],
                            rest + tuple(ren[i] for i in rest))
    n = int(np.prod([t.ind_size(i) for i in rest])) if rest else 1
    mk.eq(label, g.reshape(n, n), ref.eye(n, like=g))


def check_record(mk, psi, info, tag, marker=""):
    """`marker` is appended to the labels of the record-range goals only (never to the flag goals)"""
    co = info.get("cur_orthog", None)
    if co is None or co == "calc":
        mk.note(f"{tag}: no record claimed")
        return
    if isinstance(co, int):
        co = (co, co)
    cmin, cmax = min(co), max(co)
    mk.same(f"{tag}: record {co} within the chain", 0 <= cmin <= cmax <= psi.L - 1, True)
    for k in range(psi.L):
        t = psi[k]
        if k < cmin:
            over = tuple(i for i in t.inds if i != psi.bond(k, k + 1))
            iso_goal(mk, f"{tag}: record {co} => site {k} left-isometric{marker}", t, over)
        elif k > cmax:
            over = tuple(i for i in t.inds if i != psi.bond(k - 1, k))
            iso_goal(mk, f"{tag}: record {co} => site {k} right-isometric{marker}", t, over)
    for k in range(psi.L):
        t = psi[k]
        if t.left_inds is not None:
            iso_goal(mk, f"{tag}: site {k} flagged isometric over {tuple(t.left_inds)}", t, tuple(t.left_inds))


# ---------------------------------------------------------------------- operation vocabulary

def gate_ref(G, where, L, vec):
    """reference: (G embedded on sites `where`, in that order) applied to the dense state"""
    dims = [d] * L
    M = ref.embed(G, dims, where)
    return ref.matmul(M, vec.reshape(-1)).reshape(vec.shape)


def apply_op(mk, psi, info, op, k):
    """apply one operation in place; returns (new psi, expected dense state or None)"""
    kind = op[0]
    before = dense(psi)
    L = psi.L
    if kind == "canon":
        psi.canonicalize_(op[1], info=info)
        return psi, before
    if kind == "swap":
        _, i, j, absorb = op
        kw = {} if absorb is None else {"absorb": absorb}
        psi.swap_sites_with_compress_(i, j, info=info, cutoff=0.0, **kw)
        perm = list(range(L))
        perm[i], perm[j] = perm[j], perm[i]
        return psi, np.transpose(before, perm)
    if kind == "swapto":
        _, i, f = op
        psi.swap_site_to_(i, f, info=info, cutoff=0.0)
        order = list(range(L))
        s = order.pop(i)
        order.insert(f, s)
        return psi, np.transpose(before, order)
    if kind in ("gate2", "gate_swap+split", "nonlocal", "submpo"):
        where = op[1]
        G = mk.array(f"G{k}", (d * d, d * d), "real")
        want = gate_ref(G, where, L, before)
        kw = dict(op[2]) if len(op) > 2 else {}
        if kw.get("normalize") or kw.get("sweep_reverse"):
            # normalised result / reversed sweep (state-equality certificate beyond the budget): the record and the
            # flags are what is certified here; the state itself is compared in nonlocal_gate_options_numeric
            want = None
        if kind == "gate2":
            psi.gate_with_auto_swap_(G, where, info=info, cutoff=0.0)
        elif kind == "gate_swap+split":
            psi.gate_(G, where, contract="swap+split", info=info, cutoff=0.0)
        elif kind == "nonlocal":
            psi.gate_nonlocal_(G, where, info=info, cutoff=0.0, **kw)
        else:
            psi.gate_(G, where, contract="nonlocal", info=info, cutoff=0.0, **kw)
        return psi, want
    if kind == "gate1":
        i = op[1]
        G = mk.array(f"G{k}", (d, d), KIND[0])
        want = gate_ref(G, (i,), L, before)
        psi.gate_(G, i, contract=True, info=info)
        # gate() accepts the record; for a (non-unitary) gate outside the recorded range it leaves the
        # record as it was, i.e. stale: reported under a marker (known finding), after which the history
        # continues with the sound widened record
        co = info.get("cur_orthog")
        if co is not None:
            co = (co, co) if isinstance(co, int) else co
            if not (min(co) <= i <= max(co)):
                info["_stale"] = ("[one-site-gate-off-centre]", (min(*co, i), max(*co, i)))
        return psi, want
    if kind == "compress_site":
        psi.compress_site(op[1], info=info, cutoff=0.0, **(op[2] if len(op) > 2 else {}))
        return psi, before
    if kind in ("svals", "schmidt"):
        i = op[1]
        vec = before.reshape(d ** i, -1)
        rho = ref.matmul(vec, ref.dag(vec))          # reduced state of the left block (dense definition)
        if kind == "svals":
            s = psi.singular_values(i, info=info)
            s2 = [x * x for x in s]
        else:
            s2 = list(psi.schmidt_values(i, info=info))
        mk.eq(f"op{k}: sum of Schmidt values == <psi|psi> (bond {i})", sum(s2, 0), ref.trace(rho))
        if mk.sym:
            # the values are (stub contract) the singular values of the matrix handed to the
            # SVD; show that this matrix M is the centre matrix and that the dense reduced state
            # is W (M M^dag) W^dag with W the (isometric) left block: same non-zero spectrum.
            A = stubs.LAST["svd"]
            t = psi[i]
            lb = psi.bond(i - 1, i)
            rest = tuple(ix for ix in t.inds if ix != lb)
            M = t.transpose(lb, *rest).data.reshape(t.ind_size(lb), -1)
            mk.eq(f"op{k}: SVD taken of the centre matrix of bond {i} (Gram)", ref.matmul(A, ref.dag(A)), ref.matmul(M, ref.dag(M)))
            left = psi.select([psi.site_tag(j) for j in range(i)], which="any")
            W = ref.tn_dense(left, tuple(psi.site_ind(j) for j in range(i)) + (lb,)).reshape(d ** i, -1)
            mk.eq(f"op{k}: dense reduced state == W (M M^dag) W^dag", ref.matmul(ref.matmul(W, ref.matmul(M, ref.dag(M))), ref.dag(W)), rho)
            mk.eq(f"op{k}: W isometric", ref.matmul(ref.dag(W), W), ref.eye(W.shape[1], like=W))
        else:
            ev = np.sort(np.linalg.eigvalsh(np.asarray(rho, dtype=complex)))[::-1][:len(s2)]
            mk.eq(f"op{k}: Schmidt values == spectrum of the dense reduced state", np.sort(np.asarray(s2, dtype=float))[::-1], ev, tol=1e-6)
        return psi, before
    if kind == "expec":
        where = op[1]
        G = mk.array(f"O{k}", (d ** len(where), d ** len(where)), KIND[0])
        val = psi.local_expectation_canonical(G, where, normalized=False, info=info)
        v = before.reshape(-1)
        want = ref.matmul(_conj(v).reshape(1, -1), ref.matmul(ref.embed(G, [d] * L, where), v).reshape(-1, 1))[0, 0]
        mk.eq(f"op{k}: local_expectation_canonical{where} == <psi|G|psi>", val, want)
        return psi, before
    if kind == "rdm":
        where = op[1]
        rho = psi.partial_trace_to_dense_canonical(where, normalized=False, info=info)
        keep = tuple(where)
        out = tuple(f"k{i}" for i in keep) + tuple(f"b{i}" for i in keep)
        inds = tuple(f"k{i}" for i in range(L))
        binds = tuple(f"b{i}" if i in keep else f"k{i}" for i in range(L))
        want = ref.sum_of_products([(before, inds), (_conj(before), binds)], out)
        mk.eq(f"op{k}: partial_trace_to_dense_canonical{where} == dense reduced state", rho, want.reshape(rho.shape))
        return psi, before
    if kind == "clec":
        # compute_local_expectation_canonical: a sum of local terms; with inplace=False (default) the caller's state AND
        # its record must stay as they were (the canonicalisations happen on a private copy with a private record)
        _, wheres, inplace = op
        terms = {}
        want = 0
        v = before.reshape(-1)
        for q_, w_ in enumerate(wheres):
            G = mk.array(f"O{k}_{q_}", (d ** len(w_), d ** len(w_)), KIND[0])
            terms[w_] = G
            want = want + ref.matmul(_conj(v).reshape(1, -1), ref.matmul(ref.embed(G, [d] * L, w_), v).reshape(-1, 1))[0, 0]
        rec0 = info.get("cur_orthog")
        snap = [np.array(t.data, dtype=t.data.dtype, copy=True) for t in psi]
        val = psi.compute_local_expectation_canonical(terms, normalized=False, info=info, inplace=inplace)
        mk.eq(f"op{k}: compute_local_expectation_canonical({wheres}, inplace={inplace}) == sum of <psi|G|psi>", val, want)
        if not inplace:
            mk.same(f"op{k}: inplace=False leaves the caller's record as it was", info.get("cur_orthog"), rec0)
            for q_, (t, s0) in enumerate(zip(psi, snap)):
                mk.eq(f"op{k}: inplace=False leaves site {q_} of the caller's state untouched", t.data, s0)
        return psi, before
    if kind == "mag":
        i = op[1]
        dirn = op[2] if len(op) > 2 else "Z"
        val = psi.magnetization(i, dirn, info=info)
        Z = mk.const({"Z": np.array([[0.5, 0.0], [0.0, -0.5]]), "X": np.array([[0.0, 0.5], [0.5, 0.0]]),
                      "Y": np.array([[0.0, -0.5j], [0.5j, 0.0]])}[dirn])
        v = before.reshape(-1)
        want = ref.matmul(_conj(v).reshape(1, -1), ref.matmul(ref.embed(Z, [d] * L, (i,)), v).reshape(-1, 1))[0, 0]
        mk.eq(f"op{k}: magnetization({i}, {dirn}) == <psi|S{dirn.lower()}_i|psi>", val, want)
        return psi, before
    if kind == "measure":
        _, site, outcome, remove = op
        out, psi2 = psi.measure(site, outcome=outcome, remove=remove, renorm=False, info=info)
        mk.same(f"op{k}: forced outcome returned", out, outcome)
        sel = [slice(None)] * L
        sel[site] = outcome
        proj = before[tuple(sel)]
        if not remove:
            full = np.zeros(before.shape, dtype=before.dtype) if before.dtype != object else np.full(before.shape, P.ZERO, dtype=object)
            full[tuple(sel)] = proj
            proj = full
        return psi2, proj
    raise ValueError(op)


def run_history(mk, L, ops, start=None):
    psi = mps_sym(mk, L)
    info = {"cur_orthog": start}
    mk.encodes(c1.TensorNetwork1DFlat.canonicalize, c1.TensorNetwork1DFlat.shift_orthogonality_center,
               c1.TensorNetwork1DFlat.left_canonize_site, c1.TensorNetwork1DFlat.right_canonize_site,
               tc.tensor_canonize_bond, c1.parse_cur_orthog)
    for k, op in enumerate(ops):
        psi, want = apply_op(mk, psi, info, op, k)
        tag = f"after op{k} {op}"
        if want is not None:
            mk.eq(f"{tag}: state as expected", dense(psi), want)
        _check_after(mk, psi, info, tag)
    return psi, info


def _check_after(mk, psi, info, tag):
    marker, widened = info.pop("_stale", ("", None))
    check_record(mk, psi, info, tag, marker)
    if widened is not None:
        info["cur_orthog"] = widened


def _h(*ops, L=4, tiers=("quick", "thorough"), start=None, mand=True):
    # L = 4 histories that only run in the thorough tier are the heaviest certificates (minutes): when they exceed
    # the budget they are reported inconclusive (never counted), without failing the tier
    if L == 4 and tuple(tiers) == ("thorough",):
        mand = False
    return {"L": L, "ops": tuple(ops), "start": start, "_tiers": tiers, "_mandatory": mand}


_Q = ("quick", "thorough")
_T = ("thorough",)


# ---------------------------------------------------------------------- consumers on a state
# that satisfies the recorded canonical form *by hypothesis*: one inductive step from an
# arbitrary state satisfying the invariant (covers histories of any length, given that every
# operation re-establishes the invariant, which the `history` family checks)

def canonical_mps(mk, L, c, kind="real"):
    """MPS with free entries subject to: sites < lo left-isometric, sites > hi right-isometric, where
    (lo, hi) = c (an int c means (c, c)).
    Symbolic mode: the isometry relations are hypotheses on the leaf symbols.
    Numeric mode: a random MPS brought to that form by plain numpy QR sweeps (no quimb)."""
    lo, hi = (c, c) if isinstance(c, int) else c
    shapes = [(D, d) if i in (0, L - 1) else (D, D, d) for i in range(L)]
    if mk.sym:
        arrays = [mk.array(f"A{i}", shapes[i], kind) for i in range(L)]
        for i in range(L):
            a = arrays[i]
            if lo <= i <= hi:
                continue
            for v in a.reshape(-1):
                P.TAB.constrained.add(P.sid(v))
            if i < lo:     # left isometry: sum over (left bond, phys) -> identity on right bond
                m = a.T if a.ndim == 2 else np.transpose(a, (0, 2, 1)).reshape(-1, a.shape[1])
                # 2D site 0 has axes (bond, phys): matrix (phys x bond)
            else:          # right isometry: sum over (right bond, phys) -> identity on left bond
                m = a.T if a.ndim == 2 else np.transpose(a, (1, 2, 0)).reshape(-1, a.shape[0])
            g = _conj(m).T.dot(m)
            for x in range(g.shape[0]):
                for y in range(x if kind == "real" else 0, g.shape[1]):     # complex: both (x,y) and its conjugate (y,x)
                    P.HYP.append((f"canon-hyp site{i}[{x},{y}]", g[x, y] - (1 if x == y else 0)))
        return qtn.MatrixProductState(arrays)
    # numeric: work with (left, right, phys) arrays, dummy bonds of size 1 at the ends
    arrs = []
    for i in range(L):
        a = np.asarray(mk.array(f"A{i}", shapes[i], kind))
        if i == 0:
            a = a[None, :, :]                 # (1, r, p)
        elif i == L - 1:
            a = a[:, None, :]                 # (l, 1, p)
        arrs.append(a)
    for i in range(lo):                       # left sweep
        a = arrs[i]
        l, r, p = a.shape
        q, rr = np.linalg.qr(np.transpose(a, (0, 2, 1)).reshape(l * p, r))
        k = q.shape[1]
        arrs[i] = np.transpose(q.reshape(l, p, k), (0, 2, 1))
        arrs[i + 1] = np.tensordot(rr, arrs[i + 1], (1, 0))
    for i in range(L - 1, hi, -1):            # right sweep
        a = arrs[i]
        l, r, p = a.shape
        q, rr = np.linalg.qr(np.transpose(a, (1, 2, 0)).reshape(r * p, l))
        k = q.shape[1]
        arrs[i] = np.transpose(q.reshape(r, p, k), (2, 0, 1))
        arrs[i - 1] = np.transpose(np.tensordot(arrs[i - 1], rr, (1, 1)), (0, 2, 1))
    # (plain transposes: A_i = (Q R)^T-type factorisations, valid for complex data as well)
    arrs[0] = arrs[0][0]
    arrs[-1] = arrs[-1][:, 0, :]
    return qtn.MatrixProductState(arrs)


_CONS = []
for L_ in (3, 4):
    for c_ in range(L_):
        for op_ in [("clec", ((0,), (2, 1)), False), ("clec", ((1, 2), (0,)), False), ("clec", ((0, 1), (2,)), True),
                    ("expec", (1, 0)), ("expec", (2, 0)), ("rdm", (1, 0)), ("rdm", (2, 0)), ("rdm", (0, 2)),
                    ("gate1", 0), ("gate1", 1), ("gate1", L_ - 1),
                    ("compress_site", 1), ("compress_site", 1, {"canonize": False}), ("compress_site", 0, {"canonize": False}),
                    ("compress_site", L_ - 1, {"canonize": False}),
                    ("expec", (0,)), ("expec", (L_ - 1,)), ("expec", (1,)), ("expec", (0, 1)), ("expec", (1, 2)),
                    ("rdm", (1,)), ("rdm", (0, 1)), ("mag", 0), ("mag", L_ - 1), ("svals", 1), ("svals", L_ - 1),
                    ("schmidt", 1), ("measure", 0, 1, False), ("measure", L_ - 1, 0, False), ("measure", 1, 1, False),
                    ("measure", 1, 0, True), ("measure", L_ - 1, 0, True)]:
            quick = L_ == 3 and (op_[0] in ("expec", "mag", "svals", "schmidt", "measure") and (op_[1] == (1,) or op_[1] in (0, 1, 2) or op_[1] == (0, 1))
                                or op_ in (("expec", (2, 0)), ("rdm", (1, 0)), ("rdm", (2, 0)), ("gate1", 0), ("gate1", 2))
                                or (op_[0] == "clec" and c_ in (0, 2))
                                or (op_[0] == "compress_site" and len(op_) > 2))
            _CONS.append({"L": L_, "c": c_, "op": op_, "_tiers": _Q if quick else _T, "_mandatory": bool(quick) or L_ == 3})
# genuine range records (lo < hi): what a swap with absorb='both', a multi-site query or 'calc' leave behind
for L_, recs in ((3, ((0, 1), (1, 2), (0, 2))), (4, ((1, 2), (0, 2), (1, 3), (2, 3)))):
    for rec_ in recs:
        for op_ in [("expec", (1,)), ("expec", (1, 2)), ("expec", (2, 1)), ("expec", (0, L_ - 1)), ("rdm", (1, 2)), ("rdm", (0, 1)),
                    ("mag", 1), ("mag", L_ - 1), ("svals", 1), ("svals", 2), ("measure", 1, 1, False), ("gate1", 1), ("gate1", 0)]:
            quick = (L_ == 3 and op_ in (("expec", (1, 2)), ("rdm", (1, 2)), ("mag", 1), ("svals", 2), ("svals", 1))) or \
                    (L_ == 4 and rec_ == (1, 2) and op_ in (("rdm", (1, 2)), ("expec", (1, 2)), ("mag", 1)))
            _CONS.append({"L": L_, "c": rec_, "op": op_, "_tiers": _Q if quick else _T, "_mandatory": bool(quick) or L_ == 3})


# complex states (conjugation slips are invisible on real data): third round
for c_ in (0, 1, 2):
    for op_ in [("expec", (1,)), ("expec", (0, 1)), ("expec", (2, 1)), ("rdm", (1,)), ("rdm", (1, 0)), ("mag", 1, "Y"), ("mag", 0, "Y"),
                ("mag", 2, "X"), ("gate1", 1), ("svals", 1), ("measure", 1, 1, False), ("clec", ((0,), (2, 1)), False)]:
        _CONS.append({"L": 3, "c": c_, "op": op_, "kind": "cplx", "_tiers": _Q if c_ == 1 or op_[0] in ("mag", "rdm") else _T,
                      "_mandatory": c_ == 1 or op_[0] in ("mag", "rdm")})


@obligation(PROP, params=_CONS, rounds=2, timeout_s=300, max_rows=60000, wall_s=250, solver_timeout_ms=60000)
def consumer(mk, L, c, op, kind="real"):
    """a consumer of the canonical form, called with a true record (c, c) on an arbitrary state
    in that form: value == dense definition, outgoing record sound"""
    KIND[0] = kind
    psi = canonical_mps(mk, L, c, kind)
    info = {"cur_orthog": (c, c) if isinstance(c, int) else tuple(c)}
    check_record(mk, psi, info, "premise")   # the premise itself (trivially certified from the hypotheses)
    psi2, want = apply_op(mk, psi, info, op, 0)
    if want is not None:
        mk.eq(f"after {op}: state as expected", dense(psi2), want)
    _check_after(mk, psi2, info, f"after {op}")


_WIN = []
for L_ in (3, 4):
    recs = [(a, b) for a in range(L_) for b in range(a, L_)]
    wheres = [a for a in range(L_)] + [(a, b) for a in range(L_) for b in range(L_) if a != b]
    for rec_ in recs:
        for w_ in wheres:
            rev = isinstance(w_, tuple) and w_[0] > w_[1]
            quick = (L_ == 3 and not rev) or (L_ == 4 and rec_ in ((1, 2), (0, 3), (2, 2)) and w_ in ((1, 2), 0, 3, (0, 1), (2, 3), (2, 1)))
            _WIN.append({"L": L_, "rec": rec_, "where": w_, "_tiers": _Q if quick else _T, "_mandatory": bool(quick) or L_ == 3})


@obligation(PROP, params=_WIN, rounds=2, timeout_s=300, max_rows=60000, wall_s=250, solver_timeout_ms=60000)
def canonicalize_window(mk, L, rec, where):
    """one step from an ARBITRARY state satisfying an ARBITRARY true record (lo, hi), lo <= hi:
    canonicalize(where, info) preserves the state and leaves a true record inside the window `where`"""
    mk.encodes(c1.TensorNetwork1DFlat.canonicalize, c1.TensorNetwork1DFlat.shift_orthogonality_center,
               c1.TensorNetwork1DFlat.left_canonize_site, c1.TensorNetwork1DFlat.right_canonize_site, tc.tensor_canonize_bond)
    psi = canonical_mps(mk, L, rec)
    info = {"cur_orthog": tuple(rec)}
    before = dense(psi)
    psi.canonicalize_(where, info=info)
    mk.eq("state preserved", dense(psi), before)
    check_record(mk, psi, info, f"after canonicalize({where}) from record {rec}")
    w = (where, where) if isinstance(where, int) else (min(where), max(where))
    co = info["cur_orthog"]
    mk.same("new record lies within the requested window", w[0] <= min(co) <= max(co) <= w[1], True)


HISTORIES = [
    _h(("canon", 0), ("gate1", 2), ("expec", (2,)), L=3),
    _h(("canon", 2), ("gate1", 0), ("canon", 1), ("expec", (1, 0)), L=3),
    _h(("canon", 1), ("swap", 1, 2, "both"), ("rdm", (1, 2)), ("rdm", (1, 2)), L=3),
    _h(("canon", 1), ("swap", 1, 2, "both"), ("expec", (1, 2)), ("mag", 2), tiers=_T),
    _h(("canon", 0), ("compress_site", 2, {"canonize": False}), ("expec", (1,)), L=3),

    _h(("canon", 1), L=3),
    _h(("canon", 0), ("canon", 2), L=3),
    _h(("canon", (1, 2)), ("canon", 3)),
    _h(("canon", 2), ("canon", (0, 3))),
    _h(("canon", 1), ("swap", 1, 2, None), L=3),
    _h(("canon", 1), ("swap", 1, 2, "both"), L=3),
    _h(("canon", 1), ("swap", 1, 2, "left"), L=3),
    _h(("canon", 2), ("swap", 1, 2, "right"), L=3),
    _h(("canon", 1), ("swap", 1, 2, None), ("expec", (2,)), L=3, tiers=_T, mand=False),
    _h(("canon", 1), ("swap", 0, 2, None), L=3),
    _h(("canon", 0), ("swapto", 0, 2), L=3),
    _h(("canon", 2), ("swapto", 2, 0), L=3),
    _h(("canon", 0), ("gate2", (0, 1)), L=3),
    _h(("canon", 2), ("gate2", (1, 0)), L=3),
    _h(("canon", 1), ("gate2", (0, 2)), L=3),
    _h(("canon", 1), ("gate2", (2, 0)), L=3),
    _h(("canon", 1), ("gate_swap+split", (0, 2)), L=3),
    _h(("canon", 0), ("compress_site", 1), L=3),
    _h(("canon", 0), ("svals", 1), L=3),
    _h(("canon", 0), ("svals", 1), ("svals", 2), L=3, tiers=_T, mand=False),
    _h(("canon", 2), ("schmidt", 1), L=3),
    _h(("canon", 0), ("expec", (1,)), L=3),
    _h(("canon", 2), ("expec", (0, 1)), L=3),
    _h(("canon", 0), ("rdm", (1, 2)), L=3),
    _h(("canon", 0), ("mag", 2), L=3),
    _h(("canon", 0), ("measure", 1, 1, False), L=3),
    _h(("canon", 0), ("measure", 2, 0, True), L=3),
    _h(("canon", 2), ("measure", 0, 1, True), ("expec", (0,)), L=3),
    _h(("canon", 1), ("gate1", 1), ("expec", (1,)), L=3),
    _h(("canon", 1), ("nonlocal", (0, 2)), L=3, tiers=_T, mand=False),
    _h(("canon", 1), ("submpo", (2, 0)), L=3, tiers=_T, mand=False),
    _h(("gate2", (0, 2)), ("expec", (1,)), L=3, start=None, tiers=_T, mand=False),
    _h(("canon", 3), ("gate2", (0, 3)), ("svals", 2), tiers=_T),
    _h(("canon", 0), ("swapto", 0, 3), ("expec", (3,)), tiers=_T),
    _h(("canon", 2), ("swap", 2, 3, None), ("svals", 3), tiers=_T),
    _h(("canon", 2), ("swap", 1, 2, "both"), ("mag", 1), tiers=_T),
    _h(("canon", 1), ("gate2", (1, 2)), ("gate2", (3, 0)), tiers=_T),
    _h(("canon", 3), ("nonlocal", (0, 3)), ("rdm", (1,)), tiers=_T),
    _h(("canon", 0), ("measure", 3, 1, True), ("svals", 1), tiers=_T),
]
# fourth round (thorough only, not mandatory: the L = 4 certificates are the heaviest): every site pair of the swap
# routines on L = 4 incl. non-adjacent and descending; sub-MPO gate ('direct') x normalize x sweep_reverse on L = 3.
# The numeric sweeps swap_all_pairs_numeric / nonlocal_gate_options_numeric cover the same calls in the quick tier.
for i_, j_ in itertools.permutations(range(4), 2):
    HISTORIES.append(_h(("canon", (i_ + 1) % 4), ("swap", i_, j_, None), tiers=_T))
    if abs(i_ - j_) > 1:
        HISTORIES.append(_h(("canon", j_), ("swapto", i_, j_), tiers=_T))
for nrm_ in (False, True):
    for rev_ in (False, True):
        if nrm_ or rev_:
            HISTORIES.append(_h(("canon", 1), ("nonlocal", (0, 2), {"normalize": nrm_, "sweep_reverse": rev_}), L=3, tiers=_T, mand=False))
            HISTORIES.append(_h(("canon", 0), ("submpo", (2, 1), {"normalize": nrm_, "sweep_reverse": rev_}), L=3, tiers=_T, mand=False))


@obligation(PROP, params=HISTORIES, rounds=2, timeout_s=240, max_rows=60000, wall_s=200, solver_timeout_ms=60000)
def history(mk, L, ops, start):
    run_history(mk, L, ops, start)


@obligation(PROP)
def record_parsing(mk):
    """parse_cur_orthog / convert_cur_orthog: ints become (i, i), an existing info entry wins"""
    mk.encodes(c1.parse_cur_orthog, c1.convert_cur_orthog)
    mk.same("int -> pair", c1.parse_cur_orthog(2)["cur_orthog"], (2, 2))
    mk.same("pair kept", c1.parse_cur_orthog((1, 3))["cur_orthog"], (1, 3))
    mk.same("info wins", c1.parse_cur_orthog(0, {"cur_orthog": (2, 2)})["cur_orthog"], (2, 2))
    mk.same("None kept", c1.parse_cur_orthog(None)["cur_orthog"], None)


@obligation(PROP, params=[{"spin": s} for s in (2, 3)], numeric=True)
def magnetization_directions_numeric(mk, spin):
    """[numeric-only supplement] magnetization(i, direction) for every direction on COMPLEX states (the symbolic cells use
    real entries, for which <Sy> vanishes and a transposed operator is invisible): == <psi|S_dir on site i|psi>, physical
    dimension 2 and 3, with and without a supplied record"""
    mk.encodes(c1.MatrixProductState.magnetization)
    if mk.sym:
        mk.same("numeric-only obligation", True, True)
        return
    rng = np.random.default_rng(5 + spin)
    L = 4
    arrays = [rng.normal(size=((2, spin) if i in (0, L - 1) else (2, 2, spin))) + 1j * rng.normal(size=((2, spin) if i in (0, L - 1) else (2, 2, spin)))
              for i in range(L)]
    psi = qtn.MatrixProductState(arrays)
    psi = psi / psi.norm()
    v = np.asarray(psi.to_dense()).reshape(-1)
    for dirn in ("X", "Y", "Z", "+", "-"):
        S = np.asarray(qu.spin_operator(dirn, S=(spin - 1) / 2))
        for i in range(L):
            want = np.vdot(v, np.asarray(ref.embed(S, [spin] * L, (i,))) @ v)
            mk.eq(f"[numeric-only] spin dim {spin}: magnetization({i}, '{dirn}') == <psi|S|psi>", psi.copy().magnetization(i, dirn), want, tol=1e-9)
            info = {}
            p2 = psi.copy()
            p2.canonicalize_((i + 1) % L, info=info)
            mk.eq(f"[numeric-only] spin dim {spin}: magnetization({i}, '{dirn}') with a record", p2.magnetization(i, dirn, info=info), want, tol=1e-9)


# ---------------------------------------------------------------------- fourth round: configuration sweeps
# (every site pair of the swap routines; every method x normalize x sweep_reverse of the sub-MPO gate; independence of a
# circuit object and its copy).  The sweeps below are NUMERIC-ONLY supplements (random complex states, real LAPACK): the
# symbolic certificates of the same calls are the `history` cells (L = 3 quick; the L = 4 swap pairs appended to HISTORIES
# run in the thorough tier only) -- a false record makes the certificate search run to its budget (inconclusive), while
# the numeric sweep reports it at once.

def _num_state(mk, L, tag=""):
    arrays = []
    for i in range(L):
        shp = (D, d) if i in (0, L - 1) else (D, D, d)
        arrays.append(np.asarray(mk.array(f"T{tag}{i}", shp, "cplx"), dtype=complex))
    psi = qtn.MatrixProductState(arrays)
    return psi / psi.norm()


def _num_consumers(mk, psi, info, tag, sites=None):
    """canonical-form consumers called with the record on private copies, against the dense definition of the SAME state"""
    L = psi.L
    v = np.asarray(dense(psi), dtype=complex).reshape(-1)
    Z = np.array([[1.0, 0.3 - 0.2j], [0.3 + 0.2j, -1.0]])
    for s in (range(L) if sites is None else sites):
        p, inf = psi.copy(), dict(info)
        got = p.local_expectation_canonical(Z, (s,), normalized=False, info=inf)
        want = np.vdot(v, np.asarray(ref.embed(Z, [d] * L, (s,)), dtype=complex) @ v)
        mk.eq(f"[numeric-only] {tag}: local_expectation_canonical(({s},), record) == <psi|O|psi>", got, want, tol=1e-8)
    for b in (range(1, L) if sites is None else [s for s in sites if s >= 1]):
        p, inf = psi.copy(), dict(info)
        s2 = np.sort(np.asarray(p.schmidt_values(b, info=inf), dtype=float))[::-1]
        sv = np.linalg.svd(v.reshape(d ** b, -1), compute_uv=False) ** 2
        k = max(len(s2), len(sv))
        a, c = np.zeros(k), np.zeros(k)
        a[:len(s2)], c[:len(sv)] = s2, sv
        mk.eq(f"[numeric-only] {tag}: schmidt_values({b}, record) == squared singular values of the dense state", a, c, tol=1e-8)


_SWP = [{"L": 4, "op": "swap", "_tiers": _Q}, {"L": 4, "op": "swapto", "_tiers": _Q},
        {"L": 5, "op": "swap", "_tiers": _T}, {"L": 5, "op": "swapto", "_tiers": _T}, {"L": 6, "op": "swap", "_tiers": _T}]


@obligation(PROP, params=_SWP, numeric=True, num_trials=1, timeout_s=300)
def swap_all_pairs_numeric(mk, L, op):
    """[numeric-only supplement] swap_sites_with_compress(i, j, info) for EVERY ordered site pair i != j (adjacent,
    non-adjacent, descending) x every absorb mode, and swap_site_to(i, f, info) for every i != f, from every starting
    centre (and from no record): the state is the permuted state, the outgoing record is true (every site outside it
    isometric), and canonical-form consumers called with that record agree with the dense definition"""
    mk.encodes(c1.TensorNetwork1DFlat.swap_sites_with_compress, c1.TensorNetwork1DFlat.swap_site_to)
    if mk.sym:
        mk.note("numeric-only: configuration sweep (hundreds of calls); symbolic certificates of the same calls: history cells")
        mk.same("numeric-only cell (symbolic run skipped)", True, True)
        return
    psi0 = _num_state(mk, L)
    absorbs = (None, "left", "right", "both") if op == "swap" else (None,)
    for c in (None,) + tuple(range(L)):
        for i, j in itertools.permutations(range(L), 2):
            for ab in absorbs:
                psi = psi0.copy()
                info = {"cur_orthog": None}
                if c is not None:
                    psi.canonicalize_(c, info=info)
                o = ("swap", i, j, ab) if op == "swap" else ("swapto", i, j)
                tag = f"L={L} centre {c} {o}"
                psi, want = apply_op(mk, psi, info, o, 0)
                mk.eq(f"[numeric-only] {tag}: state is the permuted state", dense(psi), want, tol=1e-8)
                check_record(mk, psi, info, f"[numeric-only] {tag}")
                if ab in (None, "both") and (c in (None, 0, L - 1)):
                    _num_consumers(mk, psi, info, tag, sites=sorted({0, min(i, j), max(i, j), L - 1}))


_NLM_Q = ("direct", "dm", "zipup")
_NLM_T = ()      # 'zipup-first' (oversampling) raises KeyError inside gate_with_submpo for a region not starting at site 0: rejected, not covered
_NLP = [{"L": L_, "method": m_, "via": v_, "_tiers": _Q if (L_ == 4 and m_ in _NLM_Q and v_ == "gate_nonlocal") else _T}
        for L_ in (4, 5) for m_ in _NLM_Q + _NLM_T for v_ in ("gate_nonlocal", "gate", "gate_with_submpo")]


@obligation(PROP, params=_NLP, numeric=True, num_trials=1, timeout_s=300)
def nonlocal_gate_options_numeric(mk, L, method, via):
    """[numeric-only supplement] gate_nonlocal / gate(contract='nonlocal') / gate_with_submpo with EVERY combination of
    method x normalize in (False, True) x sweep_reverse in (False, True) x site tuple (two- and three-site, ascending and
    descending, nearest and far) from every starting centre, cutoff=0: the state is the gated state (normalised when
    normalize=True), the outgoing record is true, consumers called with it agree with the dense definition"""
    mk.encodes(c1.MatrixProductState.gate_nonlocal, c1.MatrixProductState.gate_with_submpo)
    if mk.sym:
        mk.note("numeric-only: dm / zipup compressors decide ranks numerically; option sweep. Symbolic certificates of the "
                "default options ('direct'): history cells ('nonlocal', 'submpo')")
        mk.same("numeric-only cell (symbolic run skipped)", True, True)
        return
    psi0 = _num_state(mk, L)
    wheres = [(0, 1), (1, 3), (3, 1), (0, L - 1), (L - 1, 0), (1, 2, L - 1), (L - 1, 0, 2)]
    if via == "gate_with_submpo":
        wheres = [w for w in wheres if list(w) == sorted(w)]
    for w in wheres:
        G = np.asarray(mk.array("G" + "".join(map(str, w)), (d ** len(w),) * 2, "cplx"), dtype=complex)
        for c in (None, 0, L // 2, L - 1):
            for normalize in (False, True):
                for rev in (False, True):
                    psi = psi0.copy()
                    info = {"cur_orthog": None}
                    if c is not None:
                        psi.canonicalize_(c, info=info)
                    want = np.asarray(gate_ref(G, w, L, np.asarray(dense(psi), dtype=complex)), dtype=complex)
                    if normalize:
                        want = want / np.linalg.norm(want.reshape(-1))
                    opts = {"method": method, "cutoff": 0.0, "normalize": normalize, "sweep_reverse": rev}
                    tag = f"L={L} centre {c} {via}{w} method={method} normalize={normalize} sweep_reverse={rev}"
                    if via == "gate_nonlocal":
                        psi.gate_nonlocal_(G, w, info=info, **opts)
                    elif via == "gate":
                        psi.gate_(G, w, contract="nonlocal", info=info, **opts)
                    else:
                        mpo = qtn.MatrixProductOperator.from_dense(G, dims=d, sites=w, L=L)
                        psi.gate_with_submpo_(mpo, info=info, **opts)
                    mk.eq(f"[numeric-only] {tag}: state as expected", dense(psi), want, tol=1e-7)
                    check_record(mk, psi, info, f"[numeric-only] {tag}")
                    _num_consumers(mk, psi, info, tag, sites=sorted({min(w), max(w), (min(w) + max(w)) // 2}))


def _num_unitary(mk, name, n):
    a = np.asarray(mk.array(name, (n, n), "cplx"), dtype=complex)
    q, r = np.linalg.qr(a)
    return q * (np.diag(r) / np.abs(np.diag(r)))


def _circ_apply(circ, v, prog, N):
    """apply (U, where) / ('SWAP', where) items to the circuit and to the dense reference vector"""
    for U, w in prog:
        if isinstance(U, str):
            circ.apply_gate(U, *w)
            U = np.array([[1, 0, 0, 0], [0, 0, 1, 0], [0, 1, 0, 0], [0, 0, 0, 1]], dtype=complex)
        else:
            circ.apply_gate_raw(U, w)
        v = np.asarray(ref.embed(U, [2] * N, tuple(w)), dtype=complex) @ v
    return v


def _circ_check(mk, circ, v, N, tag, mps):
    mk.eq(f"[numeric-only] {tag}: to_dense() == reference state of its OWN gate list", np.asarray(circ.to_dense()).reshape(-1), v, tol=1e-8)
    if mps:
        info = circ.gate_opts["info"]
        check_record(mk, circ._psi, info, f"[numeric-only] {tag}: gate_opts['info'] vs its own state")
        mk.eq(f"[numeric-only] {tag}: fidelity_estimate() == 1 (no truncation)", circ.fidelity_estimate(), 1.0, tol=1e-8)
        _num_consumers(mk, circ._psi.copy(), dict(info), tag + " (state + record)", sites=(0, N // 2, N - 1))
    O = np.array([[0.7, 0.2 - 0.5j], [0.2 + 0.5j, -0.4]])
    for s in range(N):
        want = np.vdot(v, np.asarray(ref.embed(O, [2] * N, (s,)), dtype=complex) @ v)
        mk.eq(f"[numeric-only] {tag}: local_expectation(O, {s}) == <psi|O|psi>", circ.local_expectation(O, s), want, tol=1e-8)
    if mps:
        check_record(mk, circ._psi, circ.gate_opts["info"], f"[numeric-only] {tag}: gate_opts['info'] after the queries")
        # query options that make the simulator work on a converted COPY of its state (dtype=...): the answer is the same and the
        # record keeps describing the state the object holds (third round: it used to receive the copy's centre - fixed)
        for s in (0, N - 1, N // 2):
            want = np.vdot(v, np.asarray(ref.embed(O, [2] * N, (s,)), dtype=complex) @ v)
            mk.eq(f"[numeric-only] {tag}: local_expectation(O, {s}, dtype='complex128') == <psi|O|psi>",
                  circ.local_expectation(O, s, dtype="complex128"), want, tol=1e-8)
            check_record(mk, circ._psi, circ.gate_opts["info"], f"[numeric-only] {tag}: gate_opts['info'] after a dtype= query on {s}")
            s2 = (s + 1) % N
            want2 = np.vdot(v, np.asarray(ref.embed(O, [2] * N, (s2,)), dtype=complex) @ v)
            mk.eq(f"[numeric-only] {tag}: plain local_expectation(O, {s2}) after the dtype= query == <psi|O|psi>", circ.local_expectation(O, s2), want2, tol=1e-8)


@obligation(PROP, params=[{"sim": "CircuitMPS", "N": 4, "_tiers": _Q}, {"sim": "CircuitMPS", "N": 5, "_tiers": _T},
                          {"sim": "CircuitPermMPS", "N": 4, "_tiers": _Q}, {"sim": "CircuitPermMPS", "N": 5, "_tiers": _T},
                          {"sim": "Circuit", "N": 4, "_tiers": _Q}, {"sim": "CircuitDense", "N": 4, "_tiers": _T}],
            numeric=True, num_trials=1, timeout_s=300)
def circuit_copy_independence_numeric(mk, sim, N):
    """[numeric-only supplement] c2 = c.copy(); gates applied to ONE of the two objects (every two-qubit location incl.
    non-adjacent and descending, one-qubit gates, non-adjacent SWAP) never change what the OTHER answers: to_dense, the
    gate_opts['info'] record being true for its own state, fidelity_estimate, canonical consumers through the record,
    local_expectation -- each equal to the dense reference of the object's own gate list; both directions (copy evolved,
    original queried; then original evolved, copy queried)"""
    from quimb.tensor.circuit import core as ccore
    mk.encodes(ccore.CircuitBase.copy)
    if mk.sym:
        mk.note("numeric-only: object-independence sweep over many gate locations on two live circuit objects")
        mk.same("numeric-only cell (symbolic run skipped)", True, True)
        return
    cls = getattr(qtn, sim)
    mps = sim in ("CircuitMPS", "CircuitPermMPS")
    base = [(_num_unitary(mk, f"u{q}", 2), (q,)) for q in range(N)]
    base += [(_num_unitary(mk, f"b{q}", 4), (q, q + 1)) for q in range(N - 1)]
    base += [(_num_unitary(mk, "bf", 4), (N - 1, 1)), ("SWAP", (0, N - 2))]
    base += [(_num_unitary(mk, f"c{q}", 4), (q + 1, q)) for q in range(N - 1)]          # centre ends near the right end
    exts = [[(_num_unitary(mk, f"e{i}{j}", 4), (i, j))] for i, j in itertools.permutations(range(N), 2)
            if (i, j) in ((0, 1), (1, 0), (N - 2, N - 1), (0, N - 1), (N - 1, 0), (1, N - 1), (1, 2))]
    exts += [[("SWAP", (0, N - 1))], [("SWAP", (N - 1, 1))], [(_num_unitary(mk, "e1q", 2), (0,)), (_num_unitary(mk, "e2q", 4), (0, 1))]]
    v0 = np.zeros(2 ** N, dtype=complex)
    v0[0] = 1.0
    for k, E in enumerate(exts):
        F = exts[(k + 3) % len(exts)]
        c = cls(N)
        vc = _circ_apply(c, v0, base, N)
        c2 = c.copy()
        v2 = _circ_apply(c2, vc, E, N)
        el = [(u if isinstance(u, str) else "U", w) for u, w in E]
        fl = [(u if isinstance(u, str) else "U", w) for u, w in F]
        _circ_check(mk, c, vc, N, f"{sim} N={N} original after copy got {el}", mps)
        _circ_check(mk, c2, v2, N, f"{sim} N={N} copy after it got {el}", mps)
        vc = _circ_apply(c, vc, F, N)
        _circ_check(mk, c2, v2, N, f"{sim} N={N} copy after original got {fl}", mps)
        _circ_check(mk, c, vc, N, f"{sim} N={N} original after it got {fl}", mps)
        mk.same(f"[numeric-only] {sim} N={N}: gate lists independent", (len(c.gates), len(c2.gates)), (len(base) + len(F), len(base) + len(E)))
