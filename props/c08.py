"""C08 - an MPS's recorded canonical form is always true, and its consumers are correct.

The real MPS routines are executed on a symbolic matrix product state while one `info` record
is threaded through a history of operations.  After every operation the *outgoing* record is
checked: every site left of the recorded range must be a left isometry, every site right of it
a right isometry, every tensor flagged through `left_inds` isometric -- as polynomial
identities certified modulo the LAPACK stub contracts (Q-CERT).  Consumers of the canonical
form (Schmidt values, canonical expectations / reduced density matrices, magnetization,
measurement probabilities and post-measurement states) are compared with the dense definition
computed by an independent reference from the state *before* the call.
"""
import itertools

import numpy as np

import quimb as qu
import quimb.tensor as qtn
from quimb.tensor.tn1d import core as c1
from quimb.tensor import tensor_core as tc

from qv import poly as P
from qv import ref, stubs
from qv.harness import obligation, Skip

PROP = "C08"
META = {
    "bounds": {
        "quick": {"L": "3-4", "bond dim": 2, "phys dim": 2, "entries": "real symbols", "history length": "<= 3 operations",
                  "gates": "symbolic 4x4 (non-unitary)", "truncation": "none (cutoff=0)"},
        "thorough": {"L": 4, "history length": "<= 3, all ordered pairs of operations from the vocabulary"},
    },
    "outside": ["calc_current_orthog_center / count_canonized (numerical detector using allclose): a record is always supplied",
                "cyclic MPS", "truncating calls", "random sampling statistics (outcomes are fixed / enumerated)",
                "complex entries in symbolic mode (np.real on object arrays); complex data only in numeric cross-runs where the kind is cplx"],
    "assumptions": ["LAPACK qr/svd return factors meeting their contracts (stubs); QR stub has positive diagonal",
                    "singular values strictly positive (generic full-rank state)"],
}

D, d = 2, 2


def mps_sym(mk, L, kind="real"):
    arrays = []
    for i in range(L):
        shp = (D, d) if i in (0, L - 1) else (D, D, d)
        arrays.append(mk.array(f"T{i}", shp, kind))
    return qtn.MatrixProductState(arrays)


def dense(psi):
    return ref.tn_dense(psi, tuple(psi.site_ind(i) for i in range(psi.L)))


def _conj(a):
    if a.dtype == object:
        out = np.empty(a.shape, dtype=object)
        for idx in np.ndindex(*a.shape):
            out[idx] = P.lift(a[idx]).conjugate()
        return out
    return np.conj(a)


def iso_goal(mk, label, t, over):
    """sum over labels `over` of conj(t) t == identity on the remaining label(s)"""
    rest = tuple(i for i in t.inds if i not in over)
    ren = {i: i + "'" for i in rest}
    g = ref.sum_of_products([(t.data, t.inds), (_conj(t.data), tuple(ren.get(i, i) for i in t.inds))],
                            rest + tuple(ren[i] for i in rest))
    n = int(np.prod([t.ind_size(i) for i in rest])) if rest else 1
    mk.eq(label, g.reshape(n, n), ref.eye(n, like=g))


def check_record(mk, psi, info, tag):
    co = info.get("cur_orthog", None)
    if co is None or co == "calc":
        mk.note(f"{tag}: no record claimed")
        return
    if isinstance(co, int):
        co = (co, co)
    cmin, cmax = min(co), max(co)
    mk.same(f"{tag}: record {co} within the chain", 0 <= cmin <= cmax <= psi.L - 1, True)
    for k in range(psi.L):
        t = psi[k]
        if k < cmin:
            over = tuple(i for i in t.inds if i != psi.bond(k, k + 1))
            iso_goal(mk, f"{tag}: record {co} => site {k} left-isometric", t, over)
        elif k > cmax:
            over = tuple(i for i in t.inds if i != psi.bond(k - 1, k))
            iso_goal(mk, f"{tag}: record {co} => site {k} right-isometric", t, over)
    for k in range(psi.L):
        t = psi[k]
        if t.left_inds is not None:
            iso_goal(mk, f"{tag}: site {k} flagged isometric over {tuple(t.left_inds)}", t, tuple(t.left_inds))


# ---------------------------------------------------------------------- operation vocabulary

def gate_ref(G, where, L, vec):
    """reference: (G embedded on sites `where`, in that order) applied to the dense state"""
    dims = [d] * L
    M = ref.embed(G, dims, where)
    return ref.matmul(M, vec.reshape(-1)).reshape(vec.shape)


def apply_op(mk, psi, info, op, k):
    """apply one operation in place; returns (new psi, expected dense state or None)"""
    kind = op[0]
    before = dense(psi)
    L = psi.L
    if kind == "canon":
        psi.canonicalize_(op[1], info=info)
        return psi, before
    if kind == "swap":
        _, i, j, absorb = op
        kw = {} if absorb is None else {"absorb": absorb}
        psi.swap_sites_with_compress_(i, j, info=info, cutoff=0.0, **kw)
        perm = list(range(L))
        perm[i], perm[j] = perm[j], perm[i]
        return psi, np.transpose(before, perm)
    if kind == "swapto":
        _, i, f = op
        psi.swap_site_to_(i, f, info=info, cutoff=0.0)
        order = list(range(L))
        s = order.pop(i)
        order.insert(f, s)
        return psi, np.transpose(before, order)
    if kind in ("gate2", "gate_swap+split", "nonlocal", "submpo"):
        where = op[1]
        G = mk.array(f"G{k}", (d * d, d * d), "real")
        want = gate_ref(G, where, L, before)
        if kind == "gate2":
            psi.gate_with_auto_swap_(G, where, info=info, cutoff=0.0)
        elif kind == "gate_swap+split":
            psi.gate_(G, where, contract="swap+split", info=info, cutoff=0.0)
        elif kind == "nonlocal":
            psi.gate_nonlocal_(G, where, info=info, cutoff=0.0)
        else:
            psi.gate_(G, where, contract="nonlocal", info=info, cutoff=0.0)
        return psi, want
    if kind == "gate1":
        i = op[1]
        G = mk.array(f"G{k}", (d, d), "real")
        want = gate_ref(G, (i,), L, before)
        psi.gate_(G, i, contract=True, info=info)
        # the generic one-site gate does not document a record update: the record is only
        # still claimed if the gate hit the centre range
        co = info.get("cur_orthog")
        if co is not None:
            co = (co, co) if isinstance(co, int) else co
            if not (min(co) <= i <= max(co)):
                info["cur_orthog"] = None
        return psi, want
    if kind == "compress_site":
        psi.compress_site(op[1], info=info, cutoff=0.0)
        return psi, before
    if kind == "svals":
        i = op[1]
        s = psi.singular_values(i, info=info)
        vec = before.reshape(d ** i, -1)
        rho = ref.matmul(vec, ref.dag(vec))
        tot2 = sum((x * x for x in s), 0)
        tot4 = sum((x * x * x * x for x in s), 0)
        mk.eq(f"op{k}: sum s^2 == <psi|psi> (bond {i})", tot2, ref.trace(rho))
        mk.eq(f"op{k}: sum s^4 == Tr rho_A^2 (bond {i})", tot4, ref.trace(ref.matmul(rho, rho)))
        return psi, before
    if kind == "schmidt":
        i = op[1]
        S = psi.schmidt_values(i, info=info)
        vec = before.reshape(d ** i, -1)
        rho = ref.matmul(vec, ref.dag(vec))
        mk.eq(f"op{k}: sum schmidt == <psi|psi>", sum((x for x in S), 0), ref.trace(rho))
        mk.eq(f"op{k}: sum schmidt^2 == purity", sum((x * x for x in S), 0), ref.trace(ref.matmul(rho, rho)))
        return psi, before
    if kind == "expec":
        where = op[1]
        G = mk.array(f"O{k}", (d ** len(where), d ** len(where)), "real")
        val = psi.local_expectation_canonical(G, where, normalized=False, info=info)
        v = before.reshape(-1)
        want = ref.matmul(_conj(v).reshape(1, -1), ref.matmul(ref.embed(G, [d] * L, where), v).reshape(-1, 1))[0, 0]
        mk.eq(f"op{k}: local_expectation_canonical{where} == <psi|G|psi>", val, want)
        return psi, before
    if kind == "rdm":
        where = op[1]
        rho = psi.partial_trace_to_dense_canonical(where, normalized=False, info=info)
        keep = tuple(where)
        out = tuple(f"k{i}" for i in keep) + tuple(f"b{i}" for i in keep)
        inds = tuple(f"k{i}" for i in range(L))
        binds = tuple(f"b{i}" if i in keep else f"k{i}" for i in range(L))
        want = ref.sum_of_products([(before, inds), (_conj(before), binds)], out)
        mk.eq(f"op{k}: partial_trace_to_dense_canonical{where} == dense reduced state", rho, want.reshape(rho.shape))
        return psi, before
    if kind == "mag":
        i = op[1]
        val = psi.magnetization(i, "Z", info=info)
        Z = mk.const(np.array([[0.5, 0.0], [0.0, -0.5]]))
        v = before.reshape(-1)
        want = ref.matmul(_conj(v).reshape(1, -1), ref.matmul(ref.embed(Z, [d] * L, (i,)), v).reshape(-1, 1))[0, 0]
        mk.eq(f"op{k}: magnetization({i}) == <psi|Sz_i|psi>", val, want)
        return psi, before
    if kind == "measure":
        _, site, outcome, remove = op
        out, psi2 = psi.measure(site, outcome=outcome, remove=remove, renorm=False, info=info)
        mk.same(f"op{k}: forced outcome returned", out, outcome)
        sel = [slice(None)] * L
        sel[site] = outcome
        proj = before[tuple(sel)]
        if not remove:
            full = np.zeros(before.shape, dtype=before.dtype) if before.dtype != object else np.full(before.shape, P.ZERO, dtype=object)
            full[tuple(sel)] = proj
            proj = full
        return psi2, proj
    raise ValueError(op)


def run_history(mk, L, ops, start=None):
    psi = mps_sym(mk, L)
    info = {"cur_orthog": start}
    mk.encodes(c1.TensorNetwork1DFlat.canonicalize, c1.TensorNetwork1DFlat.shift_orthogonality_center,
               c1.TensorNetwork1DFlat.left_canonize_site, c1.TensorNetwork1DFlat.right_canonize_site,
               tc.tensor_canonize_bond, c1.parse_cur_orthog)
    for k, op in enumerate(ops):
        psi, want = apply_op(mk, psi, info, op, k)
        tag = f"after op{k} {op}"
        if want is not None:
            mk.eq(f"{tag}: state as expected", dense(psi), want)
        check_record(mk, psi, info, tag)
    return psi, info


def _h(*ops, L=4, tiers=("quick", "thorough"), start=None):
    return {"L": L, "ops": tuple(ops), "start": start, "_tiers": tiers}


_Q = ("quick", "thorough")
_T = ("thorough",)
HISTORIES = [
    _h(("canon", 1), L=3),
    _h(("canon", 0), ("canon", 2), L=3),
    _h(("canon", (1, 2)), ("canon", 3)),
    _h(("canon", 2), ("canon", (0, 3))),
    _h(("canon", 1), ("swap", 1, 2, None), L=3),
    _h(("canon", 1), ("swap", 1, 2, "both"), L=3),
    _h(("canon", 1), ("swap", 1, 2, "left"), L=3),
    _h(("canon", 2), ("swap", 1, 2, "right"), L=3),
    _h(("canon", 1), ("swap", 1, 2, None), ("expec", (2,)), L=3),
    _h(("canon", 1), ("swap", 0, 2, None), L=3),
    _h(("canon", 0), ("swapto", 0, 2), L=3),
    _h(("canon", 2), ("swapto", 2, 0), L=3),
    _h(("canon", 0), ("gate2", (0, 1)), L=3),
    _h(("canon", 2), ("gate2", (1, 0)), L=3),
    _h(("canon", 1), ("gate2", (0, 2)), L=3),
    _h(("canon", 1), ("gate2", (2, 0)), L=3),
    _h(("canon", 1), ("gate_swap+split", (0, 2)), L=3),
    _h(("canon", 0), ("compress_site", 1), L=3),
    _h(("canon", 0), ("svals", 1), ("svals", 2), L=3),
    _h(("canon", 2), ("schmidt", 1), L=3),
    _h(("canon", 0), ("expec", (1,)), L=3),
    _h(("canon", 2), ("expec", (0, 1)), L=3),
    _h(("canon", 0), ("rdm", (1, 2)), L=3),
    _h(("canon", 0), ("mag", 2), L=3),
    _h(("canon", 0), ("measure", 1, 1, False), L=3),
    _h(("canon", 0), ("measure", 2, 0, True), L=3),
    _h(("canon", 2), ("measure", 0, 1, True), ("expec", (0,)), L=3),
    _h(("canon", 1), ("gate1", 1), ("expec", (1,)), L=3),
    _h(("canon", 1), ("nonlocal", (0, 2)), L=3),
    _h(("canon", 1), ("submpo", (2, 0)), L=3),
    _h(("gate2", (0, 2)), ("expec", (1,)), L=3, start=None),
    _h(("canon", 3), ("gate2", (0, 3)), ("svals", 2), tiers=_T),
    _h(("canon", 0), ("swapto", 0, 3), ("expec", (3,)), tiers=_T),
    _h(("canon", 2), ("swap", 2, 3, None), ("svals", 3), tiers=_T),
    _h(("canon", 2), ("swap", 1, 2, "both"), ("mag", 1), tiers=_T),
    _h(("canon", 1), ("gate2", (1, 2)), ("gate2", (3, 0)), tiers=_T),
    _h(("canon", 3), ("nonlocal", (0, 3)), ("rdm", (1,)), tiers=_T),
    _h(("canon", 0), ("measure", 3, 1, True), ("svals", 1), tiers=_T),
]


@obligation(PROP, params=HISTORIES, rounds=2, rounds2=3, timeout_s=900, max_rows=150000, wall_s=800)
def history(mk, L, ops, start):
    run_history(mk, L, ops, start)


@obligation(PROP)
def record_parsing(mk):
    """parse_cur_orthog / convert_cur_orthog: ints become (i, i), an existing info entry wins"""
    mk.encodes(c1.parse_cur_orthog, c1.convert_cur_orthog)
    mk.same("int -> pair", c1.parse_cur_orthog(2)["cur_orthog"], (2, 2))
    mk.same("pair kept", c1.parse_cur_orthog((1, 3))["cur_orthog"], (1, 3))
    mk.same("info wins", c1.parse_cur_orthog(0, {"cur_orthog": (2, 2)})["cur_orthog"], (2, 2))
    mk.same("None kept", c1.parse_cur_orthog(None)["cur_orthog"], None)
