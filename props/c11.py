"""C11 - TEBD equals its documented Trotter product and reaches exactly the requested time.

 (a) Hamiltonian objects: LocalHam1D / LocalHamGen on symbolic one- and two-site terms: the
     stored terms sum to the supplied operator, `get_gate(where)` returns the term with its
     factors in the order of `where`, `get_gate_expm` exponentiates exactly that term times x.
     The same for the lattice constructors LocalHam2D / LocalHam3D (default term + specific terms keyed in
     either site order, open / periodic, sides of length 2).
 (b) schedule and time bookkeeping: the real `TEBD.update_to / step / sweep / at_times` run
     concolically on symbolic t0, dt, T (with (T - t0) <= 3 dt) while the MPS work is replaced by
     a recorder; goals: t == T exactly at return, queue drained, the recorded sweep sequence
     (adjacent same-direction sweeps merged) is the documented palindromic order-p formula per
     step, per bond the exponents sum to T - t0, every bond of the chain is in exactly one
     layer.  `trotter_schedule` order conditions.
 (c) one real step through the real sweeps (no recorder) with the matrix exponential replaced by
     an uninterpreted symbolic matrix per generator: the evolved state equals the reference
     product applied to the initial state, the generators are -i dt frac * term(bond).
 (d) arbitrary-geometry sweeps (TEBDGen), (e) call histories (evolve / read `.state` / assign `.state`) on one
     SimpleUpdateGen / 2D SimpleUpdate / TEBDGen driver - numeric-only.
"""
import itertools

import numpy as np

import quimb as qu
import quimb.tensor as qtn
from quimb.tensor.tn1d import tebd as t1
from quimb.tensor.tnag import tebd as tg

from qv import poly as P
from qv import ref, stubs, sx
from qv.harness import obligation, Skip

PROP = "C11"
META = {
    "bounds": {
        "quick": {"L": "2-5 (terms), 3-5 (bookkeeping), 3-4 (real sweeps)", "boundaries": "open and periodic", "orders": "1, 2, 4",
                  "lattices": "LocalHam2D 2x2, 2x3, 3x2, 1x3 and LocalHam3D 2x2x2, open / periodic; H2 as array, full dict or default + overrides, keys in "
                              "generator / reversed / alternating orientation; H1 none / array / dict / default + overrides (dense sum up to 6 sites, per pair beyond)",
                  "driver histories": "7 histories of <= 11 calls (evolve 1-3 sweeps, read, assign checkpoint / fresh state / fresh state with smaller bonds / own "
                                      "(tensors, gauges) pair) on 4-site chain, star, ring, 2x2 PEPS; D = full (trees) or 2 (loops), cutoff 0, update 'sequential' and 'parallel', "
                                      "equilibrate_every None / 1; random float inputs (numeric-only)",
                  "times": "t0, dt, T symbolic reals with 0 < dt, 0 <= T - t0 <= 3 dt (<= 4 steps); sequences of two targets"},
        "thorough": {"L": "up to 6", "times": "(T - t0) <= 4 dt", "lattices": "also 3x3, 2x2x3, 3x2x2, per-axis periodicity in 2D, every H2 x H1 mode",
                     "driver histories": "every driver x history, equilibrate_every None / 1 / 'gate'"},
    },
    "outside": ["numerical convergence rate measurements, accuracy of the `err` estimate", "truncation (cutoff = 0)",
                "2D / 3D / arbitrary-geometry simple-update TEBD beyond the Hamiltonian objects (a), the sweep structure (d) and the state-assignment "
                "histories (e); (e) is numeric-only (random floats): the symbolic route (SVD stubs + inverse gauges) timed out on a 3-site chain with one sweep",
                "update='parallel' with an equilibration period: only history independence is checked (not a product formula by construction); "
                "update='parallel' with equilibrate_every=<int> started from a state whose bonds grow during the first sweep (ValueError in quimb, "
                "also without any assignment - reported)",
                "assigning a state whose bond *names* differ from the current ones, energy tracking / keep_best / tol stopping",
                "periodic lattices with a side of length 1; for a periodic side of length exactly 2 the reference is ONE term per pair (default term oriented "
                "(smaller site, larger site))",
                "the value of the matrix exponential (uninterpreted per generator in (c); real scipy expm in the numeric cross-run)",
                "odd periodic chains: the even/odd/boundary colouring is not a symmetric splitting (documented); only structure is checked"],
    "assumptions": ["(b) replaces the MPS and the Hamiltonian cache by recorders; their own correctness is (c) / C06 / C08",
                    "order 4 coefficients are floats: per-bond exponent sums are compared within 4e-16 relative"],
}

d = 2


# ---------------------------------------------------------------------- (a) Hamiltonian objects

def _terms_ref(mk, L, cyclic, mode, with_h1):
    """build inputs for LocalHam1D + the reference dense operator"""
    nb = L if (cyclic and L > 2) else L - 1
    bonds = [(i, (i + 1) % L) for i in range(nb)]
    dims = [d] * L
    if mode == "dict":
        H2 = {b: mk.array(f"H2_{b[0]}{b[1]}", (d * d, d * d), "cplx") for b in bonds}
        per_bond = dict(H2)
    elif mode == "dict-flipped":   # keys given as (j, i): first factor acts on j
        H2 = {}
        per_bond = {}
        for b in bonds:
            a = mk.array(f"H2_{b[1]}{b[0]}", (d * d, d * d), "cplx")
            H2[(b[1], b[0])] = a
            per_bond[(b[1], b[0])] = a
    elif mode in ("default+override", "default+override-flipped"):
        # a default (None) term plus site-specific overrides, keyed in the loop's orientation or the
        # opposite one (incl. the periodic boundary bond given as (0, L-1))
        a = mk.array("H2", (d * d, d * d), "cplx")
        H2 = {None: a}
        per_bond = {b: a for b in bonds}
        flip = mode.endswith("flipped")
        for k, b in enumerate(bonds):
            if k % 2 == 0 or k == len(bonds) - 1:
                o = mk.array(f"H2o_{b[0]}{b[1]}", (d * d, d * d), "cplx")
                key = (b[1], b[0]) if flip else b
                H2[key] = o
                del per_bond[b]
                per_bond[key] = o
    else:
        a = mk.array("H2", (d * d, d * d), "cplx")
        H2 = a
        per_bond = {b: a for b in bonds}
    total = None
    for where, a in per_bond.items():
        e = ref.embed(a, dims, where)
        total = e if total is None else total + e
    H1 = None
    if with_h1 == "dict":
        H1 = {i: mk.array(f"H1_{i}", (d, d), "cplx") for i in range(L)}
        for i, a in H1.items():
            total = total + ref.embed(a, dims, (i,))
    elif with_h1 == "single":
        a = mk.array("H1", (d, d), "cplx")
        H1 = a
        for i in range(L):
            total = total + ref.embed(a, dims, (i,))
    return H2, H1, per_bond, total, dims, bonds


_HP = [{"L": L, "cyclic": c, "mode": m, "h1": h,
        "_tiers": ("quick", "thorough") if (L <= 4 and not (m == "dict-flipped" and h == "single")) else ("thorough",)}
       for L in (2, 3, 4, 5) for c in (False, True) for m in ("dict", "single", "dict-flipped") for h in (None, "dict", "single")
       if not (c and L == 2)]
_HP += [{"L": L, "cyclic": c, "mode": m, "h1": h, "_tiers": ("quick", "thorough") if (L <= 4 and h is None) or L == 3 else ("thorough",)}
        for L in (2, 3, 4, 5) for c in (False, True) for m in ("default+override", "default+override-flipped") for h in (None, "dict")
        if not (c and L == 2)]


@obligation(PROP, params=_HP)
def local_ham_terms(mk, L, cyclic, mode, h1):
    """sum of stored terms == supplied operator; get_gate honours the order of `where`"""
    mk.encodes(tg.LocalHamGen.__init__, t1.LocalHam1D.__init__, tg.LocalHamGen.get_gate, tg.LocalHamGen._flip_cached,
               tg.LocalHamGen._op_id_cached, tg.LocalHamGen._id_op_cached)
    H2, H1, per_bond, total, dims, bonds = _terms_ref(mk, L, cyclic, mode, h1)
    ham = qtn.LocalHam1D(L, H2=H2, H1=H1, cyclic=cyclic)
    mk.same("one stored term per bond", sorted(tuple(sorted(k)) for k in ham.terms), sorted(tuple(sorted(b)) for b in bonds))
    tot = None
    for where, term in ham.terms.items():
        e = ref.embed(np.asarray(term), dims, where)
        tot = e if tot is None else tot + e
    mk.eq("sum of stored terms (embedded on their keys) == supplied operator", tot, total)
    for b in bonds:
        for where in (b, (b[1], b[0])):
            g = np.asarray(ham.get_gate(where))
            srt = tuple(sorted(where))
            mk.eq(f"get_gate({where}) acts on sites in the order of `where`",
                  ref.embed(g, dims, where), ref.embed(np.asarray(ham.terms[srt]), dims, srt))


# --- the same claim for the lattice constructors LocalHam2D / LocalHam3D (default term + overrides in either orientation)

def _lattice_bonds(shape, cyclic):
    """independent enumeration of the nearest-neighbour pairs of an open / periodic hyper-cubic lattice: one entry per
    unordered pair, oriented (site, site + unit step) - the wrap-around pair of a periodic side of length >= 3 is
    (last, first); a periodic side of length exactly 2 has a single pair (which is already in the open lattice)"""
    nd = len(shape)
    cyc = tuple(cyclic) if isinstance(cyclic, (tuple, list)) else (cyclic,) * nd
    bonds = []
    for coo in itertools.product(*[range(n) for n in shape]):
        for ax in reversed(range(nd)):
            c2 = list(coo)
            c2[ax] += 1
            if c2[ax] >= shape[ax]:
                if not (cyc[ax] and shape[ax] > 2):
                    continue
                c2[ax] = 0
            bonds.append((coo, tuple(c2)))
    assert len({frozenset(b) for b in bonds}) == len(bonds)
    return bonds


def _lattice_inputs(mk, shape, cyclic, mode, h1):
    """H2 / H1 arguments for LocalHam2D / LocalHam3D and, independently, the supplied operator as
    {(site a, site b): 4x4 term acting on (a, b) in that order} + {site: 2x2 term}"""
    bonds = _lattice_bonds(shape, cyclic)
    sites = list(itertools.product(*[range(n) for n in shape]))
    nm = lambda c: "".join(map(str, c))
    per_bond = {}
    if mode == "single":
        a = mk.array("H2", (d * d, d * d), "cplx")
        H2 = a
        per_bond = {b: a for b in bonds}
    elif mode in ("dict", "dict-flipped", "dict-mixed"):
        H2 = {}
        for k, (a, b) in enumerate(bonds):
            flip = mode == "dict-flipped" or (mode == "dict-mixed" and k % 2 == 1)
            key = (b, a) if flip else (a, b)
            H2[key] = per_bond[key] = mk.array(f"H2_{nm(key[0])}_{nm(key[1])}", (d * d, d * d), "cplx")
    else:
        # default (None) term + overrides on a subset of the bonds (every third bond, the first and the last one - the
        # last one is a wrap-around bond on periodic lattices), keyed in the generator's orientation / reversed / alternating
        a0 = mk.array("H2", (d * d, d * d), "cplx")
        H2 = {None: a0}
        nover = 0
        for k, (a, b) in enumerate(bonds):
            if k % 3 == 0 or k == len(bonds) - 1:
                flip = mode == "default+override-flipped" or (mode == "default+override-mixed" and nover % 2 == 0)
                nover += 1
                key = (b, a) if flip else (a, b)
                H2[key] = per_bond[key] = mk.array(f"H2o_{nm(key[0])}_{nm(key[1])}", (d * d, d * d), "cplx")
            else:
                per_bond[(a, b)] = a0
    per_site = {}
    H1 = None
    if h1 == "single":
        H1 = mk.array("H1", (d, d), "cplx")
        per_site = {s: H1 for s in sites}
    elif h1 == "dict":
        H1 = {s: mk.array(f"H1_{nm(s)}", (d, d), "cplx") for s in sites}
        per_site = dict(H1)
    elif h1 == "default+override":
        h0 = mk.array("H1", (d, d), "cplx")
        H1 = {None: h0}
        for k, s in enumerate(sites):
            if k % 2 == 1:
                H1[s] = mk.array(f"H1o_{nm(s)}", (d, d), "cplx")
            per_site[s] = H1.get(s, h0)
    return H2, H1, bonds, sites, per_bond, per_site


_LAT_MODES = ("single", "dict", "dict-flipped", "dict-mixed", "default+override", "default+override-flipped", "default+override-mixed")


def _lat_tiers(shape, cyclic, mode, h1):
    n = int(np.prod(shape))
    quick = False
    if len(shape) == 2 and n <= 6 and cyclic in (False, True):
        if mode.startswith("default+override"):
            quick = h1 is None or (n == 4 and h1 == "default+override") or (shape == (2, 3) and cyclic and h1 == "dict")
        elif mode in ("single", "dict-mixed"):
            quick = (n == 4 and h1 in (None, "single")) or (shape == (2, 3) and h1 is None and not cyclic)
    if shape == (2, 2, 2):
        quick = mode in ("default+override-flipped", "default+override-mixed") and h1 is None
    return ("quick", "thorough") if quick else ("thorough",)


_LP = [{"shape": s, "cyclic": c, "mode": m, "h1": h, "_tiers": _lat_tiers(s, c, m, h)}
       for s in ((2, 2), (2, 3), (3, 2), (1, 3), (3, 3), (2, 2, 2), (2, 2, 3), (3, 2, 2))
       for c in ((False, True, (True, False), (False, True)) if len(s) == 2 else (False, True))
       for m in _LAT_MODES for h in (None, "single", "dict", "default+override")
       if not (c is not False and 1 in s)
       and not (int(np.prod(s)) > 6 and h is not None and m in ("dict", "dict-flipped", "single"))]


@obligation(PROP, params=_LP, timeout_s=400, wall_s=300)
def local_ham_terms_lattice(mk, shape, cyclic, mode, h1):
    """LocalHam2D / LocalHam3D: the stored terms are exactly the supplied ones - a default (None) term on every
    nearest-neighbour pair that has no specific term, specific terms keyed in either site order, open / periodic lattices
    including sides of length 2 - per pair and as the dense sum (one-site terms included); get_gate honours `where`"""
    from quimb.tensor.tn2d import tebd as t2
    from quimb.tensor.tn3d import tebd as t3
    cls = qtn.LocalHam2D if len(shape) == 2 else qtn.LocalHam3D
    mk.encodes(tg.LocalHamGen.__init__, t2.LocalHam2D.__init__, t3.LocalHam3D.__init__, tg.LocalHamGen.get_gate, tg.LocalHamGen._flip_cached,
               tg.LocalHamGen._op_id_cached, tg.LocalHamGen._id_op_cached)
    if len(shape) == 3 and cyclic:
        # (LocalHam3D passes `cyclic` to gen_3d_bonds like the 2D class)
        pass
    H2, H1, bonds, sites, per_bond, per_site = _lattice_inputs(mk, shape, cyclic, mode, h1)
    H2_keys0 = sorted(map(repr, H2)) if isinstance(H2, dict) else None
    ham = cls(*shape, H2=H2, H1=H1, cyclic=cyclic)
    if H2_keys0 is not None:
        mk.same("the caller's H2 dict is not modified", sorted(map(repr, H2)), H2_keys0)
    mk.same("one stored term per nearest-neighbour pair", sorted(tuple(sorted(k)) for k in ham.terms), sorted(tuple(sorted(b)) for b in bonds))
    mk.same("stored keys are (smaller site, larger site)", all(k[0] < k[1] for k in ham.terms), True)
    two = [d, d]
    if h1 is None:
        for key, a in per_bond.items():
            srt = tuple(sorted(key))
            if srt not in ham.terms:
                continue
            mk.eq(f"stored term of the pair {srt} == the supplied term of that pair (supplied on {key})",
                  np.asarray(ham.terms[srt]), ref.embed(a, two, (0, 1) if key == srt else (1, 0)))
    n = len(sites)
    if n <= 6:
        dims = [d] * n
        pos = {s: i for i, s in enumerate(sites)}
        total = None
        for key, a in per_bond.items():
            e = ref.embed(a, dims, (pos[key[0]], pos[key[1]]))
            total = e if total is None else total + e
        for s, a in per_site.items():
            total = total + ref.embed(a, dims, (pos[s],))
        tot = None
        for where, term in ham.terms.items():
            e = ref.embed(np.asarray(term), dims, (pos[where[0]], pos[where[1]]))
            tot = e if tot is None else tot + e
        mk.eq("sum of stored terms (embedded on their keys) == sum of the supplied two- and one-site terms", tot, total)
    for a, b in bonds:
        srt = tuple(sorted((a, b)))
        if srt not in ham.terms:
            continue
        for where in ((a, b), (b, a)):
            g = np.asarray(ham.get_gate(where))
            mk.eq(f"get_gate({where}) acts on sites in the order of `where`",
                  g, ref.embed(np.asarray(ham.terms[srt]), two, (0, 1) if where == srt else (1, 0)))


@obligation(PROP, params=[{"L": 3, "cyclic": c} for c in (False, True)])
def local_ham_expm(mk, L, cyclic):
    """get_gate_expm(where, x) == expm(x * get_gate(where)), cached per (term, x)"""
    mk.encodes(tg.LocalHamGen.get_gate_expm, tg.LocalHamGen._expm_cached)
    H2, H1, per_bond, total, dims, bonds = _terms_ref(mk, L, cyclic, "dict", "dict")
    ham = qtn.LocalHam1D(L, H2=H2, H1=H1, cyclic=cyclic)
    rec = _install_expm(mk)
    try:
        for b in bonds:
            for where in (b, (b[1], b[0])):
                x = -0.25j
                U = ham.get_gate_expm(where, x)
                U2 = ham.get_gate_expm(where, x)
                mk.same(f"get_gate_expm{where} cached", U is U2, True)
                if mk.sym:
                    arg = rec["args"][id(U)]
                    mk.eq(f"generator of get_gate_expm({where}, x) == x * get_gate({where})", arg, np.asarray(ham.get_gate(where)) * P.lift(x))
                else:
                    import scipy.linalg as sla
                    mk.eq(f"get_gate_expm({where}, x) == expm(x * get_gate)", U, sla.expm(np.asarray(ham.get_gate(where)) * x))
    finally:
        _uninstall_expm(rec)


def _install_expm(mk):
    """symbolic mode: scipy.linalg.expm on object arrays -> a fresh symbolic matrix per distinct
    generator (uninterpreted exponential); the generator is recorded"""
    import scipy.linalg as sla
    rec = {"orig": sla.expm, "args": {}, "by_content": {}, "n": 0}
    if not mk.sym:
        return rec

    def expm(A):
        A = np.asarray(A)
        if A.dtype != object:
            return rec["orig"](A)
        key = tuple(hash(P.lift(v)) for v in A.reshape(-1))
        if key in rec["by_content"]:
            return rec["by_content"][key]
        rec["n"] += 1
        E = P.symarray(f"E{rec['n']}", A.shape, "cplx")
        rec["by_content"][key] = E
        rec["args"][id(E)] = A
        stubs.USED["scipy.linalg.expm (uninterpreted)"] = stubs.USED.get("scipy.linalg.expm (uninterpreted)", 0) + 1
        return E

    sla.expm = expm
    return rec


def _uninstall_expm(rec):
    import scipy.linalg as sla
    sla.expm = rec["orig"]


# ---------------------------------------------------------------------- (b) bookkeeping with recorders

class RecMPS:
    """stands in for the MPS: records which two-site gate (token) is applied where, and tracks where
    the canonicalisation calls and the absorb options put the orthogonality centre (None = unknown)"""

    def __init__(self, L, log):
        self.L = L
        self.log = log
        self.centre = None
        self.norm_log = []

    def left_canonize(self, start=None, stop=None, **k):
        # sweeps the centre from `start` to `stop` only if it is inside [start, stop]
        if stop is not None and self.centre is not None and (start is None or start <= self.centre <= stop):
            self.centre = stop

    def right_canonize(self, start=None, stop=None, **k):
        if stop is not None and self.centre is not None and (start is None or stop <= self.centre <= start):
            self.centre = stop

    def left_canonize_site(self, i, **k):
        if self.centre == i:
            self.centre = (i + 1) % self.L

    def right_canonize_site(self, i, **k):
        if self.centre == i:
            self.centre = (i - 1) % self.L

    def gate_split_(self, U, where, absorb=None, **opts):
        self.log.append(("gate", tuple(where), U))
        a, b = where
        if self.centre is None or self.centre in (a, b):
            self.centre = {"right": b, "left": a}.get(absorb)

    def max_bond(self):
        return 1

    def copy(self):
        return self

    def __getitem__(self, i):
        self.norm_log.append((i, self.centre))
        return _UnitNorm()

    def __setitem__(self, i, v):
        pass


class _UnitNorm:
    def norm(self):
        return 1.0

    def __itruediv__(self, o):
        return self


class RecHam:
    def __init__(self, cyclic):
        self.cyclic = cyclic

    def get_gate_expm(self, where, x):
        return ("U", tuple(where), x)


def make_tebd(mk, L, cyclic, t0, dt):
    tb = object.__new__(qtn.TEBD)
    log = []
    tb._pt = RecMPS(L, log)
    tb.L = L
    tb.H = RecHam(cyclic)
    tb.cyclic = cyclic
    tb._ham_norm = 1.0
    tb._err = 0.0
    tb.t0 = tb.t = t0
    tb.dt = tb._dt = dt
    tb.tol = None
    tb.imag = True          # exponent = -dt*frac stays real (same bookkeeping as real time)
    tb.progbar = False
    tb.split_opts = {}
    # record sweeps
    sweeps = []
    orig = qtn.TEBD.sweep

    return tb, log


def chain_bonds(L, cyclic):
    bonds = [(i, i + 1) for i in range(L - 1)]
    if cyclic and L > 2:
        bonds.append((L - 1, 0))
    return bonds


def layer_of(b, L, cyclic):
    """documented colouring: even bonds are swept right, odd bonds left; the boundary bond goes
    with the left sweep for even L and with the right sweep for odd L"""
    if b == (L - 1, 0):
        return "right" if L % 2 == 1 else "left"
    return "right" if b[0] % 2 == 0 else "left"


def merged(seq):
    out = []
    for k, a in seq:
        if out and out[-1][0] == k:
            out[-1] = (k, out[-1][1] + a)
        else:
            out.append((k, a))
    return out


_BK = [{"L": L, "cyclic": c, "order": o, "targets": n, "m": m,
        "_tiers": ("quick", "thorough") if (m == 3 and L in (3, 4) and not (n == 2 and o == 4)) else ("thorough",)}
       for L in (3, 4, 5, 6) for c in (False, True) for o in (1, 2, 4) for n in (1, 2) for m in (3, 4)
       if not (L == 6 and m == 4)]
# the same bookkeeping for the states *yielded* by at_times at intermediate target times
_BK += [{"L": L, "cyclic": c, "order": o, "targets": n, "m": 3, "via": "at_times",
         "_tiers": ("quick", "thorough") if (L == 3 and n == 2 and o in (1, 2)) or (L == 4 and n == 2 and o == 2 and not c) else ("thorough",)}
        for L in (3, 4) for c in (False, True) for o in (1, 2, 4) for n in (2, 3)]


@obligation(PROP, params=_BK, max_paths=400, wall_s=300, timeout_s=400, exc_is_violation=False)
def time_bookkeeping(mk, L, cyclic, order, targets, m, via="update_to"):
    """update_to / at_times with symbolic t0, dt, T: exact arrival, product formula structure"""
    mk.encodes(qtn.TEBD.update_to, qtn.TEBD.step, qtn.TEBD.sweep, qtn.TEBD._compute_sweep_dt_tol, qtn.TEBD.at_times,
               tg.trotter_schedule, qtn.TEBD._get_gate_from_ham)
    t0 = mk.sreal("t0", -2, 2)
    dt = mk.sreal("dt", 0.015625, 1)
    Ts = [mk.sreal(f"T{j}", -2, 6) for j in range(targets)]
    mk.assume(Ts[0] >= t0)
    for j in range(1, targets):
        mk.assume(Ts[j] >= Ts[j - 1])
    mk.assume(Ts[-1] - t0 <= m * dt)
    tb, log = make_tebd(mk, L, cyclic, t0, dt)
    steps = []
    orig_step = qtn.TEBD.step

    def step(self, order=2, dt=None, progbar=None, **kw):
        steps.append(self._dt if dt is None else dt)
        return orig_step(self, order=order, dt=dt, progbar=progbar, **kw)

    tb.step = step.__get__(tb)
    bonds = chain_bonds(L, cyclic)
    pos = 0
    prev_T = t0
    gen = tb.at_times(list(Ts), dt=dt, order=order, progbar=False) if via == "at_times" else None
    for j, T in enumerate(Ts):
        n0 = len(steps)
        l0 = len(log)
        if gen is not None:
            # everything below is checked at the moment the state for target j is handed out
            yielded = next(gen)
            mk.same(f"target {j}: at_times yields the evolved state", yielded is tb._pt, True)
        elif targets == 1:
            tb.update_to(T, dt=None, order=order, progbar=False)
        else:
            tb.update_to(T, dt=dt, tol=False, order=order, progbar=False)
        mk.check(tb.t == T, f"target {j}: t == T exactly at return")
        mk.same(f"target {j}: sweep queue drained", getattr(tb, "_queued_sweep", None), None)
        hs = steps[n0:]
        mk.same(f"target {j}: at least one step", len(hs) >= 1, True)
        tot = 0
        for h in hs:
            tot = tot + h
        mk.check(tot == T - prev_T, f"target {j}: step sizes sum to T - t_prev")
        for h in hs[:-1]:
            mk.check(h == dt, f"target {j}: every step but the last is dt")
        mk.check(hs[-1] <= dt, f"target {j}: last step not longer than dt") if len(hs) > 1 else None
        # the gates recorded for this target, grouped into sweeps (maximal runs of one layer)
        recs = log[l0:]
        per_bond = {}
        seq = []
        for _, where, U in recs:
            b = tuple(where)
            mk.same(f"gate token built for the bond it is applied to", U[1], b)
            mk.same(f"bond {b} belongs to the chain", b in bonds, True)
            amt = -U[2]                      # exponent is -dt*frac (imaginary time recorder)
            per_bond[b] = per_bond.get(b, 0) + amt
            seq.append((layer_of(b, L, cyclic), b, amt))
        mk.same(f"target {j}: every bond of the chain is evolved", sorted(per_bond), sorted(bonds))
        eps = 0 if order != 4 else 4e-16
        for b, a in per_bond.items():
            if eps:
                diff = a - (T - prev_T)
                mk.check((diff <= eps * (T - prev_T + dt)) & (diff >= -eps * (T - prev_T + dt)), f"target {j}: bond {b}: exponents sum to T - t_prev (4e-16)")
            else:
                mk.check(a == T - prev_T, f"target {j}: bond {b}: exponents sum to T - t_prev")
        # reference product formula: per step the schedule over (right, left); merge adjacent
        refseq = []
        for h in hs:
            for k, frac in tg.trotter_schedule(2, order=order):
                refseq.append((("right", "left")[k], h * frac))
        refm = merged(refseq)
        # recorded sweeps: a sweep = maximal run of gates of one layer without a repeated bond;
        # adjacent sweeps of the same layer compose exactly (the same commuting gates): merge
        raw = []
        for lay, b, amt in seq:
            if raw and raw[-1][0] == lay and b not in raw[-1][2]:
                raw[-1][2].append(b)
                raw[-1][1][b] = amt
            else:
                raw.append([lay, {b: amt}, [b]])
        for q, (lay, amts, bs) in enumerate(raw):
            want = [b for b in bonds if layer_of(b, L, cyclic) == lay]
            mk.same(f"target {j}: raw sweep {q} covers exactly its layer", sorted(bs), sorted(want))
            a0 = amts[bs[0]]
            for b in bs[1:]:
                mk.check(amts[b] == a0, f"target {j}: raw sweep {q}: one amount for the whole layer")
        got = []
        for lay, amts, bs in raw:
            a0 = amts[bs[0]]
            if got and got[-1][0] == lay:
                got[-1][1] = got[-1][1] + a0
            else:
                got.append([lay, a0])
        mk.same(f"target {j}: number of merged sweeps == merged product formula ({len(refm)})", len(got), len(refm))
        for q, ((lay, amt), (rl, ra)) in enumerate(zip(got, refm)):
            mk.same(f"target {j}: merged sweep {q} direction", lay, rl)
            if eps:
                mk.check((amt - ra <= eps * (ra + dt)) & (amt - ra >= -eps * (ra + dt)), f"target {j}: merged sweep {q} amount")
            else:
                mk.check(amt == ra, f"target {j}: merged sweep {q} amount == merged formula amount")
        prev_T = T
    # imaginary time: the tensor renormalised after a sweep must be the one holding the norm, i.e. the
    # orthogonality centre as tracked through the canonicalisation calls / absorb options
    for site, centre in tb._pt.norm_log:
        if centre is not None:
            mk.same("imaginary time: the renormalised site is the orthogonality centre", site, centre)
    # layers: disjoint bonds within a layer (commuting), except the documented odd periodic case
    for lay in ("right", "left"):
        bs = [b for b in bonds if layer_of(b, L, cyclic) == lay]
        sites = [s for b in bs for s in b]
        if not (cyclic and L % 2 == 1 and lay == "right"):
            mk.same(f"layer {lay}: bonds are disjoint", len(sites), len(set(sites)))


@obligation(PROP)
def schedule_order_conditions(mk):
    """trotter_schedule: coverage, palindromy, order conditions"""
    mk.encodes(tg.trotter_schedule)
    for n in (1, 2, 3, 4):
        for order in (1, 2, 4):
            s = tg.trotter_schedule(n, order=order)
            tot = {}
            for k, f in s:
                tot[k] = tot.get(k, 0.0) + f
            mk.same(f"n={n} order={order}: every layer present", sorted(tot), list(range(n)))
            mk.same(f"n={n} order={order}: fractions sum to one per layer", all(abs(v - 1.0) < 4e-16 for v in tot.values()), True)
            if order >= 2:
                mk.same(f"n={n} order={order}: palindromic", [k for k, _ in s] == [k for k, _ in reversed(s)]
                        and all(abs(a[1] - b[1]) < 1e-16 for a, b in zip(s, reversed(s))), True)
    s4 = tg.trotter_schedule(2, order=4)
    s = s4[0][1] / 0.5
    mk.same("order 4: 4 s^3 + (1 - 4 s)^3 == 0 (to 1e-15)", abs(4 * s ** 3 + (1 - 4 * s) ** 3) < 1e-15, True)
    mk.raises("unsupported order rejected", lambda: tg.trotter_schedule(2, order=3), (ValueError,))


# ---------------------------------------------------------------------- (c) real sweeps

def sym_mps(mk, L, cyclic, kind="real"):
    D = 2
    arrays = []
    for i in range(L):
        if cyclic:
            shp = (D, D, d)
        else:
            shp = (D, d) if i in (0, L - 1) else (D, D, d)
        arrays.append(mk.array(f"T{i}", shp, kind))
    return qtn.MatrixProductState(arrays)


_RS = [{"L": L, "cyclic": c, "order": o,
        "_tiers": ("quick", "thorough") if ((L == 3 and not (c and o == 2)) or (L == 4 and o == 1 and not c)) else ("thorough",),
        "_mandatory": not c or (L == 3 and o == 1)}
       for L in (3, 4) for c in (False, True) for o in (1, 2)]
# imaginary time: same product (real exponents) followed by the documented renormalisation
_RS += [{"L": 3, "cyclic": False, "order": o, "imag": True, "_tiers": ("thorough",), "_mandatory": False} for o in (1, 2)]
_RS += [{"L": 4, "cyclic": False, "order": 1, "imag": True, "_tiers": ("thorough",), "_mandatory": False}]


@obligation(PROP, params=_RS, rounds=2, timeout_s=500, wall_s=400, max_rows=80000)
def real_step(mk, L, cyclic, order, imag=False):
    """one step through the real sweeps: state == reference product, generators as documented"""
    mk.encodes(qtn.TEBD.__init__, qtn.TEBD.step, qtn.TEBD.sweep, qtn.TEBD._get_gate_from_ham, tg.LocalHamGen.get_gate_expm)
    nb = L if cyclic else L - 1
    bonds = [(i, (i + 1) % L) for i in range(nb)]
    dims = [d] * L
    H2 = {b: mk.array(f"H2_{b[0]}{b[1]}", (d * d, d * d), "real") for b in bonds}
    ham = qtn.LocalHam1D(L, H2=H2, cyclic=cyclic)
    psi = sym_mps(mk, L, cyclic)
    v0 = ref.tn_dense(psi, tuple(psi.site_ind(i) for i in range(L))).reshape(-1)
    rec = _install_expm(mk)
    dt = 0.25
    try:
        tb = qtn.TEBD(psi, ham, dt=dt, progbar=False, split_opts={"cutoff": 0.0}, imag=imag)
        tb.step(order=order)
        out = tb.pt
        vt = ref.tn_dense(out, tuple(out.site_ind(i) for i in range(L))).reshape(-1)
        mk.same("t advanced by dt", tb.t, dt)
        # reference product in application order
        seq = []
        for k, frac in tg.trotter_schedule(2, order=order):
            lay = ("right", "left")[k]
            bs = [b for b in bonds if layer_of(b, L, cyclic) == lay]
            for b in bs:
                seq.append((b, frac))
        v = v0
        if mk.sym:
            gens = {}
            for E_id, A in rec["args"].items():
                pass
            for b, frac in seq:
                # the exponential the library must have used for this (bond, fraction)
                want_gen = H2[b] * P.lift((-1.0 if imag else -1j) * dt * frac)
                hit = None
                for key, E in rec["by_content"].items():
                    A = rec["args"][id(E)]
                    if all((P.lift(x) - P.lift(y)).iszero() for x, y in zip(A.reshape(-1), want_gen.reshape(-1))):
                        hit = E
                        break
                mk.same(f"an exponential of -i dt {frac} * H2{b} (factors in the order of {b}) was requested", hit is not None, True)
                if hit is None:
                    raise Skip("generator missing: cannot form the reference")
                v = ref.matmul(ref.embed(hit, dims, b), v)
        else:
            import scipy.linalg as sla
            for b, frac in seq:
                v = ref.matmul(ref.embed(sla.expm(H2[b] * ((-1.0 if imag else -1j) * dt * frac)), dims, b), v)
        if imag:
            # renormalised after every sweep: proportional to the product formula, and of unit norm
            n = len(v)
            mk.eq("imaginary time: state after one step is proportional to the product formula",
                  np.array([vt[i] * v[j] for i in range(n) for j in range(i + 1, n)], dtype=vt.dtype),
                  np.array([vt[j] * v[i] for i in range(n) for j in range(i + 1, n)], dtype=vt.dtype))
            tot = 0
            for x in vt:
                tot = tot + x * (x.conjugate() if mk.sym else np.conj(x))
            mk.eq("imaginary time: state after one step is normalised", tot, 1)
        else:
            mk.eq("state after one step == product formula applied to the initial state", vt, v)
    finally:
        _uninstall_expm(rec)


# ---------------------------------------------------------------------- (d) arbitrary-geometry sweeps (TEBDSweepMixin)

_GEN_EDGES = {"chain": [(0, 1), (1, 2)], "tri": [(0, 1), (1, 2), (0, 2)], "star": [(0, 1), (1, 2), (1, 3)]}
_GEN_ORD = ("sort", "random", "random-ungrouped", "tuple", "list", "callable", "none")
_GSW = [{"geom": g, "ordering": o, "reflect": r,
         "_tiers": ("quick", "thorough") if (g == "tri" or (g == "chain" and o in ("sort", "list"))) else ("thorough",)}
        for g in _GEN_EDGES for o in _GEN_ORD for r in (False, True)]


@obligation(PROP, params=_GSW, rounds=2, timeout_s=300, numeric=True)
def gen_sweeps(mk, geom, ordering, reflect):
    """TEBDGen (TEBDSweepMixin.sweep / evolve) over three successive sweeps: every sweep applies exactly one exponential per
    term, in the requested ordering (followed by its mirror image with halved steps when second_order_reflect), each gate
    being exp(-tau/factor * term); the state equals that product applied to the initial state.  The symbolic run replaces the
    documented extension point ``gate`` by a recorder (tau and the terms symbolic, exponentials uninterpreted); the numeric run
    gates the real network (no truncation) and compares dense states"""
    mk.encodes(tg.TEBDSweepMixin.sweep, tg.TEBDSweepMixin.evolve, tg.TEBDSweepMixin.setup_sweep_opts, tg.LocalHamGen.get_gate_expm,
               tg.LocalHamGen.get_auto_ordering)
    edges = _GEN_EDGES[geom]
    n = 1 + max(max(e) for e in edges)
    H2 = {e: mk.array(f"H2_{e[0]}{e[1]}", (d * d, d * d), "real") for e in edges}
    ham = qtn.LocalHamGen(H2)
    ts = []
    for i in range(n):
        inds = [f"b{min(e)}{max(e)}" for e in edges if i in e] + [f"k{i}"]
        arr = mk.array(f"N{i}", (2,) * len(inds), "real") if not mk.sym else np.ones((2,) * len(inds))
        ts.append(qtn.Tensor(arr, inds, tags=[f"I{i}"]))
    psi = qtn.TensorNetwork(ts).view_as_(qtn.TensorNetworkGenVector, site_tag_id="I{}", site_ind_id="k{}", sites=range(n))
    sinds = tuple(f"k{i}" for i in range(n))
    # (evolve formats float(tau) for its progress description: tau is a concrete dyadic rational in the symbolic run)
    tau = 0.125 if mk.sym else 0.125 + 0.25 * float(mk.scalar("tau", "real")) ** 2
    given = {"tuple": tuple(reversed(edges)), "list": [tuple(reversed(e)) for e in edges], "callable": (lambda: list(edges)), "none": None}.get(ordering, ordering)
    given0 = list(given) if isinstance(given, (list, tuple)) else None
    rec = _install_expm(mk)
    log = []
    try:
        # (contract=True: gates are contracted into the site tensors - exact and cheap on loops, where split bonds double per gate)
        tb = qtn.TEBDGen(psi, ham, tau=0.5, D=16, cutoff=0.0, gate_opts={"contract": True}, ordering=given, second_order_reflect=reflect,
                         compute_energy_final=False, progbar=False)
        if ordering in ("sort", "random", "random-ungrouped"):
            stored = tb.ordering() if callable(tb.ordering) else tb.ordering
            expect = [tuple(w) for w in stored]            # fixed when the option is set
        elif ordering == "callable":
            expect = [tuple(e) for e in edges]
        elif ordering == "none":
            expect = None                                  # documented: a fresh random sequential order every sweep
        else:
            expect = [tuple(w) for w in given0]
        real_gate = tb.gate

        def gate(G, where):
            log.append((tuple(where), G, tb.last_tau))
            if not mk.sym:
                real_gate(G, where)

        tb.gate = gate
        v0 = None if mk.sym else np.asarray(ref.tn_dense(psi, sinds)).reshape(-1)
        factor = 2 if reflect else 1
        pos = 0
        for k in range(3):
            tb.evolve(1, tau=tau)
            seg = log[pos:]
            pos = len(log)
            ws = [w for w, _, _ in seg]
            if reflect:
                half = len(ws) // 2
                mk.same(f"sweep {k}: second half is the mirror image of the first", ws[half:], list(reversed(ws[:half])))
                first = ws[:half]
            else:
                first = ws
            if expect is None:
                mk.same(f"sweep {k}: one gate per term (some order)", sorted(tuple(sorted(w)) for w in first), sorted(edges))
            else:
                mk.same(f"sweep {k}: one gate per term in the requested ordering", first, expect)
            for j, (w, G, lt) in enumerate(seg):
                gen = ham.get_gate(w)
                if mk.sym:
                    A = rec["args"].get(id(G))
                    mk.same(f"sweep {k} gate {j} on {w}: is an exponential handed out by expm", A is not None, True)
                    if A is not None:
                        mk.eq(f"sweep {k} gate {j} on {w}: generator == -(tau/{factor}) * term{w}", A, gen * P.lift(-tau / factor))
                else:
                    import scipy.linalg as sla
                    mk.eq(f"sweep {k} gate {j} on {w}: G == expm(-(tau/{factor}) * term{w})", np.asarray(G).reshape(4, 4),
                          sla.expm(np.asarray(gen, dtype=float) * (-tau / factor)))
        mk.same("number of sweeps counted", tb.n, 3)
        if given0 is not None:
            mk.same("the caller's ordering object is not modified", list(given), given0)
        if not mk.sym:
            import scipy.linalg as sla
            v = v0
            for w, G, lt in log:
                v = ref.matmul(ref.embed(sla.expm(np.asarray(ham.get_gate(w), dtype=float) * (-tau / factor)), [2] * n, w), v)
            out = tb.state
            mk.eq("state after three sweeps == product of the exponentials applied to the initial state",
                  np.asarray(ref.tn_dense(out, sinds)).reshape(-1), v)
    finally:
        _uninstall_expm(rec)


# ---------------------------------------------------------------------- (e) call histories on one simple-update / TEBDGen driver

_SUH = {
    # E<k>: evolve k sweeps; C: take a checkpoint (`drv.state`); Ac: assign the checkpoint through the public `state` setter;
    # Af: assign a fresh state with the same index names and bond sizes; As: the same with smaller bonds; Ap: assign the
    # driver's own (tensors, gauges) pair as returned by get_state("return"); R: read `drv.state` and compare
    "restore-checkpoint": ("E2", "C", "R", "E3", "R", "Ac", "R", "E2", "R"),
    "fresh-state": ("E2", "Af", "R", "E2", "R", "E1", "R"),
    "fresh-smaller-bonds": ("E2", "As", "R", "E2", "R"),
    "assign-before-evolving": ("Af", "R", "E2", "R"),
    "assign-twice": ("E1", "C", "E1", "Ac", "R", "E1", "R", "Ac", "R", "E2", "R"),
    "checkpoint-immediately": ("E2", "C", "Ac", "R", "E2", "R"),
    "own-pair-roundtrip": ("E2", "Ap", "R", "E2", "R"),
}
_SUD = ("SimpleUpdateGen-chain", "SimpleUpdateGen-star", "SimpleUpdate-2x2", "SimpleUpdateGen-ring", "TEBDGen-chain")


def _suh_tiers(drv, h, eq):
    q = (eq is None and (drv in ("SimpleUpdateGen-chain", "SimpleUpdate-2x2") or h in ("restore-checkpoint", "fresh-state"))
         ) or (eq == 1 and drv == "SimpleUpdateGen-chain" and h in ("restore-checkpoint", "assign-twice"))
    return ("quick", "thorough") if q else ("thorough",)


_SUP = [{"driver": drv, "history": h, "equil": eq, "_tiers": _suh_tiers(drv, h, eq)}
        for drv in _SUD for h in _SUH for eq in (None, 1, "gate")
        if not (drv.startswith("TEBDGen") and (eq is not None or h == "own-pair-roundtrip"))
        # (on loops the gates truncate and the equilibration run by the setter changes which part is kept: continuing after
        #  re-assigning the driver's own pair is then not comparable with anything independent)
        and not (h == "own-pair-roundtrip" and drv.split("-")[1] in ("2x2", "ring"))]
# update='parallel' (every gate of a layer acts on the state before the layer; with an equilibration period the layers of a whole
# sweep do - not a product formula, and not gauge independent: there only "no memory of the earlier evolution" is claimed)
_SUP += [{"driver": drv, "history": h, "equil": eq, "update": "parallel",
          "_tiers": ("quick", "thorough") if (eq is None and (h in ("restore-checkpoint", "fresh-state") or (drv.endswith("chain") and h == "assign-twice")))
          or (eq == 1 and drv.endswith("chain") and h == "restore-checkpoint") else ("thorough",)}
         for drv in ("SimpleUpdateGen-chain", "SimpleUpdateGen-star", "SimpleUpdate-2x2", "SimpleUpdateGen-ring") for h in _SUH for eq in (None, 1, "gate")
         if not (h == "own-pair-roundtrip" and (drv.split("-")[1] in ("2x2", "ring") or eq is not None))
         # (parallel + a sweep-level equilibration period + bonds that grow inside a sweep: quimb raises "shape-mismatch for sum" on a
         #  FRESH driver as well - the layers of one sweep are merged with different bond sizes; reported, independent of the histories)
         and not (h == "fresh-smaller-bonds" and eq == 1)]


def _suh_setup(mk, driver):
    """geometry, Hamiltonian (site dependent, not exchange symmetric, Hermitian), a state factory"""
    kind, geom = driver.split("-")
    if geom == "chain":
        sites = [0, 1, 2, 3]
        edges = [(0, 1), (1, 2), (2, 3)]
        full = {(0, 1): 2, (1, 2): 4, (2, 3): 2}
    elif geom == "star":
        sites = [0, 1, 2, 3]
        edges = [(0, 1), (1, 2), (1, 3)]
        full = {e: 2 for e in edges}
    elif geom == "ring":
        sites = [0, 1, 2, 3]
        edges = [(0, 1), (1, 2), (2, 3), (0, 3)]
        full = {e: 2 for e in edges}        # a loop: gating truncates back to D = 2 (no dense product reference)
    else:
        sites = [(0, 0), (0, 1), (1, 0), (1, 1)]
        edges = [((0, 0), (0, 1)), ((0, 0), (1, 0)), ((0, 1), (1, 1)), ((1, 0), (1, 1))]
        full = {e: 2 for e in edges}        # a loop as well
    H2 = {}
    for k, e in enumerate(edges):
        a = np.asarray(mk.array(f"h{k}", (d * d, d * d), "real"), dtype=float)
        H2[e] = (a + a.T) / 2
    if kind == "SimpleUpdate":
        ham = qtn.LocalHam2D(2, 2, H2=H2)
    else:
        ham = qtn.LocalHamGen(H2)
    nm = (lambda s: "".join(map(str, s))) if geom == "2x2" else str
    bname = {e: f"b{nm(e[0])}_{nm(e[1])}" for e in edges}

    def make_state(tag, sizes):
        ts = []
        for s in sites:
            inds = [bname[e] for e in edges if s in e]
            shp = [sizes[e] for e in edges if s in e]
            arr = np.asarray(mk.array(f"{tag}_{nm(s)}", tuple(shp) + (d,), "real"), dtype=float)
            if geom == "2x2":
                ts.append(qtn.Tensor(arr, inds + [f"k{s[0]},{s[1]}"], tags=[f"I{s[0]},{s[1]}", f"X{s[0]}", f"Y{s[1]}"]))
            else:
                ts.append(qtn.Tensor(arr, inds + [f"k{s}"], tags=[f"I{s}"]))
        tn = qtn.TensorNetwork(ts)
        if kind == "SimpleUpdate":
            return tn.view_as_(qtn.PEPS, site_tag_id="I{},{}", x_tag_id="X{}", y_tag_id="Y{}", Lx=2, Ly=2, site_ind_id="k{},{}")
        return tn.view_as_(qtn.TensorNetworkGenVector, site_tag_id="I{}", site_ind_id="k{}", sites=sites)

    return kind, geom, sites, edges, full, H2, ham, make_state


@obligation(PROP, params=_SUP, numeric=True, timeout_s=300)
def driver_state_histories(mk, driver, history, equil, update="sequential"):
    """histories of evolve / read `.state` / assign `.state` on ONE SimpleUpdateGen / 2D SimpleUpdate / TEBDGen object (update
    mode 'sequential' and 'parallel'): a state read right after an assignment is the assigned state; after k further sweeps the state is what a
    fresh driver with the same options produces from the last assigned state in k sweeps (no memory of the earlier evolution),
    and - on trees at full bond dimension, where nothing is truncated (and, for update='parallel', when every layer is accepted
    before the next one: equilibrate_every None) - the normalised dense product formula"""
    mk.encodes(tg.GateSimpleUpdateMixin.set_state, tg.GateSimpleUpdateMixin.get_state, tg.GateSimpleUpdateMixin.equilibrate,
               tg.GateSimpleUpdateMixin.postsweep, tg.GateSimpleUpdateMixin.postgate, tg.GateSimpleUpdateMixin.postlayer, tg.GateBasicMixin.set_state,
               tg.GateBasicMixin.get_state,
               tg.TEBDSweepMixin.evolve, tg.TEBDSweepMixin.sweep)
    if mk.sym:
        mk.note("numeric-only: gauge conditioning (repeated SVD + inverse gauges over several sweeps) does not run symbolically within budget")
        mk.same("numeric-only cell (symbolic run skipped)", True, True)
        return
    import scipy.linalg as sla
    kind, geom, sites, edges, full, H2, ham, make_state = _suh_setup(mk, driver)
    exact = geom in ("chain", "star") and (update == "sequential" or equil is None)
    tau = 0.125
    sinds = lambda psi: tuple(psi.site_ind(s) for s in sites)
    dense = lambda psi: np.asarray(ref.tn_dense(psi, sinds(psi)), dtype=float).reshape(-1)
    unit = lambda v: v / np.sqrt(float(np.dot(v, v)))
    cls = {"SimpleUpdateGen": qtn.SimpleUpdateGen, "SimpleUpdate": qtn.SimpleUpdate, "TEBDGen": qtn.TEBDGen}[kind]
    ordering = [tuple(e) for e in edges]
    D = max(full.values())

    def new_driver(psi):
        opts = dict(tau=tau, D=D, cutoff=0.0, ordering=list(ordering), compute_energy_final=False, progbar=False)
        if kind != "TEBDGen":
            opts["equilibrate_every"] = equil
            opts["update"] = update
        return cls(psi, ham, **opts)

    def ref_product(v, k):
        dims = [d] * len(sites)
        pos = {s: i for i, s in enumerate(sites)}
        for _ in range(k):
            for e in ordering:
                v = ref.matmul(ref.embed(sla.expm(-tau * H2[e]), dims, (pos[e[0]], pos[e[1]])), v)
        return v

    psi0 = make_state("A", full)
    drv = new_driver(psi0)
    base, since = psi0, 0          # the last state handed to the driver, and the sweeps made since
    chk = None
    nfresh = 0
    for q, op in enumerate(history_ops := _SUH[history]):
        lab = f"op {q} ({op})"
        if op[0] == "E":
            drv.evolve(int(op[1:]), tau=tau)
            since += int(op[1:])
        elif op == "C":
            chk = (drv.state, base, since)
        elif op == "Ac":
            given = chk[0]
            v_given = dense(given)
            drv.state = given
            mk.eq(f"{lab}: the assigned network is not modified by the setter", dense(given), v_given)
            base, since = given, 0
        elif op in ("Af", "As"):
            nfresh += 1
            sizes = full if op == "Af" else {e: max(1, n // 2) for e, n in full.items()}
            given = make_state(f"F{nfresh}", sizes)
            drv.state = given
            base, since = given, 0
        elif op == "Ap":
            pair = drv.get_state(absorb_gauges="return")
            cur = drv.state
            drv.state = pair
            mk.eq(f"{lab}: assigning the driver's own (tensors, gauges) pair leaves the state unchanged", unit(dense(drv.state)), unit(dense(cur)))
        elif op == "R":
            got = drv.state
            v = dense(got)
            if since == 0:
                mk.eq(f"{lab}: state read right after the assignment == the assigned state", v, dense(base))
            else:
                other = new_driver(base)
                other.evolve(since, tau=tau)
                mk.eq(f"{lab}: {since} sweeps after the assignment == a fresh driver started from the assigned state",
                      unit(v), unit(dense(other.state)))
                if exact:
                    mk.eq(f"{lab}: {since} sweeps after the assignment == normalised product formula applied to the assigned state",
                          unit(v), unit(ref_product(dense(base), since)))
            mk.same(f"{lab}: index names of the state are those of the assigned one", sorted(got.ind_map), sorted(base.ind_map))
    mk.same("sweeps counted over the whole history", drv.n, sum(int(o[1:]) for o in history_ops if o[0] == "E"))
