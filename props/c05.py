"""C05 - tensor decomposition: exact when untruncated, optimal and honest when truncated.

(a) wrapper bookkeeping: the real `Tensor.split` / `tensor_split` / `array_split` run on
    symbolic tensors for the method x absorb x get table with no truncation; LAPACK calls are
    contract stubs; goals (linear Nullstellensatz certificates modulo the stub contracts):
    the factors carry the requested labels + one new bond, their contraction equals the input,
    tensors flagged via `left_inds` are isometric on exactly those labels, single-factor forms
    satisfy their defining Gram identities.
(b) truncation kernels: the generic and the numba truncation routines run concolically on
    symbolic singular values s_1 >= ... >= s_n >= 0, symbolic cutoff, for every cutoff mode,
    bond cap and renormalisation power; oracle = the documented rule as a formula.
"""
import itertools

import numpy as np

import quimb.tensor as qtn
from quimb.tensor import decomp
from quimb.tensor import tensor_core as tc
from quimb.tensor import array_ops

from qv import poly as P
from qv import ref, sx, stubs
from qv.harness import obligation, Skip

PROP = "C05"
META = {
    "bounds": {
        "quick": {"tensor": "rank 3, dims (2,2,2) and (1,2,3); bipartitions tall / wide / dim-1",
                  "methods": "svd, svd:eig, qr, lq, qr:cholesky, eigh, cholesky, polar_right, polar_left, lu",
                  "absorb": "every alias accepted by the method", "truncation": "n <= 4 singular values, all 6 cutoff modes, "
                  "max_bond in {-1,1,2,3}, renorm in {0,1,2}"},
        "thorough": {"tensor": "adds dims (2,3,2), (3,2,1) and complex entries everywhere", "truncation": "n <= 5"},
    },
    "outside": ["float rounding, single vs double precision", "loss of precision of the eigen-decomposition route",
                "randomized / iterative drivers (svd:rand, svds, isvd, rsvd, eigsh)", "NaN handling",
                "Eckart-Young optimality of the kept prefix is a cited theorem (the check shows the kept values are the leading prefix)",
                "rank-deficient inputs in family (a) (singular values are strictly positive symbols there; zeros are covered in family (b))"],
    "assumptions": ["LAPACK qr / svd / eigh / cholesky / solve return factors satisfying their documented contracts (stubs)",
                    "QR stub returns R with positive real diagonal (the stabilised form); the sign-fixing branch is exercised in the numeric cross-run only"],
}

# --------------------------------------------------------------------------------------
# (a) wrapper bookkeeping
# --------------------------------------------------------------------------------------

ABSORBS_TWO = ["both", "left", "right", None]
ABSORBS_ONE = ["lorthog", "rorthog", "lfactor", "rfactor"]
METHODS = {
    "svd": ABSORBS_TWO + ABSORBS_ONE + ["Usq,sqVH", "Us,VH", "U,sVH", "U,s,VH"],
    "svd:eig": ABSORBS_TWO + ABSORBS_ONE,
    "qr": ["auto", "right", "left", "lorthog", "rfactor", "rorthog", "lfactor"],
    "lq": ["auto", "left"],
    "qr:cholesky": ["auto", "right", "left", "rfactor", "lfactor"],
}

SHAPES = {
    "tall": (dict(a=2, b=2, c=2), ("a", "b")),
    "wide": (dict(a=2, b=2, c=2), ("a",)),
    "d1": (dict(a=1, b=2, c=3), ("a", "b")),
    "d1w": (dict(a=1, b=2, c=3), ("b",)),
    "mat": (dict(a=2, b=3), ("a",)),
    "matT": (dict(a=3, b=2), ("a",)),
}


def _mkT(mk, shape, kind, order=None):
    sizes, left = SHAPES[shape]
    inds = tuple(sizes)
    if order:
        inds = tuple(order)
    data = mk.array("T", tuple(sizes[i] for i in inds), kind)
    return qtn.Tensor(data, inds, tags="T"), sizes, left


def _isometry_goal(mk, label, t, over):
    """sum over `over` of conj(t) t == identity on the remaining labels"""
    rest = [i for i in t.inds if i not in over]
    if len(rest) != 1:
        return
    (b,) = rest
    tc_ = t.conj().reindex({b: b + "'"})
    g = ref.sum_of_products([(t.data, t.inds), (tc_.data, tc_.inds)], (b, b + "'"))
    mk.eq(label, g, ref.eye(t.ind_size(b), like=g))


def _gram(mk, arr, inds, keep, tag):
    """Gram matrix over every label except `keep`"""
    c = np.conj(arr) if not mk.sym else ref_conj(arr)
    ren = {i: (i + "'" if i in keep else i) for i in inds}
    return ref.sum_of_products([(arr, inds), (c, tuple(ren[i] for i in inds))], tuple(keep) + tuple(k + "'" for k in keep))


def ref_conj(a):
    out = np.empty(a.shape, dtype=object)
    for idx in np.ndindex(*a.shape):
        out[idx] = P.lift(a[idx]).conjugate()
    return out


_SPLIT_PARAMS = []
for m, absorbs in METHODS.items():
    for ab in absorbs:
        for shp in ("tall", "wide", "d1"):
            quick = (shp in ("tall", "wide") and ab in ("both", "left", "right", None, "auto", "lorthog", "rfactor")) or \
                    (shp == "d1" and ab in ("both", "auto", "right"))
            _SPLIT_PARAMS.append({"method": m, "absorb": ab, "shape": shp, "kind": "real",
                                  "_tiers": ("quick", "thorough") if quick else ("thorough",)})
        _SPLIT_PARAMS.append({"method": m, "absorb": ab, "shape": "mat", "kind": "cplx",
                              "_tiers": ("quick", "thorough") if ab in ("both", "right", "auto", None) else ("thorough",)})
        _SPLIT_PARAMS.append({"method": m, "absorb": ab, "shape": "d1w", "kind": "cplx", "_tiers": ("thorough",)})
        # strictly tall complex input (the accelerated kernels have separate tall / wide branches with explicit conjugations)
        _SPLIT_PARAMS.append({"method": m, "absorb": ab, "shape": "matT", "kind": "cplx",
                              "_tiers": ("quick", "thorough") if ab in ("both", "right", "left", None, "rfactor", "lfactor", "lorthog", "rorthog") else ("thorough",)})


@obligation(PROP, params=_SPLIT_PARAMS, rounds=2, rounds2=3, timeout_s=400, max_rows=60000)
def split_exact(mk, method, absorb, shape, kind):
    """Tensor.split with no truncation: labels, reconstruction, isometry flags"""
    mk.encodes(tc.tensor_split, decomp.array_split, decomp.parse_split_opts, decomp.parse_method_absorb,
               decomp.parse_split_left_right_isom, array_ops.fuse, array_ops.unfuse,
               decomp._SPLIT_FNS[decomp.parse_method_absorb(method, absorb, truncation=False)[0]])
    T, sizes, left = _mkT(mk, shape, kind)
    right = tuple(i for i in T.inds if i not in left)
    kw = dict(method=method, absorb=absorb, cutoff=0.0, bond_ind="bnd")
    if method == "qr:cholesky":
        kw["shift"] = False      # the eps-regularisation is a floating point device (outside the claim)
    if method in ("svd:eig", "qr:cholesky"):
        # Gram matrix of a generic full-rank input: positive definite
        stubs.OPTIONS["eigh_spectrum"] = "pos"
    import warnings
    with warnings.catch_warnings(record=True) as wlist:
        warnings.simplefilter("always")
        try:
            _split_exact_body(mk, T, sizes, left, right, kw, absorb, lambda: wlist)
        finally:
            stubs.OPTIONS["eigh_spectrum"] = "real"


def _split_exact_body(mk, T, sizes, left, right, kw, absorb, wl):
    def ill_defined():
        return any("not well-defined" in str(w.message) for w in wl())
    two_sided = decomp._ABSORB_MAP.get(absorb, absorb) in (None, 0, 1, -1) or absorb == "auto"
    if two_sided:
        tn = T.split(left, **kw)
        mk.same("returns a TensorNetwork", isinstance(tn, qtn.TensorNetwork), True)
        mk.same("outer labels unchanged", set(tn.outer_inds()) if absorb is not None and absorb != "U,s,VH" else set(T.inds), set(T.inds))
        mk.same("number of tensors", tn.num_tensors, 3 if absorb in (None, "U,s,VH") else 2)
        mk.eq("contraction of factors == input", ref.tn_dense(tn, T.inds), T.data)
        if ill_defined():
            mk.note("library warned 'not well-defined' for this shape (documented limitation): no isometric factor is promised, "
                    "but a factor that IS flagged must still be an isometry (third round: polar factors of wide / tall inputs were flagged - fixed)")
        for t in tn:
            if t.left_inds is not None:
                mk.same("isometry flag names existing labels", set(t.left_inds) <= set(t.inds), True)
                _isometry_goal(mk, f"flagged tensor isometric over {tuple(t.left_inds)}", t, tuple(t.left_inds))
        # tensors / arrays forms agree with the network form
        ts = T.split(left, get="tensors", **kw)
        mk.same("get='tensors' count", len(ts), tn.num_tensors)
        tl, tr = ts[0], ts[-1]
        mk.same("left factor labels", tuple(tl.inds), tuple(left) + ("bnd",))
        mk.same("right factor labels", tuple(tr.inds), ("bnd",) + tuple(right))
        arrs = T.split(left, get="arrays", **kw)
        mk.same("get='arrays' count", len(arrs), tn.num_tensors)
        mk.same("left array shape", tuple(arrs[0].shape)[:len(left)], tuple(sizes[i] for i in left))
    else:
        ts = T.split(left, get="tensors", **kw)
        code = decomp._ABSORB_MAP[absorb]
        tl, tr = ts[0], ts[-1]
        if ill_defined():
            mk.note("library warned 'not well-defined' for this shape (documented limitation)")
            mk.same("single factor returned", (tl is None) != (tr is None), True)
            return
        A_left = _gram(mk, T.data, T.inds, left, "L")     # A A^dag over left labels
        A_right = _gram(mk, T.data, T.inds, right, "R")   # A^dag A over right labels (conj on second)
        if code == decomp.get_U:      # left isometric factor spanning the range
            mk.same("only the left factor is returned", tr is None and tl is not None, True)
            _isometry_goal(mk, "lorthog: U isometric", tl, tuple(left))
            mk.same("lorthog flagged isometric", tl.left_inds is not None and set(tl.left_inds) == set(left), True)
            # U U^dag A == A
            Uc = tl.conj().reindex({i: i + "'" for i in left})
            proj = ref.sum_of_products([(tl.data, tl.inds), (Uc.data, Uc.inds),
                                        (T.data, tuple(i + "'" if i in left else i for i in T.inds))], T.inds)
            mk.eq("lorthog: U U^dag A == A", proj, T.data)
        elif code == decomp.get_VH:
            mk.same("only the right factor is returned", tl is None and tr is not None, True)
            _isometry_goal(mk, "rorthog: VH isometric", tr, tuple(right))
            Vc = tr.conj().reindex({i: i + "'" for i in right})
            proj = ref.sum_of_products([(tr.data, tr.inds), (Vc.data, Vc.inds),
                                        (T.data, tuple(i + "'" if i in right else i for i in T.inds))], T.inds)
            mk.eq("rorthog: A VH^dag VH == A", proj, T.data)
        elif code == decomp.get_Us:   # L with L L^dag == A A^dag
            mk.same("only the left factor is returned", tr is None and tl is not None, True)
            mk.eq("lfactor: L L^dag == A A^dag", _gram(mk, tl.data, tl.inds, left, "l"), A_left)
        elif code == decomp.get_sVH:
            mk.same("only the right factor is returned", tl is None and tr is not None, True)
            g = _gram(mk, tr.data, tr.inds, right, "r")
            mk.eq("rfactor: R^dag R == A^dag A", g, A_right)


_HERM_PARAMS = [{"method": m, "absorb": ab, "n": n}
                for m in ("eigh", "cholesky", "polar_right", "polar_left")
                for ab in ("auto", "both", "left", "right") for n in (2,)]


@obligation(PROP, params=_HERM_PARAMS, rounds=2, rounds2=3, timeout_s=400, mandatory=False)
def split_exact_square(mk, method, absorb, n):
    """square-matrix methods (eigh / cholesky need Hermitian / positive input)"""
    mk.encodes(tc.tensor_split, decomp.array_split,
               decomp._SPLIT_FNS[decomp.parse_method_absorb(method, absorb, truncation=False)[0]])
    if method == "eigh" and absorb in ("left", "right"):
        A = mk.herm("A", n)
    elif method == "eigh":
        # sqrt-absorbing forms need a positive semi-definite operator (the source marks the
        # indefinite case with an XXX): A = B B^dag
        B = mk.array("B", (n, n), "cplx")
        A = ref.matmul(B, ref.dag(B))
        stubs.OPTIONS["eigh_spectrum"] = "pos"
    elif method == "cholesky":
        B = mk.array("B", (n, n), "cplx")
        A = ref.matmul(B, ref.dag(B))
        if not mk.sym:
            A = A + 0.5 * np.eye(n)
    else:
        A = mk.array("A", (n, n), "cplx")
    T = qtn.Tensor(A, ("a", "b"), tags="T")
    try:
        kw = {"shift": False} if method in ("eigh", "cholesky") else {}
        if method == "eigh" and absorb in ("auto", "both"):
            kw["positive"] = 1
        tn = T.split(("a",), method=method, absorb=absorb, cutoff=0.0, bond_ind="bnd", **kw)
    except (ValueError, TypeError, KeyError, NotImplementedError) as e:
        stubs.OPTIONS["eigh_spectrum"] = "real"
        mk.note(f"rejected: {type(e).__name__}: {e}"[:120])
        mk.same("rejected combination raises cleanly", True, True)
        return
    stubs.OPTIONS["eigh_spectrum"] = "real"
    mk.eq("contraction of factors == input", ref.tn_dense(tn, T.inds), T.data)
    for t in tn:
        if t.left_inds is not None:
            _isometry_goal(mk, f"{method}/{absorb}: flagged tensor isometric over {tuple(t.left_inds)}", t, tuple(t.left_inds))


@obligation(PROP, params=[{"shape": s} for s in ("tall", "wide", "d1")])
def fuse_unfuse_roundtrip(mk, shape):
    """fuse / unfuse axis bookkeeping used by tensor_split"""
    mk.encodes(array_ops.fuse, array_ops.unfuse, tc.Tensor.fuse, tc.Tensor.unfuse)
    T, sizes, left = _mkT(mk, shape, "real")
    right = tuple(i for i in T.inds if i not in left)
    F = T.fuse({"L": left, "R": right})
    mk.same("fused labels", set(F.inds), {"L", "R"})
    want = ref.tn_dense(T, tuple(left) + tuple(right)).reshape(F.ind_size("L"), F.ind_size("R"))
    mk.eq("fuse == reshape of the transposed array", F.transpose("L", "R").data, want)
    U = F.unfuse({"L": left, "R": right}, {"L": tuple(sizes[i] for i in left), "R": tuple(sizes[i] for i in right)})
    mk.eq("unfuse(fuse(T)) == T", U.transpose(*T.inds).data, T.data)


# --------------------------------------------------------------------------------------
# (b) truncation kernels
# --------------------------------------------------------------------------------------

MODES = {1: "abs", 2: "rel", 3: "sum2", 4: "rsum2", 5: "sum1", 6: "rsum1"}


def _svals(mk, n, nzero=0):
    """s_1 >= ... >= s_n > 0 (last `nzero` are literal zeros)"""
    s = np.empty(n, dtype=object if mk.sym else float)
    if mk.sym:
        c = sx.Ctx.cur
        for i in range(n - nzero):
            s[i] = P.positive(f"s{i}")
            mk.inputs[f"s{i}"] = "pos"
        for i in range(n - nzero, n):
            s[i] = P.ZERO
        for i in range(n - nzero - 1):
            c.add(c.polyvar(P.sid(s[i])) >= c.polyvar(P.sid(s[i + 1])))
        for i in range(n - nzero):
            c.polyvar(P.sid(s[i]))
    else:
        vals = sorted((mk._draw(f"s{i}", "pos") for i in range(n - nzero)), reverse=True)
        # replayed values may violate the ordering: sort (the contract of an SVD)
        for i in range(n - nzero):
            s[i] = vals[i]
        for i in range(n - nzero, n):
            s[i] = 0.0
    return s


def _tail(s, m, pw):
    tot = 0
    for i in range(m, len(s)):
        tot = tot + s[i] ** pw
    return tot


def _rule_ok(s, cutoff, mode, m):
    """documented rule: m is the least number of kept values (>= 1) whose discarded tail
    satisfies the mode's inequality.  Accepts both readings (< / <=) at exact equality."""
    n = len(s)
    if mode in (1, 2):
        thr = cutoff if mode == 1 else cutoff * s[0]
        want = 0
        for i in range(n):
            if s[i] > thr:
                want += 1
        return m == max(want, 1)
    pw = 2 if mode in (3, 4) else 1
    target = cutoff if mode in (3, 5) else cutoff * _tail(s, 0, pw)
    ok_tail = bool(_tail(s, m, pw) <= target)
    if m == 1:
        return ok_tail or True   # never below one kept value
    minimal = bool(_tail(s, m - 1, pw) >= target)
    return ok_tail and minimal


_TR_PARAMS = []
for n in (3, 4, 5):
    for mode in MODES:
        for mb in (-1, 1, 2, 3):
            for rn in (0, 1, 2):
                for nz in (0, 1):
                    quick = n <= 3 and nz == 0 and (rn == 0 or (rn == 2 and mode in (3, 4)) or (rn == 1 and mode in (5, 6))) and mb in (-1, 2)
                    thorough = n <= 4 or (n == 5 and rn == 0 and nz == 0 and mb in (-1, 3))
                    if not thorough:
                        continue
                    if rn > 0 and nz:
                        continue
                    _TR_PARAMS.append({"n": n, "mode": mode, "max_bond": mb, "renorm": rn, "nzero": nz,
                                       "_tiers": ("quick", "thorough") if quick else ("thorough",)})
# static truncation only: no dynamic cutoff (cutoff = 0.0 and the default -1.0), cap below / at / above the rank
for n in (3, 4):
    for mb in (-1, 1, 2, 3, 5):
        for cut in (0.0, -1.0):
            for mode in (4, 1):
                _TR_PARAMS.append({"n": n, "mode": mode, "max_bond": mb, "renorm": 0, "nzero": 0, "cutoff": cut,
                                   "_tiers": ("quick", "thorough") if (n == 4 and mode == 4) or mb in (1, 2) else ("thorough",)})


@obligation(PROP, params=_TR_PARAMS, max_paths=3000, wall_s=500, timeout_s=700, branch_timeout_ms=30000)
def truncation_rule(mk, n, mode, max_bond, renorm, nzero, cutoff=None):
    """generic and numba truncation on symbolic singular values: minimal kept rank by the
    documented rule, never 0, never above the cap, honest error, renormalisation, agreement"""
    mk.encodes(decomp._trim_and_renorm_svd_result, decomp._trim_and_renorm_svd_result_numba,
               decomp._compute_number_svals_to_keep_numba, decomp._compute_svals_renorm_factor_numba,
               decomp._do_absorb, decomp._do_absorb_numba)
    s = _svals(mk, n, nzero)
    static = cutoff is not None
    cutoff = mk.scalar("cutoff", "pos") if cutoff is None else cutoff
    U = mk.array("U", (2, n))
    VH = mk.array("V", (n, 2))
    # --- numba variant (plain Python under NUMBA_DISABLE_JIT)
    Un, sn, Vn, err_n = decomp._trim_and_renorm_svd_result_numba(
        U, s.copy(), VH, cutoff, mode, max_bond, None, renorm, use_abs=False, calc_error=True)
    m = len(sn)
    # --- generic variant
    info = {"error": None}
    raised = None
    try:
        Ug, sg, Vg = decomp._trim_and_renorm_svd_result(
            U, s.copy(), VH, cutoff=cutoff, cutoff_mode=mode, max_bond=max_bond, absorb=None, renorm=renorm, info=info)
    except UnboundLocalError as e:
        raised = e
    mk.same("at least one value kept", m >= 1, True)
    mk.same("bond cap respected", max_bond <= 0 or m <= max_bond, True)
    mk.same("factors trimmed consistently", (Un.shape, Vn.shape), ((2, m), (m, 2)))
    # rule: uncapped count is the least admissible one
    m_rule = m
    capped = max_bond > 0 and m == max_bond
    if static:
        mk.same("static truncation keeps min(n, max_bond) values", m, n if max_bond <= 0 else min(n, max_bond))
    elif not capped:
        mk.same(f"kept count {m} is the least satisfying the '{MODES[mode]}' rule", _rule_ok(s, cutoff, mode, m), True)
    else:
        # cap active: the rule alone would keep at least as many
        pw = 2 if mode in (3, 4) else 1
        if mode in (3, 4, 5, 6) and m >= 1:
            target = cutoff if mode in (3, 5) else cutoff * _tail(s, 0, pw)
            if m > 1:
                mk.same("cap active only if rule needs >= cap values", bool(_tail(s, m - 1, pw) >= target), True)
    # kept values are the leading prefix (=> best rank-m approximation, Eckart-Young)
    mk.eq("U columns are the leading prefix", Un, U[:, :m])
    mk.eq("VH rows are the leading prefix", Vn, VH[:m, :])
    if renorm == 0:
        mk.eq("kept values are the leading prefix", sn, s[:m])
    else:
        if m < n:
            tot_k = _tail(sn, 0, renorm)
            mk.eq(f"renorm={renorm}: kept values preserve the power-{renorm} norm", tot_k, _tail(s, 0, renorm))
        else:
            mk.eq("no truncation -> values unchanged", sn, s[:m])
    # honest error
    if m < n:
        mk.eq("reported error^2 == discarded weight", err_n * err_n, _tail(s, m, 2))
    else:
        mk.eq("no truncation -> zero error", err_n if err_n is not None else 0, 0)
    # agreement of the two implementations
    if raised is None:
        mk.same("generic and numba keep the same count", len(sg), m)
        mk.eq("generic and numba values agree", sg, sn)
        mk.eq("generic and numba left factors agree", Ug, Un)
        ge = info["error"]
        mk.eq("generic and numba errors agree (squared)", ge * ge, err_n * err_n)
    else:
        mk.note(f"generic variant raised {type(raised).__name__} for renorm={renorm}, mode={MODES[mode]}")
        mk.same(f"generic variant handles renorm={renorm} with cutoff_mode={MODES[mode]} like the accelerated one "
                f"(raised {type(raised).__name__})", False, True)


@obligation(PROP)
def option_parsing_history(mk):
    """parse_split_opts / parse_method_absorb are memoised: the parsed options of a call must not
    depend on which (equal-hashing) spellings were parsed before it"""
    mk.encodes(decomp.parse_split_opts, decomp.parse_method_absorb)
    import itertools as _it
    spell = [True, 1, 2, False, 0, None, 1.0]
    for mode in ("abs", "rel", "sum2", "rsum2", "sum1", "rsum1"):
        fresh = {}
        for r in spell:
            decomp.parse_split_opts.cache_clear()
            fresh[repr(r)] = decomp.parse_split_opts("svd", "both", None, 1e-6, mode, r)
        for order in _it.permutations(spell, 2):
            decomp.parse_split_opts.cache_clear()
            for r in order:
                got = decomp.parse_split_opts("svd", "both", None, 1e-6, mode, r)
                mk.same(f"cutoff_mode={mode}: renorm={r!r} parsed after {order[0]!r}", got, fresh[repr(r)])
    decomp.parse_split_opts.cache_clear()
    for a, b in ((None, "U,s,VH"), ("both", "Usq,sqVH"), ("left", "Us,VH"), ("right", "U,sVH")):
        mk.same(f"absorb alias {b!r} parses like {a!r}", decomp.parse_method_absorb("svd", b), decomp.parse_method_absorb("svd", a))


@obligation(PROP, params=[{"absorb": a, "n": 3} for a in (None, 0, 1, -1, 10, 11, -10, -11, 12, -12, 2)])
def absorb_forms(mk, absorb, n):
    """_do_absorb / _do_absorb_numba: every absorb code gives the documented factors"""
    mk.encodes(decomp._do_absorb, decomp._do_absorb_numba, decomp.rdmul, decomp.ldmul)
    s = np.empty(n, dtype=object if mk.sym else float)
    for i in range(n):
        s[i] = mk.scalar(f"s{i}", "pos")
    U = mk.array("U", (2, n), "cplx")
    VH = mk.array("V", (n, 3), "cplx")
    for name, fn in (("generic", lambda: decomp._do_absorb(U, s, VH, absorb=absorb)),
                     ("numba", lambda: decomp._do_absorb_numba(U, s, VH, absorb))):
        L, sv, R = fn()
        full = ref.matmul(ref.matmul(U, np.diag(s) if not mk.sym else _diag(s)), VH)
        if absorb in (None,):
            mk.eq(f"{name}: U s VH", ref.matmul(ref.matmul(L, _diag(sv) if mk.sym else np.diag(sv)), R), full)
        elif absorb in (0, 1, -1):
            mk.same(f"{name}: no separate values", sv is None, True)
            mk.eq(f"{name}: left @ right == U s VH", ref.matmul(L, R), full)
            if absorb == 1:
                mk.eq(f"{name}: left is U", L, U)
            if absorb == -1:
                mk.eq(f"{name}: right is VH", R, VH)
        elif absorb == 10:
            mk.eq(f"{name}: lorthog is U", L, U)
            mk.same(f"{name}: others None", sv is None and R is None, True)
        elif absorb == -11:
            mk.eq(f"{name}: rorthog is VH", R, VH)
            mk.same(f"{name}: others None", sv is None and L is None, True)
        elif absorb == -10:
            mk.eq(f"{name}: lfactor is U s", L, U * s[None, :])
        elif absorb == 11:
            mk.eq(f"{name}: rfactor is s VH", R, s[:, None] * VH)
        elif absorb == -12:
            mk.eq(f"{name}: lsqrt squared", L * L, U * U * s[None, :])
        elif absorb == 12:
            mk.eq(f"{name}: rsqrt squared", R * R, s[:, None] * VH * VH)
        elif absorb == 2:
            mk.eq(f"{name}: values only", sv, s)


def _diag(s):
    n = len(s)
    d = np.empty((n, n), dtype=object)
    for i in range(n):
        for j in range(n):
            d[i, j] = s[i] if i == j else P.ZERO
    return d


@obligation(PROP, params=[{"method": m, "shape": s} for m in ("qr", "svd", "mgs", "cayley") for s in ((3, 2), (2, 2))
                          if not (m == "cayley" and s[0] != s[1])],
            rounds=2, rounds2=3, mandatory=False)
def isometrize_methods(mk, method, shape):
    mk.encodes(decomp.isometrize, decomp.isometrize_qr, decomp.isometrize_svd, decomp.isometrize_cayley,
               decomp.isometrize_modified_gram_schmidt)
    if method == "cayley" and shape[0] != shape[1]:
        raise Skip("cayley needs square input")
    A = mk.array("A", shape, "real")
    Q = decomp.isometrize(A, method=method)
    mk.same("shape preserved", tuple(Q.shape), tuple(shape))
    mk.eq(f"isometrize({method}): Q^dag Q == 1", ref.matmul(ref.dag(Q), Q), ref.eye(shape[1], like=Q))


# ---------------------------------------------------------------------- truncating drivers against an independent reference

def _ref_truncate(s, cutoff, mode, max_bond, renorm):
    """independent implementation of the documented truncation rule on a descending array of magnitudes"""
    n = len(s)
    if cutoff > 0.0:
        if mode == "abs":
            k = int(np.sum(s > cutoff))
        elif mode == "rel":
            k = int(np.sum(s > cutoff * s[0]))
        else:
            pw = 2 if mode.endswith("2") else 1
            sp = s ** pw
            tot = sp.sum()
            target = cutoff * tot if mode.startswith("r") else cutoff
            k = n
            for j in range(n):          # least k whose discarded weight is <= target
                if sp[j:].sum() <= target:
                    k = j
                    break
        k = max(k, 1)
    else:
        k = n
    if max_bond is not None and max_bond > 0:
        k = min(k, max_bond)
    kept = s[:k].copy()
    if renorm and k < n:
        kept = kept * (np.sum(s ** renorm) / np.sum(kept ** renorm)) ** (1.0 / renorm)
    return k, kept


_TRUNC = [{"method": m, "kind": kd} for m in ("svd", "svd:eig", "eigh") for kd in ("real", "cplx")]


@obligation(PROP, params=_TRUNC, numeric=True, num_trials=2)
def truncated_split_numeric(mk, method, kind):
    """[numeric-only supplement] the accelerated truncating drivers as reached through array_split, over the grid
    cutoff in {0.0, 0.07, 0.4} x cutoff_mode x max_bond x renorm x (with / without an info dict): kept count, kept values
    (by magnitude, renormalised with the requested power) and reconstruction equal an independent numpy implementation of
    the documented rule; eigh on an INDEFINITE Hermitian matrix (values ordered by magnitude).  The rule itself is
    decided symbolically by `truncation_rule`; this cross-run covers the per-method shortcuts around it."""
    mk.encodes(decomp.array_split, decomp.svd_truncated_numba if hasattr(decomp, "svd_truncated_numba") else decomp.array_split,
               decomp._svd_via_eig_truncated_numba, decomp.eigh_truncated_numba)
    if mk.sym:
        mk.same("numeric-only obligation", True, True)
        return
    rng = np.random.default_rng(17 + len(method) + (kind == "cplx"))
    cpl = (lambda sh: rng.normal(size=sh) + 1j * rng.normal(size=sh)) if kind == "cplx" else (lambda sh: rng.normal(size=sh))
    if method == "eigh":
        Q, _ = np.linalg.qr(cpl((5, 5)))
        lam = np.array([-5.0, 3.0, 1.0, -0.2, 0.05])
        x = (Q * lam[None, :]) @ Q.conj().T
        order = np.argsort(-np.abs(lam))
        mags = np.abs(lam)[order]
    else:
        Ux, _ = np.linalg.qr(cpl((6, 5)))
        Vx, _ = np.linalg.qr(cpl((5, 5)))
        mags = np.array([4.0, 2.0, 1.0, 0.3, 0.05])
        x = (Ux * mags[None, :]) @ Vx.conj().T
    for cutoff in (0.0, 0.07, 0.4):      # (no value, partial sum or ratio of the test spectra ties with a cutoff)
        for mode in (("rsum2",) if cutoff == 0.0 else ("abs", "rel", "sum2", "rsum2", "sum1", "rsum1")):
            for mb in (None, 2, 3):
                for rn in (0, 1, 2):
                    for with_info in ((False,) if method == "eigh" else (False, True)):      # (the eigh driver takes no info dict)
                        k, kept = _ref_truncate(mags, cutoff, mode, mb, rn)
                        kw = dict(method=method, cutoff=cutoff, cutoff_mode=mode, max_bond=mb, renorm=rn, absorb=None)
                        info = {} if with_info else None
                        if with_info:
                            kw["info"] = info
                        U, s, VH = decomp.array_split(x.copy(), **kw)
                        tag = f"[numeric-only] {method} cutoff={cutoff} mode={mode} max_bond={mb} renorm={rn} info={with_info}"
                        mk.same(f"{tag}: kept count", len(s), k)
                        if len(s) == k:
                            # (the order in which the kept values are returned is not part of the claim)
                            mk.eq(f"{tag}: kept values (magnitudes, renormalised)", np.sort(np.abs(np.asarray(s)))[::-1], kept, tol=1e-9)
                            # reconstruction == best rank-k part, rescaled like the values
                            if method == "eigh":
                                want = (Q[:, order[:k]] * (lam[order[:k]] * (kept / mags[:k]))[None, :]) @ Q[:, order[:k]].conj().T
                            else:
                                want = (Ux[:, :k] * kept[None, :]) @ Vx[:, :k].conj().T
                            mk.eq(f"{tag}: U diag(s) VH", (np.asarray(U) * np.asarray(s)[None, :]) @ np.asarray(VH), want, tol=1e-8)
                        if with_info and k < len(mags):
                            mk.eq(f"{tag}: info['error'] == norm of what was discarded", info.get("error"), float(np.sqrt(np.sum(mags[k:] ** 2))), tol=1e-8)
