"""C18 - exact time evolution follows the Schroedinger / von Neumann equation.

The real ``quimb.evo`` code is executed on symbolic Hamiltonians, states and *times*:

(a) right-hand-side builders (``schrodinger_eq_*``, ``lindblad_eq*``): polynomial identities
    against -i H psi, -i [H, rho] and the Lindbladian written with explicit loops (Q-ID);
(b) ``method='solve'``:
      * pre-diagonalised ``(evals, evecs)`` with free symbols: the reported state after any
        sequence of ``update_to`` calls (t0, t1, t2 symbolic reals, also going back in time and
        repeating a time) is V diag(exp(-i w (t - t0))) V^dag p0 (two-sided for density
        operators) -- a polynomial identity in the entries of V, p0 and the unit symbols
        exp(i w_k t) (Q-ID, no hypotheses);
      * dense Hamiltonian: ``eigh`` is replaced by its contract (H E = E W, E unitary); the
        reported state p(t) is *differentiated formally* in t and the defects  dp/dt + i H p
        (resp. + i [H, p]) and p(t0) - p0 are shown to be explicit polynomial combinations of
        the contract residuals H E - E W and E E^dag - 1 (a Nullstellensatz certificate written
        out by the harness and checked as a polynomial identity), i.e. the state is the
        solution of the Schroedinger / von Neumann initial value problem;
      * conservation of norm / trace / purity / energy modulo unitarity of the eigenvectors;
(c) ``method='expm'``: ``expm_multiply`` is replaced by "multiply by a fresh symbolic matrix
    X[A] per distinct argument A"; goals: the generator handed over is -i H (t_new - t_old), it is
    applied to the previous state, the chain of updates composes, and for a density operator
    the result is two-sided X rho X^dag (or the combination is rejected);
(d) ``method='integrate'``: ``complex_ode`` is replaced by a recorder: the right-hand side,
    initial value and initial time handed to the stepper are the right ones, and the ``solout``
    plumbing feeds ``compute`` callbacks the state in (d, -1) form;
(e) rejections of unsupported combinations, ``compute`` callbacks (single / dict, 2 / 3 args),
    ``at_times``.

In numeric mode (replay / cross-run) nothing is patched: the real ``Evolution`` runs on complex
arrays with the real LAPACK / scipy ``expm_multiply`` / scipy ODE stepper and is compared with a
reference built from ``scipy.linalg.expm``.
"""
import functools

import numpy as np
import scipy.linalg as sla
import scipy.sparse as sp
import scipy.sparse.linalg as spla

import quimb as qu
import quimb.core as qc
import quimb.evo as qe
import quimb.linalg.base_linalg as qbl
import quimb.linalg.numpy_linalg as qnl

from qv import poly as P
from qv import ref
from qv.harness import obligation, Skip

PROP = "C18"
META = {
    "bounds": {
        "quick": {"hilbert dim": "{2,3}", "states": "ket (column / 1-D), Hermitian density operator, all entries symbolic",
                  "hamiltonian": "symbolic Hermitian dense; (evals, evecs) with free symbols; callable H0 + t*H1",
                  "times": "t0, t1, t2 symbolic reals, sequences (t1,t2), (t1,t2,t1), (t1,t1), update back to t0",
                  "methods": "solve (presolved + eigh contract), expm (uninterpreted exponential), integrate (set-up only)",
                  "lindblad": "1-2 symbolic complex jump operators, symbolic gamma"},
        "thorough": {"hilbert dim": "{2,3,4}", "times": "adds longer sequences", "lindblad": "up to 3 jump operators"},
    },
    "outside": [
        "the scipy ODE steppers (dop853 / dopri5), their tolerances and adaptive steps: only the right-hand side, initial "
        "value and callback plumbing handed to them is checked symbolically; the integrated state is compared only in the "
        "numeric cross-run at tolerance 1e-4",
        "the value of scipy's expm_multiply / slepc backends (an uninterpreted linear map per distinct generator); MPI",
        "sparse Hamiltonians and LinearOperator / Lazy Hamiltonians symbolically (numeric cross-run only for sparse)",
        "floating point rounding, int_stop early termination, progress bars",
        "time-ordered exponential of a time-dependent Hamiltonian beyond the right-hand side handed to the integrator "
        "(numeric cross-run against a fine product of short-time exponentials only)",
    ],
    "assumptions": [
        "object dtype is treated like complex128 by quimb's dtype plumbing: quimb.core.common_type, qarray.__new__ (no cast), "
        "qarray.H (conjugates) are substituted for object arrays (environment stubs, symbolic mode only)",
        "quimb.core.explt (a numba @vectorize ufunc, compiled even with JIT disabled) is substituted on object input by "
        "(l, t) -> exp(-i*l*t) built with Poly.exp (one unit generator per monomial w_k*t)",
        "numpy.linalg.eigh on symbolic input is its contract: A E = E diag(w), E^dag E = E E^dag = I, w real ascending "
        "(quimb's captured reference in numpy_linalg._NUMPY_EIG_FUNCS is redirected to the stub)",
        "exp(-i H s) is, for H = E diag(w) E^dag, the matrix E diag(exp(-i w s)) E^dag (spectral definition); uniqueness of "
        "the solution of the linear ODE dp/dt = -i H p links the differentiated goal to the exponential",
        "scipy expm_multiply(A, x) is modelled as X[A] @ x with X[A] a fresh symbolic matrix per distinct A and X[0] = I; the "
        "semigroup law exp(A s) exp(A t) = exp(A (s + t)) is not used by the goals",
        "scipy.integrate.complex_ode is replaced by a recorder in symbolic mode",
    ],
}


# ------------------------------------------------------------------------------ environment

class _Patches:
    def __init__(self):
        self.saved = []

    def set(self, obj, name, val, item=False):
        if item:
            self.saved.append((obj, name, obj[name], True))
            obj[name] = val
        else:
            self.saved.append((obj, name, obj.__dict__[name] if isinstance(obj, type) else getattr(obj, name), False))
            setattr(obj, name, val)

    def restore(self):
        for obj, name, old, item in reversed(self.saved):
            if item:
                obj[name] = old
            else:
                setattr(obj, name, old)
        self.saved.clear()


def _is_obj(x):
    return isinstance(x, P.Poly) or (isinstance(x, np.ndarray) and x.dtype == object)


def _explt_obj(real_explt):
    def explt(l, t):
        if not (_is_obj(l) or _is_obj(t)):
            return real_explt(l, t)
        l = np.asarray(l)
        out = np.empty(l.shape, dtype=object)
        for idx in np.ndindex(*l.shape):
            out[idx] = (P.lift(l[idx]) * P.lift(t) * (-P.I)).exp()
        return out

    return explt


class ExpmRecorder:
    """expm_multiply(A, x) -> X[A] @ x with X[A] fresh symbolic per distinct A, X[0] = identity"""

    def __init__(self, real_fn):
        self.real_fn = real_fn
        self.calls = []
        self.cache = {}

    def __call__(self, A, B, **kw):
        if not (_is_obj(A) or _is_obj(B)):
            return self.real_fn(A, B, **kw)
        A = np.asarray(A)
        n = A.shape[0]
        Al = [P.lift(v) for v in A.reshape(-1)]
        key = tuple(frozenset(p.t.items()) for p in Al)
        X = self.cache.get(key)
        if X is None:
            if all(not p.t for p in Al):
                X = ref.eye(n, like=np.empty(0, dtype=object))
            else:
                X = P.symarray(f"X{len(self.cache)}", (n, n), "cplx")
            self.cache[key] = X
        Bv = np.asarray(B)
        self.calls.append((A, Bv, X))
        return ref.matmul(X, Bv)


class FakeODE:
    """stands for scipy.integrate.complex_ode: records what it is given"""
    last = None

    def __init__(self, f, jac=None):
        self.f = f
        self.integrator = None
        self.solout = None
        self.y = None
        self.t = None
        FakeODE.last = self

    def set_integrator(self, name, **kw):
        self.integrator = (name, kw)
        return self

    def set_solout(self, f):
        self.solout = f

    def set_initial_value(self, y, t=0.0):
        self.y = y
        self.t = t
        return self

    def integrate(self, t, *a, **k):
        raise Skip("stepping the ODE integrator is outside the symbolic model")


class _Ascending(np.ndarray):
    """eigenvalue vector returned by the eigh contract: ascending, so sorting it is the identity"""

    def argsort(self, *a, **k):
        return np.arange(self.shape[0])


def _eigh_ascending(A, *a, **k):
    w, V = np.linalg.eigh(A, *a, **k)
    if _is_obj(w):
        w = w.view(_Ascending)
    return w, V


class SymEnv:
    """object dtype ~ complex128 for quimb's plumbing, explt / expm_multiply / complex_ode models"""

    def __enter__(self):
        p = self.p = _Patches()
        real_ct = qc.common_type

        def common_type(*arrays):
            if any(a.dtype == object for a in arrays):
                return object
            return real_ct(*arrays)

        def qnew(cls, data, dtype=None, order=None):
            a = np.asarray(data)
            if a.dtype == object:
                return np.asarray(a, order=order).view(cls)
            return np.asarray(data, dtype=dtype, order=order).view(cls)

        def H(self_):
            if self_.dtype == object or issubclass(self_.dtype.type, np.complexfloating):
                return self_.conjugate().transpose()
            return self_.transpose()

        p.set(qc, "common_type", common_type)
        p.set(qc.qarray, "__new__", staticmethod(qnew))
        p.set(qc.qarray, "H", property(H))
        ex = _explt_obj(qc.explt)
        p.set(qc, "explt", ex)
        p.set(qe, "explt", ex)
        p.set(qnl._NUMPY_EIG_FUNCS, (True, True), _eigh_ascending, item=True)
        p.set(qnl._NUMPY_EIG_FUNCS, (False, True), np.linalg.eigvalsh, item=True)
        self.expm = ExpmRecorder(qbl._EXPM_MULTIPLY_METHODS["SCIPY"])
        p.set(qbl._EXPM_MULTIPLY_METHODS, "SCIPY", self.expm, item=True)
        p.set(qe, "complex_ode", FakeODE)
        return self

    def __exit__(self, *a):
        self.p.restore()
        return False


def symenv(fn):
    """run the harness inside SymEnv in symbolic mode only (numeric mode: nothing is patched)"""

    @functools.wraps(fn)
    def h(mk, **params):
        if mk.sym:
            with SymEnv() as env:
                mk.env_ = env
                return fn(mk, **params)
        mk.env_ = None
        return fn(mk, **params)

    return h


# ------------------------------------------------------------------------------ reference helpers

def _mI(mk):
    return -P.I if mk.sym else -1j


def _phases(mk, w, dt):
    """exp(-i w_k dt), reference side"""
    if mk.sym:
        out = np.empty(len(w), dtype=object)
        for k, wk in enumerate(w):
            out[k] = (P.lift(wk) * P.lift(dt) * (-P.I)).exp()
        return out
    return np.exp(-1j * np.asarray(w, dtype=float) * dt)


def _U(mk, w, V, dt):
    """V diag(exp(-i w dt)) V^dag with explicit loops"""
    ph = _phases(mk, w, dt)
    n = len(w)
    VD = np.empty((n, n), dtype=object if mk.sym else complex)
    for i in range(n):
        for k in range(n):
            VD[i, k] = V[i, k] * ph[k]
    return ref.matmul(VD, ref.dag(V))


def _evolved(mk, w, V, p0, dt, isdop):
    U = _U(mk, w, V, dt)
    if isdop:
        return ref.matmul(ref.matmul(U, p0), ref.dag(U))
    return ref.matmul(U, p0)


def _state(mk, n, kind, name="p"):
    if kind == "dop":
        return mk.herm(name, n)
    return mk.array(name, (n, 1), "cplx")


def _comm(H, rho):
    return ref.matmul(H, rho) - ref.matmul(rho, H)


def _inner(a, b):
    """<a|b> for columns"""
    tot = 0
    for x, y in zip(np.asarray(a).reshape(-1), np.asarray(b).reshape(-1)):
        tot = tot + x.conjugate() * y
    return tot


def _num_herm(mk, name, n):
    return np.asarray(mk.herm(name, n), dtype=complex)


def _q(x):
    """quimb operator form"""
    return qc.qarray(x)


# ------------------------------------------------------------------------------ (a) right-hand sides

_N23 = [{"n": 2}, {"n": 3}]
_N234 = _N23 + [{"n": 4, "_tiers": ("thorough",)}]


@obligation(PROP, params=_N234)
@symenv
def rhs_ket(mk, n):
    """schrodinger_eq_ket / _timedep evaluated at (t, y) equal -i H y, -i H(t) y"""
    mk.encodes(qe.schrodinger_eq_ket, qe.schrodinger_eq_ket_timedep, qc.dot)
    H = mk.herm("H", n)
    G = mk.herm("G", n)
    y = mk.array("y", (n,), "cplx")
    t = mk.scalar("t")
    want = _mI(mk) * ref.matmul(H, y)
    f = qe.schrodinger_eq_ket(H)
    mk.eq("ket rhs, 1-D state (integrator form)", f(t, y), want)
    mk.eq("ket rhs, column state", f(t, y.reshape(n, 1)), want.reshape(n, 1))
    mk.eq("ket rhs, qarray hamiltonian", qe.schrodinger_eq_ket(_q(H))(t, y), want)
    ham = lambda s: H + s * G
    g = qe.schrodinger_eq_ket_timedep(ham)
    mk.eq("time-dependent ket rhs calls ham(t)", g(t, y), _mI(mk) * ref.matmul(H + t * G, y))
    s = mk.scalar("s")
    mk.eq("time-dependent ket rhs at a second time", g(s, y), _mI(mk) * ref.matmul(H + s * G, y))
    mk.same("dispatch table ket", (qe._calc_evo_eq(0, 0), qe._calc_evo_eq(0, 1), qe._calc_evo_eq(0, 0, False, True),
                                   qe._calc_evo_eq(0, 1, False, True)),
            (qe.schrodinger_eq_ket, qe.schrodinger_eq_ket, qe.schrodinger_eq_ket_timedep, qe.schrodinger_eq_ket_timedep))
    if not mk.sym:
        mk.eq("ket rhs, sparse hamiltonian", qe.schrodinger_eq_ket(sp.csr_matrix(H))(t, y), want)


@obligation(PROP, params=_N234)
@symenv
def rhs_dop(mk, n):
    """schrodinger_eq_dop / _vectorized / _timedep equal -i [H, rho] (flattened row-major)"""
    mk.encodes(qe.schrodinger_eq_dop, qe.schrodinger_eq_dop_vectorized, qe.schrodinger_eq_dop_timedep, qe._calc_evo_eq,
               qc.kron_dense)
    H = mk.herm("H", n)
    G = mk.herm("G", n)
    rho = mk.herm("r", n)
    t = mk.scalar("t")
    want = (_mI(mk) * _comm(H, rho)).reshape(-1)
    mk.eq("dop rhs (Hermitian rho)", qe.schrodinger_eq_dop(H)(t, rho.reshape(-1)), want)
    fv = qe.schrodinger_eq_dop_vectorized(_q(H))
    mk.eq("vectorised dop rhs (Hermitian rho)", fv(t, rho.reshape(-1)), want)
    X = mk.array("x", (n, n), "cplx")
    mk.eq("vectorised dop rhs (general matrix)", fv(t, X.reshape(-1)), (_mI(mk) * _comm(H, X)).reshape(-1))
    ham = lambda s: H + s * G
    g = qe.schrodinger_eq_dop_timedep(ham)
    mk.eq("time-dependent dop rhs calls ham(t)", g(t, rho.reshape(-1)), (_mI(mk) * _comm(H + t * G, rho)).reshape(-1))
    # consequences: trace and hermiticity of the generator's output
    out = np.asarray(qe.schrodinger_eq_dop(H)(t, rho.reshape(-1))).reshape(n, n)
    mk.eq("d/dt tr(rho) = 0", ref.trace(out), 0 * t)
    mk.eq("d/dt rho is Hermitian", out, ref.dag(out))
    mk.same("dispatch table dop", (qe._calc_evo_eq(1, 0), qe._calc_evo_eq(1, 1), qe._calc_evo_eq(1, 0, True),
                                   qe._calc_evo_eq(1, 1, True), qe._calc_evo_eq(1, 0, False, True), qe._calc_evo_eq(1, 1, False, True)),
            (qe.schrodinger_eq_dop, qe.schrodinger_eq_dop_vectorized, qe.lindblad_eq, qe.lindblad_eq_vectorized,
             qe.schrodinger_eq_dop_timedep, qe.schrodinger_eq_dop_timedep))
    if not mk.sym:
        Hs = sp.csr_matrix(H)
        mk.eq("vectorised dop rhs, sparse hamiltonian", qe.schrodinger_eq_dop_vectorized(Hs)(t, rho.reshape(-1)), want)
        mk.eq("time-dependent dop rhs, sparse hamiltonian",
              qe.schrodinger_eq_dop_timedep(lambda s: sp.csr_matrix(H + s * G))(t, rho.reshape(-1)),
              (_mI(mk) * _comm(H + t * G, rho)).reshape(-1))


def _lindbladian(mk, H, Ls, gamma, rho):
    """-i[H, rho] + gamma * sum_l (L rho L^dag - 1/2 {L^dag L, rho})  (quimb's convention: one common
    rate gamma multiplying every dissipator)"""
    out = _mI(mk) * _comm(H, rho)
    half = P.lift(1) / 2 if mk.sym else 0.5
    for L in Ls:
        Ld = ref.dag(L)
        LL = ref.matmul(Ld, L)
        out = out + gamma * (ref.matmul(ref.matmul(L, rho), Ld) - half * (ref.matmul(LL, rho) + ref.matmul(rho, LL)))
    return out


@obligation(PROP, params=[{"n": 2, "nl": 1}, {"n": 2, "nl": 2}, {"n": 3, "nl": 1},
                          {"n": 3, "nl": 2, "_tiers": ("thorough",)}, {"n": 2, "nl": 3, "_tiers": ("thorough",)}])
@symenv
def rhs_lindblad(mk, n, nl):
    """lindblad_eq and lindblad_eq_vectorized equal the Lindbladian; trace preserving, Hermiticity preserving"""
    mk.encodes(qe.lindblad_eq, qe.lindblad_eq_vectorized)
    H = mk.herm("H", n)
    rho = mk.herm("r", n)
    Ls = [mk.array(f"L{k}", (n, n), "cplx") for k in range(nl)]
    gamma = mk.scalar("gamma", "pos")
    t = mk.scalar("t")
    want = _lindbladian(mk, H, Ls, gamma, rho)
    out = qe.lindblad_eq(H, Ls, gamma)(t, rho.reshape(-1))
    mk.eq("lindblad_eq", out, want.reshape(-1))
    outv = qe.lindblad_eq_vectorized(_q(H), [_q(L) for L in Ls], gamma)(t, rho.reshape(-1))
    mk.eq("lindblad_eq_vectorized", outv, want.reshape(-1))
    X = mk.array("x", (n, n), "cplx")
    mk.eq("lindblad_eq_vectorized (general matrix)",
          qe.lindblad_eq_vectorized(_q(H), [_q(L) for L in Ls], gamma)(t, X.reshape(-1)),
          _lindbladian(mk, H, Ls, gamma, X).reshape(-1))
    o = np.asarray(out).reshape(n, n)
    mk.eq("lindblad: d/dt tr(rho) = 0", ref.trace(o), 0 * t)
    mk.eq("lindblad: d/dt rho Hermitian", o, ref.dag(o))
    if not mk.sym:
        outs = qe.lindblad_eq_vectorized(sp.csr_matrix(H), [sp.csr_matrix(L) for L in Ls], gamma)(t, rho.reshape(-1))
        mk.eq("lindblad_eq_vectorized sparse", outs, want.reshape(-1))


# ------------------------------------------------------------------------------ (b) method='solve'

_SEQS = {
    "t1": ("t1",),
    "t1,t2": ("t1", "t2"),
    "t1,t2,t1": ("t1", "t2", "t1"),
    "t1,t1": ("t1", "t1"),
    "t1,t0": ("t1", "t0"),
    "t1,t2,t3,t2": ("t1", "t2", "t3", "t2"),
}
_KINDS = ("ket", "dop")


def _times(mk):
    return {k: mk.scalar(k) for k in ("t0", "t1", "t2", "t3")}


def _presolved(mk, n):
    """(evals, evecs): free symbols / numbers with the same names in both modes"""
    w = mk.array("w", (n,), "real")
    V = mk.array("V", (n, n), "cplx")
    return w, V


@obligation(PROP, params=[{"n": n, "kind": k, "seq": s, "_tiers": ("quick", "thorough") if (n < 3 or s in ("t1,t2,t1", "t1,t0")) and s != "t1,t2,t3,t2" else ("thorough",)}
                          for n in (2, 3) for k in _KINDS for s in _SEQS])
@symenv
def solve_presolved(mk, n, kind, seq):
    """ham=(evals, evecs): state after each update_to == V diag(exp(-i w (t-t0))) V^dag p0 [V diag^dag V^dag],
    independent of the history of requested times; evo.t is the requested time"""
    mk.encodes(qe.Evolution.__init__, qe.Evolution._setup_solved_ham, qe.Evolution._update_to_solved_ket,
               qe.Evolution._update_to_solved_dop, qe.Evolution.update_to, qc.ldmul, qc.rdmul, qc.explt)
    w, V = _presolved(mk, n)
    p0 = _state(mk, n, kind)
    T = _times(mk)
    for method in ("integrate", "solve"):       # a tuple hamiltonian selects 'solve' whatever `method` says
        evo = qe.Evolution(p0, (w, V), t0=T["t0"], method=method)
        mk.eq(f"[{method}] initial pt", evo.pt, p0)
        mk.eq(f"[{method}] initial t", evo.t, T["t0"])
        for k, tn in enumerate(seq.split(",")):
            t = T[tn]
            evo.update_to(t)
            mk.eq(f"[{method}] state after update {k} to {tn}", evo.pt, _evolved(mk, w, V, p0, t - T["t0"], kind == "dop"))
            mk.eq(f"[{method}] evo.t after update {k}", evo.t, t)
    if not mk.sym:
        # a physically valid presolved system, compared with the matrix exponential
        H = _num_herm(mk, "H", n)
        el, ev = np.linalg.eigh(H)
        evo = qe.Evolution(p0, (el, ev), t0=T["t0"])
        for tn in seq.split(","):
            evo.update_to(T[tn])
            U = sla.expm(-1j * H * (T[tn] - T["t0"]))
            mk.eq(f"presolved vs expm at {tn}", evo.pt, U @ p0 @ U.conj().T if kind == "dop" else U @ p0)


# -- formal time derivative of the reported state ---------------------------------------------------

def _gen_bases():
    """sid of a unit generator expi[m] -> monomial m (the generator stands for exp(i*m))"""
    out = {}
    for (kind, base), g in P._GEN_CACHE.items():
        if kind == "expi":
            out[P.sid(g) if hasattr(P, "sid") else next(iter(g.t))[0][0]] = base
    return out


def _ddt_poly(p, tsid, gens):
    tot = P.ZERO
    for m, c in p.t.items():
        for (s, e) in m:
            if s == tsid:
                d = dict(m)
                if e == 1:
                    del d[s]
                else:
                    d[s] = e - 1
                tot = tot + P.Poly({tuple(sorted(d.items())): c * e})
            elif s in gens:
                base = dict(gens[s])
                if tsid in base:
                    if base[tsid] != 1:
                        raise P.Unsupported("d/dt of exp(i * m) with m non-linear in t")
                    del base[tsid]
                    # d/dt g**e = i * e * (m / t) * g**e
                    tot = tot + P.Poly({m: c}) * P.Poly({tuple(sorted(base.items())): 1}) * P.I * e
    return tot


def _ddt(x, t):
    """entry-wise formal derivative with respect to the real symbol t"""
    tsid = next(iter(t.t))[0][0]
    gens = _gen_bases()
    flat = P.flat_polys(x)
    out = np.empty(len(flat), dtype=object)
    for k, p in enumerate(flat):
        out[k] = _ddt_poly(p, tsid, gens)
    return out.reshape(np.asarray(x).shape)


def _num_ddt(f, t, h=1e-4):
    """numeric mode: 4th order central difference"""
    return (-f(t + 2 * h) + 8 * f(t + h) - 8 * f(t - h) + f(t - 2 * h)) / (12 * h)


def _protect(*arrays):
    """keep the certificate search from solving a contract for these input symbols (H = E W E^dag would be
    substituted into the goal, which raises its degree): they stay indeterminates"""
    con = getattr(P.TAB, "constrained", None)
    if con is None:
        return
    for a in arrays:
        for v in P.flat_polys(a):
            for s in v.symbols():
                if s:
                    con.add(s)
                    con.add(P.TAB.partner[s])


def _in_hyps(M):
    """every non-zero entry of M is, up to sign, one of the hypotheses recorded by the contract stubs"""
    have = {frozenset(h.t.items()) for _, h in P.HYP}
    for v in P.flat_polys(M):
        if v.t and frozenset(v.t.items()) not in have and frozenset((-v).t.items()) not in have:
            return False
    return True


def _solve_dense(mk, n, kind, goal):
    H = mk.herm("H", n)
    if mk.sym:
        _protect(H)
    p0 = _state(mk, n, kind)
    t0, t1 = mk.scalar("t0"), mk.scalar("t1")
    isdop = kind == "dop"

    def rhs(p):
        return _mI(mk) * (_comm(H, p) if isdop else ref.matmul(H, p))

    if mk.sym:
        evo = qe.Evolution(p0, _q(H), t0=t0, method="solve")
        w, E = evo._ham                      # the solved system (what `compute` callbacks are documented to receive)
        w, E = np.asarray(w), np.asarray(E)
        Ed = ref.dag(E)
        # residuals of the eigh contract: every entry is (up to sign / conjugation) a hypothesis of the stub
        R = ref.matmul(H, E) - E * w[None, :]          # H E - E W
        S = ref.matmul(E, Ed) - ref.eye(n, like=E)      # E E^dag - 1
        mk.same("H E - E W, its adjoint and E E^dag - 1 are contract hypotheses", _in_hyps(R) and _in_hyps(ref.dag(R)) and _in_hyps(S), True)
        iI = P.I
        if goal == "ode":
            evo.update_to(t1)
            pt = np.asarray(evo.pt)
            ph = _phases(mk, w, t1 - t0)
            lhs = _ddt(pt, t1) - rhs(pt)
            if isdop:
                A = ref.matmul(ref.matmul(Ed, p0), E)
                DAD = np.empty((n, n), dtype=object)
                for a in range(n):
                    for b in range(n):
                        DAD[a, b] = ph[a] * A[a, b] * ph[b].conjugate()
                combo = iI * ref.matmul(R, ref.matmul(DAD, Ed)) - iI * ref.matmul(ref.matmul(E, DAD), ref.dag(R))
            else:
                x = ref.matmul(Ed, p0) * ph.reshape(n, 1)
                combo = iI * ref.matmul(R, x)
            # explicit Nullstellensatz certificate: the defect of the ODE is a polynomial combination of contract
            # residuals, hence zero whenever eigh honours its contract
            mk.eq("d/dt p(t) + i H p(t) [+ i [H, p(t)]] == explicit combination of the residuals H E - E W", lhs, combo)
            mk.eq("evo.t", evo.t, t1)
        else:
            evo.update_to(t1)
            evo.update_to(t0)
            pt = np.asarray(evo.pt)
            if isdop:
                combo = ref.matmul(S, p0) + ref.matmul(p0, S) + ref.matmul(ref.matmul(S, p0), S)
            else:
                combo = ref.matmul(S, p0)
            mk.eq("p(t0) - p0 == explicit combination of the residuals E E^dag - 1", pt - np.asarray(p0), combo)
            mk.eq("evo.t", evo.t, t0)
    else:
        def at(t):
            evo = qe.Evolution(p0, qu.qu(H), t0=t0, method="solve")
            evo.update_to(t)
            return np.asarray(evo.pt)

        pt = at(t1)
        if goal == "ode":
            mk.eq("d/dt p(t) == -i H p(t)   [-i [H, p(t)]]", _num_ddt(at, t1), rhs(pt), tol=1e-6)
        else:
            mk.eq("p(t0) == p0", at(t0), p0)
        U = sla.expm(-1j * H * (t1 - t0))
        mk.eq("p(t1) == expm(-iH(t1-t0)) p0 [...]", pt, U @ p0 @ U.conj().T if isdop else U @ p0)
        evo = qe.Evolution(p0, sp.csr_matrix(H), t0=t0, method="solve")
        evo.update_to(t1)
        mk.eq("sparse hamiltonian, method='solve'", evo.pt, pt)


_DENSE = [{"n": 3, "kind": "ket"}, {"n": 3, "kind": "dop"}, {"n": 4, "kind": "ket", "_tiers": ("thorough",)}]


@obligation(PROP, params=_DENSE, rounds=1, exc_is_violation=True, timeout_s=600)
@symenv
def solve_dense_ode(mk, n, kind):
    """method='solve' with a dense Hamiltonian: the reported state p(t), differentiated formally in t,
    satisfies dp/dt = -i H p (resp. -i [H, p]) modulo the contract of eigh"""
    mk.encodes(qe.Evolution.__init__, qe.Evolution._setup_solved_ham, qe.Evolution._update_to_solved_ket,
               qe.Evolution._update_to_solved_dop, qbl.eigensystem, qnl.eig_numpy)
    _solve_dense(mk, n, kind, "ode")


@obligation(PROP, params=_DENSE, rounds=2, exc_is_violation=True, timeout_s=600)
@symenv
def solve_dense_initial(mk, n, kind):
    """... and p(t0) = p0 (after going away and coming back): with the ODE goal, p(t) is the unique
    solution exp(-iH(t-t0)) p0 [exp(+iH(t-t0))]"""
    mk.encodes(qe.Evolution.__init__, qe.Evolution._setup_solved_ham, qe.Evolution._update_to_solved_ket,
               qe.Evolution._update_to_solved_dop)
    _solve_dense(mk, n, kind, "init")


@obligation(PROP, params=[{"kind": k} for k in _KINDS], rounds=2, exc_is_violation=True)
@symenv
def solve_dense_dim2(mk, kind):
    """the same two goals for a single qubit (d = 2): a 2 x 2 dense Hamiltonian is a supported input of method='solve'"""
    mk.encodes(qe.Evolution.__init__, qe.Evolution._setup_solved_ham)
    _solve_dense(mk, 2, kind, "ode")
    _solve_dense(mk, 2, kind, "init")


def _add_unitary_hyps(V, label="V"):
    n = V.shape[0]
    Vd = ref.dag(V)
    from qv import stubs
    stubs._add_eq(f"{label}:VhV-I", ref.matmul(Vd, V) - ref.eye(n, like=V), False)
    stubs._add_eq(f"{label}:VVh-I", ref.matmul(V, Vd) - ref.eye(n, like=V), False)


@obligation(PROP, params=[{"n": 2, "kind": "ket"}, {"n": 2, "kind": "dop"},
                          {"n": 3, "kind": "ket", "_tiers": ("thorough",)}],
            rounds=2, rounds2=4, timeout_s=800)
@symenv
def solve_conservation(mk, n, kind):
    """norm / trace, purity and energy are conserved by the 'solve' update (eigenvectors unitary)"""
    mk.encodes(qe.Evolution._update_to_solved_ket, qe.Evolution._update_to_solved_dop)
    p0 = _state(mk, n, kind)
    t0, t1 = mk.scalar("t0"), mk.scalar("t1")
    if mk.sym:
        w, V = _presolved(mk, n)
        _add_unitary_hyps(V)
        H = ref.matmul(V * w[None, :], ref.dag(V))
    else:
        H = _num_herm(mk, "H", n)
        w, V = np.linalg.eigh(H)
    evo = qe.Evolution(p0, (w, V), t0=t0)
    evo.update_to(t1)
    pt = np.asarray(evo.pt)
    if kind == "ket":
        mk.eq("norm conserved", _inner(pt, pt), _inner(p0, p0))
        mk.eq("energy conserved", _inner(pt, ref.matmul(H, pt)), _inner(p0, ref.matmul(H, p0)))
    else:
        mk.eq("trace conserved", ref.trace(pt), ref.trace(p0))
        mk.eq("purity conserved", ref.trace(ref.matmul(pt, pt)), ref.trace(ref.matmul(p0, p0)))
        mk.eq("energy conserved", ref.trace(ref.matmul(H, pt)), ref.trace(ref.matmul(H, p0)))
        mk.eq("hermiticity conserved", pt, ref.dag(pt))


# ------------------------------------------------------------------------------ (c) method='expm'

def _expm_ref(H, dt):
    return sla.expm(-1j * np.asarray(H, dtype=complex) * dt)


@obligation(PROP, params=[{"n": n, "seq": s, "_tiers": ("quick", "thorough") if n == 2 or s == "t1,t2,t1" else ("thorough",)}
                          for n in (2, 3) for s in ("t1", "t1,t2", "t1,t2,t1", "t1,t1", "t1,t2,t3,t2")])
@symenv
def expm_ket(mk, n, seq):
    """method='expm', ket: every update applies exp of the generator -i H (t_new - t_old) to the previous state"""
    mk.encodes(qe.Evolution.__init__, qe.Evolution._update_to_expm_ket, qbl.expm_multiply)
    H = mk.herm("H", n)
    p0 = _state(mk, n, "ket")
    T = _times(mk)
    names = seq.split(",")
    evo = qe.Evolution(p0, _q(H), t0=T["t0"], method="expm")
    mk.eq("initial pt", evo.pt, p0)
    mk.eq("initial t", evo.t, T["t0"])
    prev_t, prev_p = T["t0"], np.asarray(p0)
    for k, tn in enumerate(names):
        t = T[tn]
        evo.update_to(t)
        mk.eq(f"evo.t after update {k}", evo.t, t)
        if mk.sym:
            A, B, X = mk.env_.expm.calls[k]
            mk.same("one expm_multiply call per update", len(mk.env_.expm.calls), k + 1)
            mk.eq(f"update {k}: generator handed to expm_multiply == -i H (t_new - t_old)", A, _mI(mk) * H * (t - prev_t))
            mk.eq(f"update {k}: vector handed to expm_multiply == previous state", B, prev_p)
            mk.eq(f"update {k}: reported state == exp(generator) @ previous state", evo.pt, ref.matmul(X, prev_p))
            prev_p = ref.matmul(X, prev_p)
        else:
            mk.eq(f"state after update {k} to {tn}", evo.pt, _expm_ref(H, t - T["t0"]) @ p0)
        prev_t = t
    if not mk.sym:
        evo = qe.Evolution(p0, sp.csr_matrix(H), t0=T["t0"], method="expm")
        for tn in names:
            evo.update_to(T[tn])
        mk.eq("sparse hamiltonian, final state", evo.pt, _expm_ref(H, T[names[-1]] - T["t0"]) @ p0)
        pt = np.asarray(evo.pt)
        mk.eq("norm conserved", _inner(pt, pt), _inner(p0, p0))
        mk.eq("energy conserved", _inner(pt, H @ pt), _inner(p0, H @ p0))


@obligation(PROP, params=[{"n": 2, "seq": "t1"}, {"n": 2, "seq": "t1,t2"}, {"n": 3, "seq": "t1"}])
@symenv
def expm_dop(mk, n, seq):
    """method='expm' with a density operator: either rejected, or evolved two-sidedly U rho U^dag"""
    mk.encodes(qe.Evolution.__init__, qe.Evolution._update_to_expm_ket, qbl.expm_multiply)
    H = mk.herm("H", n)
    p0 = _state(mk, n, "dop")
    T = _times(mk)
    names = seq.split(",")
    try:
        evo = qe.Evolution(p0, _q(H), t0=T["t0"], method="expm")
        states = []
        for tn in names:
            evo.update_to(T[tn])
            states.append(np.asarray(evo.pt))
    except (TypeError, ValueError, NotImplementedError) as e:
        mk.same("density operator with method='expm' rejected", True, True)
        mk.note(f"rejected: {type(e).__name__}")
        return
    prev_t, prev_p = T["t0"], np.asarray(p0)
    for k, tn in enumerate(names):
        t = T[tn]
        if mk.sym:
            # the exponential of -i H (t - prev_t): the recorder's matrix for exactly that generator
            key_calls = [c for c in mk.env_.expm.calls
                         if not any((P.lift(a) - P.lift(b)).t for a, b in zip(np.asarray(c[0]).reshape(-1), (_mI(mk) * H * (t - prev_t)).reshape(-1)))]
            mk.same(f"update {k}: the exponential of -i H (t_new - t_old) is requested", len(key_calls) >= 1, True)
            if not key_calls:
                return
            X = key_calls[0][2]
            want = ref.matmul(ref.matmul(X, prev_p), ref.dag(X))
        else:
            U = _expm_ref(H, t - T["t0"])
            want = U @ p0 @ U.conj().T
        mk.eq(f"dop state after update {k} to {tn} == U rho U^dag", states[k], want)
        if not mk.sym:
            mk.eq(f"trace conserved after update {k}", ref.trace(states[k]), ref.trace(p0))
        prev_t, prev_p = t, want


# ------------------------------------------------------------------------------ (d) method='integrate'

@obligation(PROP, params=[{"n": 2, "kind": k, "timedep": td} for k in _KINDS for td in (False, True)] +
                         [{"n": 3, "kind": k, "timedep": td, "_tiers": ("thorough",)} for k in _KINDS for td in (False, True)],
            num_trials=1)
@symenv
def integrate_setup(mk, n, kind, timedep):
    """method='integrate': right-hand side, initial value / time handed to the stepper; pt / t read back;
    solout -> compute callback plumbing.  Numeric mode: the real stepper against the exponential."""
    mk.encodes(qe.Evolution.__init__, qe.Evolution._start_integrator, qe.Evolution._setup_callback, qe._calc_evo_eq,
               qe.Evolution.pt.fget, qe.Evolution.t.fget)
    H = mk.herm("H", n)
    G = mk.herm("G", n)
    p0 = _state(mk, n, kind)
    t0, t1 = mk.scalar("t0"), mk.scalar("t1")
    isdop = kind == "dop"
    if timedep:
        Hq, Gq = _q(H), _q(G)
        ham = lambda s: Hq + s * Gq
        Hat = lambda s: H + s * G
    else:
        ham = _q(H)
        Hat = lambda s: H
    seen = []

    def rec(t, pt, h):
        seen.append((t, pt, h))
        return len(seen)

    if mk.sym:
        evo = qe.Evolution(p0, ham, t0=t0, method="integrate", compute=rec)
        st = FakeODE.last
        mk.same("stepper created by this Evolution", st is evo._stepper, True)
        mk.eq("initial value handed to the stepper", st.y, np.asarray(p0).reshape(-1))
        mk.eq("initial time handed to the stepper", st.t, t0)
        mk.eq("evo.pt reads the stepper state in (d, -1) form", evo.pt, p0)
        mk.same("evo.pt shape", tuple(evo.pt.shape), tuple(np.asarray(p0).shape))
        mk.eq("evo.t reads the stepper time", evo.t, t0)
        y = mk.array("y", (n, n), "cplx") if isdop else mk.array("y", (n,), "cplx")
        yh = mk.herm("yh", n) if isdop else y
        s = mk.scalar("s")
        Hs = Hat(s)
        want = _mI(mk) * (_comm(Hs, yh) if isdop else ref.matmul(Hs, yh))
        mk.eq("rhs handed to the stepper == -i H(t) y  [-i [H(t), y]]", st.f(s, yh.reshape(-1)), want.reshape(-1))
        mk.same("integrator family", st.integrator[0], "dop853")
        # scipy caps the internal steps of one integrate() call at 500 unless told otherwise: with a cap a long
        # update would stop early and silently report an earlier time
        mk.same("no cap on the number of internal steps of one update (nsteps=0)", st.integrator[1].get("nsteps", "scipy default (500)"), 0)
        # solout plumbing
        mk.same("solout installed for compute callbacks", callable(st.solout), True)
        st.solout(s, y.reshape(-1))
        mk.same("callback called once per accepted step", len(seen), 1)
        mk.eq("callback time", seen[0][0], s)
        mk.eq("callback state in (d, -1) form", seen[0][1], y.reshape(n, -1))
        mk.same("callback state shape", tuple(seen[0][1].shape), (n, n) if isdop else (n, 1))
        mk.same("callback hamiltonian is the one given", seen[0][2] is evo._ham, True)
        mk.same("results", evo.results, [1])
        evo2 = qe.Evolution(p0, ham, t0=t0, method="integrate", int_small_step=True)
        mk.same("small-step integrator family", FakeODE.last.integrator[0], "dopri5")
        mk.same("no solout without callbacks", FakeODE.last.solout, None)
    else:
        evo = qe.Evolution(p0, ham, t0=t0, method="integrate", compute=rec)
        mk.eq("evo.pt before stepping", evo.pt, p0)
        mk.eq("evo.t before stepping", evo.t, t0)
        evo.update_to(t1)
        # reference: time-ordered product of short-time exponentials (midpoint rule)
        steps = 400 if timedep else 1
        U = np.eye(n, dtype=complex)
        h = (t1 - t0) / steps
        for k in range(steps):
            U = sla.expm(-1j * np.asarray(Hat(t0 + (k + 0.5) * h), dtype=complex) * h) @ U
        want = U @ p0 @ U.conj().T if isdop else U @ p0
        mk.eq("integrated state vs (time-ordered) exponential", evo.pt, want, tol=1e-4)
        mk.eq("evo.t", evo.t, t1)
        if not timedep:
            # [numeric-only] one long update (thousands of adaptive steps): it must arrive at the requested time
            import warnings as _w
            evoL = qe.Evolution(p0, _q(np.asarray(H) * 40.0), t0=0.0, method="integrate")
            with _w.catch_warnings():
                _w.simplefilter("ignore")
                evoL.update_to(60.0)
            mk.eq("[numeric-only] long update: evo.t == requested time", evoL.t, 60.0, tol=1e-9)
            UL = sla.expm(-1j * np.asarray(H, dtype=complex) * 40.0 * 60.0)
            mk.eq("[numeric-only] long update: state == exp(-iHT) p0", evoL.pt, UL @ p0 @ UL.conj().T if isdop else UL @ p0, tol=1e-2)
        pt = np.asarray(evo.pt)
        if isdop:
            mk.eq("trace conserved", ref.trace(pt), ref.trace(p0), tol=1e-5)
            mk.eq("purity conserved", ref.trace(pt @ pt), ref.trace(p0 @ p0), tol=1e-4)
        else:
            mk.eq("norm conserved", _inner(pt, pt), _inner(p0, p0), tol=1e-5)
        if not timedep:
            e0 = ref.trace(H @ p0) if isdop else _inner(p0, H @ p0)
            e1 = ref.trace(H @ pt) if isdop else _inner(pt, H @ pt)
            mk.eq("energy conserved", e1, e0, tol=1e-4)
        mk.same("callback saw states in (d, -1) form", all(tuple(s[1].shape) == ((n, n) if isdop else (n, 1)) for s in seen), True)
        mk.same("callback called at least once", len(seen) >= 1, True)
        mk.eq("last callback state is the reported state", seen[-1][1], evo.pt, tol=1e-9)
        mk.eq("last callback time is the reported time", seen[-1][0], t1)


# ------------------------------------------------------------------------------ (e) rejections, callbacks

@obligation(PROP)
@symenv
def rejections(mk):
    """unsupported combinations raise instead of evolving"""
    mk.encodes(qe.Evolution.__init__)
    n = 2
    H = _q(mk.herm("H", n))
    G = _q(mk.herm("G", n))
    psi = _state(mk, n, "ket")
    rho = _state(mk, n, "dop")
    w, V = _presolved(mk, n)
    ham_t = lambda t: H + t * G
    Hn = np.array([[1.0, 0.5], [0.5, -1.0]])
    linop = spla.aslinearoperator(Hn)
    for p, nm in ((psi, "ket"), (rho, "dop")):
        mk.raises(f"{nm}: method='solve' with a time-dependent hamiltonian", lambda: qe.Evolution(p, ham_t, method="solve"), (TypeError,))
        mk.raises(f"{nm}: method='expm' with a time-dependent hamiltonian", lambda: qe.Evolution(p, ham_t, method="expm"), (TypeError,))
        mk.raises(f"{nm}: unknown method", lambda: qe.Evolution(p, H, method="exact"), (ValueError,))
        mk.raises(f"{nm}: int_stop with method='solve'", lambda: qe.Evolution(p, (w, V), method="solve", int_stop=lambda t, p: 0), (ValueError,))
        mk.raises(f"{nm}: int_stop with method='expm'", lambda: qe.Evolution(p, H, method="expm", int_stop=lambda t, p: 0), (ValueError,))
        mk.raises(f"{nm}: int_stop with a presolved hamiltonian", lambda: qe.Evolution(p, (w, V), int_stop=lambda t, p: 0, method="solve"), (ValueError,))
    pn = np.array([[1.0], [0.0]])
    mk.raises("method='solve' with a LinearOperator", lambda: qe.Evolution(pn, linop, method="solve"), (TypeError,))
    mk.raises("method='expm' with a LinearOperator", lambda: qe.Evolution(pn, linop, method="expm"), (TypeError,))


def _run_updates(evo, ts, via):
    states = []
    if via == "update_to":
        for t in ts:
            evo.update_to(t)
            states.append(evo.pt)
    else:
        for p in evo.at_times(ts):
            states.append(p)
    return states


@obligation(PROP, params=[{"method": m, "kind": k, "via": v} for m in ("solve", "expm") for k in _KINDS for v in ("update_to", "at_times")
                          if not (m == "expm" and k == "dop")])
@symenv
def callbacks(mk, method, kind, via):
    """compute callbacks (single callable with 2 / 3 arguments, dict of callables) see exactly the reported
    states and times, in order; results are the callback values; at_times yields the reported states"""
    mk.encodes(qe.Evolution._setup_callback, qe.Try2Then3Args, qe.Evolution.at_times, qe.Evolution.update_to,
               qe.Evolution.results.fget)
    n = 2
    p0 = _state(mk, n, kind)
    T = _times(mk)
    ts = [T["t1"], T["t2"], T["t1"]]
    if method == "solve":
        w, V = _presolved(mk, n)
        ham = (w, V)
    else:
        ham = _q(mk.herm("H", n))
    A = mk.herm("A", n)

    def obs(p):
        p = np.asarray(p)
        return ref.trace(ref.matmul(A, p)) if kind == "dop" else _inner(p, ref.matmul(A, p))

    for style in ("two", "three", "dict"):
        seen = []
        if style == "two":
            def fn(t, p):
                seen.append((t, p, None))
                return obs(p)
            compute = fn
        elif style == "three":
            def fn(t, p, h):
                seen.append((t, p, h))
                return obs(p)
            compute = fn
        else:
            def f1(t, p):
                seen.append((t, p, None))
                return obs(p)

            def f2(t, p, h):
                return t
            compute = {"obs": f1, "time": f2}
        evo = qe.Evolution(p0, ham, t0=T["t0"], method=method, compute=compute)
        states = _run_updates(evo, ts, via)
        mk.same(f"[{style}] one callback per requested time", len(seen), len(ts))
        mk.same(f"[{style}] callback received the reported state object", all(s[1] is p for s, p in zip(seen, states)), True)
        for k, (s, t) in enumerate(zip(seen, ts)):
            mk.eq(f"[{style}] callback {k} time", s[0], t)
        if style == "three":
            if method == "solve":
                mk.same("[three] hamiltonian passed as the solved system", all(s[2][0] is w and s[2][1] is V for s in seen), True)
            else:
                mk.same("[three] hamiltonian passed as given", all(s[2] is ham for s in seen), True)
        res = evo.results
        if style == "dict":
            mk.same("[dict] result keys", sorted(res), ["obs", "time"])
            for k, t in enumerate(ts):
                mk.eq(f"[dict] time result {k}", res["time"][k], t)
            res = res["obs"]
        mk.same(f"[{style}] number of results", len(res), len(ts))
        # value of the callback == observable on the reference state
        for k, t in enumerate(ts):
            if method == "solve":
                want = _evolved(mk, w, V, p0, t - T["t0"], kind == "dop")
            elif mk.sym:
                want = states[k]          # (the expm state itself is the subject of expm_ket)
            else:
                want = _expm_ref(ham, t - T["t0"]) @ p0
            mk.eq(f"[{style}] result {k} == observable of the evolved state", res[k], obs(want))
            mk.eq(f"[{style}] yielded / reported state {k}", states[k], want)
