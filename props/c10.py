"""C10 - DMRG is variational and reports the energy of the state it returns.

Obligation families (all run the real quimb.tensor.tn1d.dmrg code on symbolic MPOs / MPSs):
 (1) energy network: `DMRG.TN_energy ^ all` equals <k|H k> with `H k` computed by the library's
     own `ham.apply(k)` AND by an independent dense reference -- for general complex MPO entries
     (pure polynomial identity, no stub);
 (2) moving environments: at every position the effective network contracts to the same value;
 (3) local updates with the eigensolver replaced by its contract (H_eff v = lambda v, v^dag v = 1):
     after every local update of a sweep the reported local / total energy equals
     <psi|H psi>/<psi|psi> of the *updated* state and the state is normalised; canonical form is
     kept (the environments rely on it);
 (4) bond cap respected after 2-site updates (structural).
"""
import numpy as np

import quimb.tensor as qtn
from quimb.tensor.tn1d import dmrg as qd
from quimb.tensor.tn1d import core as c1
from quimb.tensor.tnag import core as ag

from qv import poly as P
from qv import ref, stubs
from qv.harness import obligation, Skip

PROP = "C10"
META = {
    "bounds": {
        "quick": {"L": "2-3", "phys dim": 2, "MPO bond": 2, "MPS bond": 2, "variants": "DMRG1 and DMRG2, one sweep each direction",
                  "entries": "complex (conj-pair) symbols for the stub-free families, real symbols where LAPACK/eigensolver stubs are involved",
                  "sweep_energy": "L = 2 mandatory (L = 3, 4 in the thorough tier, not mandatory: certificates may exceed the budget)",
                  "truncated_update_energy": "DMRG2, L = 2-3, bond cap 1 < phys dim 2 (every split truncates), cutoff 0, both directions, via sweep() and via solve(); real-symmetric H (eigensolver / svd contracts)",
                  "solve_presweep_state": "complex H and state, L = 2-3, initial bond 1, bond schedule 2,3,4, sequences R / RL / LR / RRL, three sweeps, bond_expand_rand_strength = 0",
                  "solve_resume_history": "three consecutive solve() calls (max_sweeps 3, 2, 2) on one object, seq1 in R/RL/LR/RRL x seq2 in R/L/RL/LR, every convergence / max_sweeps ending (symbolic sweep energies), DMRG1 and DMRG2",
                  "sweep_chain": "L = 2, sweep + opposite sweep with canonize=False, orders RL and LR (DMRG2 cells not mandatory)",
                  "canonize_mirrors_bra / local_update_mirrors_bra": "complex H and state, L = 2-3, bond 2, both directions"},
        "thorough": {"L": "2-4", "MPO bond": "1-2"},
    },
    "outside": ["convergence to the exact ground state, eigensolver accuracy (the eigensolver is replaced by its contract)",
                "monotone decrease across updates (needs the variational inequality lambda <= <w|H_eff|w> of the eigensolver: an inequality contract; only equalities are certified here)",
                "periodic boundary conditions (transfer-matrix compression, pseudo-orthogonality heuristics)", "DMRGX", "truncation error effects (cutoff=0 in certified runs)",
                "truncation by a cutoff on symbolic singular values (only hard max_bond truncation is certified: truncated_update_energy)",
                "symbolic proof of the normalisation after a truncating 2-site update (numeric-only goal of truncated_update_energy; the "
                "missing renormalisation with open boundaries was a genuine defect, fixed)",
                "random fill of expanded bonds (bond_expand_rand_strength > 0: random draws are not modelled symbolically)"],
    "assumptions": ["local eigensolver returns an eigenpair of the matrix / operator it is given (contract stub)",
                    "LAPACK qr/svd contracts (stubs)"],
}

d = 2


def sym_mpo(mk, L, Dw, kind, herm=False):
    arrays = []
    for i in range(L):
        if L == 1:
            shp = (d, d)
        elif i == 0:
            shp = (Dw, d, d)
        elif i == L - 1:
            shp = (Dw, d, d)
        else:
            shp = (Dw, Dw, d, d)
        a = mk.array(f"W{i}", shp, kind)
        if herm:
            # symmetric in (up, down) for real kind => real-symmetric dense operator
            a = (a + np.swapaxes(a, -1, -2)) / 2
        arrays.append(a)
    return qtn.MatrixProductOperator(arrays)


def sym_mps(mk, L, D, kind, name="T"):
    arrays = []
    for i in range(L):
        shp = (D, d) if i in (0, L - 1) else (D, D, d)
        arrays.append(mk.array(f"{name}{i}", shp, kind))
    return qtn.MatrixProductState(arrays)


def dense_op(H):
    L = H.L
    return ref.tn_dense(H, tuple(H.upper_ind(i) for i in range(L)) + tuple(H.lower_ind(i) for i in range(L))).reshape(d ** L, d ** L)


def dense_vec(psi):
    return ref.tn_dense(psi, tuple(psi.site_ind(i) for i in range(psi.L))).reshape(-1)


def _conj(v):
    if v.dtype == object:
        return np.array([P.lift(x).conjugate() for x in v.reshape(-1)], dtype=object).reshape(v.shape)
    return np.conj(v)


def expval(Hd, v):
    """<v| H v> with the library's operator-on-state convention (H v)_k = sum_b H[k, b] v_b"""
    Hv = ref.matmul(Hd, v)
    tot = 0
    for a, b in zip(_conj(v), Hv):
        tot = tot + a * b
    return tot


def norm2(v):
    tot = 0
    for a, b in zip(_conj(v), v):
        tot = tot + a * b
    return tot


@obligation(PROP, params=[{"cls": c, "L": L, "kind": k} for c in ("DMRG1", "DMRG2") for L in (2, 3) for k in ("cplx", "real")])
def energy_network(mk, cls, L, kind):
    """(1) the energy network of a fresh DMRG object denotes <k|H k>"""
    mk.encodes(qd.DMRG.__init__, ag.tensor_network_align, ag.tensor_network_apply_op_vec)
    H = sym_mpo(mk, L, 2, kind)
    k = sym_mps(mk, L, 2, kind)
    dm = getattr(qtn, cls)(H, bond_dims=2, p0=k)
    Hd, v = dense_op(H), dense_vec(k)
    want = expval(Hd, v)
    mk.eq("ham.apply(k) == dense H k", dense_vec(H.apply(k)), ref.matmul(Hd, v))
    mk.eq("k.H @ ham.apply(k) == <k|H k>", k.H @ H.apply(k), want)
    mk.eq("TN_energy ^ all == <k|H k> (library convention)", dm.TN_energy ^ all, want)
    mk.eq("TN_energy ^ ... == <k|H k>", dm.TN_energy ^ ..., want)
    mk.eq("state is the initial state", dense_vec(dm.state), v)


@obligation(PROP, params=[{"L": 3, "bsz": b, "begin": g} for b in (1, 2) for g in ("left", "right")])
def moving_environment(mk, L, bsz, begin):
    """(2) every position of the moving environment contracts to the value of the whole"""
    mk.encodes(qd.MovingEnvironment, qd.MovingEnvironment.init_segment, qd.MovingEnvironment.move_to,
               qd.MovingEnvironment.__call__)
    H = sym_mpo(mk, L, 2, "cplx")
    k = sym_mps(mk, L, 2, "cplx")
    dm = qtn.DMRG2(H, bond_dims=2, p0=k) if bsz == 2 else qtn.DMRG1(H, bond_dims=2, p0=k)
    whole = dm.TN_energy ^ all
    me = qd.MovingEnvironment(dm.TN_energy, begin=begin, bsz=bsz)
    sites = range(L - bsz + 1) if begin == "left" else range(L - bsz, -1, -1)
    for i in sites:
        me.move_to(i)
        mk.eq(f"environment at {i} contracts to the whole", me() ^ all, whole)
        eff = me()
        mk.same(f"environment at {i} keeps the local ket / ham / bra tensors",
                all(dm._k[j] in eff.tensor_map.values() for j in range(i, i + bsz)), True)


class _Vec:
    """what the eigensolver returns for the vector: something with .toarray()"""

    def __init__(self, a):
        self.a = a

    def toarray(self):
        return self.a


def install_eig_contract(mk, dm):
    """replace the local eigensolver by its contract"""
    count = [0]

    def _eigs(A, B=None, v0=None):
        if B is not None:
            raise P.Unsupported("generalised local eigenproblem (periodic)")
        if mk.sym:
            count[0] += 1
            k = count[0]
            if hasattr(A, "to_dense") and not isinstance(A, np.ndarray):
                A = A.to_dense()
            A = np.asarray(A)
            n = A.shape[0]
            lam = P.real(f"lam{k}")
            v = P.symarray(f"ev{k}", (n,), "real")
            for x in v:
                P.TAB.constrained.add(P.sid(x))
            Av = ref.matmul(A, v)
            for i in range(n):
                P.HYP.append((f"eig{k}:Av-lv[{i}]", Av[i] - lam * v[i]))
            P.HYP.append((f"eig{k}:vv-1", sum((x * x for x in v), P.ZERO) - 1))
            stubs.USED["local eigensolver (contract)"] = stubs.USED.get("local eigensolver (contract)", 0) + 1
            return np.array([lam], dtype=object), _Vec(v.reshape(-1, 1))
        return qd.DMRG._eigs(dm, A, B=B, v0=v0)

    dm._eigs = _eigs


class _Stop(Exception):
    pass


_EH = [{"cls": c, "L": L, "dense": dn, "site": s}
       for c, L, sites in (("DMRG1", 2, (0,)), ("DMRG1", 3, (0, 1)), ("DMRG2", 2, (0,)), ("DMRG2", 3, (0,)))
       for s in sites for dn in (True, False)]


@obligation(PROP, params=_EH, timeout_s=400)
def effective_hamiltonian(mk, cls, L, dense, site):
    """(1b) the local operator handed to the eigensolver - dense matrix or matrix-free linear operator -
    is the effective Hamiltonian of the block: z^dag (A x) == <k[z] | H k> for the current block x and
    an independent block z (complex Hermitian-free H: any transposition or conjugation slip shows)"""
    mk.encodes(qd.DMRG.form_local_ops, qd.DMRG._update_local_state_1site, qd.DMRG._update_local_state_2site,
               qd.parse_2site_inds_dims, qd.MovingEnvironment.move_to)
    H = sym_mpo(mk, L, 2, "cplx")
    k = sym_mps(mk, L, 2, "cplx")
    dm = getattr(qtn, cls)(H, bond_dims=2, p0=k)
    dm.opts["local_eig_ham_dense"] = dense
    got = {}

    def _eigs(A, B=None, v0=None):
        got["A"], got["v0"] = A, v0
        raise _Stop()

    dm._eigs = _eigs
    bsz = 2 if cls == "DMRG2" else 1
    # position the environments like a sweep does, then update the requested block
    dm.ME_eff_ham = qd.MovingEnvironment(dm.TN_energy, begin="left", bsz=bsz)
    try:
        dm._update_local_state(site, direction="right")
    except _Stop:
        pass
    mk.same("the eigensolver was reached", "A" in got, True)
    A, x = got["A"], np.asarray(got["v0"]).reshape(-1)
    mk.same("matrix-free operator used iff requested", isinstance(A, np.ndarray), dense)
    Ax = ref.matmul(np.asarray(A.to_dense() if not isinstance(A, np.ndarray) else A), x)
    if not isinstance(A, np.ndarray):
        mk.eq("matvec of the linear operator == its dense form times x", np.asarray(A.matvec(x)).reshape(-1), Ax)
    Hd, v = dense_op(H), dense_vec(k)
    quad = 0
    for a, b in zip(_conj(x), Ax):
        quad = quad + a * b
    mk.eq("x^dag A x == <k|H k>", quad, expval(Hd, v))
    # independent bra block z over the same labels
    ts = [dm._k[j] for j in range(site, site + bsz)]
    if bsz == 1:
        uix, shape = ts[0].inds, ts[0].shape
    else:
        dims, _, _, _, _, _, uix, _, _ = qd.parse_2site_inds_dims(dm._k, dm._b, site)
        shape = dims
    z = mk.array("Z", tuple(shape), "cplx")
    kz = qtn.TensorNetwork([t for t in dm._k.tensors if all(t is not s for s in ts)] + [qtn.Tensor(z, uix)])
    vz = ref.tn_dense(kz, tuple(k.site_ind(i) for i in range(L))).reshape(-1)
    Hv = ref.matmul(Hd, v)
    want = 0
    for a, b in zip(_conj(vz), Hv):
        want = want + a * b
    bil = 0
    for a, b in zip(_conj(z.reshape(-1)), Ax):
        bil = bil + a * b
    mk.eq("z^dag A x == <k[z]|H k> for an independent block z", bil, want)


@obligation(PROP, params=[{"cls": c} for c in ("DMRG1", "DMRG2")], max_paths=400)
def solve_driver(mk, cls):
    """(5) the solve() driver with the sweep replaced by an arbitrary energy source: sweep j runs with
    the j-th scheduled bond cap / cutoff / direction, `energy` is the energy of the last sweep (the
    one `state` comes from), convergence is |E_n - E_{n-1}| < tol and stops the loop"""
    mk.encodes(qd.DMRG.solve, qd.DMRG._check_convergence, qd.DMRG._set_bond_dim_seq, qd.DMRG._set_cutoff_seq)
    rng = np.random.default_rng(3)
    A = rng.normal(size=(4, 4))
    H = qtn.MatrixProductOperator.from_dense(A + A.T, dims=[2, 2])
    bds, cuts = [2, 3, 5], [1e-6, 1e-9]
    dm = getattr(qtn, cls)(H, bond_dims=bds, cutoffs=cuts)
    calls = []
    es = [mk.sreal(f"e{j}", -4, 4) for j in range(5)]

    def sweep(direction, canonize=True, max_bond=None, cutoff=None, **kw):
        calls.append((direction, canonize, max_bond, cutoff))
        return es[len(calls) - 1]

    dm.sweep = sweep
    tol = mk.sreal("tol", 0, 1)
    mk.assume(tol > 0)
    conv = dm.solve(tol=tol, sweep_sequence="RRL", max_sweeps=3)
    n = len(calls)
    mk.same("at least two and at most max_sweeps sweeps", 2 <= n <= 3, True)
    for j, (dr, can, mb, co) in enumerate(calls):
        mk.same(f"sweep {j}: direction from the sequence", dr, "RRL"[j % 3])
        mk.same(f"sweep {j}: scheduled bond cap", mb, bds[min(j, len(bds) - 1)])
        mk.same(f"sweep {j}: scheduled cutoff", co, cuts[min(j, len(cuts) - 1)])
        mk.same(f"sweep {j}: canonize unless the previous sweep ran the other way",
                can, not (j > 0 and {dr, calls[j - 1][0]} == {"L", "R"}))
    mk.same("one recorded energy per sweep", len(dm.energies), n)
    mk.check(dm.energy == es[n - 1], "energy is the energy returned by the last sweep")
    d_last = es[n - 1] - es[n - 2]
    isconv = (d_last < tol) & (-d_last < tol)
    mk.check(isconv == bool(conv), "returned flag == |E_n - E_{n-1}| < tol")
    if n < 3:
        mk.same("stopped early only when converged", bool(conv), True)
    if n == 3:
        d1 = es[1] - es[0]
        mk.check(~((d1 < tol) & (-d1 < tol)), "did not run past a converged sweep")
    # a second call continues the schedules
    before = len(calls)
    dm.solve(tol=tol, sweep_sequence="L", max_sweeps=1)
    mk.same("second solve(): one more sweep", len(calls), before + 1)
    j = before
    mk.same("second solve(): schedule continues", (calls[-1][2], calls[-1][3]),
            (bds[min(j, len(bds) - 1)], cuts[min(j, len(cuts) - 1)]))
    mk.check(dm.energy == es[j], "energy follows the second solve()")


_SW = [{"cls": c, "L": L, "direction": dr, "_tiers": ("quick", "thorough") if L <= 2 else ("thorough",),
        "_mandatory": L <= 2}
       for c in ("DMRG1", "DMRG2") for L in (2, 3, 4) for dr in ("R", "L")]


@obligation(PROP, params=_SW, rounds=2, timeout_s=600, wall_s=500, max_rows=80000, solver_timeout_ms=120000)
def sweep_energy(mk, cls, L, direction):
    """(3) after every local update the reported energies are those of the updated state"""
    mk.encodes(qd.DMRG.sweep, qd.DMRG._update_local_state, qd.DMRG._update_local_state_1site,
               qd.DMRG._update_local_state_2site, qd.DMRG.form_local_ops, qd.DMRG._canonize_after_1site_update,
               qd.MovingEnvironment.move_to, qd.parse_2site_inds_dims)
    H = sym_mpo(mk, L, 2, "real", herm=True)
    k = sym_mps(mk, L, 2, "real")
    dm = getattr(qtn, cls)(H, bond_dims=2, p0=k)
    install_eig_contract(mk, dm)
    Hd = dense_op(H)
    snaps = []
    orig = dm._update_local_state

    def wrapped(i, **kw):
        r = orig(i, **kw)
        snaps.append((i, r, dense_vec(dm._k)))
        return r

    dm._update_local_state = wrapped
    kw = {"max_bond": 4, "cutoff": 0.0} if cls == "DMRG2" else {}
    last = dm.sweep(direction, canonize=True, **kw)
    mk.same("one snapshot per local update", len(snaps), (L - 1) if cls == "DMRG2" else L)
    for i, (loc_en, tot_en), v in snaps:
        n2 = norm2(v)
        if cls == "DMRG2" and mk.sym:
            # since fix a15116ce the two-site update divides by the norm of the tensor holding the singular values: the
            # normalisation goal then needs (isometry contract) x (degree-4 monomials) closure rows, which the certificate
            # search does not reach (tried: no certificate in 70 s / timeout); decided in the numeric cross-run
            mk.note("numeric-only: DMRG2 'state normalised' goal (explicit renormalisation by a tensor norm)")
        else:
            mk.eq(f"update at {i}: state normalised", n2, 1)
        mk.eq(f"update at {i}: total energy == <psi|H psi>", tot_en, expval(Hd, v))
        mk.eq(f"update at {i}: local energy == <psi|H psi>", loc_en, expval(Hd, v))
    mk.eq("sweep returns the last total energy", last, snaps[-1][1][1])
    mk.eq("TN_energy ^ all == reported energy", dm.TN_energy ^ all, last)
    st = dm.state
    mk.eq("dmrg.state: <s|H.apply(s)> == reported energy", st.H @ H.apply(st), last)
    mk.same("bond cap respected", st.max_bond() <= 4, True)


@obligation(PROP, params=[{"L": L, "cap": c} for L in (2, 3) for c in (1, 2)], rounds=2, timeout_s=400, mandatory=False)
def bond_cap(mk, L, cap):
    """(4) 2-site updates respect the bond cap (structural; values symbolic)"""
    H = sym_mpo(mk, L, 2, "real", herm=True)
    k = sym_mps(mk, L, 2, "real")
    dm = qtn.DMRG2(H, bond_dims=cap, p0=k)
    install_eig_contract(mk, dm)
    dm.sweep("R", canonize=True, max_bond=cap, cutoff=0.0)
    mk.same(f"max bond <= {cap} after the sweep", dm.state.max_bond() <= cap, True)
    v = dense_vec(dm._k)
    mk.eq("TN_energy ^ all == <psi|H psi> of the truncated state", dm.TN_energy ^ all, expval(dense_op(H), v))


@obligation(PROP, params=[{"cls": c, "L": 3} for c in ("DMRG1", "DMRG2")], numeric=True, tiers=("quick", "thorough"))
def numeric_ground_state(mk, cls, L):
    """numeric cross-run of the full statement on a random complex Hermitian MPO (real solver):
    energy == <s|H s>, never below the exact ground energy, matches exact diagonalisation"""
    if mk.sym:
        # the symbolic counterpart is `sweep_energy`; here only the driver bookkeeping is symbolic-free
        mk.same("numeric-only obligation", True, True)
        return
    rng = np.random.default_rng(mk.rng.randint(0, 10 ** 6))
    A = rng.normal(size=(d ** L, d ** L)) + 1j * rng.normal(size=(d ** L, d ** L))
    A = (A + A.conj().T) / 2
    H = qtn.MatrixProductOperator.from_dense(A, dims=[d] * L)
    dm = getattr(qtn, cls)(H, bond_dims=[4, 8], cutoffs=1e-12)
    dm.solve(tol=1e-10, max_sweeps=12, verbosity=0)
    s = dm.state
    e = dm.energy
    ev = np.linalg.eigvalsh(A)
    mk.eq("energy == <s|H.apply(s)> / <s|s>", (s.H @ H.apply(s)) / (s.H @ s), e, tol=1e-6)
    v = s.to_dense().reshape(-1)
    mk.eq("energy == dense <s|A|s>", (v.conj() @ A @ v) / (v.conj() @ v), e, tol=1e-6)
    mk.same("energy not below the exact ground energy", bool(np.real(e) >= ev[0] - 1e-8), True)
    mk.eq("converged energy == exact ground energy", np.real(e), ev[0], tol=1e-6)


_CM = [{"method": m, "seq": q, "cap": c, "_tiers": ("quick", "thorough") if (q == "RL" and c in (3, 8)) else ("thorough",)}
       for m in ("svd", "svd:eig", "svds", "eig", "isvd") for q in ("R", "RL") for c in (2, 3, 8)]


@obligation(PROP, params=_CM, numeric=True, tiers=("quick", "thorough"), timeout_s=300)
def compress_method_options_numeric(mk, method, seq, cap):
    """LABELLED NUMERIC-ONLY SUPPLEMENT (third round).  DMRG2 with every documented opts['bond_compress_method'] x sweep sequence x
    bond cap (below, at an odd value inside, and above the exact rank) on a genuinely complex Hermitian MPO, cutoffs=0.0 exactly:
    the reported energy is the Rayleigh quotient of the returned state, never below the exact ground energy; the returned state
    respects the cap on EVERY bond; with a cap admitting the exact ground state the total energy never rises between local
    updates and the converged energy is the exact ground energy.  The split itself is decided symbolically for every method x
    absorb by C05 (split_exact); here the option is threaded through the real driver with real LAPACK / ARPACK."""
    if mk.sym:
        mk.note("numeric-only: option grid of the real DMRG2 driver (iterative eigensolver, real decompositions)")
        mk.same("numeric-only obligation", True, True)
        return
    import warnings
    L = 6
    B = qtn.SpinHam1D(S=1 / 2)
    for c_, ops in ((1.0, "XX"), (0.7, "YY"), (0.4, "ZZ"), (0.5, "XY"), (-0.3, "YZ")):
        B += c_, ops[0], ops[1]
    B += 0.2, "Y"
    B += 0.1, "Z"
    H = B.build_mpo(L)
    Hd = np.asarray(H.to_dense())
    ev = np.linalg.eigvalsh(Hd)
    p0 = qtn.MPS_rand_state(L, min(cap, 8), dtype="complex128", seed=11)
    with warnings.catch_warnings():
        warnings.simplefilter("ignore")
        dm = qtn.DMRG2(H, bond_dims=[cap], cutoffs=0.0, p0=p0)
        dm.opts["bond_compress_method"] = method
        try:
            dm.solve(tol=1e-11, max_sweeps=8, sweep_sequence=seq, verbosity=0)
        except (ValueError, TypeError, NotImplementedError, KeyError) as e:
            mk.note(f"bond_compress_method={method!r} rejected by the driver: {type(e).__name__}: {str(e)[:80]}")
            mk.same("rejected option (documented: the statement allows a rejection)", True, True)
            return
    st = dm.state
    v = np.asarray(st.to_dense()).ravel()
    nrm = np.vdot(v, v).real
    tag = f"[numeric-only] DMRG2(bond_compress_method={method!r}, sweep_sequence={seq!r}, bond_dims={cap})"
    mk.eq(f"{tag}: energy == dense <s|H|s> / <s|s> of the returned state", np.real(dm.energy), np.vdot(v, Hd @ v).real / nrm, tol=1e-7)
    mk.same(f"{tag}: energy not below the exact ground energy", bool(np.real(dm.energy) >= ev[0] - 1e-8), True)
    mk.same(f"{tag}: every bond of the returned state <= cap", bool(st.max_bond() <= cap), True)
    if cap >= 8:
        tot = np.concatenate([np.atleast_1d(np.real(t)) for t in dm.total_energies])
        mk.same(f"{tag}: untruncated run, the total energy never rises between local updates", bool(np.max(np.diff(tot)) <= 1e-8), True)
        mk.eq(f"{tag}: converged energy == exact ground energy", np.real(dm.energy), ev[0], tol=1e-6)


def _bra_is_conj_ket(mk, dm, where):
    """tensor by tensor: same shape, bra data == conj(ket data), and the energy network
    (which views these tensors) denotes <k|H k> of the held ket"""
    for i in range(dm.L):
        tk, tb = dm._k[i], dm._b[i]
        mk.same(f"{where}: bra / ket tensor {i} have the same shape", tuple(tb.shape), tuple(tk.shape))
        mk.eq(f"{where}: bra tensor {i} == conj(ket tensor {i})", np.asarray(tb.data), _conj(np.asarray(tk.data)))


_PS = [{"cls": c, "L": L, "seq": s, "rand": r}
       for c, L, s, r in [("DMRG1", 2, "R", 0.0), ("DMRG1", 2, "RL", 0.0), ("DMRG1", 2, "LR", 0.0),
                          ("DMRG1", 3, "RL", 0.0), ("DMRG1", 3, "LR", 0.0), ("DMRG1", 3, "RRL", 0.0),
                          ("DMRG2", 2, "RL", 0.0), ("DMRG2", 3, "LR", 0.0)]]


@obligation(PROP, params=_PS, timeout_s=300)
def solve_presweep_state(mk, cls, L, seq, rand):
    """(6) what solve() itself does to the held ket / bra before handing them to a sweep (1-site variant:
    bond expansion to the scheduled cap, mirrored into the bra), for genuinely complex states and every
    sweep of a growing bond schedule: at the entry of EVERY sweep the bra is the conjugate of the ket
    tensor by tensor, the energy network denotes <k|H k> of the held ket, the bonds have the scheduled
    size, and (rand_strength = 0) the expansion has not changed the state vector.  The sweep is replaced
    by a probe (its own behaviour is families (3)/(7))."""
    mk.encodes(qd.DMRG.solve, c1.TensorNetwork1DFlat.expand_bond_dimension)
    H = sym_mpo(mk, L, 2, "cplx")
    k = sym_mps(mk, L, 1, "cplx")
    bds = [2, 3, 4]
    dm = getattr(qtn, cls)(H, bond_dims=bds, p0=k)
    dm.opts["bond_expand_rand_strength"] = rand
    Hd, v0 = dense_op(H), dense_vec(k)
    seen = []

    def sweep(direction, canonize=True, max_bond=None, **kw):
        j = len(seen)
        where = f"entry of sweep {j} ({direction})"
        _bra_is_conj_ket(mk, dm, where)
        v = dense_vec(dm._k)
        mk.eq(f"{where}: TN_energy ^ all == <k|H k> of the held ket", dm.TN_energy ^ all, expval(Hd, v))
        if cls == "DMRG1":
            mk.same(f"{where}: every bond expanded to the scheduled cap",
                    [dm._k.bond_size(i, i + 1) for i in range(L - 1)], [max_bond] * (L - 1))
        if rand == 0.0:
            mk.eq(f"{where}: the state vector is the initial one (zero padding)", v, v0)
        seen.append(direction)
        return -1.0 * j

    dm.sweep = sweep
    dm.solve(tol=1e-3, sweep_sequence=seq, max_sweeps=3)
    mk.same("three sweeps ran with the directions of the sequence", seen, [seq[j % len(seq)] for j in range(3)])


_RS = [{"cls": c, "seq1": a, "seq2": b} for c in ("DMRG1", "DMRG2")
       for a in ("RL", "LR", "RRL", "R") for b in ("R", "L", "RL", "LR")]


@obligation(PROP, params=_RS, max_paths=400)
def solve_resume_history(mk, cls, seq1, seq2):
    """(5b) call history of solve(): three consecutive solve() calls on one object (sequences seq1, seq2,
    seq1 again; each call may end by convergence after any sweep or by max_sweeps - the sweep energies are
    symbolic so every ending is a path).  A sweep may skip the re-canonisation ONLY if the sweep that
    actually ran immediately before it on this object went the opposite way (that is what leaves the
    state in the canonical form the sweep needs - established by `sweep_chain`); within a call the
    flag is exactly that; the very first sweep always canonises; schedules, `energies` and `energy`
    follow the global sweep count."""
    mk.encodes(qd.DMRG.solve, qd.DMRG._check_convergence, qd.DMRG._set_bond_dim_seq)
    rng = np.random.default_rng(5)
    A = rng.normal(size=(4, 4))
    H = qtn.MatrixProductOperator.from_dense(A + A.T, dims=[2, 2])
    bds = [2, 3, 4, 5, 6, 7]
    dm = getattr(qtn, cls)(H, bond_dims=bds, cutoffs=1e-9)
    calls = []
    es = [mk.sreal(f"e{j}", -4, 4) for j in range(8)]

    def sweep(direction, canonize=True, max_bond=None, cutoff=None, **kw):
        calls.append((direction, canonize, max_bond))
        return es[len(calls) - 1]

    dm.sweep = sweep
    tol = mk.sreal("tol", 0, 1)
    mk.assume(tol > 0)
    g0 = 0
    for c, (seq, ms) in enumerate(((seq1, 3), (seq2, 2), (seq1, 2))):
        conv = dm.solve(tol=tol, sweep_sequence=seq, max_sweeps=ms)
        n = len(calls) - g0
        mk.same(f"call {c}: between one and max_sweeps sweeps", 1 <= n <= ms, True)
        for j in range(n):
            g = g0 + j
            dr, can, mb = calls[g]
            mk.same(f"call {c} sweep {j}: direction from the sequence", dr, seq[j % len(seq)])
            mk.same(f"call {c} sweep {j}: bond cap continues the schedule", mb, bds[min(g, len(bds) - 1)])
            opposite = g > 0 and {dr, calls[g - 1][0]} == {"L", "R"}
            if not can:
                mk.same(f"call {c} sweep {j}: canonisation skipped only after a sweep that actually ran the other way",
                        opposite, True)
            if j > 0:
                mk.same(f"call {c} sweep {j}: canonize unless the previous sweep ran the other way", can, not opposite)
            if g == 0:
                mk.same("the first sweep ever canonises", can, True)
        g1 = len(calls)
        mk.same(f"call {c}: one recorded energy per sweep so far", len(dm.energies), g1)
        mk.check(dm.energy == es[g1 - 1], f"call {c}: energy is that of the last sweep run")
        if g1 >= 2:
            dl = es[g1 - 1] - es[g1 - 2]
            mk.check(((dl < tol) & (-dl < tol)) == bool(conv), f"call {c}: returned flag == |E_n - E_(n-1)| < tol")
        if n < ms:
            mk.same(f"call {c}: stopped early only when converged", bool(conv), True)
        g0 = g1


_TR = [{"L": L, "direction": dr, "cap": 1, "via": via} for L in (2, 3) for dr in ("R", "L") for via in ("sweep", "solve")]


@obligation(PROP, params=_TR, rounds=2, timeout_s=400)
def truncated_update_energy(mk, L, direction, cap, via):
    """(3b) two-site updates whose SVD split REALLY truncates (bond cap 1 < phys dim 2, cutoff 0): the
    total energy reported after every update, the value the sweep returns and `dmrg.energy` are the
    energy <psi|H psi> of the state actually held after the truncated tensors were re-inserted - NOT the
    pre-truncation local eigenvalue - and that state is normalised (the library did not renormalise after a
    hard max_bond truncation with open boundaries until the fix recorded in known_findings.txt).  Run through
    `sweep` directly and through `solve`."""
    mk.encodes(qd.DMRG.sweep, qd.DMRG.solve, qd.DMRG._update_local_state, qd.DMRG._update_local_state_2site,
               qd.DMRG.form_local_ops, qd.MovingEnvironment.move_to, qd.parse_2site_inds_dims)
    H = sym_mpo(mk, L, 2, "real", herm=True)
    k = sym_mps(mk, L, 2, "real")
    dm = qtn.DMRG2(H, bond_dims=cap, cutoffs=0.0, p0=k)
    install_eig_contract(mk, dm)
    Hd = dense_op(H)
    snaps = []
    orig = dm._update_local_state

    def wrapped(i, **kw):
        r = orig(i, **kw)
        snaps.append((i, r, dense_vec(dm._k), dm._k.max_bond()))
        return r

    dm._update_local_state = wrapped
    if via == "sweep":
        last = dm.sweep(direction, canonize=True, max_bond=cap, cutoff=0.0)
    else:
        dm.solve(tol=1e-6, sweep_sequence=direction, max_sweeps=1)
        last = dm.energy
    mk.same("one snapshot per local update", len(snaps), L - 1)
    for i, (loc_en, tot_en), v, mb in snaps:
        mk.eq(f"update at {i}: reported total energy == <psi|H psi> of the held (truncated) state", tot_en, expval(Hd, v))
        # (the statement speaks of the NORMALISED state it returns: held after the fix recorded in known_findings.txt)
        # numeric-only: the norm is a square root of a sum over the truncated tensor, which the linear certificate search
        # does not resolve (tried: no certificate); the energy goals above are certified symbolically
        if not mk.sym:
            mk.eq(f"[numeric-only] update at {i}: the held (truncated) state is normalised", expval(ref.eye(len(v), like=Hd), v), 1)
    mk.same("bond cap respected after the last update", snaps[-1][3] <= cap, True)
    mk.same("one recorded sweep with one total / local energy per update",
            (len(dm.total_energies), len(dm.total_energies[-1]), len(dm.local_energies[-1])), (1, L - 1, L - 1))
    for (i, _, v, _), rec in zip(snaps, dm.total_energies[-1]):
        mk.eq(f"dmrg.total_energies entry of the update at {i} == <psi|H psi> of the state held then", rec, expval(Hd, v))
    mk.eq("reported sweep / solve energy == the last total energy", last, snaps[-1][1][1])
    mk.eq("reported sweep / solve energy == <psi|H psi> of the state held", last, expval(Hd, snaps[-1][2]))
    st = dm.state
    mk.eq("dmrg.state: <s|H.apply(s)> == reported energy", st.H @ H.apply(st), last)
    mk.eq("TN_energy ^ all == reported energy", dm.TN_energy ^ all, last)


_SC = [{"cls": c, "L": 2, "order": o, "_mandatory": c == "DMRG1"} for c in ("DMRG1", "DMRG2") for o in ("RL", "LR")]


@obligation(PROP, params=_SC, rounds=2, timeout_s=600, wall_s=500, max_rows=80000, solver_timeout_ms=120000)
def sweep_chain(mk, cls, L, order):
    """(3c) a sweep followed by a sweep in the OPPOSITE direction with canonize=False (what solve() does for
    alternating sequences): the first sweep leaves the state in the canonical form the second one needs,
    so after every update of the second sweep too the reported energies are <psi|H psi> of the updated,
    normalised state."""
    mk.encodes(qd.DMRG.sweep, qd.DMRG._update_local_state, qd.DMRG._update_local_state_1site,
               qd.DMRG._update_local_state_2site, qd.DMRG._canonize_after_1site_update)
    H = sym_mpo(mk, L, 2, "real", herm=True)
    k = sym_mps(mk, L, 2, "real")
    dm = getattr(qtn, cls)(H, bond_dims=2, p0=k)
    install_eig_contract(mk, dm)
    Hd = dense_op(H)
    snaps = []
    orig = dm._update_local_state

    def wrapped(i, **kw):
        r = orig(i, **kw)
        snaps.append((i, r, dense_vec(dm._k)))
        return r

    dm._update_local_state = wrapped
    kw = {"max_bond": 4, "cutoff": 0.0} if cls == "DMRG2" else {}
    dm.sweep(order[0], canonize=True, **kw)
    n1 = len(snaps)
    last = dm.sweep(order[1], canonize=False, **kw)
    mk.same("second sweep: one snapshot per local update", len(snaps) - n1, (L - 1) if cls == "DMRG2" else L)
    for i, (loc_en, tot_en), v in snaps[n1:]:
        if cls == "DMRG2" and mk.sym:
            mk.note("numeric-only: DMRG2 'state normalised' goal (explicit renormalisation by a tensor norm, see sweep_energy)")
        else:
            mk.eq(f"second sweep, update at {i}: state normalised", norm2(v), 1)
        mk.eq(f"second sweep, update at {i}: total energy == <psi|H psi>", tot_en, expval(Hd, v))
        mk.eq(f"second sweep, update at {i}: local energy == <psi|H psi>", loc_en, expval(Hd, v))
    mk.eq("second sweep returns the last total energy", last, snaps[-1][1][1])


_CM = [{"L": L, "op": op} for L in (2, 3) for op in ("right_canonize", "left_canonize", "after_update_right", "after_update_left")]


@obligation(PROP, params=_CM, rounds=2, timeout_s=300)
def canonize_mirrors_bra(mk, L, op):
    """(6b) the other in-place state manipulations DMRG performs between local solves - the canonisation
    at the start of a sweep and the one-site shift of the orthogonality centre after every 1-site update -
    are mirrored into the bra as the CONJUGATE, for genuinely complex states: afterwards bra == conj(ket)
    tensor by tensor and the energy network denotes <k|H k> of the held ket."""
    mk.encodes(qd.DMRG._canonize_after_1site_update, c1.TensorNetwork1DFlat.left_canonize,
               c1.TensorNetwork1DFlat.right_canonize, c1.TensorNetwork1DFlat.left_canonize_site,
               c1.TensorNetwork1DFlat.right_canonize_site)
    H = sym_mpo(mk, L, 2, "cplx")
    k = sym_mps(mk, L, 2, "cplx")
    dm = qtn.DMRG1(H, bond_dims=2, p0=k)
    Hd = dense_op(H)
    if op == "right_canonize":
        dm._k.right_canonize(bra=dm._b)
        steps = ["right_canonize"]
    elif op == "left_canonize":
        dm._k.left_canonize(bra=dm._b)
        steps = ["left_canonize"]
    else:
        direction = op.rsplit("_", 1)[1]
        steps = list(range(L)) if direction == "right" else list(range(L - 1, -1, -1))
    for s in steps:
        if not isinstance(s, str):
            dm._canonize_after_1site_update(direction, s)
        where = f"after {op} step {s}"
        _bra_is_conj_ket(mk, dm, where)
        mk.eq(f"{where}: TN_energy ^ all == <k|H k> of the held ket", dm.TN_energy ^ all, expval(Hd, dense_vec(dm._k)))


_LM = [{"cls": c, "L": L, "direction": dr} for c in ("DMRG1", "DMRG2") for L in (2, 3) for dr in ("right", "left")]


@obligation(PROP, params=_LM, rounds=2, timeout_s=300)
def local_update_mirrors_bra(mk, cls, L, direction):
    """(6c) the local update itself, with the eigensolver returning an ARBITRARY complex block (no
    contract needed: this is about re-insertion): the new block goes into the ket and its conjugate
    into the bra (2-site: both split factors), so bra == conj(ket) tensor by tensor, the energy
    network denotes <k|H k> of the held ket, and the reported total energy is that value."""
    mk.encodes(qd.DMRG._update_local_state, qd.DMRG._update_local_state_1site, qd.DMRG._update_local_state_2site,
               qd.DMRG._canonize_after_1site_update, qd.parse_2site_inds_dims)
    H = sym_mpo(mk, L, 2, "cplx")
    k = sym_mps(mk, L, 2, "cplx")
    dm = getattr(qtn, cls)(H, bond_dims=2, p0=k)
    bsz = 2 if cls == "DMRG2" else 1
    Hd = dense_op(H)

    def _eigs(A, B=None, v0=None):
        n = np.asarray(v0).size
        return np.array([mk.scalar("lam", "real")], dtype=object if mk.sym else float), _Vec(mk.array("Z", (n, 1), "cplx"))

    dm._eigs = _eigs
    dm.ME_eff_ham = qd.MovingEnvironment(dm.TN_energy, begin={"right": "left", "left": "right"}[direction], bsz=bsz)
    site = 0 if direction == "right" else L - bsz
    kw = {"max_bond": 4, "cutoff": 0.0} if bsz == 2 else {}
    loc_en, tot_en = dm._update_local_state(site, direction=direction, **kw)
    _bra_is_conj_ket(mk, dm, "after the update")
    want = expval(Hd, dense_vec(dm._k))
    mk.eq("TN_energy ^ all == <k|H k> of the held ket", dm.TN_energy ^ all, want)
    mk.eq("reported total energy == <k|H k> of the held ket", tot_en, want)
