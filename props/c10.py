"""C10 - DMRG is variational and reports the energy of the state it returns.

Obligation families (all run the real quimb.tensor.tn1d.dmrg code on symbolic MPOs / MPSs):
 (1) energy network: `DMRG.TN_energy ^ all` equals <k|H k> with `H k` computed by the library's
     own `ham.apply(k)` AND by an independent dense reference -- for general complex MPO entries
     (pure polynomial identity, no stub);
 (2) moving environments: at every position the effective network contracts to the same value;
 (3) local updates with the eigensolver replaced by its contract (H_eff v = lambda v, v^dag v = 1):
     after every local update of a sweep the reported local / total energy equals
     <psi|H psi>/<psi|psi> of the *updated* state and the state is normalised; canonical form is
     kept (the environments rely on it);
 (4) bond cap respected after 2-site updates (structural).
"""
import numpy as np

import quimb.tensor as qtn
from quimb.tensor.tn1d import dmrg as qd
from quimb.tensor.tn1d import core as c1
from quimb.tensor.tnag import core as ag

from qv import poly as P
from qv import ref, stubs
from qv.harness import obligation, Skip

PROP = "C10"
META = {
    "bounds": {
        "quick": {"L": "2-3", "phys dim": 2, "MPO bond": 2, "MPS bond": 2, "variants": "DMRG1 and DMRG2, one sweep each direction",
                  "entries": "complex (conj-pair) symbols for the stub-free families, real symbols where LAPACK/eigensolver stubs are involved",
                  "sweep_energy": "L = 2 mandatory (L = 3, 4 in the thorough tier, not mandatory: certificates may exceed the budget)"},
        "thorough": {"L": "2-4", "MPO bond": "1-2"},
    },
    "outside": ["convergence to the exact ground state, eigensolver accuracy (the eigensolver is replaced by its contract)",
                "monotone decrease across updates (needs the variational inequality lambda <= <w|H_eff|w> of the eigensolver: an inequality contract; only equalities are certified here)",
                "periodic boundary conditions (transfer-matrix compression, pseudo-orthogonality heuristics)", "DMRGX", "truncation error effects (cutoff=0 in certified runs)"],
    "assumptions": ["local eigensolver returns an eigenpair of the matrix / operator it is given (contract stub)",
                    "LAPACK qr/svd contracts (stubs)"],
}

d = 2


def sym_mpo(mk, L, Dw, kind, herm=False):
    arrays = []
    for i in range(L):
        if L == 1:
            shp = (d, d)
        elif i == 0:
            shp = (Dw, d, d)
        elif i == L - 1:
            shp = (Dw, d, d)
        else:
            shp = (Dw, Dw, d, d)
        a = mk.array(f"W{i}", shp, kind)
        if herm:
            # symmetric in (up, down) for real kind => real-symmetric dense operator
            a = (a + np.swapaxes(a, -1, -2)) / 2
        arrays.append(a)
    return qtn.MatrixProductOperator(arrays)


def sym_mps(mk, L, D, kind, name="T"):
    arrays = []
    for i in range(L):
        shp = (D, d) if i in (0, L - 1) else (D, D, d)
        arrays.append(mk.array(f"{name}{i}", shp, kind))
    return qtn.MatrixProductState(arrays)


def dense_op(H):
    L = H.L
    return ref.tn_dense(H, tuple(H.upper_ind(i) for i in range(L)) + tuple(H.lower_ind(i) for i in range(L))).reshape(d ** L, d ** L)


def dense_vec(psi):
    return ref.tn_dense(psi, tuple(psi.site_ind(i) for i in range(psi.L))).reshape(-1)


def _conj(v):
    if v.dtype == object:
        return np.array([P.lift(x).conjugate() for x in v.reshape(-1)], dtype=object).reshape(v.shape)
    return np.conj(v)


def expval(Hd, v):
    """<v| H v> with the library's operator-on-state convention (H v)_k = sum_b H[k, b] v_b"""
    Hv = ref.matmul(Hd, v)
    tot = 0
    for a, b in zip(_conj(v), Hv):
        tot = tot + a * b
    return tot


def norm2(v):
    tot = 0
    for a, b in zip(_conj(v), v):
        tot = tot + a * b
    return tot


@obligation(PROP, params=[{"cls": c, "L": L, "kind": k} for c in ("DMRG1", "DMRG2") for L in (2, 3) for k in ("cplx", "real")])
def energy_network(mk, cls, L, kind):
    """(1) the energy network of a fresh DMRG object denotes <k|H k>"""
    mk.encodes(qd.DMRG.__init__, ag.tensor_network_align, ag.tensor_network_apply_op_vec)
    H = sym_mpo(mk, L, 2, kind)
    k = sym_mps(mk, L, 2, kind)
    dm = getattr(qtn, cls)(H, bond_dims=2, p0=k)
    Hd, v = dense_op(H), dense_vec(k)
    want = expval(Hd, v)
    mk.eq("ham.apply(k) == dense H k", dense_vec(H.apply(k)), ref.matmul(Hd, v))
    mk.eq("k.H @ ham.apply(k) == <k|H k>", k.H @ H.apply(k), want)
    mk.eq("TN_energy ^ all == <k|H k> (library convention)", dm.TN_energy ^ all, want)
    mk.eq("TN_energy ^ ... == <k|H k>", dm.TN_energy ^ ..., want)
    mk.eq("state is the initial state", dense_vec(dm.state), v)


@obligation(PROP, params=[{"L": 3, "bsz": b, "begin": g} for b in (1, 2) for g in ("left", "right")])
def moving_environment(mk, L, bsz, begin):
    """(2) every position of the moving environment contracts to the value of the whole"""
    mk.encodes(qd.MovingEnvironment, qd.MovingEnvironment.init_segment, qd.MovingEnvironment.move_to,
               qd.MovingEnvironment.__call__)
    H = sym_mpo(mk, L, 2, "cplx")
    k = sym_mps(mk, L, 2, "cplx")
    dm = qtn.DMRG2(H, bond_dims=2, p0=k) if bsz == 2 else qtn.DMRG1(H, bond_dims=2, p0=k)
    whole = dm.TN_energy ^ all
    me = qd.MovingEnvironment(dm.TN_energy, begin=begin, bsz=bsz)
    sites = range(L - bsz + 1) if begin == "left" else range(L - bsz, -1, -1)
    for i in sites:
        me.move_to(i)
        mk.eq(f"environment at {i} contracts to the whole", me() ^ all, whole)
        eff = me()
        mk.same(f"environment at {i} keeps the local ket / ham / bra tensors",
                all(dm._k[j] in eff.tensor_map.values() for j in range(i, i + bsz)), True)


class _Vec:
    """what the eigensolver returns for the vector: something with .toarray()"""

    def __init__(self, a):
        self.a = a

    def toarray(self):
        return self.a


def install_eig_contract(mk, dm):
    """replace the local eigensolver by its contract"""
    count = [0]

    def _eigs(A, B=None, v0=None):
        if B is not None:
            raise P.Unsupported("generalised local eigenproblem (periodic)")
        if mk.sym:
            count[0] += 1
            k = count[0]
            if hasattr(A, "to_dense") and not isinstance(A, np.ndarray):
                A = A.to_dense()
            A = np.asarray(A)
            n = A.shape[0]
            lam = P.real(f"lam{k}")
            v = P.symarray(f"ev{k}", (n,), "real")
            for x in v:
                P.TAB.constrained.add(P.sid(x))
            Av = ref.matmul(A, v)
            for i in range(n):
                P.HYP.append((f"eig{k}:Av-lv[{i}]", Av[i] - lam * v[i]))
            P.HYP.append((f"eig{k}:vv-1", sum((x * x for x in v), P.ZERO) - 1))
            stubs.USED["local eigensolver (contract)"] = stubs.USED.get("local eigensolver (contract)", 0) + 1
            return np.array([lam], dtype=object), _Vec(v.reshape(-1, 1))
        return qd.DMRG._eigs(dm, A, B=B, v0=v0)

    dm._eigs = _eigs


class _Stop(Exception):
    pass


_EH = [{"cls": c, "L": L, "dense": dn, "site": s}
       for c, L, sites in (("DMRG1", 2, (0,)), ("DMRG1", 3, (0, 1)), ("DMRG2", 2, (0,)), ("DMRG2", 3, (0,)))
       for s in sites for dn in (True, False)]


@obligation(PROP, params=_EH, timeout_s=400)
def effective_hamiltonian(mk, cls, L, dense, site):
    """(1b) the local operator handed to the eigensolver - dense matrix or matrix-free linear operator -
    is the effective Hamiltonian of the block: z^dag (A x) == <k[z] | H k> for the current block x and
    an independent block z (complex Hermitian-free H: any transposition or conjugation slip shows)"""
    mk.encodes(qd.DMRG.form_local_ops, qd.DMRG._update_local_state_1site, qd.DMRG._update_local_state_2site,
               qd.parse_2site_inds_dims, qd.MovingEnvironment.move_to)
    H = sym_mpo(mk, L, 2, "cplx")
    k = sym_mps(mk, L, 2, "cplx")
    dm = getattr(qtn, cls)(H, bond_dims=2, p0=k)
    dm.opts["local_eig_ham_dense"] = dense
    got = {}

    def _eigs(A, B=None, v0=None):
        got["A"], got["v0"] = A, v0
        raise _Stop()

    dm._eigs = _eigs
    bsz = 2 if cls == "DMRG2" else 1
    # position the environments like a sweep does, then update the requested block
    dm.ME_eff_ham = qd.MovingEnvironment(dm.TN_energy, begin="left", bsz=bsz)
    try:
        dm._update_local_state(site, direction="right")
    except _Stop:
        pass
    mk.same("the eigensolver was reached", "A" in got, True)
    A, x = got["A"], np.asarray(got["v0"]).reshape(-1)
    mk.same("matrix-free operator used iff requested", isinstance(A, np.ndarray), dense)
    Ax = ref.matmul(np.asarray(A.to_dense() if not isinstance(A, np.ndarray) else A), x)
    if not isinstance(A, np.ndarray):
        mk.eq("matvec of the linear operator == its dense form times x", np.asarray(A.matvec(x)).reshape(-1), Ax)
    Hd, v = dense_op(H), dense_vec(k)
    quad = 0
    for a, b in zip(_conj(x), Ax):
        quad = quad + a * b
    mk.eq("x^dag A x == <k|H k>", quad, expval(Hd, v))
    # independent bra block z over the same labels
    ts = [dm._k[j] for j in range(site, site + bsz)]
    if bsz == 1:
        uix, shape = ts[0].inds, ts[0].shape
    else:
        dims, _, _, _, _, _, uix, _, _ = qd.parse_2site_inds_dims(dm._k, dm._b, site)
        shape = dims
    z = mk.array("Z", tuple(shape), "cplx")
    kz = qtn.TensorNetwork([t for t in dm._k.tensors if all(t is not s for s in ts)] + [qtn.Tensor(z, uix)])
    vz = ref.tn_dense(kz, tuple(k.site_ind(i) for i in range(L))).reshape(-1)
    Hv = ref.matmul(Hd, v)
    want = 0
    for a, b in zip(_conj(vz), Hv):
        want = want + a * b
    bil = 0
    for a, b in zip(_conj(z.reshape(-1)), Ax):
        bil = bil + a * b
    mk.eq("z^dag A x == <k[z]|H k> for an independent block z", bil, want)


@obligation(PROP, params=[{"cls": c} for c in ("DMRG1", "DMRG2")], max_paths=400)
def solve_driver(mk, cls):
    """(5) the solve() driver with the sweep replaced by an arbitrary energy source: sweep j runs with
    the j-th scheduled bond cap / cutoff / direction, `energy` is the energy of the last sweep (the
    one `state` comes from), convergence is |E_n - E_{n-1}| < tol and stops the loop"""
    mk.encodes(qd.DMRG.solve, qd.DMRG._check_convergence, qd.DMRG._set_bond_dim_seq, qd.DMRG._set_cutoff_seq)
    rng = np.random.default_rng(3)
    A = rng.normal(size=(4, 4))
    H = qtn.MatrixProductOperator.from_dense(A + A.T, dims=[2, 2])
    bds, cuts = [2, 3, 5], [1e-6, 1e-9]
    dm = getattr(qtn, cls)(H, bond_dims=bds, cutoffs=cuts)
    calls = []
    es = [mk.sreal(f"e{j}", -4, 4) for j in range(5)]

    def sweep(direction, canonize=True, max_bond=None, cutoff=None, **kw):
        calls.append((direction, canonize, max_bond, cutoff))
        return es[len(calls) - 1]

    dm.sweep = sweep
    tol = mk.sreal("tol", 0, 1)
    mk.assume(tol > 0)
    conv = dm.solve(tol=tol, sweep_sequence="RRL", max_sweeps=3)
    n = len(calls)
    mk.same("at least two and at most max_sweeps sweeps", 2 <= n <= 3, True)
    for j, (dr, can, mb, co) in enumerate(calls):
        mk.same(f"sweep {j}: direction from the sequence", dr, "RRL"[j % 3])
        mk.same(f"sweep {j}: scheduled bond cap", mb, bds[min(j, len(bds) - 1)])
        mk.same(f"sweep {j}: scheduled cutoff", co, cuts[min(j, len(cuts) - 1)])
        mk.same(f"sweep {j}: canonize unless the previous sweep ran the other way",
                can, not (j > 0 and {dr, calls[j - 1][0]} == {"L", "R"}))
    mk.same("one recorded energy per sweep", len(dm.energies), n)
    mk.check(dm.energy == es[n - 1], "energy is the energy returned by the last sweep")
    d_last = es[n - 1] - es[n - 2]
    isconv = (d_last < tol) & (-d_last < tol)
    mk.check(isconv == bool(conv), "returned flag == |E_n - E_{n-1}| < tol")
    if n < 3:
        mk.same("stopped early only when converged", bool(conv), True)
    if n == 3:
        d1 = es[1] - es[0]
        mk.check(~((d1 < tol) & (-d1 < tol)), "did not run past a converged sweep")
    # a second call continues the schedules
    before = len(calls)
    dm.solve(tol=tol, sweep_sequence="L", max_sweeps=1)
    mk.same("second solve(): one more sweep", len(calls), before + 1)
    j = before
    mk.same("second solve(): schedule continues", (calls[-1][2], calls[-1][3]),
            (bds[min(j, len(bds) - 1)], cuts[min(j, len(cuts) - 1)]))
    mk.check(dm.energy == es[j], "energy follows the second solve()")


_SW = [{"cls": c, "L": L, "direction": dr, "_tiers": ("quick", "thorough") if L <= 2 else ("thorough",),
        "_mandatory": L <= 2}
       for c in ("DMRG1", "DMRG2") for L in (2, 3, 4) for dr in ("R", "L")]


@obligation(PROP, params=_SW, rounds=2, timeout_s=600, wall_s=500, max_rows=80000, solver_timeout_ms=120000)
def sweep_energy(mk, cls, L, direction):
    """(3) after every local update the reported energies are those of the updated state"""
    mk.encodes(qd.DMRG.sweep, qd.DMRG._update_local_state, qd.DMRG._update_local_state_1site,
               qd.DMRG._update_local_state_2site, qd.DMRG.form_local_ops, qd.DMRG._canonize_after_1site_update,
               qd.MovingEnvironment.move_to, qd.parse_2site_inds_dims)
    H = sym_mpo(mk, L, 2, "real", herm=True)
    k = sym_mps(mk, L, 2, "real")
    dm = getattr(qtn, cls)(H, bond_dims=2, p0=k)
    install_eig_contract(mk, dm)
    Hd = dense_op(H)
    snaps = []
    orig = dm._update_local_state

    def wrapped(i, **kw):
        r = orig(i, **kw)
        snaps.append((i, r, dense_vec(dm._k)))
        return r

    dm._update_local_state = wrapped
    kw = {"max_bond": 4, "cutoff": 0.0} if cls == "DMRG2" else {}
    last = dm.sweep(direction, canonize=True, **kw)
    mk.same("one snapshot per local update", len(snaps), (L - 1) if cls == "DMRG2" else L)
    for i, (loc_en, tot_en), v in snaps:
        n2 = norm2(v)
        mk.eq(f"update at {i}: state normalised", n2, 1)
        mk.eq(f"update at {i}: total energy == <psi|H psi>", tot_en, expval(Hd, v))
        mk.eq(f"update at {i}: local energy == <psi|H psi>", loc_en, expval(Hd, v))
    mk.eq("sweep returns the last total energy", last, snaps[-1][1][1])
    mk.eq("TN_energy ^ all == reported energy", dm.TN_energy ^ all, last)
    st = dm.state
    mk.eq("dmrg.state: <s|H.apply(s)> == reported energy", st.H @ H.apply(st), last)
    mk.same("bond cap respected", st.max_bond() <= 4, True)


@obligation(PROP, params=[{"L": L, "cap": c} for L in (2, 3) for c in (1, 2)], rounds=2, timeout_s=400, mandatory=False)
def bond_cap(mk, L, cap):
    """(4) 2-site updates respect the bond cap (structural; values symbolic)"""
    H = sym_mpo(mk, L, 2, "real", herm=True)
    k = sym_mps(mk, L, 2, "real")
    dm = qtn.DMRG2(H, bond_dims=cap, p0=k)
    install_eig_contract(mk, dm)
    dm.sweep("R", canonize=True, max_bond=cap, cutoff=0.0)
    mk.same(f"max bond <= {cap} after the sweep", dm.state.max_bond() <= cap, True)
    v = dense_vec(dm._k)
    mk.eq("TN_energy ^ all == <psi|H psi> of the truncated state", dm.TN_energy ^ all, expval(dense_op(H), v))


@obligation(PROP, params=[{"cls": c, "L": 3} for c in ("DMRG1", "DMRG2")], numeric=True, tiers=("quick", "thorough"))
def numeric_ground_state(mk, cls, L):
    """numeric cross-run of the full statement on a random complex Hermitian MPO (real solver):
    energy == <s|H s>, never below the exact ground energy, matches exact diagonalisation"""
    if mk.sym:
        # the symbolic counterpart is `sweep_energy`; here only the driver bookkeeping is symbolic-free
        mk.same("numeric-only obligation", True, True)
        return
    rng = np.random.default_rng(mk.rng.randint(0, 10 ** 6))
    A = rng.normal(size=(d ** L, d ** L)) + 1j * rng.normal(size=(d ** L, d ** L))
    A = (A + A.conj().T) / 2
    H = qtn.MatrixProductOperator.from_dense(A, dims=[d] * L)
    dm = getattr(qtn, cls)(H, bond_dims=[4, 8], cutoffs=1e-12)
    dm.solve(tol=1e-10, max_sweeps=12, verbosity=0)
    s = dm.state
    e = dm.energy
    ev = np.linalg.eigvalsh(A)
    mk.eq("energy == <s|H.apply(s)> / <s|s>", (s.H @ H.apply(s)) / (s.H @ s), e, tol=1e-6)
    v = s.to_dense().reshape(-1)
    mk.eq("energy == dense <s|A|s>", (v.conj() @ A @ v) / (v.conj() @ v), e, tol=1e-6)
    mk.same("energy not below the exact ground energy", bool(np.real(e) >= ev[0] - 1e-8), True)
    mk.eq("converged energy == exact ground energy", np.real(e), ev[0], tol=1e-6)
