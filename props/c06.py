"""C06 - applying a gate equals multiplying by the operator, in every application mode.

The real gating routines run on symbolic states and symbolic (non-unitary, complex) gates for
every mode x target tuple; the dense result is compared with an independent reference:
(G embedded on the target sites in the given order) @ (dense state).  Modes that split
(SVD / QR) go through LAPACK contract stubs and are decided by certificates.
"""
import itertools

import numpy as np

import quimb.tensor as qtn
from quimb.tensor import gating as qg
from quimb.tensor import tensor_core as tc
from quimb.tensor.tn1d import core as c1
from quimb.tensor.tnag import core as ag

from qv import poly as P
from qv import ref, stubs
from qv.harness import obligation, Skip

PROP = "C06"
META = {
    "bounds": {
        "quick": {"geometries": "MPS L=3 (open, cyclic), 4-node graph state, 2x2 PEPS (D=1), MPO L=3",
                  "phys dims": "2 (one mixed (2,3,2) case)", "gates": "1-, 2-, 3-site, symbolic complex, matrix and tensor form",
                  "targets": "every ordered tuple incl. reversed / non-adjacent", "modes": "all accepted by the geometry"},
        "thorough": {"geometries": "adds MPS L=4, PEPS D=2", "phys dims": "adds d=3"},
    },
    "outside": ["truncating calls (cutoff=0, no bond cap)", "simple-update gauges beyond value preservation", "parametrised (PTensor) gates",
                "block-sparse / fermionic arrays", "3D lattices"],
    "assumptions": ["LAPACK contracts (stubs) for split modes; real entries there (complex entries in stub-free modes)"],
}


def dense_vec(tn, inds):
    return ref.tn_dense(tn, tuple(inds)).reshape(-1)


def _conj(a):
    a = np.asarray(a)
    if a.dtype == object:
        return np.array([P.lift(x).conjugate() for x in a.reshape(-1)], dtype=object).reshape(a.shape)
    return np.conj(a)


def mps(mk, L, kind, cyclic=False, dims=None, D=2):
    dims = dims or [2] * L
    arrays = []
    for i in range(L):
        if cyclic:
            shp = (D, D, dims[i])
        else:
            shp = (D, dims[i]) if i in (0, L - 1) else (D, D, dims[i])
        arrays.append(mk.array(f"T{i}", shp, kind))
    return qtn.MatrixProductState(arrays), dims


def graph_state(mk, kind):
    """4 nodes: ring 0-1-2-3-0 plus chord 0-2"""
    edges = [(0, 1), (1, 2), (2, 3), (3, 0), (0, 2)]
    ts = []
    for i in range(4):
        inds = [f"b{min(e)}{max(e)}" for e in edges if i in e] + [f"k{i}"]
        ts.append(qtn.Tensor(mk.array(f"N{i}", (2,) * len(inds), kind), inds, tags=[f"I{i}"]))
    tn = qtn.TensorNetwork(ts)
    return tn.view_as_(qtn.TensorNetworkGenVector, site_tag_id="I{}", site_ind_id="k{}", sites=range(4)), [2] * 4


def gate_arr(mk, name, dims_where, kind, as_tensor):
    n = int(np.prod(dims_where))
    G = mk.array(name, (n, n), kind)
    if as_tensor:
        return G.reshape(tuple(dims_where) + tuple(dims_where)), G
    return G, G


def check_vec(mk, label, before, after, G, dims, where, site_inds, transpose=False, dagger=False):
    M = G
    if dagger:
        M = ref.dag(M)
    elif transpose:
        M = np.asarray(M).T
    want = ref.matmul(ref.embed(M, dims, where), before)
    mk.same(f"{label}: outer labels unchanged", set(after.outer_inds()), set(site_inds))
    mk.eq(f"{label}: dense == (G on {where}) @ dense", dense_vec(after, site_inds), want)


_LAZY = [False, "split-gate", "swap-split-gate", "auto-split-gate"]
_EAGER = [True]
_SPLIT = ["split", "reduce-split"]


def _wheres(L, n):
    return [w for w in itertools.permutations(range(L), n)]


# ---------------------------------------------------------------------- stub-free modes

_P1 = [{"geom": g, "contract": c, "tform": t, "_tiers": ("quick", "thorough") if (t is False or c in (False, True)) else ("thorough",)}
       for g in ("mps", "mps-cyclic", "graph") for c in _LAZY + _EAGER for t in (False, True)
       if not (c in ("split-gate", "swap-split-gate", "auto-split-gate"))]


@obligation(PROP, params=_P1)
def gate_lazy_eager(mk, geom, contract, tform):
    """contract=False / True: 1-, 2-, 3-site gates on every ordered target tuple (no LAPACK)"""
    mk.encodes(qg.tensor_network_gate_inds, qg._tensor_network_gate_inds_basic, qg.maybe_factor_gate,
               ag.tensor_network_ag_gate, c1.gate_TN_1D, tc.Tensor.gate)
    if geom == "graph":
        psi, dims = graph_state(mk, "cplx")
        L = 4
    else:
        psi, dims = mps(mk, 3, "cplx", cyclic=(geom == "mps-cyclic"))
        L = 3
    sinds = [psi.site_ind(i) for i in range(L)]
    before = dense_vec(psi, sinds)
    tags0 = {i: set(psi[psi.site_tag(i)].tags) if not isinstance(psi[psi.site_tag(i)], tuple) else None for i in range(L)}
    for n in (1, 2, 3):
        for where in _wheres(L, n):
            if n == 3 and where not in ((0, 1, 2), (2, 0, 1)):
                continue
            Gin, G = gate_arr(mk, f"G{n}", [dims[w] for w in where], "cplx", tform)
            out = psi.gate(Gin, where if n > 1 else where[0], contract=contract, tags="GATE")
            check_vec(mk, f"contract={contract} where={where}", before, out, G, dims, where, sinds)
            mk.same(f"contract={contract} where={where}: receiver untouched", set(psi.outer_inds()), set(sinds))
            for i in range(L):
                mk.same(f"contract={contract} where={where}: site tag {i} still present", psi.site_tag(i) in out.tag_map, True)
            if n <= 2:
                out = psi.gate(Gin, where if n > 1 else where[0], contract=contract, transpose=True)
                check_vec(mk, f"contract={contract} where={where} transpose", before, out, G, dims, where, sinds, transpose=True)
                out = psi.gate(Gin, where if n > 1 else where[0], contract=contract, dagger=True)
                check_vec(mk, f"contract={contract} where={where} dagger", before, out, G, dims, where, sinds, dagger=True)


@obligation(PROP, params=[{"contract": c, "prop": p} for c in (False, "split-gate") for p in (False, True, "sites", "register")])
def gate_tag_propagation(mk, contract, prop):
    """propagate_tags options: value unchanged, documented tags on the new gate tensor(s)"""
    mk.encodes(ag.tensor_network_ag_gate, c1.gate_TN_1D)
    psi, dims = mps(mk, 3, "real")
    psi[1].add_tag("EXTRA")
    sinds = [psi.site_ind(i) for i in range(3)]
    before = dense_vec(psi, sinds)
    Gin, G = gate_arr(mk, "G", [2, 2], "real", False)
    out = psi.gate(Gin, (0, 1), contract=contract, tags="GATE", propagate_tags=prop, cutoff=0.0)
    check_vec(mk, f"propagate_tags={prop}", before, out, G, dims, (0, 1), sinds)
    gts = out.select_tensors("GATE")
    mk.same("gate tensor(s) tagged", len(gts) >= 1, True)
    alltags = set().union(*[set(t.tags) for t in gts])
    if prop is False:
        mk.same("no site tags propagated", {"I0", "I1", "EXTRA"} & alltags, set())
    elif prop == "sites":
        mk.same("site tags propagated, other tags not", ({"I0", "I1"} <= alltags, "EXTRA" in alltags), (True, False))
    elif prop is True:
        mk.same("all tags propagated", {"I0", "I1", "EXTRA"} <= alltags, True)
    elif prop == "register":
        mk.same("register tags only", ({"I0", "I1"} <= alltags, "EXTRA" in alltags), (True, False))


# ---------------------------------------------------------------------- split modes (stubs)

_P2 = [{"geom": g, "contract": c, "where": w,
        "_tiers": ("quick", "thorough") if (g == "mps" or (g == "graph" and w in ((0, 1), (2, 0)) and c == "split-gate")) else ("thorough",),
        "_mandatory": not (g == "graph" and c in _SPLIT)}
       for g in ("mps", "graph") for c in _SPLIT + ["split-gate", "swap-split-gate", "auto-split-gate"]
       for w in ((0, 1), (1, 0), (1, 2), (2, 1), (0, 2), (2, 0))
       if not (g == "mps" and c in _SPLIT and abs(w[0] - w[1]) != 1)]


@obligation(PROP, params=_P2, rounds=2, timeout_s=400, wall_s=300, max_rows=80000)
def gate_split_modes(mk, geom, contract, where):
    """modes that split (the state pair or the gate itself): exact without truncation"""
    mk.encodes(qg._tensor_network_gate_inds_eager_split, qg._tensor_network_gate_inds_lazy_split, tc.tensor_split)
    if geom == "graph":
        psi, dims = graph_state(mk, "real")
        L = 4
        if contract in _SPLIT and f"b{min(where)}{max(where)}" not in psi.ind_map:
            raise Skip("targets not connected")
    else:
        psi, dims = mps(mk, 3, "real")
        L = 3
    sinds = [psi.site_ind(i) for i in range(L)]
    before = dense_vec(psi, sinds)
    Gin, G = gate_arr(mk, "G", [dims[w] for w in where], "real", False)
    out = psi.gate(Gin, where, contract=contract, cutoff=0.0)
    check_vec(mk, f"contract={contract} where={where}", before, out, G, dims, where, sinds)
    for i in range(L):
        mk.same(f"site tag {i} still present", psi.site_tag(i) in out.tag_map, True)
    if contract in _SPLIT:
        mk.same("tensor count unchanged by split modes", out.num_tensors, psi.num_tensors)


_HEAVY = ("nonlocal", "gate_nonlocal", "gate_with_submpo")
_P3 = [{"mode": m, "where": w,
        "_tiers": ("quick", "thorough") if (w in ((0, 1), (2, 0), (1, 0)) and m not in _HEAVY) else ("thorough",),
        "_mandatory": m not in _HEAVY}
       for m in ("swap+split", "nonlocal", "auto-mps", "gate_split", "gate_with_auto_swap", "gate_nonlocal", "gate_with_submpo")
       for w in ((0, 1), (1, 0), (1, 2), (0, 2), (2, 0))
       if not (m == "gate_split" and abs(w[0] - w[1]) != 1) and not (m == "gate_with_submpo" and w[0] > w[1])]


@obligation(PROP, params=_P3, rounds=2, timeout_s=400, wall_s=300, max_rows=80000)
def gate_mps_modes(mk, mode, where):
    """MPS specific application modes keep MPS form and equal the dense product"""
    mk.encodes(c1.gate_TN_1D, c1.MatrixProductState.gate_split, c1.MatrixProductState.gate_with_auto_swap,
               c1.MatrixProductState.gate_nonlocal, c1.MatrixProductState.gate_with_submpo, c1.MatrixProductState.gate_with_mpo,
               c1.TensorNetwork1DFlat.swap_sites_with_compress, c1.TensorNetwork1DFlat.swap_site_to)
    psi, dims = mps(mk, 3, "real")
    sinds = [psi.site_ind(i) for i in range(3)]
    before = dense_vec(psi, sinds)
    Gin, G = gate_arr(mk, "G", [2, 2], "real", False)
    info = {"cur_orthog": None}
    if mode in ("swap+split", "nonlocal", "auto-mps"):
        out = psi.gate(Gin, where, contract=mode, info=info, cutoff=0.0)
    elif mode == "gate_split":
        out = psi.gate_split(Gin, where, cutoff=0.0)
    elif mode == "gate_with_auto_swap":
        out = psi.gate_with_auto_swap(Gin, where, info=info, cutoff=0.0)
    elif mode == "gate_nonlocal":
        out = psi.gate_nonlocal(Gin, where, info=info, cutoff=0.0)
    else:
        sub = qtn.MatrixProductOperator.from_dense(Gin, dims=[2, 2], sites=sorted(where), L=3, cutoff=0.0) if where[0] < where[1] else None
        if sub is None:
            raise Skip("sub-MPO is built for ascending sites")
        out = psi.gate_with_submpo(sub, info=info, cutoff=0.0)
    check_vec(mk, f"{mode} where={where}", before, out, G, dims, where, sinds)
    mk.same("still a 3-tensor MPS", (out.num_tensors, isinstance(out, qtn.MatrixProductState)), (3, True))
    for i in range(3):
        mk.same(f"site {i}: tensor has its site tag and site index", out.site_ind(i) in out[i].inds, True)


# ---------------------------------------------------------------------- operators, PEPS, mixed dims, Tensor.gate

def mpo(mk, L, kind, D=2):
    arrays = []
    for i in range(L):
        shp = (D, 2, 2) if i in (0, L - 1) else (D, D, 2, 2)
        arrays.append(mk.array(f"W{i}", shp, kind))
    return qtn.MatrixProductOperator(arrays)


@obligation(PROP, params=[{"which": w, "contract": c, "where": wh}
                          for w in ("upper", "lower", "sandwich") for c in (False, True) for wh in ((1,), (0, 1), (2, 0))])
def gate_operator_network(mk, which, contract, where):
    """operator-like networks: X -> G X, X G^T, G X G^dag (and dagger / transpose variants)"""
    mk.encodes(ag.tensor_network_ag_gate, qg.tensor_network_gate_sandwich_inds, qg.tensor_network_gate_inds)
    X = mpo(mk, 3, "cplx")
    L = 3
    up = [X.upper_ind(i) for i in range(L)]
    lo = [X.lower_ind(i) for i in range(L)]
    Xd = ref.tn_dense(X, tuple(up) + tuple(lo)).reshape(2 ** L, 2 ** L)
    Gin, G = gate_arr(mk, "G", [2] * len(where), "cplx", False)
    E = ref.embed(G, [2] * L, where)
    for dag in (False, True):
        out = X.gate(Gin, where if len(where) > 1 else where[0], which=which, contract=contract, dagger=dag)
        od = ref.tn_dense(out, tuple(up) + tuple(lo)).reshape(2 ** L, 2 ** L)
        M = ref.dag(E) if dag else E
        if which == "upper":
            want = ref.matmul(M, Xd)
        elif which == "lower":
            want = ref.matmul(Xd, np.asarray(M).T)
        else:
            want = ref.matmul(ref.matmul(M, Xd), ref.dag(M))
        mk.same(f"which={which} dagger={dag}: outer labels unchanged", set(out.outer_inds()), set(up + lo))
        mk.eq(f"which={which} dagger={dag} where={where}: dense as documented", od, want)


@obligation(PROP, params=[{"contract": c, "D": D, "_tiers": ("quick", "thorough") if D == 1 or c in (False, True) else ("thorough",)}
                          for c in (False, True, "split", "reduce-split", "split-gate") for D in (1, 2)],
            rounds=2, timeout_s=400, wall_s=300)
def gate_peps(mk, contract, D):
    """2x2 PEPS: one- and two-site gates on coordinates, every contract mode"""
    from quimb.tensor.tn2d import core as c2
    mk.encodes(c2.TensorNetwork2DVector.gate if hasattr(c2.TensorNetwork2DVector, "gate") else ag.tensor_network_ag_gate)
    kind = "real" if contract in ("split", "reduce-split", "split-gate") else "cplx"
    arrays = [[None, None], [None, None]]
    for i in range(2):
        for j in range(2):
            arrays[i][j] = mk.array(f"P{i}{j}", (D, D, 2), kind)     # two bonds + phys per site in a 2x2 lattice
    psi = qtn.PEPS(arrays, shape="urdlp"[:0] + "".join(c for c in "urdlp") if False else _peps_shape())
    sites = [(0, 0), (0, 1), (1, 0), (1, 1)]
    sinds = [psi.site_ind(s) for s in sites]
    before = dense_vec(psi, sinds)
    for where in [((0, 0),), ((1, 1),), ((0, 0), (0, 1)), ((0, 1), (0, 0)), ((1, 0), (0, 0)), ((0, 0), (1, 1))]:
        if contract in ("split", "reduce-split") and len(where) == 2 and where == ((0, 0), (1, 1)):
            continue
        Gin, G = gate_arr(mk, f"G{len(where)}", [2] * len(where), kind, False)
        out = psi.gate(Gin, where if len(where) > 1 else where[0], contract=contract, cutoff=0.0)
        w = tuple(sites.index(s) for s in where)
        check_vec(mk, f"PEPS contract={contract} where={where}", before, out, G, [2] * 4, w, sinds)


def _peps_shape():
    return "urdlp"


@obligation(PROP, params=[{"contract": c} for c in (False, True)])
def gate_mixed_dims(mk, contract):
    """mixed physical dimensions (2,3,2): gates on (0,1), (1,0), (2,1), (0,2)"""
    psi, dims = mps(mk, 3, "cplx", dims=[2, 3, 2])
    sinds = [psi.site_ind(i) for i in range(3)]
    before = dense_vec(psi, sinds)
    for where in ((0, 1), (1, 0), (2, 1), (0, 2), (1,)):
        for tform in (False, True):
            Gin, G = gate_arr(mk, f"G{''.join(map(str, where))}", [dims[w] for w in where], "cplx", tform)
            if not tform and len(where) == 2 and dims[where[0]] != dims[where[1]]:
                # a plain matrix cannot be factorised unambiguously for unequal dims: tensor form only
                continue
            out = psi.gate(Gin, where if len(where) > 1 else where[0], contract=contract)
            check_vec(mk, f"mixed dims contract={contract} where={where} tensor={tform}", before, out, G, dims, where, sinds)


@obligation(PROP)
def tensor_gate_method(mk):
    """Tensor.gate on one index of a rank-3 tensor, all axis positions, transpose option"""
    mk.encodes(tc.Tensor.gate)
    data = mk.array("T", (2, 3, 2), "cplx")
    t = qtn.Tensor(data, ("a", "b", "c"))
    for ix, dim in (("a", 2), ("b", 3), ("c", 2)):
        G = mk.array(f"G{ix}", (dim, dim), "cplx")
        out = t.gate(G, ix)
        want = ref.sum_of_products([(G, (ix, ix + "'")), (data, tuple(i + "'" if i == ix else i for i in t.inds))], t.inds)
        mk.same(f"gate({ix}): labels unchanged", set(out.inds), set(t.inds))
        mk.eq(f"gate({ix}): G applied on that axis", out.transpose(*t.inds).data, want)
        out = t.gate(G, ix, transpose=True)
        want = ref.sum_of_products([(G, (ix + "'", ix)), (data, tuple(i + "'" if i == ix else i for i in t.inds))], t.inds)
        mk.eq(f"gate({ix}, transpose=True): G^T applied", out.transpose(*t.inds).data, want)


@obligation(PROP, params=[{"where": w} for w in ((0, 1), (1, 0), (0, 2))])
def gate_inds_with_tn(mk, where):
    """gate given as a tensor network (gate_inds_with_tn)"""
    mk.encodes(tc.TensorNetwork.gate_inds_with_tn)
    psi, dims = mps(mk, 3, "cplx")
    sinds = [psi.site_ind(i) for i in range(3)]
    before = dense_vec(psi, sinds)
    A = mk.array("GA", (2, 2, 2), "cplx")       # (out, in, bond)
    B = mk.array("GB", (2, 2, 2), "cplx")
    gtn = qtn.TensorNetwork([qtn.Tensor(A, ("o0", "i0", "x")), qtn.Tensor(B, ("o1", "i1", "x"))])
    inds = [sinds[w] for w in where]
    out = psi.gate_inds_with_tn(inds, gtn, ["i0", "i1"], ["o0", "o1"])
    G = ref.sum_of_products([(A, ("o0", "i0", "x")), (B, ("o1", "i1", "x"))], ("o0", "o1", "i0", "i1")).reshape(4, 4)
    check_vec(mk, f"gate_inds_with_tn where={where}", before, out, G, dims, where, sinds)
