"""C06 - applying a gate equals multiplying by the operator, in every application mode.

The real gating routines run on symbolic states and symbolic (non-unitary, complex) gates for
every mode x target tuple; the dense result is compared with an independent reference:
(G embedded on the target sites in the given order) @ (dense state).  Modes that split
(SVD / QR) go through LAPACK contract stubs and are decided by certificates.

Gate OBJECTS (arrays, Tensors, operator networks) are additionally followed through call
histories: untouched after every call, same effect when used again (fresh and stacked).
Simple-update gating (gate_simple) is checked on the physical state = tensors with the
(symbolic, positive) bond gauges re-absorbed.
"""
import itertools

import numpy as np

import quimb.tensor as qtn
from quimb.tensor import gating as qg
from quimb.tensor import tensor_core as tc
from quimb.tensor.tn1d import core as c1
from quimb.tensor.tnag import core as ag

from qv import poly as P
from qv import ref, stubs
from qv.harness import obligation, Skip

PROP = "C06"
META = {
    "bounds": {
        "quick": {"geometries": "MPS L=3 (open, cyclic), 4-node graph state, 2x2 PEPS (D=1), MPO L=3",
                  "phys dims": "2; mixed (2,3,2) and (2,3,2,4) chains", "gates": "1-, 2-, 3-site, symbolic complex, matrix and tensor form",
                  "targets": "every ordered tuple incl. reversed / non-adjacent", "modes": "all accepted by the geometry",
                  "Tensor.gate": "every axis of a rank-3 tensor with dims (2,3,4) and (2,2,2) x preserve_inds x transpose x inplace x "
                                 "square / wide / tall G",
                  "operator networks": "upper / lower / sandwich x contract False / True x plain, dagger AND transpose",
                  "gate objects": "gate_inds_with_tn(_) with one gate Tensor (1-, 2-site) / 2-tensor TensorNetwork: every first target x "
                                  "every second target (fresh state and stacked), object untouched after every call; "
                                  "gate_with_op_lazy(_), gate_with_submpo(_)(method='lazy') with a 2- / 3-site operator network on an MPS "
                                  "L=3, gate_upper_/lower_/sandwich_with_op_lazy(_) on an MPO L=2: both flag values, fresh + stacked "
                                  "second use (sandwich: fresh only), operator untouched; one gate ARRAY applied twice (every ordered "
                                  "pair of target pairs on MPS L=3, 4 pairs on the graph), array untouched after every gating call of the "
                                  "lazy / eager / split / MPS-mode obligations",
                  "simple update": "gate_simple(_) with symbolic positive gauges on every bond (D=2): one-site gates on every site of a "
                                   "3-chain and of the 4-node ring+chord graph and of an MPO L=2 (sandwich), plain / transpose / dagger, "
                                   "site bare or 1-tuple; nearest-neighbour two-site gates on the 3-chain (all 4 ordered pairs) and on a "
                                   "3-leaf star hub (3 pairs), renorm=False with smudge=0.0 (exact value; gate_simple_ on all pairs, "
                                   "gate_simple on 3) and the default renorm=True on 2 of the 4 pairs (value up to the reported scale, "
                                   "unit-norm gauge); non-adjacent pairs (chain ends, star leaves; default and explicit path): label / tag / gauge-store plumbing "
                                   "symbolically, value by a NUMERIC-ONLY supplement (3 random points)",
                  "MPS entry points x site tuples": "every entry point taking a site tuple (gate with contract False / True / split / "
                                   "reduce-split / split-gate / swap-split-gate / auto-split-gate / swap+split / nonlocal / auto-mps, gate_split, "
                                   "gate_with_auto_swap, gate_nonlocal with default dims / explicit dims / method lazy, direct, dm, zipup; plain and "
                                   "inplace form) on a MIXED-dimension MPS x EVERY ordered target tuple the entry accepts (1-, 2-, 3-site), "
                                   "matrix and tensor form of G, cutoff=0: contract False / True symbolically on dims (2,3,2); the factorising "
                                   "entries NUMERIC-ONLY on dims (2,3,2,4) (1 random point)",
                  "MPO application options": "gate_with_mpo / gate_with_submpo / gate_nonlocal(_) x transpose x method (direct, dm, zipup "
                                   "with cutoff=0 and no bond cap; lazy) x inplace with a non-symmetric operator on MPS L=4 (sub-MPO on 7 "
                                   "ascending site sets, gate_nonlocal on every ordered pair + four 3-site tuples; one-site operators in "
                                   "their own family mpo_apply_single_site): value A @ psi / A^T @ psi, MPS form kept, operator object "
                                   "untouched and re-used through all four (transpose, inplace) combinations: NUMERIC-ONLY (1 random point) "
                                   "except gate_with_submpo(method='lazy') (symbolic, L=3)"},
        "thorough": {"geometries": "adds MPS L=4, PEPS D=2", "phys dims": "adds d=3",
                     "MPS entry points x site tuples": "adds contract False / True symbolically on dims (2,3,2,4) and the factorising "
                                                       "entries on dims (2,3,2) (numeric-only); 2 random points per numeric-only cell",
                     "simple update": "adds the default smudge=1e-12 (one case per ordered nearest-neighbour pair), renorm=True and "
                                      "non-inplace gate_simple on the remaining pairs",
                     "numeric-only cells": "measured: no verdict from the certificate search within 400 CPU s (up to 10 GB each) for "
                                           "(a) split / reduce-split of a pair on the 4-node graph, (b) the chained MPS modes nonlocal / "
                                           "gate_nonlocal / gate_with_submpo, (c) PEPS D=2 split / reduce-split, (d) two non-adjacent "
                                           "gate_simple pairs: their symbolic run is skipped with a note and the same goals are decided on "
                                           "the real code at random complex / real points only"},
    },
    "outside": ["truncating calls (cutoff=0, no bond cap)", "parametrised (PTensor) gates",
                "block-sparse / fermionic arrays", "3D lattices",
                "simple-update gates: power != 1, symbolic proof of the value identity for longer-range (path-routed) gates, "
                "two-site gate_simple on operator networks and on 2D lattices, optimality / ordering of the new gauges",
                "inplace_op=True / inplace_mpo=True (documented to consume the operator)", "gate_with_mpo / gate_with_submpo / gate_nonlocal "
                "with a compressing method: symbolic proof (value, transpose, re-use of the operator object are decided at random points "
                "only: mpo_apply_options, mps_entry_mixed_dims); compression methods that are not exact at cutoff=0 without a bond cap "
                "(fit, src, oversampling variants)",
                "gate_inds_with_tn with target labels absent from the network (propagator construction)"],
    "assumptions": ["LAPACK contracts (stubs) for split modes; real entries there (complex entries in stub-free modes)",
                    "simple-update gauges strictly positive; singular values met by gate_simple strictly positive (generic rank)"],
}


def dense_vec(tn, inds):
    return ref.tn_dense(tn, tuple(inds)).reshape(-1)


def _conj(a):
    a = np.asarray(a)
    if a.dtype == object:
        return np.array([P.lift(x).conjugate() for x in a.reshape(-1)], dtype=object).reshape(a.shape)
    return np.conj(a)


def mps(mk, L, kind, cyclic=False, dims=None, D=2):
    dims = dims or [2] * L
    arrays = []
    for i in range(L):
        if cyclic:
            shp = (D, D, dims[i])
        else:
            shp = (D, dims[i]) if i in (0, L - 1) else (D, D, dims[i])
        arrays.append(mk.array(f"T{i}", shp, kind))
    return qtn.MatrixProductState(arrays), dims


def graph_state(mk, kind):
    """4 nodes: ring 0-1-2-3-0 plus chord 0-2"""
    edges = [(0, 1), (1, 2), (2, 3), (3, 0), (0, 2)]
    ts = []
    for i in range(4):
        inds = [f"b{min(e)}{max(e)}" for e in edges if i in e] + [f"k{i}"]
        ts.append(qtn.Tensor(mk.array(f"N{i}", (2,) * len(inds), kind), inds, tags=[f"I{i}"]))
    tn = qtn.TensorNetwork(ts)
    return tn.view_as_(qtn.TensorNetworkGenVector, site_tag_id="I{}", site_ind_id="k{}", sites=range(4)), [2] * 4


def gate_arr(mk, name, dims_where, kind, as_tensor):
    n = int(np.prod(dims_where))
    G = mk.array(name, (n, n), kind)
    if as_tensor:
        return G.reshape(tuple(dims_where) + tuple(dims_where)), G
    return G, G


def check_array_untouched(mk, label, G, G0):
    """the caller's gate ARRAY is exactly as it was before the call(s) (shape and entries)"""
    mk.same(f"{label}: gate array shape untouched", tuple(G.shape), tuple(G0.shape))
    if tuple(G.shape) == tuple(G0.shape):
        mk.eq(f"{label}: gate array entries untouched", G, G0)


def _numeric_only(mk, why):
    """cells whose symbolic value certificate is beyond the engine (measured: no verdict within 400 CPU s, up to 10 GB):
    the symbolic run is skipped with a note and the goals are decided by the numeric cross-run on the real code only"""
    mk.note(f"numeric-only: {why}")
    mk.same("numeric-only cell (symbolic run skipped)", True, True)


def check_vec(mk, label, before, after, G, dims, where, site_inds, transpose=False, dagger=False):
    M = G
    if dagger:
        M = ref.dag(M)
    elif transpose:
        M = np.asarray(M).T
    want = ref.matmul(ref.embed(M, dims, where), before)
    mk.same(f"{label}: outer labels unchanged", set(after.outer_inds()), set(site_inds))
    mk.eq(f"{label}: dense == (G on {where}) @ dense", dense_vec(after, site_inds), want)


_LAZY = [False, "split-gate", "swap-split-gate", "auto-split-gate"]
_EAGER = [True]
_SPLIT = ["split", "reduce-split"]


def _wheres(L, n):
    return [w for w in itertools.permutations(range(L), n)]


# ---------------------------------------------------------------------- stub-free modes

_P1 = [{"geom": g, "contract": c, "tform": t, "_tiers": ("quick", "thorough") if (t is False or c in (False, True)) else ("thorough",)}
       for g in ("mps", "mps-cyclic", "graph") for c in _LAZY + _EAGER for t in (False, True)
       if not (c in ("split-gate", "swap-split-gate", "auto-split-gate"))]


@obligation(PROP, params=_P1)
def gate_lazy_eager(mk, geom, contract, tform):
    """contract=False / True: 1-, 2-, 3-site gates on every ordered target tuple (no LAPACK)"""
    mk.encodes(qg.tensor_network_gate_inds, qg._tensor_network_gate_inds_basic, qg.maybe_factor_gate,
               ag.tensor_network_ag_gate, c1.gate_TN_1D, tc.Tensor.gate)
    if geom == "graph":
        psi, dims = graph_state(mk, "cplx")
        L = 4
    else:
        psi, dims = mps(mk, 3, "cplx", cyclic=(geom == "mps-cyclic"))
        L = 3
    sinds = [psi.site_ind(i) for i in range(L)]
    before = dense_vec(psi, sinds)
    tags0 = {i: set(psi[psi.site_tag(i)].tags) if not isinstance(psi[psi.site_tag(i)], tuple) else None for i in range(L)}
    for n in (1, 2, 3):
        for where in _wheres(L, n):
            if n == 3 and where not in ((0, 1, 2), (2, 0, 1)):
                continue
            Gin, G = gate_arr(mk, f"G{n}", [dims[w] for w in where], "cplx", tform)
            Gin0 = Gin.copy()
            out = psi.gate(Gin, where if n > 1 else where[0], contract=contract, tags="GATE")
            G = Gin0.reshape(G.shape)
            check_vec(mk, f"contract={contract} where={where}", before, out, G, dims, where, sinds)
            check_array_untouched(mk, f"contract={contract} where={where}", Gin, Gin0)
            mk.same(f"contract={contract} where={where}: receiver untouched", set(psi.outer_inds()), set(sinds))
            for i in range(L):
                mk.same(f"contract={contract} where={where}: site tag {i} still present", psi.site_tag(i) in out.tag_map, True)
            if n <= 2:
                out = psi.gate(Gin, where if n > 1 else where[0], contract=contract, transpose=True)
                check_vec(mk, f"contract={contract} where={where} transpose", before, out, G, dims, where, sinds, transpose=True)
                out = psi.gate(Gin, where if n > 1 else where[0], contract=contract, dagger=True)
                check_vec(mk, f"contract={contract} where={where} dagger", before, out, G, dims, where, sinds, dagger=True)
                # documented: transpose is "implied by dagger" - giving both flags is the adjoint, not conj(G)
                out = psi.gate(Gin, where if n > 1 else where[0], contract=contract, dagger=True, transpose=True)
                check_vec(mk, f"contract={contract} where={where} dagger+transpose (== dagger)", before, out, G, dims, where, sinds, dagger=True)
                check_array_untouched(mk, f"contract={contract} where={where} after transpose / dagger use", Gin, Gin0)


@obligation(PROP, params=[{"contract": c, "prop": p} for c in (False, "split-gate") for p in (False, True, "sites", "register")])
def gate_tag_propagation(mk, contract, prop):
    """propagate_tags options: value unchanged, documented tags on the new gate tensor(s)"""
    mk.encodes(ag.tensor_network_ag_gate, c1.gate_TN_1D)
    psi, dims = mps(mk, 3, "real")
    psi[1].add_tag("EXTRA")
    sinds = [psi.site_ind(i) for i in range(3)]
    before = dense_vec(psi, sinds)
    Gin, G = gate_arr(mk, "G", [2, 2], "real", False)
    out = psi.gate(Gin, (0, 1), contract=contract, tags="GATE", propagate_tags=prop, cutoff=0.0)
    check_vec(mk, f"propagate_tags={prop}", before, out, G, dims, (0, 1), sinds)
    gts = out.select_tensors("GATE")
    mk.same("gate tensor(s) tagged", len(gts) >= 1, True)
    alltags = set().union(*[set(t.tags) for t in gts])
    if prop is False:
        mk.same("no site tags propagated", {"I0", "I1", "EXTRA"} & alltags, set())
    elif prop == "sites":
        mk.same("site tags propagated, other tags not", ({"I0", "I1"} <= alltags, "EXTRA" in alltags), (True, False))
    elif prop is True:
        mk.same("all tags propagated", {"I0", "I1", "EXTRA"} <= alltags, True)
    elif prop == "register":
        mk.same("register tags only", ({"I0", "I1"} <= alltags, "EXTRA" in alltags), (True, False))


# ---------------------------------------------------------------------- split modes (stubs)

_P2 = [{"geom": g, "contract": c, "where": w,
        "_tiers": ("quick", "thorough") if (g == "mps" or (g == "graph" and w in ((0, 1), (2, 0)) and c == "split-gate")) else ("thorough",),
        "_mandatory": not (g == "graph" and c in _SPLIT)}
       for g in ("mps", "graph") for c in _SPLIT + ["split-gate", "swap-split-gate", "auto-split-gate"]
       for w in ((0, 1), (1, 0), (1, 2), (2, 1), (0, 2), (2, 0))
       if not (g == "mps" and c in _SPLIT and abs(w[0] - w[1]) != 1)]


@obligation(PROP, params=_P2, rounds=2, timeout_s=400, wall_s=300, max_rows=80000)
def gate_split_modes(mk, geom, contract, where):
    """modes that split (the state pair or the gate itself): exact without truncation"""
    mk.encodes(qg._tensor_network_gate_inds_eager_split, qg._tensor_network_gate_inds_lazy_split, tc.tensor_split)
    if mk.sym and geom == "graph" and contract in _SPLIT:
        if f"b{min(where)}{max(where)}" not in graph_state(mk, "real")[0].ind_map:
            raise Skip("targets not connected")
        return _numeric_only(mk, "split of a contracted pair with three outer bonds each (SVD of an 8 x 8 symbolic matrix): certificate out of reach")
    if geom == "graph":
        psi, dims = graph_state(mk, "real")
        L = 4
        if contract in _SPLIT and f"b{min(where)}{max(where)}" not in psi.ind_map:
            raise Skip("targets not connected")
    else:
        psi, dims = mps(mk, 3, "real")
        L = 3
    sinds = [psi.site_ind(i) for i in range(L)]
    before = dense_vec(psi, sinds)
    Gin, G = gate_arr(mk, "G", [dims[w] for w in where], "real", False)
    Gin0 = Gin.copy()
    out = psi.gate(Gin, where, contract=contract, cutoff=0.0)
    G = Gin0.reshape(G.shape)
    check_vec(mk, f"contract={contract} where={where}", before, out, G, dims, where, sinds)
    check_array_untouched(mk, f"contract={contract} where={where}", Gin, Gin0)
    for i in range(L):
        mk.same(f"site tag {i} still present", psi.site_tag(i) in out.tag_map, True)
    if contract in _SPLIT:
        mk.same("tensor count unchanged by split modes", out.num_tensors, psi.num_tensors)


_HEAVY = ("nonlocal", "gate_nonlocal", "gate_with_submpo")
_P3 = [{"mode": m, "where": w,
        "_tiers": ("quick", "thorough") if (w in ((0, 1), (2, 0), (1, 0)) and m not in _HEAVY) else ("thorough",),
        "_mandatory": m not in _HEAVY}
       for m in ("swap+split", "nonlocal", "auto-mps", "gate_split", "gate_with_auto_swap", "gate_nonlocal", "gate_with_submpo")
       for w in ((0, 1), (1, 0), (1, 2), (0, 2), (2, 0))
       if not (m == "gate_split" and abs(w[0] - w[1]) != 1) and not (m == "gate_with_submpo" and w[0] > w[1])]


@obligation(PROP, params=_P3, rounds=2, timeout_s=400, wall_s=300, max_rows=80000)
def gate_mps_modes(mk, mode, where):
    """MPS specific application modes keep MPS form and equal the dense product"""
    mk.encodes(c1.gate_TN_1D, c1.MatrixProductState.gate_split, c1.MatrixProductState.gate_with_auto_swap,
               c1.MatrixProductState.gate_nonlocal, c1.MatrixProductState.gate_with_submpo, c1.MatrixProductState.gate_with_mpo,
               c1.TensorNetwork1DFlat.swap_sites_with_compress, c1.TensorNetwork1DFlat.swap_site_to)
    if mk.sym and mode in _HEAVY:
        if mode == "gate_with_submpo" and where[0] > where[1]:
            raise Skip("sub-MPO is built for ascending sites")
        return _numeric_only(mk, "chained canonisations + splits (3 or more dependent factorizations): certificate out of reach")
    psi, dims = mps(mk, 3, "real")
    sinds = [psi.site_ind(i) for i in range(3)]
    before = dense_vec(psi, sinds)
    Gin, G = gate_arr(mk, "G", [2, 2], "real", False)
    Gin0 = Gin.copy()
    G = Gin0.reshape(G.shape)
    info = {"cur_orthog": None}
    if mode in ("swap+split", "nonlocal", "auto-mps"):
        out = psi.gate(Gin, where, contract=mode, info=info, cutoff=0.0)
    elif mode == "gate_split":
        out = psi.gate_split(Gin, where, cutoff=0.0)
    elif mode == "gate_with_auto_swap":
        out = psi.gate_with_auto_swap(Gin, where, info=info, cutoff=0.0)
    elif mode == "gate_nonlocal":
        out = psi.gate_nonlocal(Gin, where, info=info, cutoff=0.0)
    else:
        sub = qtn.MatrixProductOperator.from_dense(Gin, dims=[2, 2], sites=sorted(where), L=3, cutoff=0.0) if where[0] < where[1] else None
        if sub is None:
            raise Skip("sub-MPO is built for ascending sites")
        out = psi.gate_with_submpo(sub, info=info, cutoff=0.0)
    check_vec(mk, f"{mode} where={where}", before, out, G, dims, where, sinds)
    check_array_untouched(mk, f"{mode} where={where}", Gin, Gin0)
    mk.same("still a 3-tensor MPS", (out.num_tensors, isinstance(out, qtn.MatrixProductState)), (3, True))
    for i in range(3):
        mk.same(f"site {i}: tensor has its site tag and site index", out.site_ind(i) in out[i].inds, True)


# ---------------------------------------------------------------------- operators, PEPS, mixed dims, Tensor.gate

def mpo(mk, L, kind, D=2):
    arrays = []
    for i in range(L):
        shp = (D, 2, 2) if i in (0, L - 1) else (D, D, 2, 2)
        arrays.append(mk.array(f"W{i}", shp, kind))
    return qtn.MatrixProductOperator(arrays)


@obligation(PROP, params=[{"which": w, "contract": c, "where": wh}
                          for w in ("upper", "lower", "sandwich") for c in (False, True) for wh in ((1,), (0, 1), (2, 0))])
def gate_operator_network(mk, which, contract, where):
    """operator-like networks: X -> G X, X G^T, G X G^dag (and dagger / transpose variants)"""
    mk.encodes(ag.tensor_network_ag_gate, qg.tensor_network_gate_sandwich_inds, qg.tensor_network_gate_inds)
    X = mpo(mk, 3, "cplx")
    L = 3
    up = [X.upper_ind(i) for i in range(L)]
    lo = [X.lower_ind(i) for i in range(L)]
    Xd = ref.tn_dense(X, tuple(up) + tuple(lo)).reshape(2 ** L, 2 ** L)
    Gin, G = gate_arr(mk, "G", [2] * len(where), "cplx", False)
    E = ref.embed(G, [2] * L, where)
    for dag in (False, True):
        out = X.gate(Gin, where if len(where) > 1 else where[0], which=which, contract=contract, dagger=dag)
        od = ref.tn_dense(out, tuple(up) + tuple(lo)).reshape(2 ** L, 2 ** L)
        M = ref.dag(E) if dag else E
        if which == "upper":
            want = ref.matmul(M, Xd)
        elif which == "lower":
            want = ref.matmul(Xd, np.asarray(M).T)
        else:
            want = ref.matmul(ref.matmul(M, Xd), ref.dag(M))
        mk.same(f"which={which} dagger={dag}: outer labels unchanged", set(out.outer_inds()), set(up + lo))
        mk.eq(f"which={which} dagger={dag} where={where}: dense as documented", od, want)
    # transpose=True ("G is replaced by G^T", no conjugation): G^T X, X G, G^T X conj(G)
    out = X.gate(Gin, where if len(where) > 1 else where[0], which=which, contract=contract, transpose=True)
    od = ref.tn_dense(out, tuple(up) + tuple(lo)).reshape(2 ** L, 2 ** L)
    M = np.asarray(E).T
    want = {"upper": lambda: ref.matmul(M, Xd), "lower": lambda: ref.matmul(Xd, np.asarray(M).T),
            "sandwich": lambda: ref.matmul(ref.matmul(M, Xd), ref.dag(M))}[which]()
    mk.same(f"which={which} transpose: outer labels unchanged", set(out.outer_inds()), set(up + lo))
    mk.eq(f"which={which} transpose where={where}: dense as documented (G replaced by G^T)", od, want)
    # both flags: the adjoint ("transpose is implied by dagger")
    out = X.gate(Gin, where if len(where) > 1 else where[0], which=which, contract=contract, dagger=True, transpose=True)
    od = ref.tn_dense(out, tuple(up) + tuple(lo)).reshape(2 ** L, 2 ** L)
    M = ref.dag(E)
    want = {"upper": lambda: ref.matmul(M, Xd), "lower": lambda: ref.matmul(Xd, np.asarray(M).T),
            "sandwich": lambda: ref.matmul(ref.matmul(M, Xd), ref.dag(M))}[which]()
    mk.eq(f"which={which} dagger+transpose where={where}: same as dagger", od, want)
    # the named entry points gate_<which> / gate_<which>_ (in place) do what gate(which=...) does
    plain = {"upper": lambda: ref.matmul(E, Xd), "lower": lambda: ref.matmul(Xd, np.asarray(E).T),
             "sandwich": lambda: ref.matmul(ref.matmul(E, Xd), ref.dag(E))}[which]()
    for alias in (f"gate_{which}", f"gate_{which}_"):
        X2 = X.copy()
        out = getattr(X2, alias)(Gin, where if len(where) > 1 else where[0], contract=contract)
        od = ref.tn_dense(out, tuple(up) + tuple(lo)).reshape(2 ** L, 2 ** L)
        mk.same(f"{alias}: returns the receiver iff in place", out is X2, alias.endswith("_"))
        mk.eq(f"{alias} where={where}: dense as documented for which={which}", od, plain)
        if not alias.endswith("_"):
            mk.eq(f"{alias}: receiver value untouched", ref.tn_dense(X2, tuple(up) + tuple(lo)).reshape(2 ** L, 2 ** L), Xd)


@obligation(PROP, params=[{"contract": c, "D": D, "_tiers": ("quick", "thorough") if D == 1 or c in (False, True) else ("thorough",)}
                          for c in (False, True, "split", "reduce-split", "split-gate") for D in (1, 2)],
            rounds=2, timeout_s=400, wall_s=300)
def gate_peps(mk, contract, D):
    """2x2 PEPS: one- and two-site gates on coordinates, every contract mode"""
    from quimb.tensor.tn2d import core as c2
    mk.encodes(c2.TensorNetwork2DVector.gate if hasattr(c2.TensorNetwork2DVector, "gate") else ag.tensor_network_ag_gate)
    if mk.sym and D == 2 and contract in ("split", "reduce-split"):
        return _numeric_only(mk, "split of a contracted PEPS pair with bond 2 on every leg: certificate out of reach")
    kind = "real" if contract in ("split", "reduce-split", "split-gate") else "cplx"
    arrays = [[None, None], [None, None]]
    for i in range(2):
        for j in range(2):
            arrays[i][j] = mk.array(f"P{i}{j}", (D, D, 2), kind)     # two bonds + phys per site in a 2x2 lattice
    psi = qtn.PEPS(arrays, shape="urdlp"[:0] + "".join(c for c in "urdlp") if False else _peps_shape())
    sites = [(0, 0), (0, 1), (1, 0), (1, 1)]
    sinds = [psi.site_ind(s) for s in sites]
    before = dense_vec(psi, sinds)
    for where in [((0, 0),), ((1, 1),), ((0, 0), (0, 1)), ((0, 1), (0, 0)), ((1, 0), (0, 0)), ((0, 0), (1, 1))]:
        if contract in ("split", "reduce-split") and len(where) == 2 and where == ((0, 0), (1, 1)):
            continue
        Gin, G = gate_arr(mk, f"G{len(where)}", [2] * len(where), kind, False)
        out = psi.gate(Gin, where if len(where) > 1 else where[0], contract=contract, cutoff=0.0)
        w = tuple(sites.index(s) for s in where)
        check_vec(mk, f"PEPS contract={contract} where={where}", before, out, G, [2] * 4, w, sinds)


def _peps_shape():
    return "urdlp"


@obligation(PROP, params=[{"contract": c} for c in (False, True)])
def gate_mixed_dims(mk, contract):
    """mixed physical dimensions (2,3,2): gates on (0,1), (1,0), (2,1), (0,2)"""
    psi, dims = mps(mk, 3, "cplx", dims=[2, 3, 2])
    sinds = [psi.site_ind(i) for i in range(3)]
    before = dense_vec(psi, sinds)
    for where in ((0, 1), (1, 0), (2, 1), (0, 2), (1,)):
        for tform in (False, True):
            Gin, G = gate_arr(mk, f"G{''.join(map(str, where))}", [dims[w] for w in where], "cplx", tform)
            if not tform and len(where) == 2 and dims[where[0]] != dims[where[1]]:
                # a plain matrix cannot be factorised unambiguously for unequal dims: tensor form only
                continue
            out = psi.gate(Gin, where if len(where) > 1 else where[0], contract=contract)
            check_vec(mk, f"mixed dims contract={contract} where={where} tensor={tform}", before, out, G, dims, where, sinds)


@obligation(PROP)
def tensor_gate_method(mk):
    """Tensor.gate on one index of a rank-3 tensor, all axis positions, transpose option"""
    mk.encodes(tc.Tensor.gate)
    data = mk.array("T", (2, 3, 2), "cplx")
    t = qtn.Tensor(data, ("a", "b", "c"))
    for ix, dim in (("a", 2), ("b", 3), ("c", 2)):
        G = mk.array(f"G{ix}", (dim, dim), "cplx")
        out = t.gate(G, ix)
        want = ref.sum_of_products([(G, (ix, ix + "'")), (data, tuple(i + "'" if i == ix else i for i in t.inds))], t.inds)
        mk.same(f"gate({ix}): labels unchanged", set(out.inds), set(t.inds))
        mk.eq(f"gate({ix}): G applied on that axis", out.transpose(*t.inds).data, want)
        out = t.gate(G, ix, transpose=True)
        want = ref.sum_of_products([(G, (ix + "'", ix)), (data, tuple(i + "'" if i == ix else i for i in t.inds))], t.inds)
        mk.eq(f"gate({ix}, transpose=True): G^T applied", out.transpose(*t.inds).data, want)


def _as_labelled(t, order):
    """data of tensor ``t`` read through its OWN labels, as an array over ``order`` (explicit loops: does
    not call Tensor.transpose, checks that every axis length agrees with the label it carries)"""
    return ref.sum_of_products([(t.data, t.inds)], order)


@obligation(PROP, params=[{"dims": d, "G": sh, "keep": p, "T": tr, "ip": ip}        # short names: replay files are named by the first 80 chars
                          for p in (True, False) for tr in (False, True) for ip in (False, True)
                          for sh in ("square", "wide", "tall") for d in ((2, 3, 4), (2, 2, 2))])
def tensor_gate_options(mk, dims, G, keep, T, ip):
    """Tensor.gate / gate_ on EVERY axis of a rank-3 tensor (pairwise distinct dims, and all-equal dims where a
    mislabelled axis is silent), for every combination of preserve_inds x transpose x inplace and square /
    non-square G: the result read through its own labels is G (resp. G^T) on that label; labels are the same set
    (same order if preserve_inds, gated label first otherwise); receiver and G are untouched unless inplace"""
    mk.encodes(tc.Tensor.gate)
    shape, preserve, transpose, inplace = G, keep, T, ip
    order = ("a", "b", "c")
    shp = tuple(dims)
    dims = dict(zip(order, shp))
    for ix in order:
        data = mk.array("T", shp, "cplx")
        data0 = data.copy()
        t = qtn.Tensor(data, order, tags=["X", "Y"])
        din = dims[ix]
        dout = {"square": din, "wide": din - 1, "tall": din + 1}[shape]        # applied operator is dout x din
        G = mk.array(f"G{ix}", (din, dout) if transpose else (dout, din), "cplx")
        G0 = G.copy()
        out = (t.gate_ if inplace else t.gate)(G, ix, preserve_inds=preserve, transpose=transpose)
        lab = f"gate({ix}, preserve_inds={preserve}, transpose={transpose}, inplace={inplace}, {shape})"
        mk.same(f"{lab}: inplace returns the receiver / otherwise a new tensor", out is t, inplace)
        want_inds = order if preserve else (ix,) + tuple(i for i in order if i != ix)
        mk.same(f"{lab}: labels (order as documented)", tuple(out.inds), want_inds)
        want_shape = tuple(dout if i == ix else dims[i] for i in out.inds)
        mk.same(f"{lab}: every axis has the size of the label it carries", tuple(out.shape), want_shape)
        mk.same(f"{lab}: tags kept", set(out.tags), {"X", "Y"})
        gl = (ix + "'", ix) if transpose else (ix, ix + "'")
        want = ref.sum_of_products([(G0, gl), (data0, tuple(i + "'" if i == ix else i for i in order))], order)
        if tuple(out.shape) == want_shape:
            mk.eq(f"{lab}: value read through the result's own labels == G on {ix}", _as_labelled(out, order), want)
        mk.eq(f"{lab}: G not modified", G, G0)
        if not inplace:
            mk.same(f"{lab}: receiver labels untouched", tuple(t.inds), order)
            mk.eq(f"{lab}: receiver data untouched", t.data, data0)


@obligation(PROP, params=[{"where": w} for w in ((0, 1), (1, 0), (0, 2))])
def gate_inds_with_tn(mk, where):
    """gate given as a tensor network (gate_inds_with_tn)"""
    mk.encodes(tc.TensorNetwork.gate_inds_with_tn)
    psi, dims = mps(mk, 3, "cplx")
    sinds = [psi.site_ind(i) for i in range(3)]
    before = dense_vec(psi, sinds)
    A = mk.array("GA", (2, 2, 2), "cplx")       # (out, in, bond)
    B = mk.array("GB", (2, 2, 2), "cplx")
    gtn = qtn.TensorNetwork([qtn.Tensor(A, ("o0", "i0", "x")), qtn.Tensor(B, ("o1", "i1", "x"))])
    inds = [sinds[w] for w in where]
    out = psi.gate_inds_with_tn(inds, gtn, ["i0", "i1"], ["o0", "o1"])
    G = ref.sum_of_products([(A, ("o0", "i0", "x")), (B, ("o1", "i1", "x"))], ("o0", "o1", "i0", "i1")).reshape(4, 4)
    check_vec(mk, f"gate_inds_with_tn where={where}", before, out, G, dims, where, sinds)


# ---------------------------------------------------------------------- gate OBJECTS: arguments untouched, re-use, call history

def _snap(obj):
    """independent record of a gate object (array, Tensor or TensorNetwork): per tensor (labels, tags, data copy)
    plus, for networks, the outer labels and the site-label templates"""
    if isinstance(obj, np.ndarray):
        return {"shape": tuple(obj.shape), "data": [np.array(obj, copy=True)]}
    ts = list(obj.tensor_map.values()) if hasattr(obj, "tensor_map") else [obj]
    s = {"inds": [tuple(t.inds) for t in ts], "tags": [frozenset(t.tags) for t in ts],
         "shape": [tuple(t.shape) for t in ts], "data": [np.array(t.data, copy=True) for t in ts]}
    if hasattr(obj, "tensor_map"):
        s["outer"] = frozenset(obj.outer_inds())
        s["ids"] = tuple(getattr(obj, a, None) for a in ("site_ind_id", "upper_ind_id", "lower_ind_id", "site_tag_id"))
    return s


def check_untouched(mk, label, obj, snap):
    """the caller's gate object is exactly as it was before the call (labels, tags, shapes, data)"""
    now = _snap(obj)
    mk.same(f"{label}: gate object structure (labels, tags, shapes, outer labels, id templates) untouched",
            {k: v for k, v in now.items() if k != "data"}, {k: v for k, v in snap.items() if k != "data"})
    if [a.shape for a in now["data"]] == [a.shape for a in snap["data"]]:
        for k, (a, b) in enumerate(zip(now["data"], snap["data"])):
            mk.eq(f"{label}: gate object data[{k}] untouched", a, b)


def _gate_network(mk, form):
    """a gate OBJECT for gate_inds_with_tn: (object, inner labels, outer labels, dense matrix, number of sites)"""
    if form == "tensor1":
        A = mk.array("GA", (2, 2), "cplx")
        return qtn.Tensor(A, ("o0", "i0"), tags=["OP"]), "i0", "o0", A, 1
    if form == "tensor":
        A = mk.array("GA", (2, 2, 2, 2), "cplx")
        return qtn.Tensor(A, ("o0", "o1", "i0", "i1"), tags=["OP"]), ["i0", "i1"], ["o0", "o1"], A.reshape(4, 4), 2
    A = mk.array("GA", (2, 2, 2), "cplx")       # (out, in, bond)
    B = mk.array("GB", (2, 2, 2), "cplx")
    gtn = qtn.TensorNetwork([qtn.Tensor(A, ("o0", "i0", "x"), tags=["OP", "OPA"]), qtn.Tensor(B, ("o1", "i1", "x"), tags=["OP", "OPB"])])
    G = ref.sum_of_products([(A, ("o0", "i0", "x")), (B, ("o1", "i1", "x"))], ("o0", "o1", "i0", "i1")).reshape(4, 4)
    return gtn, ["i0", "i1"], ["o0", "o1"], G, 2


@obligation(PROP, params=[{"form": f, "inplace": ip, "first": w}
                          for f in ("tensor1", "tensor", "tn") for ip in (False, True)
                          for w in ([(0,), (2,)] if f == "tensor1" else _wheres(3, 2))])
def gate_object_reuse_inds_with_tn(mk, form, inplace, first):
    """gate_inds_with_tn / gate_inds_with_tn_ with ONE gate object (Tensor or TensorNetwork) used repeatedly: after
    every call the gate object is untouched (labels, tags, data); the same object applied again - to a fresh state on
    EVERY ordered target tuple, and stacked on top of the first result - acts as the same operator"""
    mk.encodes(tc.TensorNetwork.gate_inds_with_tn)
    psi, dims = mps(mk, 3, "cplx")
    sinds = [psi.site_ind(i) for i in range(3)]
    before = dense_vec(psi, sinds)
    gate, gin, gout, G, n = _gate_network(mk, form)
    snap = _snap(gate)

    def apply(state, where):
        inds = [sinds[w] for w in where] if n > 1 else sinds[where[0]]
        if inplace:
            state = state.copy()
            r = state.gate_inds_with_tn_(inds, gate, gin, gout)
            mk.same(f"where={where}: inplace returns the receiver", r is state, True)
            return r
        return state.gate_inds_with_tn(inds, gate, gin, gout)

    out1 = apply(psi, first)
    check_vec(mk, f"first use where={first}", before, out1, G, dims, first, sinds)
    check_untouched(mk, f"after first use where={first}", gate, snap)
    after1 = ref.matmul(ref.embed(G, dims, first), before)
    for second in _wheres(3, n):
        out2 = apply(psi, second)
        check_vec(mk, f"second use (fresh state) where={second} after where={first}", before, out2, G, dims, second, sinds)
        check_untouched(mk, f"after second use where={second}", gate, snap)
        out3 = apply(out1, second)
        check_vec(mk, f"stacked use where={second} on top of where={first}", after1, out3, G, dims, second, sinds)
        check_untouched(mk, f"after stacked use where={second}", gate, snap)
        mk.same(f"where={second}: first result not disturbed by later uses", set(out1.outer_inds()), set(sinds))
    mk.eq(f"first result (where={first}) still has its value after all later uses", dense_vec(out1, sinds), after1)
    mk.same("receiver untouched", (set(psi.outer_inds()), psi.num_tensors), (set(sinds), 3))
    mk.eq("receiver value untouched", dense_vec(psi, sinds), before)


def sub_mpo(mk, name, sites, L, kind="cplx", D=2):
    """an operator network (MPO form, symbolic entries, no factorisation involved) acting on ``sites`` of ``L``"""
    n = len(sites)
    if n == 1:
        arrays = [mk.array(f"{name}0", (2, 2), kind)]
    else:
        arrays = [mk.array(f"{name}{k}", (D, 2, 2) if k in (0, n - 1) else (D, D, 2, 2), kind) for k in range(n)]
    A = qtn.MatrixProductOperator(arrays, sites=tuple(sites), L=L)
    up = [A.upper_ind(s) for s in sites]
    lo = [A.lower_ind(s) for s in sites]
    Ad = ref.tn_dense(A, tuple(up) + tuple(lo)).reshape(2 ** n, 2 ** n)
    return A, Ad


_OPLAZY = {"vec": "gate_with_op_lazy", "submpo-lazy": "gate_with_submpo[lazy]", "upper": "gate_upper_with_op_lazy",
           "lower": "gate_lower_with_op_lazy", "sandwich": "gate_sandwich_with_op_lazy"}
_P_OPLAZY = ([{"entry": e, "flag": f, "inplace": ip, "sites": s}
              for e in ("vec", "submpo-lazy") for f in (False, True) for ip in (False, True)
              for s in ((0, 1), (0, 2), (1, 2), (0, 1, 2))]
             + [{"entry": e, "flag": f, "inplace": ip, "sites": (0, 1)}
                for e in ("upper", "lower", "sandwich")
                for f in (False, True) for ip in (False, True)]
             # a sub-operator covering only some sites of a 3-site operator target (the other outer labels must survive)
             + [{"entry": e, "flag": f, "inplace": False, "sites": s, "LT": 3}
                for e in ("upper", "lower", "sandwich") for f in (False, True) for s in ((0, 2), (1,), (2, 1))])


@obligation(PROP, params=_P_OPLAZY)
def op_object_reuse(mk, entry, flag, inplace, sites, LT=2):
    """gating with an operator NETWORK object (gate_with_op_lazy, gate_with_submpo(method='lazy'), gate_upper_/lower_/
    sandwich_with_op_lazy; flag = transpose resp. dagger; plain and inplace): value as documented; the operator object is
    untouched after every call (inplace_op is left at its default False); the same object used again - with either value
    of the flag, on a fresh target and stacked on the first result - acts as the same operator"""
    mk.encodes(ag.tensor_network_apply_op_vec, ag.tensor_network_apply_op_op, ag.TensorNetworkGenVector.gate_with_op_lazy,
               ag.TensorNetworkGenOperator.gate_upper_with_op_lazy, ag.TensorNetworkGenOperator.gate_lower_with_op_lazy,
               ag.TensorNetworkGenOperator.gate_sandwich_with_op_lazy, c1.MatrixProductState.gate_with_submpo)
    entry = _OPLAZY[entry]
    vec = entry in ("gate_with_op_lazy", "gate_with_submpo[lazy]")
    if vec:
        L = 3
        x, dims = mps(mk, L, "cplx")
        outer = [x.site_ind(i) for i in range(L)]
        before = dense_vec(x, outer)
        dense = lambda tn: dense_vec(tn, outer)
    else:
        L = LT
        x = mpo(mk, L, "cplx")
        dims = [2] * L
        outer = [x.upper_ind(i) for i in range(L)] + [x.lower_ind(i) for i in range(L)]
        before = ref.tn_dense(x, tuple(outer)).reshape(2 ** L, 2 ** L)
        dense = lambda tn: ref.tn_dense(tn, tuple(outer)).reshape(2 ** L, 2 ** L)
    A, Ad = sub_mpo(mk, "A", sites, L)
    E = ref.embed(Ad, dims, sites)
    ET = np.asarray(E).T
    snap = _snap(A)

    def want(v, fl):
        if vec:
            return ref.matmul(ET if fl else E, v)
        if entry == "gate_upper_with_op_lazy":
            return ref.matmul(ET if fl else E, v)
        if entry == "gate_lower_with_op_lazy":
            return ref.matmul(v, ET if fl else E)
        M = ref.dag(E) if fl else E
        return ref.matmul(ref.matmul(M, v), ref.dag(M))

    def apply(state, fl):
        if inplace:
            state = state.copy()
        name = entry.split("[")[0] + ("_" if inplace else "")
        kw = {"dagger": fl} if entry == "gate_sandwich_with_op_lazy" else {"transpose": fl}
        if entry == "gate_with_submpo[lazy]":
            kw["method"] = "lazy"
        r = getattr(state, name)(A, **kw)
        if inplace:
            mk.same(f"{name}: inplace returns the receiver", r is state, True)
        return r

    def check(label, out, v):
        mk.same(f"{label}: outer labels unchanged", set(out.outer_inds()), set(outer))
        if set(out.outer_inds()) == set(outer):
            mk.eq(f"{label}: dense as documented", dense(out), v)

    out1 = apply(x, flag)
    after1 = want(before, flag)
    check(f"{entry} flag={flag} sites={sites}: first use", out1, after1)
    check_untouched(mk, "after first use", A, snap)
    for fl2 in (False, True):
        out2 = apply(x, fl2)
        check(f"{entry}: second use (fresh target, flag={fl2}) after flag={flag}", out2, want(before, fl2))
        check_untouched(mk, f"after second use flag={fl2}", A, snap)
        if entry != "gate_sandwich_with_op_lazy" and len(sites) == 2:
            out3 = apply(out1, fl2)
            check(f"{entry}: stacked use flag={fl2} on top of flag={flag}", out3, want(after1, fl2))
            check_untouched(mk, f"after stacked use flag={fl2}", A, snap)
    check(f"{entry}: first result still has its value after the later uses", out1, after1)
    mk.same("receiver labels untouched", set(x.outer_inds()), set(outer))
    mk.eq("receiver value untouched", dense(x), before)


# ---------------------------------------------------------------------- simple-update gating (gate_simple / gate_simple_)

def gen_vector(mk, edges, n, kind, D=2):
    """arbitrary-geometry state (TensorNetworkGenVector) on ``n`` nodes with the given edges, bond dimension D"""
    ts = []
    for i in range(n):
        inds = [f"b{min(e)}{max(e)}" for e in edges if i in e] + [f"k{i}"]
        ts.append(qtn.Tensor(mk.array(f"N{i}", (D,) * (len(inds) - 1) + (2,), kind), inds, tags=[f"I{i}"]))
    tn = qtn.TensorNetwork(ts)
    return tn.view_as_(qtn.TensorNetworkGenVector, site_tag_id="I{}", site_ind_id="k{}", sites=range(n)), [2] * n


def sym_gauges(mk, tn):
    """a strictly positive symbolic gauge vector on EVERY bond of ``tn``"""
    return {ix: mk.array(f"g_{ix}", (tn.ind_size(ix),), "pos") for ix in sorted(tn.inner_inds())}


def physical_dense(tn, gauges, output_inds):
    """the state a simple-update pair (tn, gauges) stands for: every bond weighted by its gauge vector (the gauge is a
    rank-1 term sharing the bond label; explicit loops, independent of quimb's gauge_simple_insert)"""
    terms = ref.tn_terms(tn) + [(np.asarray(g), (ix,)) for ix, g in gauges.items() if ix in tn.ind_map]
    return ref.sum_of_products(terms, tuple(output_inds))


_GS_EDGES = {"chain": ([(0, 1), (1, 2)], 3), "star": ([(0, 1), (1, 2), (1, 3)], 4), "ring+chord": ([(0, 1), (1, 2), (2, 3), (3, 0), (0, 2)], 4)}
_GS_OPTS = {"plain": {}, "transpose": {"transpose": True}, "dagger": {"dagger": True}}


def _gs_matrix(G, opt):
    return ref.dag(G) if opt == "dagger" else (np.asarray(G).T if opt == "transpose" else G)


@obligation(PROP, params=[{"geom": g, "opt": o, "inplace": ip, "wform": wf}
                          for g in ("chain", "ring+chord") for o in _GS_OPTS for ip in (True, False) for wf in ("tuple", "site")])
def gate_simple_one_site(mk, geom, opt, inplace, wform):
    """gate_simple / gate_simple_ with a ONE-site gate on every site of a gauged arbitrary-geometry state (symbolic
    positive gauge on every bond), plain / transpose / dagger, site given bare or as a 1-tuple: the physical state
    (gauges re-absorbed) becomes (G | G^T | G^dag on that site) @ physical state; the gauge store is left as it was"""
    mk.encodes(ag.tensor_network_ag_gate_simple, ag.tensor_network_ag_gate)
    edges, n = _GS_EDGES[geom]
    psi0, dims = gen_vector(mk, edges, n, "cplx")
    sinds = [psi0.site_ind(i) for i in range(n)]
    g0 = sym_gauges(mk, psi0)
    before = physical_dense(psi0, g0, sinds).reshape(-1)
    raw_before = dense_vec(psi0, sinds)
    for site in range(n):
        psi = psi0.copy()
        gauges = {k: np.array(v, copy=True) for k, v in g0.items()}
        G = mk.array(f"G{site}", (2, 2), "cplx")
        G0 = G.copy()
        where = (site,) if wform == "tuple" else site
        out = (psi.gate_simple_ if inplace else psi.gate_simple)(G, where, gauges, cutoff=0.0, **_GS_OPTS[opt])
        lab = f"gate_simple{'_' if inplace else ''}({opt}) where={where!r}"
        mk.same(f"{lab}: inplace returns the receiver / otherwise a new network", out is psi, inplace)
        mk.same(f"{lab}: outer labels unchanged", set(out.outer_inds()), set(sinds))
        mk.same(f"{lab}: gauge store has the same bonds", set(gauges), set(g0))
        for k in g0:
            mk.eq(f"{lab}: gauge on {k} unchanged by a one-site gate", gauges[k], g0[k])
        want = ref.matmul(ref.embed(_gs_matrix(G0, opt), dims, (site,)), before)
        mk.eq(f"{lab}: physical state == (G on {site}) @ physical state", physical_dense(out, gauges, sinds).reshape(-1), want)
        mk.same(f"{lab}: one tensor per site, site tags kept", (out.num_tensors, all(out.site_tag(i) in out.tag_map for i in range(n))), (n, True))
        mk.eq(f"{lab}: G not modified", G, G0)
        if not inplace:
            mk.eq(f"{lab}: receiver untouched", dense_vec(psi, sinds), raw_before)


def _gs_adjacent(geom, w):
    return tuple(sorted(w)) in [tuple(sorted(e)) for e in _GS_EDGES[geom][0]]


# nearest-neighbour pairs with smudge=0.0 decide in seconds (quick); the default smudge (1e-12 * max(g): one more defined
# inverse per outer bond) costs ~20x: thorough tier (_P_GS2_SMUDGE below).  The longer-range route chains 3 SVDs + 2 QRs: its value identity is
# beyond the present certificate search (no verdict within 400 s) - two representatives are kept in the thorough tier,
# not mandatory, like the chained MPS modes of gate_mps_modes; quick tier: gate_simple_long_range
_P_GS2 = ([{"geom": "chain", "where": w, "opt": o, "sm": 0.0, "ip": True}
           for w in _wheres(3, 2) if _gs_adjacent("chain", w) for o in _GS_OPTS]
          + [{"geom": "chain", "where": w, "opt": o, "sm": 0.0, "ip": False,
              "_tiers": ("quick", "thorough") if (w, o) in (((0, 1), "plain"), ((2, 1), "transpose"), ((0, 1), "dagger")) else ("thorough",)}
             for w in ((0, 1), (2, 1)) for o in _GS_OPTS]
          + [{"geom": "star", "where": w, "opt": o, "sm": 0.0, "ip": True}        # hub with three gauged bonds
             for w, o in (((1, 3), "plain"), ((3, 1), "transpose"), ((0, 1), "dagger"))]
          + [{"geom": "chain", "where": w, "opt": o, "sm": 0.0, "ip": True, "_tiers": ("thorough",), "_mandatory": False}
             for w, o in (((0, 2), "plain"), ((2, 0), "transpose"))])


# default smudge: ~45 s each on an idle core, several minutes when the machine is loaded -> own (longer) time limit, one
# representative per ordered nearest-neighbour pair
_P_GS2_SMUDGE = [{"geom": "chain", "where": w, "opt": o, "sm": "default", "ip": True, "_tiers": ("thorough",)}
                 for w, o in (((0, 1), "plain"), ((1, 0), "transpose"), ((1, 2), "dagger"), ((2, 1), "transpose"))]


@obligation(PROP, params=_P_GS2_SMUDGE, rounds=2, timeout_s=1200, wall_s=600, max_rows=80000)
@obligation(PROP, params=_P_GS2, rounds=2, timeout_s=400, wall_s=300, max_rows=80000)
def gate_simple_two_site(mk, geom, where, opt, sm, ip):
    """gate_simple_ with a TWO-site gate on a gauged state (symbolic positive gauge on every bond): nearest-neighbour
    pairs (reduced split of the gauged pair) and longer-range pairs (gate routed along the connecting path), both site
    orders, plain / transpose / dagger, no truncation, renorm=False: the physical state (NEW gauges re-absorbed) equals
    (G | G^T | G^dag on the pair, in the given order) @ old physical state; bonds away from the gate keep their gauge"""
    mk.encodes(ag.tensor_network_ag_gate_simple, ag.tensor_network_ag_gate_simple_long_range, ag.tensor_network_ag_gate,
               tc.TensorNetwork.gauge_simple_insert, tc.TensorNetwork.gauge_simple_remove, tc.tensor_gauge_simple_bond)
    smudge, inplace = sm, ip
    if mk.sym and not _gs_adjacent(geom, where):
        return _numeric_only(mk, "longer-range route chains 3 SVDs + 2 QRs: certificate out of reach")
    edges, n = _GS_EDGES[geom]
    psi, dims = gen_vector(mk, edges, n, "real")
    sinds = [psi.site_ind(i) for i in range(n)]
    gauges = sym_gauges(mk, psi)
    g0 = {k: np.array(v, copy=True) for k, v in gauges.items()}
    before = physical_dense(psi, g0, sinds).reshape(-1)
    G = mk.array("G", (4, 4), "real")
    G0 = G.copy()
    kw = dict(_GS_OPTS[opt])
    if smudge != "default":
        kw["smudge"] = smudge
    raw_before = dense_vec(psi, sinds)
    out = (psi.gate_simple_ if inplace else psi.gate_simple)(G, where, gauges, cutoff=0.0, renorm=False, **kw)
    lab = f"gate_simple{'_' if inplace else ''}({opt}) where={where}"
    mk.same(f"{lab}: tensors keep their site tags only (no temporary tags left)", [set(t.tags) for t in out], [{f"I{i}"} for i in range(n)])
    if not inplace:
        mk.same(f"{lab}: receiver labels untouched", [tuple(t.inds) for t in psi], [tuple(t.inds) for t in out])
        mk.eq(f"{lab}: receiver value untouched (only the gauge store is updated in place, as documented)", dense_vec(psi, sinds), raw_before)
    mk.same(f"{lab}: inplace returns the receiver / otherwise a new network", out is psi, inplace)
    mk.same(f"{lab}: outer labels unchanged", set(out.outer_inds()), set(sinds))
    mk.same(f"{lab}: same bonds, each with a gauge of the bond's size", {k: tuple(np.shape(v)) for k, v in gauges.items()},
            {k: (out.ind_size(k),) for k in g0})
    want = ref.matmul(ref.embed(_gs_matrix(G0, opt), dims, where), before)
    mk.eq(f"{lab}: physical state == (G on {where}) @ physical state", physical_dense(out, gauges, sinds).reshape(-1), want)
    mk.same(f"{lab}: one tensor per site, site tags kept", (out.num_tensors, all(out.site_tag(i) in out.tag_map for i in range(n))), (n, True))
    mk.eq(f"{lab}: G not modified", G, G0)
    if _gs_adjacent(geom, where):
        touched = {f"b{min(where)}{max(where)}"}
    else:       # chain: the bonds between the two sites
        touched = {f"b{min(e)}{max(e)}" for e in edges if min(e) >= min(where) and max(e) <= max(where)}
    for k in g0:
        if k not in touched:
            mk.eq(f"{lab}: gauge on {k} (away from the gate) unchanged", gauges[k], g0[k])


@obligation(PROP, params=[{"geom": g, "where": w, "opt": o, "path": p}
                          for g, w in (("chain", (0, 2)), ("chain", (2, 0)), ("star", (0, 3)), ("star", (3, 2)))
                          for o in _GS_OPTS for p in (None, "sites")]
                         + [{"geom": g, "where": w, "opt": o, "path": None, "entry": e}
                            for g, w, o in (("chain", (0, 2), "plain"), ("star", (3, 2), "dagger"), ("chain", (2, 0), "transpose"))
                            for e in ("gate_simple", "long_range(inplace=False)", "long_range(inplace=True)")],
            numeric_required=True, num_trials=3)
def gate_simple_long_range(mk, geom, where, opt, path, entry="gate_simple_"):
    """gate_simple_ on a NON-adjacent pair (gate routed along the connecting path, default path and explicit site path).
    The chained factorisations (3 SVD + 2 QR) put the value identity beyond the certificate search of the quick tier, so
    here the real routine runs on symbolic arrays for the label / tag / gauge-store plumbing only (solver-free structural
    goals: outer labels, one tensor per site, site tags, no temporary tags left, gauge store keyed by exactly the bonds
    with vectors of the bond sizes); the VALUE goal of this obligation is a NUMERIC-ONLY SUPPLEMENT (3 random points);
    the symbolic value goal is gate_simple_two_site[... non-adjacent where ...] in the thorough tier"""
    mk.encodes(ag.tensor_network_ag_gate_simple, ag.tensor_network_ag_gate_simple_long_range)
    edges, n = _GS_EDGES[geom]
    psi, dims = gen_vector(mk, edges, n, "real")
    sinds = [psi.site_ind(i) for i in range(n)]
    tags0 = [set(t.tags) for t in psi]
    inds0 = [set(t.inds) for t in psi]
    gauges = sym_gauges(mk, psi)
    g0 = {k: np.array(v, copy=True) for k, v in gauges.items()}
    G = mk.array("G", (4, 4), "real")
    G0 = G.copy()
    kw = dict(_GS_OPTS[opt])
    if path == "sites":
        kw["path"] = (where[0], 1, where[1])          # node 1 is the hub of both geometries
    if not mk.sym:
        before = physical_dense(psi, g0, sinds).reshape(-1)
    old = dict(stubs.OPTIONS)
    stubs.OPTIONS["contracts"] = False        # structural goals only: fresh factors of the right shapes, NO contract assumed
    recv = psi
    psi0_copy = psi.copy()
    try:
        if entry == "gate_simple_":
            out = psi.gate_simple_(G, where, gauges, cutoff=0.0, renorm=False, smudge=0.0, **kw)
        elif entry == "gate_simple":
            out = psi.gate_simple(G, where, gauges, cutoff=0.0, renorm=False, smudge=0.0, **kw)
        else:
            # the long-range routine called directly (it is the documented fallback of gate_simple and a public function)
            out = ag.tensor_network_ag_gate_simple_long_range(psi, G, where, gauges, cutoff=0.0, renorm=False, smudge=0.0,
                                                              inplace=entry.endswith("(inplace=True)"), **kw)
    finally:
        stubs.OPTIONS.update(old)
    lab = f"{entry}({opt}) long-range where={where} path={path}"
    inplace = entry in ("gate_simple_", "long_range(inplace=True)")
    mk.same(f"{lab}: returns the receiver iff in place", out is recv, inplace)
    if not inplace:
        mk.same(f"{lab}: receiver labels / tags untouched", ([tuple(t.inds) for t in recv], [set(t.tags) for t in recv]),
                ([tuple(t.inds) for t in psi0_copy], [set(t.tags) for t in psi0_copy]))
        mk.eq(f"{lab}: receiver tensors untouched (only the gauge store is updated in place, as documented)",
              np.concatenate([np.asarray(t.data).reshape(-1) for t in recv]), np.concatenate([np.asarray(t.data).reshape(-1) for t in psi0_copy]))
    psi = out
    mk.same(f"{lab}: outer labels unchanged", set(out.outer_inds()), set(sinds))
    mk.same(f"{lab}: tensors keep their labels and tags (no temporary tags left)", ([set(t.inds) for t in out], [set(t.tags) for t in out]), (inds0, tags0))
    mk.same(f"{lab}: gauge store keyed by exactly the bonds, vectors of the bond sizes", {k: tuple(np.shape(v)) for k, v in gauges.items()},
            {k: (out.ind_size(k),) for k in g0})
    if not mk.sym:
        # NUMERIC-ONLY SUPPLEMENT (see docstring)
        want = ref.matmul(ref.embed(_gs_matrix(G0, opt), dims, where), before)
        mk.eq(f"{lab}: [numeric-only supplement] physical state == (G on {where}) @ physical state", physical_dense(out, gauges, sinds).reshape(-1), want)
        mk.eq(f"{lab}: [numeric-only supplement] G not modified", G, G0)
        for k in g0:
            if geom == "star" and k not in (f"b{min(1, w)}{max(1, w)}" for w in where):
                mk.eq(f"{lab}: [numeric-only supplement] gauge on {k} (off the path) unchanged", gauges[k], g0[k])


@obligation(PROP, params=[{"where": w, "opt": o, "_tiers": ("quick", "thorough") if w in ((0, 1), (2, 1)) else ("thorough",)}
                          for w in ((0, 1), (1, 0), (1, 2), (2, 1)) for o in _GS_OPTS],
            rounds=2, timeout_s=400, wall_s=300, max_rows=80000)
def gate_simple_renorm(mk, where, opt):
    """gate_simple_ with the DEFAULT renorm=True on a nearest-neighbour pair: the new bond gauge is the vector of new
    singular values s (reported through ``info``) scaled to unit norm, and the physical state is the gated one up to that
    same scale - stated without square roots: gauge[k] * s[0] == s[k] * gauge[0], sum gauge^2 == 1,
    physical_after * s[0] == gauge[0] * (G on where) @ physical_before"""
    mk.encodes(ag.tensor_network_ag_gate_simple, ag.tensor_network_ag_gate)
    edges, n = _GS_EDGES["chain"]
    psi, dims = gen_vector(mk, edges, n, "real")
    sinds = [psi.site_ind(i) for i in range(n)]
    gauges = sym_gauges(mk, psi)
    g0 = {k: np.array(v, copy=True) for k, v in gauges.items()}
    before = physical_dense(psi, g0, sinds).reshape(-1)
    G = mk.array("G", (4, 4), "real")
    info = {}
    out = psi.gate_simple_(G, where, gauges, cutoff=0.0, smudge=0.0, info=info, **_GS_OPTS[opt])
    bond = f"b{min(where)}{max(where)}"
    lab = f"gate_simple_({opt}, renorm) where={where}"
    mk.same(f"{lab}: new singular values of the gated bond reported in info", list(info), [("singular_values", bond)])
    s = np.asarray(info["singular_values", bond])
    g = np.asarray(gauges[bond])
    mk.same(f"{lab}: gauge vector has the bond's size", (tuple(g.shape), tuple(s.shape)), ((out.ind_size(bond),),) * 2)
    mk.eq(f"{lab}: new gauge proportional to the new singular values", [g[k] * s[0] for k in range(len(g))], [s[k] * g[0] for k in range(len(g))])
    mk.eq(f"{lab}: new gauge has unit norm", sum(x * x for x in g), 1)
    want = ref.matmul(ref.embed(_gs_matrix(G, opt), dims, where), before)
    got = physical_dense(out, gauges, sinds).reshape(-1)
    mk.eq(f"{lab}: physical state * s[0] == gauge[0] * (G on {where}) @ physical state", [x * s[0] for x in got], [x * g[0] for x in want])
    for k in g0:
        if k != bond:
            mk.eq(f"{lab}: gauge on {k} (away from the gate) unchanged", gauges[k], g0[k])


@obligation(PROP, params=[{"opt": o, "inplace": ip} for o in _GS_OPTS for ip in (True, False)])
def gate_simple_one_site_operator(mk, opt, inplace):
    """gate_simple / gate_simple_ with a one-site gate on every site of a gauged OPERATOR network (MPO L=2, symbolic
    positive bond gauge): the physical operator becomes M X M^dag with M = G | G^T | G^dag; gauge store untouched"""
    mk.encodes(ag.tensor_network_ag_gate_simple, ag.tensor_network_ag_gate, qg.tensor_network_gate_sandwich_inds)
    L = 2
    X0 = mpo(mk, L, "cplx")
    outer = [X0.upper_ind(i) for i in range(L)] + [X0.lower_ind(i) for i in range(L)]
    g0 = sym_gauges(mk, X0)
    before = physical_dense(X0, g0, outer).reshape(2 ** L, 2 ** L)
    for site in range(L):
        X = X0.copy()
        gauges = {k: np.array(v, copy=True) for k, v in g0.items()}
        G = mk.array(f"G{site}", (2, 2), "cplx")
        G0 = G.copy()
        out = (X.gate_simple_ if inplace else X.gate_simple)(G, (site,), gauges, cutoff=0.0, **_GS_OPTS[opt])
        lab = f"operator gate_simple{'_' if inplace else ''}({opt}) where=({site},)"
        mk.same(f"{lab}: outer labels unchanged", set(out.outer_inds()), set(outer))
        mk.same(f"{lab}: gauge store has the same bonds", set(gauges), set(g0))
        for k in g0:
            mk.eq(f"{lab}: gauge on {k} unchanged by a one-site gate", gauges[k], g0[k])
        M = ref.embed(_gs_matrix(G0, opt), [2] * L, (site,))
        mk.eq(f"{lab}: physical operator == M X M^dag", physical_dense(out, gauges, outer).reshape(2 ** L, 2 ** L),
              ref.matmul(ref.matmul(M, before), ref.dag(M)))
        check_array_untouched(mk, lab, G, G0)


@obligation(PROP, params=[{"geom": g, "contract": c, "inplace": ip} for g in ("mps", "graph") for c in (False, True) for ip in (False, True)
                          if not (g == "graph" and ip)])
def gate_array_reuse(mk, geom, contract, inplace):
    """ONE gate array object applied twice in a row (gate / gate_, contract False / True) on EVERY ordered pair of target
    tuples (first, second): the array is untouched after each call and the result is (G on second)(G on first) @ dense"""
    mk.encodes(qg.tensor_network_gate_inds, qg._tensor_network_gate_inds_basic, qg.maybe_factor_gate, ag.tensor_network_ag_gate)
    if geom == "graph":
        psi, dims = graph_state(mk, "cplx")
        L = 4
        pairs = [((0, 1), (1, 0)), ((0, 1), (2, 3)), ((2, 0), (0, 3)), ((1, 3), (1, 3))]
    else:
        psi, dims = mps(mk, 3, "cplx")
        L = 3
        pairs = [(a, b) for a in _wheres(3, 2) for b in _wheres(3, 2)]
    sinds = [psi.site_ind(i) for i in range(L)]
    before = dense_vec(psi, sinds)
    G = mk.array("G", (4, 4), "cplx")
    G0 = G.copy()
    first_done = {}
    for first, second in pairs:
        if inplace:
            out = psi.copy()
            r = out.gate_(G, first, contract=contract)
            r2 = out.gate_(G, second, contract=contract)
            mk.same(f"gate_ first={first} second={second}: inplace returns the receiver", (r is out, r2 is out), (True, True))
        else:
            out = psi.gate(G, first, contract=contract).gate(G, second, contract=contract)
        if first not in first_done:
            first_done[first] = ref.matmul(ref.embed(G0, dims, first), before)
        check_vec(mk, f"contract={contract} first={first} then second={second} with the same array", first_done[first], out, G0, dims, second, sinds)
        check_array_untouched(mk, f"contract={contract} first={first} second={second}", G, G0)
    mk.eq("receiver value untouched", dense_vec(psi, sinds), before)


# ---------------------------------------------------------------------- MPS entry points x mixed physical dims x EVERY ordered site tuple

def _accepted(mk, label, fn):
    """a valid application must be accepted: an exception raised by the library is reported as a FAILED GOAL (a
    violation once reproduced on the real code), not as a harness error"""
    try:
        out = fn()
    except Exception as e:      # noqa: BLE001 - the explorer's control exceptions derive from BaseException
        mk.same(f"{label}: valid application accepted (no exception)", f"raised {type(e).__name__}: {str(e)[:80]}", "returned")
        return None
    mk.same(f"{label}: valid application accepted (no exception)", "returned", "returned")
    return out


def _dense_num(tn, inds):
    """numeric-only cells: the same sum of products as ref.tn_dense (raw (array, labels) terms of the network, times
    10**exponent), summed by numpy.einsum - the explicit python loops of ref.sum_of_products are exponential in the number
    of lazy / uncompressed bonds.  Independent of quimb's contraction code."""
    labels, ops = {}, []
    for a, ix in ref.tn_terms(tn):
        ops += [np.asarray(a), [labels.setdefault(i, len(labels)) for i in ix]]
    out = np.einsum(*ops, [labels[i] for i in inds], optimize=True)
    e = getattr(tn, "exponent", 0.0)
    if not (isinstance(e, float) and e == 0.0):
        out = out * (10 ** e)
    return out.reshape(-1)


# entry -> (numbers of target sites accepted, adjacent targets only?, symbolic (stub-free)?)
_ME = {
    "gate[False]": ((1, 2, 3), False, True),
    "gate[True]": ((1, 2, 3), False, True),
    "gate[split]": ((2,), True, False),
    "gate[reduce-split]": ((2,), True, False),
    "gate[split-gate]": ((2,), False, False),
    "gate[swap-split-gate]": ((2,), False, False),
    "gate[auto-split-gate]": ((2,), False, False),
    "gate[swap+split]": ((2,), False, False),
    "gate[nonlocal]": ((2, 3), False, False),
    "gate[auto-mps]": ((1, 2, 3), False, False),
    "gate_split": ((2,), True, False),
    "gate_with_auto_swap": ((2,), False, False),
    "gate_nonlocal": ((1, 2, 3), False, False),
    "gate_nonlocal[lazy]": ((1, 2, 3), False, False),
    "gate_nonlocal[dims given]": ((2, 3), False, False),
    "gate_nonlocal[dm]": ((2, 3), False, False),
    "gate_nonlocal[zipup]": ((2, 3), False, False),
}
_ME_DIMS = {"2324": (2, 3, 2, 4), "232": (2, 3, 2)}
_ME_KEEPS_COUNT = ("gate[split]", "gate[reduce-split]", "gate[swap+split]", "gate[nonlocal]", "gate[auto-mps]", "gate_split",
                   "gate_with_auto_swap", "gate_nonlocal", "gate_nonlocal[dims given]", "gate_nonlocal[dm]", "gate_nonlocal[zipup]")


def _me_call(psi, entry, Gin, where, dw, inplace):
    info = {}
    w = where if len(where) > 1 else where[0]
    us = "_" if inplace else ""
    if entry.startswith("gate["):
        c = entry[5:-1]
        c = {"False": False, "True": True}.get(c, c)
        kw = {} if c in (False, True) else {"cutoff": 0.0}
        if c in ("swap+split", "nonlocal", "auto-mps"):
            kw["info"] = info
        return getattr(psi, "gate" + us)(Gin, w, contract=c, **kw)
    if entry == "gate_split":
        return getattr(psi, "gate_split" + us)(Gin, where, cutoff=0.0)
    if entry == "gate_with_auto_swap":
        return getattr(psi, "gate_with_auto_swap" + us)(Gin, where, info=info, cutoff=0.0)
    kw = {"cutoff": 0.0, "info": info}
    if entry == "gate_nonlocal[lazy]":
        kw = {"method": "lazy"}
    elif entry == "gate_nonlocal[dims given]":
        kw["dims"] = tuple(dw)
    elif entry in ("gate_nonlocal[dm]", "gate_nonlocal[zipup]"):
        kw["method"] = entry[14:-1]
    return getattr(psi, "gate_nonlocal" + us)(Gin, where, **kw)


# quick tier: the factorising (numeric-only) entries on the 4-site chain (2,3,2,4), the stub-free (symbolic) entries on the
# 3-site chain (2,3,2); thorough tier: both chains for every entry
@obligation(PROP, params=[{"entry": e, "dims": d, "_tiers": ("quick", "thorough") if (d == "232") == _ME[e][2] else ("thorough",)}
                          for e in _ME for d in _ME_DIMS],
            numeric_required=True)
def mps_entry_mixed_dims(mk, entry, dims):
    """EVERY MPS gate entry point that takes a site tuple (gate with every contract mode, gate_split, gate_with_auto_swap,
    gate_nonlocal with default / explicit dims and method lazy / direct / dm / zipup; plain and inplace form of each), on
    an MPS with MIXED physical dimensions, for EVERY ordered target tuple the entry accepts (1-, 2-, 3-site; ascending,
    descending, non-adjacent), gate in matrix and in tensor form (3-site: matrix form plain + tensor form inplace): the call is accepted and the dense result is
    (G embedded on the targets IN THE GIVEN ORDER) @ dense state; outer labels and per-site physical dimensions unchanged;
    gate array untouched; receiver returned iff inplace and untouched otherwise.  Stub-free entries (contract False /
    True) are decided symbolically; the factorising entries are NUMERIC-ONLY (random points: 1 in the quick, 2 in the thorough tier)"""
    mk.encodes(c1.gate_TN_1D, c1.MatrixProductState.gate_split, c1.MatrixProductState.gate_with_auto_swap,
               c1.MatrixProductState.gate_nonlocal, c1.MatrixProductState.gate_with_submpo, c1.MatrixProductOperator.from_dense,
               qg.maybe_factor_gate)
    ns, adjacent, symbolic = _ME[entry]
    if mk.sym and not symbolic:
        return _numeric_only(mk, "factorising MPS entry points on mixed dims over every ordered target tuple (chained splits): "
                                 "certificate out of reach; symbolic value of the uniform-dim cases: gate_split_modes / gate_mps_modes")
    pd = list(_ME_DIMS[dims])
    L = len(pd)
    kind = "cplx" if symbolic else "real"
    dense = dense_vec if symbolic else _dense_num
    psi, _ = mps(mk, L, kind, dims=pd)
    sinds = [psi.site_ind(i) for i in range(L)]
    before = dense(psi, sinds)
    tag = "[numeric-only] " if not symbolic else ""
    for n in ns:
        for where in _wheres(L, n):
            if adjacent and abs(where[0] - where[1]) != 1:
                continue
            if symbolic and n == 3 and where not in ((0, 1, 2), (2, 1, 0), (1, 2, 0), (3, 1, 0), (1, 3, 2), (2, 0, 3)):
                continue
            dw = [pd[w] for w in where]
            for k, (tform, ip) in enumerate(((False, False), (True, True), (True, False), (False, True))):
                if k >= 2 and n == 3:
                    continue
                Gin, G = gate_arr(mk, f"G{''.join(map(str, where))}", dw, kind, tform)
                Gin0 = Gin.copy()
                G = Gin0.reshape(G.shape)
                lab = f"{tag}{entry}{'_' if ip else ''} dims={tuple(pd)} where={where} tensor-form={tform}"
                recv = psi.copy() if ip else psi
                out = _accepted(mk, lab, lambda: _me_call(recv, entry, Gin, where, dw, ip))
                if out is None:
                    continue
                mk.same(f"{lab}: returns the receiver iff in place", out is recv, ip)
                mk.same(f"{lab}: outer labels unchanged", set(out.outer_inds()), set(sinds))
                if set(out.outer_inds()) == set(sinds):
                    mk.same(f"{lab}: every site keeps its physical dimension", [out.ind_size(ix) for ix in sinds], pd)
                    if [out.ind_size(ix) for ix in sinds] == pd:
                        mk.eq(f"{lab}: dense == (G on {where}) @ dense", dense(out, sinds), ref.matmul(ref.embed(G, pd, where), before))
                check_array_untouched(mk, lab, Gin, Gin0)
                if entry in _ME_KEEPS_COUNT:
                    mk.same(f"{lab}: still one tensor per site", out.num_tensors, L)
    mk.eq(f"{tag}receiver value untouched by the non-inplace calls", dense(psi, sinds), before)


# ---------------------------------------------------------------------- MPO application options (transpose x method x inplace x entry)

_MPO_METHODS = ("direct", "dm", "zipup")          # exact with cutoff=0.0 and no bond cap
_P_MPOOPT = [{"entry": e, "method": m}
             for e in ("gate_with_mpo", "gate_with_submpo", "gate_nonlocal") for m in _MPO_METHODS + ("lazy",)
             if not (e == "gate_with_mpo" and m == "lazy")]
# ONE-site operators are a family of their own (mpo_apply_single_site): on the unchanged library the compressing methods
# dm / zipup raise AttributeError for a one-site region (direct and lazy are fine) - reported as a finding, not silenced
_P_MPOOPT1 = [{"entry": e, "method": m, "single": True} for e in ("gate_with_submpo", "gate_nonlocal") for m in _MPO_METHODS + ("lazy",)]


@obligation(PROP, name="mpo_apply_single_site", params=_P_MPOOPT1, numeric_required=True)
@obligation(PROP, params=_P_MPOOPT, numeric_required=True)
def mpo_apply_options(mk, entry, method, single=False):
    """gate_with_mpo / gate_with_submpo / gate_nonlocal (and their inplace forms) for every combination of
    transpose x method (direct / dm / zipup with cutoff=0.0 and no bond cap, where they are exact; lazy) x inplace, with a
    generic NON-SYMMETRIC operator on every listed site set (sub-MPO: ascending adjacent / non-adjacent 2-, 3-, 4-site;
    gate_nonlocal: every ordered pair + 3-site tuples): the dense result is A @ psi, resp. A^T @ psi when transpose=True
    (A embedded on its sites in their order); MPS form kept by the compressing methods; the operator object / gate array
    is untouched (inplace_mpo left at its default) and acts as the same operator when used again with the other value of
    transpose (`where` then given explicitly); the receiver is returned iff inplace and untouched otherwise.
    gate_with_submpo(method='lazy') (no factorisation) is decided symbolically; the compressing methods and gate_nonlocal
    (which factorises G) are NUMERIC-ONLY (random points: 1 in the quick, 2 in the thorough tier)"""
    mk.encodes(c1.MatrixProductState.gate_with_mpo, c1.MatrixProductState.gate_with_submpo, c1.MatrixProductState.gate_nonlocal,
               ag.TensorNetworkGenVector.gate_with_op_lazy, ag.tensor_network_apply_op_vec)
    symbolic = method == "lazy" and entry == "gate_with_submpo"
    if mk.sym and not symbolic:
        return _numeric_only(mk, "compression of the MPO x MPS stack (chained canonisations + splits): certificate out of reach")
    L = 3 if symbolic else 4
    kind = "cplx" if symbolic else "real"
    tag = "" if symbolic else "[numeric-only] "
    dense = dense_vec if symbolic else _dense_num
    psi, dims = mps(mk, L, kind)
    sinds = [psi.site_ind(i) for i in range(L)]
    before = dense(psi, sinds)
    if entry == "gate_with_mpo":
        targets = [tuple(range(L))]
    elif entry == "gate_with_submpo":
        targets = [(0, 1), (1, 2), (0, 2), (0, 1, 2)] if L == 3 else [(0, 1), (2, 3), (0, 2), (1, 3), (0, 3), (0, 1, 3), (0, 1, 2, 3)]
    else:
        targets = _wheres(L, 2) + [(0, 1, 2), (3, 0, 2), (2, 1, 0), (1, 3, 2)]
    if single:
        targets = [(s,) for s in range(L)]
    for sites in targets:
        if entry == "gate_nonlocal":
            A = mk.array(f"G{''.join(map(str, sites))}", (2 ** len(sites),) * 2, kind)
            Ad = A.copy()
        elif entry == "gate_with_mpo":
            A = mpo(mk, L, kind)
            Ad = ref.tn_dense(A, tuple(A.upper_ind(s) for s in sites) + tuple(A.lower_ind(s) for s in sites)).reshape(2 ** L, 2 ** L)
        else:
            A, Ad = sub_mpo(mk, f"A{''.join(map(str, sites))}_", sites, L, kind=kind)
        snap = _snap(A)
        E = ref.embed(Ad, dims, sites)
        ET = np.asarray(E).T

        def apply(state, name, tr, where_kw):
            kw = {"method": method, "transpose": tr}
            if method != "lazy":
                kw["cutoff"] = 0.0
                kw["max_bond"] = None
            if entry == "gate_nonlocal":
                return getattr(state, name)(A, sites, **kw)
            if entry == "gate_with_submpo" and where_kw:
                kw["where"] = sites
            return getattr(state, name)(A, **kw)

        # the SAME operator object through all four (transpose, inplace) combinations
        for k, (tr, ip) in enumerate(((False, False), (True, False), (True, True), (False, True))):
            name = entry + ("_" if ip else "")
            lab = f"{tag}{name}(method={method}, transpose={tr}) sites={sites}" + (f" [use {k + 1} of the same operator]" if k else "")
            recv = psi.copy() if ip else psi
            out = _accepted(mk, lab, lambda: apply(recv, name, tr, bool(k % 2)))
            if out is None:
                continue
            mk.same(f"{lab}: returns the receiver iff in place", out is recv, ip)
            mk.same(f"{lab}: outer labels unchanged", set(out.outer_inds()), set(sinds))
            if set(out.outer_inds()) == set(sinds):
                mk.eq(f"{lab}: dense == ({'A^T' if tr else 'A'} on {sites}) @ dense", dense(out, sinds), ref.matmul(ET if tr else E, before))
            if method != "lazy":
                mk.same(f"{lab}: MPS form kept (one tensor per site, each with its site index)",
                        (out.num_tensors, isinstance(out, qtn.MatrixProductState), all(out.site_ind(i) in out[i].inds for i in range(L))),
                        (L, True, True))
            if entry == "gate_nonlocal":
                check_array_untouched(mk, lab, A, Ad)
            else:
                check_untouched(mk, lab, A, snap)
    mk.same(f"{tag}receiver labels untouched by the non-inplace calls", (set(psi.outer_inds()), psi.num_tensors), (set(sinds), L))
    mk.eq(f"{tag}receiver value untouched by the non-inplace calls", dense(psi, sinds), before)
