"""C12 - approximate contraction is exact when untruncated and obeys its bond cap.

The real compressed-contraction schemes of quimb (2D / 3D boundary contraction in every
direction, sequence and mode, row / column / plaquette environments, HOTRG / CTMRG,
compressed contraction of arbitrary geometries along explicit trees, contract_around, the local
gauge choices of compress_between and the arbitrary-geometry compression methods) are executed
on lattices / graphs whose tensor entries are symbols.

(a) EXACTNESS: with a bond cap >= the exact bond size and cutoff = 0.0 the returned value
    (mantissa * 10**exponent where an exponent is stripped) equals the exact contraction value
    computed by an independent reference (explicit sum of products, qv/ref.py; a plain
    numpy.tensordot chain cross-checked against it) for ALL values of the entries.  Wherever a
    scheme canonises / compresses, LAPACK (qr / svd / eigh) is a contract stub and the goal is
    certified modulo the contracts (Q-CERT); where nothing is factorised it is a polynomial
    identity (Q-ID).
(b) BOND CAP: with a cap chi BELOW the exact bond size and cutoff = 0.0 every bond of the
    boundary that a scheme returns or hands over (final_contract=False, inplace, around=...,
    every stored environment, every intermediate of a step-by-step sweep, every
    callback of a compressed contraction) is <= chi.  Truncation only slices the factors
    returned by the stubs, so these goals are structural (shapes) and hold on every path of the
    symbolic run as well as in the numeric cross-run.
(c) ENVIRONMENTS: every stored row / column / plaquette environment, combined with the part of
    the lattice it excludes, contracts to the value of the whole network (no truncation).

Symbolic instances keep bond dimension 2 on the bonds named by a `pattern` (1 elsewhere) where
the certificates would otherwise be out of reach; the numeric cross-run of the same harness
always uses bond dimension 2 everywhere (complex entries where the symbolic run must be real).
"""
import itertools
import warnings

import numpy as np

import quimb.tensor as qtn
from quimb.tensor import tensor_core as tc
from quimb.tensor import decomp
from quimb.tensor.tn2d import core as c2
from quimb.tensor.tn3d import core as c3
from quimb.tensor.tnag import compress as agc
from quimb.tensor.tn1d import compress as c1c

from qv import poly as P
from qv import ref, stubs
from qv.harness import obligation, Skip

PROP = "C12"
META = {
    "bounds": {},
    "outside": [],
    "assumptions": [],
    "timeout_s": {"quick": 300, "thorough": 900},
}

_Q = ("quick", "thorough")
_T = ("thorough",)

warnings.filterwarnings("ignore", message=".*kahypar.*")


# ---------------------------------------------------------------------- reference / helpers

def exact(tn, out=()):
    """exact value of a (non-hyper) network over the labels `out`, times 10**exponent: the
    tensors are multiplied in one after the other with numpy.tensordot (no quimb / cotengra
    contraction code involved); works on object and numeric arrays alike"""
    terms = [(np.asarray(t.data, dtype=object) if _is_obj(t.data) else np.asarray(t.data), tuple(t.inds))
             for t in tn.tensor_map.values()]
    acc, ainds = terms[0]
    rest = terms[1:]
    while rest:
        k = max(range(len(rest)), key=lambda q: len(set(rest[q][1]) & set(ainds)))
        b, binds = rest.pop(k)
        shared = [i for i in ainds if i in binds]
        if acc.ndim == 0 or b.ndim == 0:
            acc = acc * b
        else:
            acc = np.tensordot(acc, b, axes=([ainds.index(i) for i in shared], [binds.index(i) for i in shared]))
        ainds = tuple(i for i in ainds if i not in shared) + tuple(i for i in binds if i not in shared)
    acc = np.asarray(acc)
    assert set(ainds) == set(out), (ainds, out)
    if out:
        acc = np.transpose(acc, [ainds.index(i) for i in out])
    e = getattr(tn, "exponent", 0.0)
    if not (isinstance(e, float) and e == 0.0):
        acc = acc * (10 ** e)
    return acc if out else acc.reshape(-1)[0]


def _is_obj(x):
    return isinstance(x, P.Poly) or getattr(x, "dtype", None) == object


def value(res):
    """a returned scalar / (mantissa, exponent) pair / fully contracted network -> scalar"""
    if isinstance(res, tuple):
        m, e = res
        return value(m) * (10 ** e)
    if isinstance(res, qtn.TensorNetwork):
        return exact(res)
    if isinstance(res, qtn.Tensor):
        return res.data * 1
    return res


def dims_ok(tn, chi):
    """largest bond (label shared by two tensors) of a network <= chi"""
    return all(tn.ind_size(ix) <= chi for ix in tn.inner_inds())


def max_inner(tn):
    return max([tn.ind_size(ix) for ix in tn.inner_inds()] or [1])


def pair_bonds_ok(tn, chi):
    """product of the labels shared by any two tensors <= chi (a multi-bond counts as one bond)"""
    for ta, tb in itertools.combinations(tn.tensor_map.values(), 2):
        sz = 1
        for ix in ta.inds:
            if ix in tb.inds:
                sz *= ta.ind_size(ix)
        if sz > chi:
            return False
    return True


class spectrum:
    """context: which spectrum the eigh stub may assume (Gram matrices of generic full-rank
    regions are positive definite; 'nonneg' where a Gram matrix can be rank deficient)"""

    def __init__(self, kind):
        self.kind = kind

    def __enter__(self):
        self.old = stubs.OPTIONS["eigh_spectrum"]
        stubs.OPTIONS["eigh_spectrum"] = self.kind

    def __exit__(self, *a):
        stubs.OPTIONS["eigh_spectrum"] = self.old


# ---------------------------------------------------------------------- 2D lattices

def _bname(a, b):
    a, b = sorted((a, b))
    return "b" + "".join(map(str, a)) + "_" + "".join(map(str, b))


def _nbrs2d(i, j, Lx, Ly, cx, cy):
    out = []
    if j > 0 or (cy and Ly > 2):
        out.append((i, (j - 1) % Ly))
    if j < Ly - 1 or (cy and Ly > 2):
        out.append((i, (j + 1) % Ly))
    if i < Lx - 1 or (cx and Lx > 2):
        out.append(((i + 1) % Lx, j))
    if i > 0 or (cx and Lx > 2):
        out.append(((i - 1) % Lx, j))
    return out


# bond patterns (symbolic mode): (a, b) sorted site pair -> dimension
PAT2D = {
    "all": lambda a, b, L: 2,
    "col0": lambda a, b, L: 2 if a[1] == b[1] == 0 else 1,
    "row0": lambda a, b, L: 2 if a[0] == b[0] == 0 else 1,
    "rows": lambda a, b, L: 2 if a[0] == b[0] else 1,                 # every horizontal bond
    "cols": lambda a, b, L: 2 if a[1] == b[1] else 1,                 # every vertical bond
    "stair": lambda a, b, L: 2 if (a, b) in {((0, 0), (0, 1)), ((0, 1), (1, 1)), ((1, 1), (1, 2)), ((1, 2), (2, 2)),
                                            ((0, 0), (1, 0)), ((1, 0), (1, 1)), ((1, 1), (2, 1)), ((2, 1), (2, 2))} else 1,
    "one": lambda a, b, L: 1,
}


def lattice2d(mk, Lx, Ly, pattern="all", kind="real", cyclic=(False, False), numkind=None, prefix="T"):
    """flat Lx x Ly lattice (TensorNetwork2D) from our own arrays.  Symbolic mode: bond dimension
    per `pattern`; numeric mode: bond dimension 2 everywhere, entries of kind `numkind`"""
    cx, cy = cyclic
    pat = PAT2D[pattern] if mk.sym else PAT2D["all"]
    k = kind if mk.sym else (numkind or kind)
    tn = qtn.TensorNetwork2D.new(Lx=Lx, Ly=Ly, site_tag_id="I{},{}", x_tag_id="X{}", y_tag_id="Y{}")
    for i in range(Lx):
        for j in range(Ly):
            inds, shape = [], []
            for nb in _nbrs2d(i, j, Lx, Ly, cx, cy):
                a, b = sorted(((i, j), nb))
                inds.append(_bname(a, b))
                shape.append(pat(a, b, (Lx, Ly)))
            tn |= qtn.Tensor(mk.array(f"{prefix}{i}{j}", tuple(shape), k), inds, tags=[f"I{i},{j}", f"X{i}", f"Y{j}"])
    return tn


def peps2d(mk, Lx, Ly, pattern="all", kind="real", numkind=None, d=2):
    """PEPS from our own arrays ('urdlp' order, missing edge bonds omitted)"""
    pat = PAT2D[pattern] if mk.sym else PAT2D["all"]
    k = kind if mk.sym else (numkind or kind)
    bond = lambda a, b: pat(a, b, (Lx, Ly))
    arrays = []
    for i in range(Lx):
        row = []
        for j in range(Ly):
            shape = []
            if i < Lx - 1:
                shape.append(bond((i, j), (i + 1, j)))
            if j < Ly - 1:
                shape.append(bond((i, j), (i, j + 1)))
            if i > 0:
                shape.append(bond((i - 1, j), (i, j)))
            if j > 0:
                shape.append(bond((i, j - 1), (i, j)))
            shape.append(d)
            row.append(mk.array(f"A{i}{j}", tuple(shape), k))
        arrays.append(row)
    return qtn.PEPS(arrays, shape="urdlp")


def norm2d(mk, Lx, Ly, pattern="all", kind="real", numkind=None):
    """two-layer <psi|psi> network of a PEPS (layer tags KET / BRA) and its exact value"""
    p = peps2d(mk, Lx, Ly, pattern, kind, numkind)
    norm = p.make_norm()
    return norm, p


# ---------------------------------------------------------------------- 2D boundary contraction: exactness

# option cells of TensorNetwork2D.contract_boundary (cap and cutoff are added per cell)
OPTS2D = {
    "mps": dict(mode="mps"),
    "mps-nocanon": dict(mode="mps", canonize=False),
    "mps-rev": dict(mode="mps", sweep_reverse=True),
    "mps-early": dict(mode="mps", compress_late=False),
    "mps-both": dict(mode="mps", compress_opts=dict(absorb="both")),
    "mps-left": dict(mode="mps", compress_opts=dict(absorb="left", reduced="right"), canonize_opts=dict(absorb="left")),
    "mps-svd": dict(mode="mps", compress_opts=dict(method="svd", reduced=True)),
    "mps-eq": dict(mode="mps", equalize_norms=True),
    "mps-eq1": dict(mode="mps", equalize_norms=1.0),
    "mps-strip": dict(mode="mps", strip_exponent=True),
    "full-bond": dict(mode="full-bond"),
    "full-bond-svd": dict(mode="full-bond", method="svd"),
    "direct": dict(mode="direct"),
    "zipup": dict(mode="zipup"),
    "dm": dict(mode="dm"),
    "fit": dict(mode="fit"),
    "projector1d": dict(mode="projector"),
    "projector2d": dict(mode="projector2d"),
    "local-early": dict(mode="local-early"),
    "local-late": dict(mode="local-late"),
    "superorthogonal": dict(mode="superorthogonal"),
    "l2bp": dict(mode="l2bp"),
}

_DIRS = ("xmin", "xmax", "ymin", "ymax")


def _shape_for(direction, small=True):
    """smallest lattice on which one boundary step from `direction` happens before the exact rest"""
    if small:
        return (3, 2) if direction[0] == "x" else (2, 3)
    return (3, 3)


def _bx_params():
    out = []
    for d in _DIRS:
        # single step from each side; all bonds 2
        for opt in ("mps", "mps-nocanon", "mps-rev", "mps-early", "mps-both", "mps-left", "full-bond", "direct", "zipup"):
            out.append({"shape": _shape_for(d), "seq": (d,), "opt": opt, "pattern": "all", "cap": 4, "_tiers": _Q})
        for opt in ("mps", "mps-nocanon", "mps-rev", "full-bond"):
            out.append({"shape": (3, 3), "seq": (d,), "opt": opt, "pattern": "all", "cap": 4,
                        "_tiers": _Q if opt == "mps" else _T})
    return out


@obligation(PROP, params=_bx_params(), rounds=2, wall_s=250, timeout_s=280, max_rows=60000, solver_timeout_ms=120000)
def boundary_exact(mk, shape, seq, opt, pattern, cap, extra=None):
    """TensorNetwork2D.contract_boundary on a flat lattice with cap >= exact boundary bond and
    cutoff 0: the returned value is the exact contraction value"""
    mk.encodes(c2.TensorNetwork2D.contract_boundary, c2.TensorNetwork2D._contract_interleaved_boundary_sequence,
               c2.TensorNetwork2D.contract_boundary_from, c2.TensorNetwork2D._contract_boundary_core,
               c2.TensorNetwork2D._contract_boundary_full_bond, c2.TensorNetwork2D._contract_boundary_core_via_1d,
               c2.TensorNetwork2D.canonize_plane, c2.TensorNetwork2D.compress_plane, c2.Rotator2D, c2.parse_boundary_sequence,
               tc.TensorNetwork._compress_between_tids, tc.TensorNetwork.compress_between, tc.TensorNetwork.canonize_between,
               tc.tensor_compress_bond, tc.tensor_canonize_bond)
    Lx, Ly = shape
    tn = lattice2d(mk, Lx, Ly, pattern, kind="real", numkind="cplx")
    want = exact(tn)
    if Lx * Ly <= 6:
        mk.eq("reference cross-check: tensordot chain == explicit sum of products", want, ref.tn_dense(tn, ()))
    kw = dict(OPTS2D[opt])
    kw.update(extra or {})
    res = tn.contract_boundary(max_bond=cap, cutoff=0.0, sequence=seq, **kw)
    if kw.get("strip_exponent"):
        mk.same("strip_exponent returns (mantissa, exponent)", isinstance(res, tuple) and len(res) == 2, True)
    mk.eq(f"contract_boundary(max_bond={cap}, cutoff=0.0, sequence={seq}, {opt}) == exact value", value(res), want)
    mk.eq("inplace=False leaves the network alone", exact(tn), want)
