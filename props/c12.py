"""C12 - approximate contraction is exact when untruncated and obeys its bond cap.

The real compressed-contraction schemes of quimb (2D / 3D boundary contraction in every
direction, sequence and mode, row / column / plaquette environments, HOTRG / CTMRG,
compressed contraction of arbitrary geometries along explicit trees, contract_around, the local
gauge choices of compress_between and the arbitrary-geometry compression methods) are executed
on lattices / graphs whose tensor entries are symbols.

(a) EXACTNESS: with a bond cap >= the exact bond size and cutoff = 0.0 the returned value
    (mantissa * 10**exponent where an exponent is stripped, times 10**(stored exponent) where the
    network arrives with one) equals the exact contraction value computed by an independent
    reference (a plain numpy.tensordot chain, cross-checked against the explicit sum of products
    of qv/ref.py) for ALL values of the entries.  Wherever a scheme canonises / compresses, LAPACK
    (qr / svd / eigh / cholesky) is a contract stub and the goal is certified modulo the contracts
    (Q-CERT); where nothing is factorised it is a polynomial identity (Q-ID).
(b) BOND CAP: with a cap chi BELOW the exact bond size and cutoff = 0.0 no two tensors of the
    network a scheme returns or hands over share more than chi: after EVERY step of a
    step-by-step sweep (contract_boundary_from_), for final_contract=False / inplace / around=...,
    for the coarse lattices of HOTRG, for every compression and every intermediate of a
    compressed contraction (callbacks), for compress_between and the arbitrary-geometry
    compressors; together with the documented amount of work (lines left by the schedule, one
    tensor per site, coarse lattice sizes).  Truncation with cutoff 0 only slices the factors
    returned by the stubs, so these goals are structural; their symbolic runs use stubs WITHOUT
    contracts (fewer assumptions) and show that no value dependent branch decides a shape.
(c) ENVIRONMENTS: every stored row / column / plaquette environment, combined with the part of
    the lattice it excludes, has no dangling label and contracts to the value of the whole network
    (flat and two-layer networks, with the documented exponent rule under equalize_norms).

Reach of the symbolic engine (everything else is decided in the numeric cross-run of the same
harness, bond 2 everywhere, complex data, real LAPACK, and is labelled `numeric-only`):
  * QR / SVD based cores (mps, direct, zipup, dm, fit, full-bond, 3D peps): certified with every bond 2
    for one boundary step, with one lattice direction entangled ("rows" / "cols") for several steps;
  * projector schemes (projector2d, CTMRG, HOTRG, 3D CTMRG): certified on product-cut instances (bond 1
    across the compressed cuts, 2 along the sweep); the building blocks (oblique projectors, reduced
    factors, similarity compression) are certified on full symbolic operands (projector_lemmas);
  * contract_compressed: every connected path of 4-tensor rings (rank-1 compressions), every path of
    all graphs where the cap exceeds every product bond (nothing to compress: Q-ID);
  * schemes that iterate to a numerical tolerance: numeric-only.
"""
import functools
import itertools
import warnings

import numpy as np

import quimb.tensor as qtn
from quimb.tensor import tensor_core as tc
from quimb.tensor import decomp
from quimb.tensor.tn2d import core as c2
from quimb.tensor.tn3d import core as c3
from quimb.tensor.tnag import compress as agc
from quimb.tensor.tn1d import compress as c1c

from qv import poly as P
from qv import ref, stubs
from qv.harness import obligation, Skip

PROP = "C12"
META = {
    "bounds": {
        "quick": {
            "2D flat lattices": "3x2 / 2x3 (one boundary step from each of the 4 sides, every bond 2), 3x3, 4x3 / 3x4, 4x2 / 2x4 "
                                "(several steps; symbolic instances entangle every bond along one lattice direction), bond 2, real symbols",
            "modes": "mps (canonize on/off, sweep_reverse, compress_late=False, absorb left, explicit SVD, equalize_norms True / 1.0, "
                     "strip_exponent), full-bond (eigh / svd), 1D compressors direct / zipup / dm, cap == exact bond (4) and None",
            "sequences": "each side alone, the default sequence, letter aliases, two perpendicular sides with max_unfinished=0, "
                         "one side all the way (max_separation=0)",
            "wrappers": "contract_boundary_from_{xmin,xmax,ymin,ymax} with full / partial ranges, two steps",
            "bond cap": "chi in {2, 3} below the merged bond 4 (two layers: 5 below 16): after EVERY step of a step-by-step sweep and for "
                        "the network handed over by final_contract=False, for mps / full-bond / projector2d / zipup ...; 4x4 numeric, "
                        "4x3 (3x3 / first step for the Gram-matrix modes) symbolic",
            "layers": "<psi|psi> of a 3x2 / 2x3 PEPS (one entangled column / row), layer_tags in both orders and None",
            "environments": "compute_{xmin,xmax,ymin,ymax}_environments, compute_x/y_environments (mps, full-bond, dense) on 3x2 / 2x3: "
                            "every stored environment and every sandwich",
            "plaquettes": "compute_plaquette_environments, every (x_bsz, y_bsz) in {1,2}^2 on 3x2 / 2x3, first_contract / second_dense samples",
            "projector schemes": "projector2d / contract_ctmrg / contract_hotrg on 4x3 / 3x4: symbolic product-cut instances; building "
                                 "blocks (oblique projectors, reduced factors, similarity compression) certified on full symbolic operands",
            "arbitrary geometry": "contract_compressed along EVERY connected contraction path of ring4 / ring4 with outer labels "
                                  "(chi 2: rank-1 compressions; chi 4 / None), contract_around on ring4 / chord4 / a 3x3 lattice, "
                                  "compress_between gauge choices on an open 4-chain, tensor_network_ag_compress on a two-site / "
                                  "two-layer network",
            "3D": "3x2x2 (and permutations): contract_boundary mode 'peps' from 3 sides, CTMRG; bond cap chi=3 for peps / projector3d",
            "periodic": "4x3 / 3x4 periodic in y, in x, in both: mps / projector2d / hotrg exactness, projector2d cap incl. the ring bond",
            "around (every target)": "contract_boundary / contract_ctmrg(around=...) on 2x1x3 / 1x2x3 / 3x1x2 / 2x3 / 3x2: EVERY single target site and "
                                     "every second neighbour pair, default / reversed sequence, default driver and max_separation=0 / max_unfinished=0: "
                                     "target sites handed over untouched (symbolic, structural), environment + any tensor on the target == whole "
                                     "(numeric-only)",
            "rank-deficient bonds": "numeric-only: every bond inflated to size 3 of rank 2 (A M, pinv(M) B), mode x canonize in (False, True) x side, "
                                    "two plane steps (max_separation=0), 3x2x2 (and permutations) / 3x3: peps, projector3d, projector; mps, full-bond, "
                                    "projector2d",
        },
        "thorough": {
            "adds": "3x3 with every bond 2 in every direction and mode, 4x4 with four sides, every listed option x side x pattern cell, "
                    "explicit initial boundaries (xmin=..), interior / descending / single-column ranges, chi in {1, 2, 3} for every "
                    "scheme incl. 1D / arbitrary-geometry compressors as 2D modes, every (first_contract, second_dense, bsz) plaquette "
                    "cell on 3x3, chord4 / full4 / tree5 / ring4open graphs with the whole contract_compressed option grid, "
                    "contract_around option grid, every compress_between / ag-compress option, all six 3D sides x every 3D mode, "
                    "3D HOTRG, every periodic cell, around=every target on 2x2x3 ... 3x3x4 / 4x4 with five sequence orders and every 2D / 3D mode, "
                    "the rank-deficient-bond grid for every mode x canonize x side (and the default sequence) incl. 4x2x2 / 3x3x3 / 4x4",
        },
    },
    "outside": [
        "floating point rounding; non-zero cutoffs (value dependent truncation); quality of a truncated result",
        "symbolic exactness of projector-type schemes (projector2d, CTMRG, HOTRG, tnag 'projector', 3D projector3d / l2bp3d) on instances "
        "whose compressed cuts carry bond 2: the certificate that the oblique projector pair acts as the identity between two regions needs "
        "multipliers beyond the engine's degree bound; covered by product-cut symbolic instances + certified building blocks + the numeric "
        "cross-run (bond 2 everywhere, complex data)",
        "symbolic runs of schemes that iterate to a numerical tolerance (superorthogonal / simple update gauging, l2bp, fit, local-fit, "
        "canonize=True of the projector compressor): numeric cross-run only",
        "contract_compressed on graphs where a compression meets a rank-2 bond (chord4 / full4 with chi=2): numeric cross-run only; paths "
        "that form outer products: numeric cross-run only",
        "the periodic bond of a boundary line under the open-chain cores 'mps' / 'direct' (their compression sweep never visits it: it keeps "
        "its full size; exactness is still checked)",
        "rank-deficient (inflated) bonds under the belief-propagation modes 'l2bp' / 'l2bp3d' and under mode='projector' with canonize=True "
        "(gauging to a tolerance): on the unchanged library the second plane step is off by ~10% even untruncated (approximate environments); "
        "likewise 2D mode='dm' on rank-deficient bonds with two boundary steps and 3D 'superorthogonal' canonize=True on 4x2x2 / 3x3x3 "
        "(both fail on the unchanged library: reported, not in the grid); "
        "2D contract_ctmrg has no max_unfinished argument (only its default driver is run with around=...)",
        "contract_ctmrg(mode='projector2d') (rejected with TypeError), full-bond mode on lattices periodic along the line (ValueError)",
        "hyper-indexed networks (contract_compressed documents that they are not supported); optimizers that search for a tree (only "
        "explicit paths are given); progbar / rehearse options",
        "lattices larger than 4x4 (5x4 numeric), bond dimension > 2, 3D lattices beyond 4x2x2",
    ],
    "assumptions": [
        "LAPACK qr / svd / eigh / cholesky meet their contracts (stubs); QR with positive diagonal, singular values strictly positive, "
        "Gram matrices of generic full-rank regions positive definite (eigh stub spectrum 'pos' inside the projector / full-bond routes)",
        "max(abs(.)) used when norms are equalised / stripped is an arbitrary positive factor",
        "bond-cap goals concern shapes only: in their symbolic runs the stubs return fresh factors without contracts (fewer assumptions)",
        "a compression whose a-priori rank bound min(left size, bond, right size) is within the cap cannot lose anything: exactness of "
        "contract_compressed / contract_around is demanded exactly on the runs where every compression was of that kind",
    ],
    "timeout_s": {"quick": 300, "thorough": 900},
}

_Q = ("quick", "thorough")
_T = ("thorough",)

warnings.filterwarnings("ignore", message=".*kahypar.*")


# ---------------------------------------------------------------------- reference / helpers

def exact(tn, out=()):
    """exact value of a (non-hyper) network over the labels `out`, times 10**exponent: the
    tensors are multiplied in one after the other with numpy.tensordot (no quimb / cotengra
    contraction code involved); works on object and numeric arrays alike"""
    terms = [(np.asarray(t.data, dtype=object) if _is_obj(t.data) else np.asarray(t.data), tuple(t.inds))
             for t in tn.tensor_map.values()]
    acc, ainds = terms[0]
    rest = terms[1:]
    while rest:
        k = max(range(len(rest)), key=lambda q: len(set(rest[q][1]) & set(ainds)))
        b, binds = rest.pop(k)
        shared = [i for i in ainds if i in binds]
        if acc.ndim == 0 or b.ndim == 0:
            acc = acc * b
        else:
            acc = np.tensordot(acc, b, axes=([ainds.index(i) for i in shared], [binds.index(i) for i in shared]))
        ainds = tuple(i for i in ainds if i not in shared) + tuple(i for i in binds if i not in shared)
    acc = np.asarray(acc)
    assert set(ainds) == set(out), (ainds, out)
    if out:
        acc = np.transpose(acc, [ainds.index(i) for i in out])
    e = getattr(tn, "exponent", 0.0)
    if not (isinstance(e, float) and e == 0.0):
        acc = acc * (10 ** e)
    return acc if out else acc.reshape(-1)[0]


def _is_obj(x):
    return isinstance(x, P.Poly) or getattr(x, "dtype", None) == object


def value(res):
    """a returned scalar / (mantissa, exponent) pair / fully contracted network -> scalar"""
    if isinstance(res, tuple):
        m, e = res
        return value(m) * (10 ** e)
    if isinstance(res, qtn.TensorNetwork):
        return exact(res)
    if isinstance(res, qtn.Tensor):
        return res.data * 1
    return res








def certified(fn):
    """exactness harnesses: run with the opt-in range consequences of the QR / SVD stubs (for a tall
    isometric factor Q also Q Q^dag A = A is recorded as a derived hypothesis; implied by the contract)"""
    @functools.wraps(fn)
    def run(mk, **kw):
        old = dict(stubs.OPTIONS)
        stubs.OPTIONS["range_consequences"] = True
        try:
            return fn(mk, **kw)
        finally:
            stubs.OPTIONS.update(old)
    return run


class shapes_only:
    """context for goals that only concern shapes (bond caps of truncating runs): the LAPACK stubs
    return fresh factors of the right shapes and add NO contract (fewer assumptions)"""

    def __enter__(self):
        self.old = dict(stubs.OPTIONS)
        stubs.OPTIONS["contracts"] = False
        stubs.OPTIONS["eigh_spectrum"] = "pos"      # no sign forks on clipped spectra (values are irrelevant here)

    def __exit__(self, *a):
        stubs.OPTIONS.update(self.old)


def cap_goal(mk, label, tn, chi):
    """goal: no two tensors of `tn` share more than chi (a multi-bond counts as one bond)"""
    big = _largest_pair(tn)
    mk.same(label + f": largest bond between two tensors <= {chi}", max(big, chi), chi)


def _largest_pair(tn):
    best = 1
    ts = list(tn.tensor_map.values())
    for a in range(len(ts)):
        ia = set(ts[a].inds)
        for b in range(a + 1, len(ts)):
            sz = 1
            for ix in ts[b].inds:
                if ix in ia:
                    sz *= ts[b].ind_size(ix)
            best = max(best, sz)
    return best


class spectrum:
    """context: which spectrum the eigh stub may assume (Gram matrices of generic full-rank
    regions are positive definite; 'nonneg' where a Gram matrix can be rank deficient)"""

    def __init__(self, kind):
        self.kind = kind

    def __enter__(self):
        self.old = stubs.OPTIONS["eigh_spectrum"]
        stubs.OPTIONS["eigh_spectrum"] = self.kind

    def __exit__(self, *a):
        stubs.OPTIONS["eigh_spectrum"] = self.old


# ---------------------------------------------------------------------- 2D lattices

def _bname(a, b):
    a, b = sorted((a, b))
    return "b" + "".join(map(str, a)) + "_" + "".join(map(str, b))


def _nbrs2d(i, j, Lx, Ly, cx, cy):
    out = []
    if j > 0 or (cy and Ly > 2):
        out.append((i, (j - 1) % Ly))
    if j < Ly - 1 or (cy and Ly > 2):
        out.append((i, (j + 1) % Ly))
    if i < Lx - 1 or (cx and Lx > 2):
        out.append(((i + 1) % Lx, j))
    if i > 0 or (cx and Lx > 2):
        out.append(((i - 1) % Lx, j))
    return out


# bond patterns (symbolic mode): (a, b) sorted site pair -> dimension
PAT2D = {
    "all": lambda a, b, L: 2,
    "col0": lambda a, b, L: 2 if a[1] == b[1] == 0 else 1,
    "row0": lambda a, b, L: 2 if a[0] == b[0] == 0 else 1,
    "rows": lambda a, b, L: 2 if a[0] == b[0] else 1,                 # every horizontal bond
    "cols": lambda a, b, L: 2 if a[1] == b[1] else 1,                 # every vertical bond
    "stair": lambda a, b, L: 2 if (a, b) in {((0, 0), (0, 1)), ((0, 1), (1, 1)), ((1, 1), (1, 2)), ((1, 2), (2, 2)),
                                            ((0, 0), (1, 0)), ((1, 0), (1, 1)), ((1, 1), (2, 1)), ((2, 1), (2, 2))} else 1,
    "one": lambda a, b, L: 1,
}


def lattice2d(mk, Lx, Ly, pattern="all", kind="real", cyclic=(False, False), numkind=None, prefix="T"):
    """flat Lx x Ly lattice (TensorNetwork2D) from our own arrays.  Symbolic mode: bond dimension
    per `pattern`; numeric mode: bond dimension 2 everywhere, entries of kind `numkind`"""
    cx, cy = cyclic
    pat = PAT2D[pattern] if mk.sym else PAT2D["all"]
    k = kind if mk.sym else (numkind or kind)
    tn = qtn.TensorNetwork2D.new(Lx=Lx, Ly=Ly, site_tag_id="I{},{}", x_tag_id="X{}", y_tag_id="Y{}")
    for i in range(Lx):
        for j in range(Ly):
            inds, shape = [], []
            for nb in _nbrs2d(i, j, Lx, Ly, cx, cy):
                a, b = sorted(((i, j), nb))
                inds.append(_bname(a, b))
                shape.append(pat(a, b, (Lx, Ly)))
            tn |= qtn.Tensor(mk.array(f"{prefix}{i}{j}", tuple(shape), k), inds, tags=[f"I{i},{j}", f"X{i}", f"Y{j}"])
    return tn


def peps2d(mk, Lx, Ly, pattern="all", kind="real", numkind=None, d=2):
    """PEPS from our own arrays ('urdlp' order, missing edge bonds omitted)"""
    pat = PAT2D[pattern] if mk.sym else PAT2D["all"]
    k = kind if mk.sym else (numkind or kind)
    bond = lambda a, b: pat(a, b, (Lx, Ly))
    arrays = []
    for i in range(Lx):
        row = []
        for j in range(Ly):
            shape = []
            if i < Lx - 1:
                shape.append(bond((i, j), (i + 1, j)))
            if j < Ly - 1:
                shape.append(bond((i, j), (i, j + 1)))
            if i > 0:
                shape.append(bond((i - 1, j), (i, j)))
            if j > 0:
                shape.append(bond((i, j - 1), (i, j)))
            shape.append(d)
            row.append(mk.array(f"A{i}{j}", tuple(shape), k))
        arrays.append(row)
    return qtn.PEPS(arrays, shape="urdlp")


def norm2d(mk, Lx, Ly, pattern="all", kind="real", numkind=None):
    """two-layer <psi|psi> network of a PEPS (layer tags KET / BRA) and its exact value"""
    p = peps2d(mk, Lx, Ly, pattern, kind, numkind)
    norm = p.make_norm()
    return norm, p


# ---------------------------------------------------------------------- 2D boundary contraction: exactness

# option cells of TensorNetwork2D.contract_boundary (cap and cutoff are added per cell)
OPTS2D = {
    "mps": dict(mode="mps"),
    "mps-nocanon": dict(mode="mps", canonize=False),
    "mps-rev": dict(mode="mps", sweep_reverse=True),
    "mps-early": dict(mode="mps", compress_late=False),
    "mps-both": dict(mode="mps", compress_opts=dict(absorb="both")),
    "mps-left": dict(mode="mps", compress_opts=dict(absorb="left", reduced="right"), canonize_opts=dict(absorb="left")),
    "mps-svd": dict(mode="mps", compress_opts=dict(method="svd", reduced=True)),
    "mps-eq": dict(mode="mps", equalize_norms=True),
    "mps-eq1": dict(mode="mps", equalize_norms=1.0),
    "mps-strip": dict(mode="mps", strip_exponent=True),
    "full-bond": dict(mode="full-bond"),
    "full-bond-svd": dict(mode="full-bond", method="svd"),
    "direct": dict(mode="direct"),
    "zipup": dict(mode="zipup"),
    "dm": dict(mode="dm"),
    "fit": dict(mode="fit"),
    "projector1d": dict(mode="projector"),
    "projector2d": dict(mode="projector2d"),
    "local-early": dict(mode="local-early"),
    "local-late": dict(mode="local-late"),
    "superorthogonal": dict(mode="superorthogonal"),
    "l2bp": dict(mode="l2bp"),
}

_DIRS = ("xmin", "xmax", "ymin", "ymax")


def _shape_for(direction, small=True):
    """smallest lattice on which one boundary step from `direction` happens before the exact rest"""
    if small:
        return (3, 2) if direction[0] == "x" else (2, 3)
    return (3, 3)


def _bx_params():
    out = []
    for d in _DIRS:
        # one step from each side, every bond 2, cap == exact boundary bond (4)
        for opt in ("mps", "mps-nocanon", "mps-rev", "mps-early", "mps-left", "full-bond", "direct", "zipup"):
            out.append({"shape": _shape_for(d), "seq": (d,), "opt": opt, "pattern": "all", "cap": 4, "_tiers": _Q})
        for opt in ("mps", "mps-nocanon", "mps-rev", "mps-left", "full-bond", "direct"):
            out.append({"shape": (3, 3), "seq": (d,), "opt": opt, "pattern": "all", "cap": 4, "_tiers": _T})
        # a cap above the exact size and no cap at all
        out.append({"shape": _shape_for(d), "seq": (d,), "opt": "mps", "pattern": "all", "cap": 7, "_tiers": _T})
        out.append({"shape": _shape_for(d), "seq": (d,), "opt": "mps", "pattern": "all", "cap": None, "_tiers": _Q})
    return out


def _bx_goal(mk, tn, want, cap, seq, opt, extra=None):
    kw = dict(OPTS2D[opt])
    kw.update(extra or {})
    res = tn.contract_boundary(max_bond=cap, cutoff=0.0, sequence=seq, **kw)
    if kw.get("strip_exponent"):
        mk.same("strip_exponent returns (mantissa, exponent)", isinstance(res, tuple) and len(res) == 2, True)
    mk.eq(f"contract_boundary(max_bond={cap}, cutoff=0.0, sequence={seq}, {opt}{', ' + str(extra) if extra else ''}) == exact value",
          value(res), want)
    mk.eq("inplace=False leaves the network alone", exact(tn), want)


_ENC_BOUNDARY = (c2.TensorNetwork2D.contract_boundary, c2.TensorNetwork2D._contract_interleaved_boundary_sequence,
                 c2.TensorNetwork2D.contract_boundary_from, c2.TensorNetwork2D._contract_boundary_core,
                 c2.TensorNetwork2D._contract_boundary_full_bond, c2.TensorNetwork2D._contract_boundary_core_via_1d,
                 c2.TensorNetwork2D.canonize_plane, c2.TensorNetwork2D.compress_plane, c2.TensorNetwork2D.gen_pairs,
                 c2.Rotator2D, c2.parse_boundary_sequence,
                 tc.TensorNetwork._compress_between_tids, tc.TensorNetwork.compress_between, tc.TensorNetwork.canonize_between,
                 tc.TensorNetwork._canonize_between_tids, tc.tensor_compress_bond, tc.tensor_canonize_bond,
                 tc.tensor_make_single_bond, tc.TensorNetwork.contract_between, tc.TensorNetwork.insert_gauge,
                 decomp.similarity_compress)

# an exception of the real code on these (documented, accepted on the unchanged tree) inputs means the scheme does
# not return: a violation, not a harness problem
_CERT = dict(rounds=2, wall_s=500, timeout_s=600, max_rows=60000, solver_timeout_ms=200000, exc_is_violation=True)


@obligation(PROP, params=_bx_params(), **_CERT)
@certified
def boundary_exact(mk, shape, seq, opt, pattern, cap):
    """TensorNetwork2D.contract_boundary on a flat lattice, one boundary step from each side, every
    mode: cap >= exact boundary bond and cutoff 0 => the exact contraction value"""
    mk.encodes(*_ENC_BOUNDARY)
    Lx, Ly = shape
    tn = lattice2d(mk, Lx, Ly, pattern, kind="real", numkind="cplx")
    want = exact(tn)
    if Lx * Ly <= 6:
        mk.eq("reference cross-check: tensordot chain == explicit sum of products", want, ref.tn_dense(tn, ()))
    _bx_goal(mk, tn, want, cap, seq, opt)


def _bo_params():
    """option cells that need sparse symbolic instances (square roots / sign forks / SVD)"""
    out = []
    for d in _DIRS:
        pat = "col0" if d[0] == "x" else "row0"
        for opt in ("mps-both", "mps-strip"):
            out.append({"shape": _shape_for(d), "seq": (d,), "opt": opt, "pattern": pat, "cap": 4, "_tiers": _Q if d in ("xmin", "ymax") else _T})
        for opt in ("mps-svd", "mps-eq", "mps-eq1", "full-bond-svd", "dm", "fit"):
            out.append({"shape": _shape_for(d), "seq": (d,), "opt": opt, "pattern": "all", "cap": 4,
                        "_tiers": _Q if (d in ("xmax", "ymin") and opt != "fit") else _T})
    return out


@obligation(PROP, params=_bo_params(), **_CERT)
@certified
def boundary_exact_options(mk, shape, seq, opt, pattern, cap):
    """further option cells of contract_boundary (absorb='both', explicit SVD, equalize_norms True / 1.0,
    strip_exponent, full-bond via SVD, density-matrix and fit 1D compressors)"""
    mk.encodes(*_ENC_BOUNDARY, c1c.tensor_network_1d_compress, c1c.tensor_network_1d_compress_dm,
               c1c.tensor_network_1d_compress_fit, tc.TensorNetwork.strip_exponent, tc.TensorNetwork.equalize_norms)
    Lx, Ly = shape
    tn = lattice2d(mk, Lx, Ly, pattern, kind="real", numkind="cplx")
    if opt in ("mps-eq", "mps-eq1", "mps-strip", "dm"):
        # the network arrives with a stored exponent: it is part of the value
        e = mk.scalar("e0", "real")
        tn.exponent = e if mk.sym else float(e)
    want = exact(tn)
    _bx_goal(mk, tn, want, cap, seq, opt)


# sequences of several steps: the boundaries move inwards from several sides; symbolic instances
# entangle every bond along one lattice direction ("rows": all horizontal bonds 2, "cols": all vertical)
_SEQS = [
    # (shape, sequence, extra driver options, cap, quick?)
    ((4, 3), None, {}, 4, True),                                   # default: the two short sides alternate (xmin, xmax)
    ((3, 4), None, {}, 4, True),                                   # default: (ymin, ymax)
    ((4, 3), ("xmin", "xmax"), {}, 4, False),
    ((4, 3), ("xmax", "xmin"), {}, 4, False),
    ((3, 4), ("ymax", "ymin"), {}, 4, False),
    ((4, 2), "bt", {}, 4, True),                                   # letters b / t / l / r
    ((2, 4), "rl", {}, 4, True),
    ((3, 3), ("xmin", "ymin"), {"max_unfinished": 0}, 4, True),
    ((3, 3), ("ymax", "xmax"), {"max_unfinished": 0}, 4, True),
    ((3, 3), ("xmin",), {"max_separation": 0}, 8, True),           # one side all the way: boundary bond 2**3
    ((3, 3), ("xmax",), {"max_separation": 0}, 8, False),
    ((3, 3), ("ymin",), {"max_separation": 0}, 8, False),
    ((3, 3), ("ymax",), {"max_separation": 0}, 8, True),
    ((4, 4), ("xmin", "ymin", "xmax", "ymax"), {"max_unfinished": 0}, 4, False),
    ((4, 4), "btlr", {"max_separation": 0, "max_unfinished": 0}, 8, False),
    ((4, 3), ("xmin",), {"xmin": 1}, 4, False),                    # explicit initial boundary rows
    ((4, 3), ("xmax",), {"xmax": 2}, 4, False),
    ((3, 4), ("ymin", "ymax"), {"ymin": 1}, 4, False),
]


def _bs_params():
    out = []
    for shape, seq, extra, cap, quick in _SEQS:
        for pat in ("rows", "cols"):
            for opt in ("mps", "full-bond", "direct"):
                q = quick and opt == "mps"
                if shape == (4, 4) and (opt != "mps" or (pat == "cols" and seq != "btlr")):
                    continue          # 4 x 4 with four sides: the certificate is only tractable for these instances
                out.append({"shape": shape, "seq": seq, "extra": extra, "opt": opt, "pattern": pat, "cap": cap, "_tiers": _Q if q else _T})
    return out


@obligation(PROP, params=_bs_params(), **_CERT)
@certified
def boundary_exact_sequences(mk, shape, seq, extra, opt, pattern, cap):
    """contract_boundary with several steps from one or several sides (explicit sequences, the
    default sequence, letter aliases, max_separation / max_unfinished, explicit initial boundaries)"""
    mk.encodes(*_ENC_BOUNDARY)
    Lx, Ly = shape
    tn = lattice2d(mk, Lx, Ly, pattern, kind="real", numkind="cplx")
    want = exact(tn)
    _bx_goal(mk, tn, want, cap, seq, opt, extra)


# ---------------------------------------------------------------------- direction wrappers with ranges

def _along(direction):
    """symbolic bond pattern that entangles the bonds along the boundary line of `direction`"""
    return "rows" if direction[0] == "x" else "cols"


def _bf_cells():
    """(shape in the frame of the direction (depth, width), main range, cross range)"""
    return [
        ("near", (3, 3), "edge", None, True),        # the two lines next to the side
        ("full", (3, 3), "full", None, True),        # all the way: two steps
        ("part-lo", (3, 3), "edge", (0, 1), True),   # only part of the line
        ("part-hi", (3, 3), "edge", (1, 2), False),
        ("part-rev", (3, 3), "edge-rev", (2, 1), False),   # ranges given in descending order
        ("inner", (4, 3), "inner", None, False),     # two interior lines
        ("single", (3, 3), "edge", (1, 1), False),   # a single column of the line
    ]


def _bf_params():
    out = []
    for d in _DIRS:
        for name, shape, main, cross, quick in _bf_cells():
            for opt in ("mps", "mps-nocanon", "mps-rev", "full-bond"):
                if opt == "full-bond" and name in ("single",):
                    continue
                q = quick and opt == "mps"
                out.append({"side": d, "cell": name, "opt": opt, "pattern": "along", "_tiers": _Q if q else _T})
            if name not in ("inner", "full"):
                out.append({"side": d, "cell": name, "opt": "mps", "pattern": "all", "_tiers": _T})
    return out


def _resolve_cell(side, cell):
    name, shape, main, cross, quick = next(c for c in _bf_cells() if c[0] == cell)
    depth, width = shape
    lo_side = side.endswith("min")
    if main == "edge":
        rng = (0, 1) if lo_side else (depth - 2, depth - 1)
    elif main == "edge-rev":
        rng = (1, 0) if lo_side else (depth - 1, depth - 2)
    elif main == "full":
        rng = (0, depth - 1)
    else:
        rng = (1, 2)
    if side[0] == "x":
        return (depth, width), rng, cross
    return (width, depth), rng, cross


@obligation(PROP, params=_bf_params(), **_CERT)
@certified
def boundary_from_ranges(mk, side, cell, opt, pattern):
    """contract_boundary_from_xmin / _xmax / _ymin / _ymax with explicit (partial, interior, descending)
    ranges: the returned network still denotes the exact value and exactly the requested sites are merged"""
    mk.encodes(c2.TensorNetwork2D.contract_boundary_from_xmin, c2.TensorNetwork2D.contract_boundary_from_xmax,
               c2.TensorNetwork2D.contract_boundary_from_ymin, c2.TensorNetwork2D.contract_boundary_from_ymax, *_ENC_BOUNDARY)
    (Lx, Ly), main, cross = _resolve_cell(side, cell)
    pat = _along(side) if pattern == "along" else pattern
    tn = lattice2d(mk, Lx, Ly, pat, kind="real", numkind="cplx")
    want = exact(tn)
    kw = {k: v for k, v in OPTS2D[opt].items() if k != "mode"}
    mode = OPTS2D[opt]["mode"]
    fn = getattr(tn, f"contract_boundary_from_{side}")
    cap = 2 ** (abs(main[1] - main[0]) + 1)
    if side[0] == "x":
        res = fn(xrange=main, yrange=cross, max_bond=cap, cutoff=0.0, mode=mode, **kw)
    else:
        res = fn(yrange=main, xrange=cross, max_bond=cap, cutoff=0.0, mode=mode, **kw)
    mk.same("a new network is returned", isinstance(res, qtn.TensorNetwork) and res is not tn, True)
    mk.eq(f"contract_boundary_from_{side}({main}, {cross}, max_bond={cap}, cutoff=0.0, {opt}): value of the returned network == exact value",
          exact(res), want)
    mk.eq("inplace=False leaves the network alone", exact(tn), want)
    mk.same("the input keeps one tensor per site", tn.num_tensors, Lx * Ly)
    # structure: exactly the sites in (main x cross) are merged along the sweep direction
    lo, hi = sorted(main)
    clo, chi_ = sorted(cross) if cross is not None else (0, (Ly if side[0] == "x" else Lx) - 1)
    nmerged = (chi_ - clo + 1) * (hi - lo)
    mk.same("number of tensors after the sweep", res.num_tensors, Lx * Ly - nmerged)
    for c in range(clo, chi_ + 1):
        tags = [res.site_tag(r, c) if side[0] == "x" else res.site_tag(c, r) for r in range(lo, hi + 1)]
        tids = set()
        for t in tags:
            tids |= set(res.tag_map[t])
        mk.same(f"sites {tags} are one tensor", len(tids), 1)


# ---------------------------------------------------------------------- 2D boundary contraction: bond cap

# modes whose symbolic run is out of reach (iteration to a numerical tolerance / sign decisions on
# large expressions): their cap goals are decided in the numeric cross-run only
_NUMERIC_ONLY_MODES = {"superorthogonal", "l2bp", "fit"}


def _numeric_only(mk, why):
    mk.note(f"numeric-only: {why}")
    mk.same("numeric-only cell (symbolic run skipped)", True, True)


def _cap_step_params():
    out = []
    for d in _DIRS:
        for opt in ("mps", "mps-nocanon", "mps-rev", "mps-early", "mps-both", "mps-svd", "full-bond", "direct", "zipup", "dm",
                    "projector1d", "projector2d", "local-early", "local-late", "superorthogonal", "l2bp", "fit"):
            for chi in (2, 3):
                q = (opt in ("mps", "full-bond", "projector2d", "mps-early", "zipup") and chi == 3) or (opt == "mps" and chi == 2)
                out.append({"side": d, "opt": opt, "chi": chi, "_tiers": _Q if q else _T})
    return out


@obligation(PROP, params=_cap_step_params(), wall_s=500, timeout_s=600, max_paths=64, exc_is_violation=True)
def boundary_cap_steps(mk, side, opt, chi):
    """a truncating sweep (chi below the exact boundary bond, cutoff 0) done step by step with
    contract_boundary_from_: after EVERY step no pair of tensors shares more than chi"""
    mk.encodes(c2.TensorNetwork2D.contract_boundary_from, c2.TensorNetwork2D._contract_boundary_core,
               c2.TensorNetwork2D._contract_boundary_full_bond, c2.TensorNetwork2D._contract_boundary_projector,
               c2.TensorNetwork2D._contract_boundary_core_via_1d, c2.TensorNetwork2D.compress_plane,
               tc.TensorNetwork._compress_between_tids, tc.tensor_compress_bond, decomp._trim_and_renorm_svd_result_numba,
               tc.TensorNetwork.insert_compressor_between_regions, decomp.compute_oblique_projectors, decomp.similarity_compress)
    mode = OPTS2D[opt]["mode"]
    if mk.sym and mode in _NUMERIC_ONLY_MODES:
        return _numeric_only(mk, f"mode {mode!r} iterates to a numerical tolerance")
    heavy = mode in ("projector2d", "dm", "projector")       # symbolic run: Gram matrices of merged regions explode
    depth, width = ((3, 2 if mode == "dm" else 3) if heavy else (4, 3)) if mk.sym else (4, 4)
    Lx, Ly = (depth, width) if side[0] == "x" else (width, depth)
    tn = lattice2d(mk, Lx, Ly, "all", kind="real", numkind="cplx")
    kw = {k: v for k, v in OPTS2D[opt].items() if k != "mode"}
    steps = range(depth - 1) if side.endswith("min") else range(depth - 1, 0, -1)
    if heavy and mk.sym:
        steps = steps[:1]          # symbolic run: the first step only (the next Gram matrices are out of reach)
    elif mode == "dm":
        steps = steps[:-1]         # the density-matrix compressor rejects (LinAlgError) a line without outer labels: not the last step
    with shapes_only():
        for s in steps:
            main = (s, s + 1) if side.endswith("min") else (s - 1, s)
            rng = dict(xrange=main, yrange=(0, Ly - 1)) if side[0] == "x" else dict(yrange=main, xrange=(0, Lx - 1))
            r = tn.contract_boundary_from_(from_which=side, max_bond=chi, cutoff=0.0, mode=mode, **rng, **kw)
            mk.same("inplace variant returns the network itself", r is tn, True)
            cap_goal(mk, f"after step {main} from {side} ({opt}, chi={chi})", tn, chi)
            mk.same(f"after step {main}: the merged lines are one tensor per site", tn.num_tensors, Lx * Ly - width * (abs(s - steps[0]) + 1))


def schedule(Lx, Ly, seq, max_separation=1, max_unfinished=1, start=None):
    """documented schedule of contract_boundary (around=None), re-stated independently: cycle through
    the directions; a direction is finished once its two opposing sides are within max_separation;
    stop as soon as at most max_unfinished lattice directions are still further apart.
    -> (rows left, columns left, list of (direction, line contracted into its inner neighbour))"""
    lo = {"x": 0, "y": 0}
    hi = {"x": Lx - 1, "y": Ly - 1}
    for k, v in (start or {}).items():
        (lo if k.endswith("min") else hi)[k[0]] = v
    if seq is None:
        seq = ("xmin", "xmax") if Lx >= Ly else ("ymin", "ymax")
    alias = {"b": "xmin", "t": "xmax", "l": "ymin", "r": "ymax"}
    if isinstance(seq, str) and seq not in _DIRS:
        seq = tuple(alias[c] for c in seq)
    elif isinstance(seq, str):
        seq = (seq,)
    sep = lambda a: hi[a] - lo[a]
    todo = [d for d in seq if sep(d[0]) > max_separation]
    steps = []
    while todo:
        d = todo.pop(0)
        if sep(d[0]) <= max_separation:
            continue
        todo.append(d)
        if d.endswith("min"):
            steps.append((d, lo[d[0]]))
            lo[d[0]] += 1
        else:
            steps.append((d, hi[d[0]]))
            hi[d[0]] -= 1
        if sum(sep(a) > max_separation for a in "xy") <= max_unfinished:
            break
    return sep("x") + 1, sep("y") + 1, steps


_CAP_SEQS = [
    ((4, 4), None, {}, True),
    ((4, 4), ("xmin",), {"max_separation": 0}, True),
    ((4, 4), ("ymax",), {"max_separation": 0}, True),
    ((4, 4), ("xmax", "ymin"), {"max_unfinished": 0}, True),
    ((4, 4), ("xmin", "ymin"), {}, True),                 # default max_unfinished=1: stops with one direction unfinished
    ((5, 5), ("ymax", "xmax", "ymin"), {"max_unfinished": 1, "max_separation": 2}, False),
    ((4, 4), ("xmin", "ymin", "xmax", "ymax"), {"max_unfinished": 0}, True),
    ((4, 4), "rtlb", {"max_unfinished": 0, "max_separation": 0}, False),
    ((5, 3), None, {}, False),
    ((3, 5), None, {}, False),
    ((5, 4), ("xmax",), {"max_separation": 2}, False),
    ((4, 5), ("ymin", "ymax"), {"ymin": 1}, False),
]


def _cap_driver_params():
    out = []
    for k, (shape, seq, extra, quick) in enumerate(_CAP_SEQS):
        for opt in ("mps", "mps-nocanon", "mps-early", "full-bond", "direct", "zipup", "projector2d", "projector1d", "local-early",
                    "local-late", "dm", "superorthogonal", "l2bp"):
            for chi in (3, 2):
                q = quick and chi == 3 and opt in ("mps", "full-bond", "projector2d") and k in (0, 3, 4, 5)
                if chi == 2 and opt not in ("mps", "full-bond", "projector2d"):
                    continue
                if opt in ("zipup", "superorthogonal") and extra.get("max_separation") == 0 and len(seq) == 4:
                    continue        # these compressors raise (AttributeError / StopIteration) on a boundary line of a single site
                if opt == "dm" and extra.get("max_separation") == 0:
                    continue        # the density-matrix compressor raises LinAlgError on a line without outer labels (last step)
                out.append({"shape": shape, "seq": seq, "extra": extra, "opt": opt, "chi": chi, "_tiers": _Q if q else _T})
    return out


@obligation(PROP, params=_cap_driver_params(), wall_s=500, timeout_s=600, max_paths=64, exc_is_violation=True)
def boundary_cap_driver(mk, shape, seq, extra, opt, chi):
    """contract_boundary(final_contract=False) with a truncating cap: the network handed over has
    the documented number of lines left and no pair of its tensors shares more than chi"""
    mk.encodes(c2.TensorNetwork2D.contract_boundary, c2.TensorNetwork2D._contract_interleaved_boundary_sequence,
               c2.TensorNetwork2D.contract_boundary_from, c2.TensorNetwork2D._contract_boundary_core,
               c2.TensorNetwork2D._contract_boundary_full_bond, c2.TensorNetwork2D._contract_boundary_projector,
               c2.TensorNetwork2D._contract_boundary_core_via_1d, tc.TensorNetwork._compress_between_tids, tc.tensor_compress_bond)
    mode = OPTS2D[opt]["mode"]
    if mk.sym and mode in _NUMERIC_ONLY_MODES:
        return _numeric_only(mk, f"mode {mode!r} iterates to a numerical tolerance")
    heavy = mode in ("projector2d", "dm", "projector", "full-bond")
    Lx, Ly = shape
    if heavy and mk.sym:
        # symbolic run of the modes that square merged regions: a 3 x 3 lattice and the first step of the
        # cell's schedule only (the Gram matrices of the following steps are out of reach)
        first = schedule(Lx, Ly, seq, extra.get("max_separation", 1), extra.get("max_unfinished", 1),
                         {k: v for k, v in extra.items() if k in _DIRS})[2][0][0]
        Lx, Ly, seq, extra = 3, 3, (first,), {}
    tn = lattice2d(mk, Lx, Ly, "all", kind="real", numkind="cplx")
    kw = {k: v for k, v in OPTS2D[opt].items()}
    start = {k: v for k, v in extra.items() if k in _DIRS}
    nx, ny, steps = schedule(Lx, Ly, seq, extra.get("max_separation", 1), extra.get("max_unfinished", 1), start)
    with shapes_only():
        res = tn.contract_boundary(max_bond=chi, cutoff=0.0, sequence=seq, final_contract=False, **kw, **extra)
    mk.same("final_contract=False hands over a network", isinstance(res, qtn.TensorNetwork), True)
    if not start:
        mk.same(f"lines left after the schedule {[s[0] for s in steps]}", res.num_tensors, nx * ny)
    cap_goal(mk, f"contract_boundary(max_bond={chi}, cutoff=0.0, sequence={seq}, {opt}, final_contract=False, {extra})", res, chi)
    mk.same("inplace=False leaves the input alone", (tn.num_tensors, _largest_pair(tn)), (Lx * Ly, 2))
    # in place
    t2 = tn.copy()
    with shapes_only():
        r2 = t2.contract_boundary_(max_bond=chi, cutoff=0.0, sequence=seq, final_contract=False, **kw, **extra)
    mk.same("contract_boundary_ works in place", r2 is t2, True)
    cap_goal(mk, "in place variant", t2, chi)


# ---------------------------------------------------------------------- layered (bra / ket) networks

def _lay_params():
    out = []
    for d in _DIRS:
        shape = _shape_for(d)
        pat = "col0" if d[0] == "x" else "row0"
        for lt in ("KB", "BK", None):
            for opt in ("mps", "mps-nocanon", "mps-rev", "full-bond", "direct"):
                if opt == "full-bond" and lt is not None:
                    continue        # the full-bond core contracts whole sites (no layer option)
                q = opt == "mps" and lt in ("KB", None) and d in ("xmin", "ymax")
                out.append({"shape": shape, "seq": (d,), "layers": lt, "opt": opt, "pattern": pat, "_tiers": _Q if q else _T})
        out.append({"shape": shape, "seq": (d,), "layers": "KB", "opt": "mps", "pattern": "cols" if d[0] == "x" else "rows", "_tiers": _T})
    return out


_LAYERS = {"KB": ("KET", "BRA"), "BK": ("BRA", "KET"), None: None}


@obligation(PROP, params=_lay_params(), **_CERT)
@certified
def layered_exact(mk, shape, seq, layers, opt, pattern):
    """<psi|psi> network of a PEPS (two layers): contract_boundary with layer_tags in both orders /
    without, every side: cap >= the exact (doubled) boundary bond and cutoff 0 => exact <psi|psi>"""
    mk.encodes(*_ENC_BOUNDARY, tc.TensorNetwork.make_norm)
    Lx, Ly = shape
    norm, p = norm2d(mk, Lx, Ly, pattern, kind="real", numkind="cplx")
    want = exact(norm)
    kw = dict(OPTS2D[opt])
    cap = 16
    res = norm.contract_boundary(max_bond=cap, cutoff=0.0, sequence=seq, layer_tags=_LAYERS[layers], **kw)
    mk.eq(f"norm.contract_boundary(max_bond={cap}, cutoff=0.0, sequence={seq}, layer_tags={_LAYERS[layers]}, {opt}) == exact <psi|psi>",
          value(res), want)
    mk.eq("inplace=False leaves the network alone", exact(norm), want)


def _lay_cap_params():
    out = []
    for d in _DIRS:
        for lt in ("KB", "BK", None):
            for opt in ("mps", "mps-nocanon", "mps-early", "direct", "zipup", "full-bond", "projector2d"):
                if opt in ("full-bond", "projector2d") and lt is not None:
                    continue        # these cores have no layer option
                for chi in (5, 2):
                    q = opt == "mps" and chi == 5 and lt == "KB"
                    if chi == 2 and opt != "mps":
                        continue
                    out.append({"side": d, "layers": lt, "opt": opt, "chi": chi, "_tiers": _Q if q else _T})
    return out


@obligation(PROP, params=_lay_cap_params(), wall_s=500, timeout_s=600, max_paths=64, exc_is_violation=True)
def layered_cap(mk, side, layers, opt, chi):
    """two-layer network, truncating cap, step by step from each side: after every step (all layers
    absorbed) no pair of tensors shares more than chi"""
    mk.encodes(c2.TensorNetwork2D.contract_boundary_from, c2.TensorNetwork2D._contract_boundary_core,
               c2.TensorNetwork2D._contract_boundary_core_via_1d, c2.TensorNetwork2D._contract_boundary_projector)
    mode = OPTS2D[opt]["mode"]
    heavy = mode in ("projector2d", "full-bond")
    depth, width = (3, 3) if (mk.sym and heavy) else (4, 3)
    Lx, Ly = (depth, width) if side[0] == "x" else (width, depth)
    norm, p = norm2d(mk, Lx, Ly, "all", kind="real", numkind="cplx")
    kw = {k: v for k, v in OPTS2D[opt].items() if k != "mode"}
    if mode in ("mps", "direct", "zipup"):
        kw["layer_tags"] = _LAYERS[layers]
    elif layers is not None:
        raise Skip("mode has no layer option")
    steps = range(depth - 1) if side.endswith("min") else range(depth - 1, 0, -1)
    if heavy and mk.sym:
        steps = steps[:1]
    with shapes_only():
        for s in steps:
            main = (s, s + 1) if side.endswith("min") else (s - 1, s)
            rng = dict(xrange=main, yrange=(0, Ly - 1)) if side[0] == "x" else dict(yrange=main, xrange=(0, Lx - 1))
            norm.contract_boundary_from_(from_which=side, max_bond=chi, cutoff=0.0, mode=mode, **rng, **kw)
            cap_goal(mk, f"two layers, after step {main} from {side} ({opt}, layer_tags={_LAYERS[layers]}, chi={chi})", norm, max(chi, 2))
            k = abs(s - steps[0]) + 1
            mk.same(f"after step {main}: boundary sites are single tensors", norm.num_tensors, 2 * Lx * Ly - width * (2 * k + 1))


# ---------------------------------------------------------------------- row / column environments

def closed_eq(mk, label, full, want):
    """goal: the combined network has no dangling label and contracts to `want`"""
    outer = tuple(full.outer_inds())
    mk.same(label + " [no dangling labels]", outer, ())
    if not outer:
        mk.eq(label, exact(full), want)


def _lines(tn, side, idxs):
    """the tensors of the lattice lines `idxs` (rows for x sides, columns for y sides) as a network"""
    tags = [tn.x_tag(i) if side[0] == "x" else tn.y_tag(i) for i in idxs]
    if not tags:
        return qtn.TensorNetwork([])
    return tn.select_any(tags)


def env_goals(mk, tn, envs, side, want, label, lo=0, hi=None, rest=None):
    """every stored environment (side, i) == the lines on that side of line i (within lo..hi):
    combined with the lines it excludes it contracts to the value of the whole"""
    n = (tn.Lx if side[0] == "x" else tn.Ly)
    hi = n - 1 if hi is None else hi
    for i in range(lo, hi + 1):
        mk.same(f"{label}: environment ({side}, {i}) is stored", (side, i) in envs, True)
        if (side, i) not in envs:
            continue
        env = envs[side, i]
        excluded = range(i, hi + 1) if side.endswith("min") else range(lo, i + 1)
        parts = [env, _lines(tn, side, list(excluded))]
        if rest is not None:
            parts.append(rest)
        full = qtn.TensorNetwork(parts)
        closed_eq(mk, f"{label}: ({side}, {i}) environment | excluded lines == whole network", full, want)


def _env_params():
    out = []
    for shape in ((3, 2), (2, 3), (3, 3), (4, 3)):
        for side in _DIRS:
            depth = shape[0] if side[0] == "x" else shape[1]
            if depth < 3:
                continue
            for opt in ("mps", "mps-nocanon", "full-bond", "dense", "direct", "mps-eq1", "dense-eq1"):
                for pattern in ("all", "along"):
                    if shape in ((3, 3), (4, 3)) and pattern == "all":
                        continue
                    if shape == (4, 3) and opt not in ("mps", "dense", "mps-eq1", "dense-eq1"):
                        continue
                    q = shape in ((3, 2), (2, 3)) and pattern == "all" and opt in ("mps", "full-bond", "dense")
                    if opt.endswith("eq1") and pattern == "all":
                        continue
                    if opt.endswith("eq1") and shape in ((3, 2), (2, 3)) and side in ("xmin", "ymax"):
                        q = True
                    if opt.endswith("eq1") and shape == (4, 3) and side in ("xmin", "xmax"):
                        # exponent accumulated over three or more steps
                        q = True
                    out.append({"shape": shape, "side": side, "opt": opt, "pattern": pattern, "_tiers": _Q if q else _T})
    return out


@obligation(PROP, params=_env_params(), **_CERT)
@certified
def environments_one_side(mk, shape, side, opt, pattern):
    """compute_environments(from_which) / compute_{xmin,xmax,ymin,ymax}_environments: every stored
    environment, combined with the lines it excludes, contracts to the value of the whole network"""
    mk.encodes(c2.TensorNetwork2D.compute_environments, c2.TensorNetwork2D.contract_boundary_from, *_ENC_BOUNDARY)
    Lx, Ly = shape
    pat = _along(side) if pattern == "along" else pattern
    tn = lattice2d(mk, Lx, Ly, pat, kind="real", numkind="cplx")
    want = exact(tn)
    depth = Lx if side[0] == "x" else Ly
    cap = 2 ** (depth - 1)
    kw = dict(dense=True) if opt == "dense" else (dict(dense=True, equalize_norms=1.0) if opt == "dense-eq1" else dict(OPTS2D[opt]))
    rest = None
    if opt.endswith("eq1"):
        # the network arrives with a stored exponent; documented: the environments only accumulate the exponent
        # generated by the contraction, the caller multiplies the stored one back in
        e = mk.scalar("e0", "real")
        tn.exponent = e if mk.sym else float(e)
        want = exact(tn)
        rest = qtn.TensorNetwork([])
        rest.exponent = tn.exponent
    envs = getattr(tn, f"compute_{side}_environments")(max_bond=cap, cutoff=0.0, **kw)
    mk.same("keys", sorted(envs), sorted((side, i) for i in range(depth)))
    env_goals(mk, tn, envs, side, want, f"compute_{side}_environments(max_bond={cap}, cutoff=0.0, {opt})", rest=rest)
    mk.eq("the network itself is left alone", exact(tn), want)
    if opt == "mps":
        # the same through the generic entry point, into a caller-supplied dict
        store = {"other": 1}
        e2 = tn.compute_environments(side, max_bond=cap, cutoff=0.0, envs=store)
        mk.same("compute_environments(envs=store) fills and returns the caller's dict", e2 is store and "other" in store, True)
        first = 0 if side.endswith("min") else depth - 1
        mk.same("the outermost environment is empty", store[side, first].num_tensors, 0)
        last = depth - 1 if side.endswith("min") else 0
        closed_eq(mk, "generic entry point: innermost environment | last line == whole",
                  qtn.TensorNetwork([store[side, last], _lines(tn, side, [last])]), want)


def _env_both_params():
    out = []
    for shape in ((3, 2), (2, 3), (3, 3), (4, 3), (3, 4)):
        for plane in "xy":
            depth = shape[0] if plane == "x" else shape[1]
            if depth < 3:
                continue
            for opt in ("mps", "full-bond", "dense", "mps-nocanon"):
                pattern = "all" if shape in ((3, 2), (2, 3)) else "along"
                q = shape in ((3, 2), (2, 3)) and opt in ("mps", "dense")
                out.append({"shape": shape, "plane": plane, "opt": opt, "pattern": pattern, "_tiers": _Q if q else _T})
    return out


@obligation(PROP, params=_env_both_params(), **_CERT)
@certified
def environments_sandwich(mk, shape, plane, opt, pattern):
    """compute_x_environments / compute_y_environments: for every line i the documented sandwich
    envs[min, i] | line i | envs[max, i] contracts to the value of the whole network"""
    mk.encodes(c2.TensorNetwork2D.compute_x_environments, c2.TensorNetwork2D.compute_y_environments,
               c2.TensorNetwork2D.compute_environments, *_ENC_BOUNDARY)
    Lx, Ly = shape
    pat = _along(plane + "min") if pattern == "along" else pattern
    tn = lattice2d(mk, Lx, Ly, pat, kind="real", numkind="cplx")
    want = exact(tn)
    depth = Lx if plane == "x" else Ly
    cap = 2 ** (depth - 1)
    kw = dict(dense=True) if opt == "dense" else dict(OPTS2D[opt])
    envs = getattr(tn, f"compute_{plane}_environments")(max_bond=cap, cutoff=0.0, **kw)
    mk.same("keys", sorted(envs), sorted((plane + m, i) for m in ("min", "max") for i in range(depth)))
    for i in range(depth):
        full = qtn.TensorNetwork([envs[plane + "min", i], _lines(tn, plane + "min", [i]), envs[plane + "max", i]])
        closed_eq(mk, f"compute_{plane}_environments(max_bond={cap}, cutoff=0.0, {opt}): envs[{plane}min, {i}] | line {i} | envs[{plane}max, {i}] == whole",
                  full, want)


# ---------------------------------------------------------------------- plaquette environments

def _plaq_sites(i0, j0, bx, by):
    return [(i0 + a, j0 + b) for a in range(bx) for b in range(by)]


def plaquette_goals(mk, tn, penvs, bx, by, want, label):
    Lx, Ly = tn.Lx, tn.Ly
    keys = sorted(((i0, j0), (bx, by)) for i0 in range(Lx - bx + 1) for j0 in range(Ly - by + 1))
    mk.same(f"{label}: one environment per plaquette position", sorted(penvs), keys)
    for key in keys:
        if key not in penvs:
            continue
        (i0, j0), _ = key
        inner = tn.select_any([tn.site_tag(*s) for s in _plaq_sites(i0, j0, bx, by)])
        full = qtn.TensorNetwork([penvs[key], inner])
        closed_eq(mk, f"{label}: environment {key} | its plaquette == whole network", full, want)


def _plaq_params():
    out = []
    for shape in ((3, 2), (2, 3), (3, 3)):
        for bx, by in ((1, 1), (1, 2), (2, 1), (2, 2)):
            for first in (None, "x", "y"):
                for dense in (None, True, False):
                    for opt in ("mps", "full-bond"):
                        if opt == "full-bond" and (dense is not None or first is None):
                            continue
                        pattern = "all" if shape != (3, 3) else "rows"
                        if shape == (3, 3) and (bx, by) == (1, 1) and first == "y" and dense is False:
                            continue        # certificate out of reach (the 'cols' instance of this cell is listed below)
                        q = shape != (3, 3) and opt == "mps" and ((first is None and dense is None) or (first == "x" and dense is False and (bx, by) == (1, 1))
                                                                  or (first == "y" and dense is True and (bx, by) == (2, 2)))
                        out.append({"shape": shape, "bsz": (bx, by), "first": first, "dense": dense, "opt": opt, "pattern": pattern,
                                    "_tiers": _Q if q else _T})
    for bx, by in ((1, 1), (2, 2), (1, 2)):
        for first in ("x", "y"):
            out.append({"shape": (3, 3), "bsz": (bx, by), "first": first, "dense": None, "opt": "mps", "pattern": "cols", "_tiers": _T})
    out.append({"shape": (3, 3), "bsz": (1, 1), "first": "y", "dense": False, "opt": "mps", "pattern": "cols", "_tiers": _T})
    return out


@obligation(PROP, params=_plaq_params(), **_CERT)
@certified
def plaquette_environments(mk, shape, bsz, first, dense, opt, pattern):
    """compute_plaquette_environments(x_bsz, y_bsz, first_contract, second_dense): every stored
    environment, combined with the plaquette it surrounds, contracts to the value of the whole"""
    mk.encodes(c2.TensorNetwork2D.compute_plaquette_environments, c2.TensorNetwork2D._compute_plaquette_environments_x_first,
               c2.TensorNetwork2D._compute_plaquette_environments_y_first, c2.TensorNetwork2D.compute_x_environments,
               c2.TensorNetwork2D.compute_y_environments, c2.TensorNetwork2D.compute_environments, *_ENC_BOUNDARY)
    Lx, Ly = shape
    bx, by = bsz
    tn = lattice2d(mk, Lx, Ly, pattern, kind="real", numkind="cplx")
    want = exact(tn)
    kw = {k: v for k, v in OPTS2D[opt].items()}
    penvs = tn.compute_plaquette_environments(x_bsz=bx, y_bsz=by, max_bond=16, cutoff=0.0, first_contract=first, second_dense=dense, **kw)
    plaquette_goals(mk, tn, penvs, bx, by, want,
                    f"compute_plaquette_environments({bx}, {by}, max_bond=16, cutoff=0.0, first_contract={first}, second_dense={dense}, {opt})")
    mk.eq("the network itself is left alone", exact(tn), want)


# ---------------------------------------------------------------------- arbitrary geometry

# name -> (number of tensors, edges, outer legs {tensor: n})
GRAPHS = {
    "ring4": (4, [(0, 1), (1, 2), (2, 3), (0, 3)], {}),
    "chord4": (4, [(0, 1), (1, 3), (2, 3), (0, 2), (0, 3)], {}),            # 2 x 2 grid plus a chord
    "full4": (4, [(0, 1), (0, 2), (0, 3), (1, 2), (1, 3), (2, 3)], {}),
    "tree5": (5, [(0, 1), (0, 2), (2, 3), (2, 4)], {}),
    "ring4open": (4, [(0, 1), (1, 2), (2, 3), (0, 3)], {0: 1, 2: 1}),       # two outer labels
    "ladder6": (6, [(0, 1), (1, 2), (3, 4), (4, 5), (0, 3), (1, 4), (2, 5)], {}),   # 2 x 3 grid
    "prism6": (6, [(0, 1), (1, 2), (0, 2), (3, 4), (4, 5), (3, 5), (0, 3), (1, 4), (2, 5)], {}),
}


def graph_tn(mk, geom, kind="real", numkind=None, D=2, dims=None):
    n, edges, outer = GRAPHS[geom]
    k = kind if mk.sym else (numkind or kind)
    inds = {i: [] for i in range(n)}
    size = {}
    for e in edges:
        ix = "b" + "".join(map(str, e))
        size[ix] = (dims or {}).get(e, D)
        for a in e:
            inds[a].append(ix)
    for a, cnt in outer.items():
        for c in range(cnt):
            ix = f"o{a}{c}"
            size[ix] = D
            inds[a].append(ix)
    ts = [qtn.Tensor(mk.array(f"T{i}", tuple(size[ix] for ix in inds[i]), k), tuple(inds[i]), tags=[f"I{i}"]) for i in range(n)]
    tn = qtn.TensorNetwork(ts)
    out = tuple(ix for ix in size if ix.startswith("o"))
    return tn, out


def all_paths(n):
    """every linear (opt_einsum style) contraction path of n tensors"""
    if n == 1:
        yield ()
        return
    for i, j in itertools.combinations(range(n), 2):
        for rest in all_paths(n - 1):
            yield ((i, j),) + rest


def each(mk, name, options):
    """symbolic mode: fork one exploration path per option (each is decided with its own hypotheses);
    numeric mode: all options in one run"""
    options = list(options)
    if mk.sym:
        return [mk.choice(name, options)]
    return options


def connected_path(tn, path):
    """does every step of the linear path contract two tensors that share a label?"""
    sets = [set(t.inds) for t in tn.tensor_map.values()]
    for i, j in path:
        i, j = sorted((i, j))
        b = sets.pop(j)
        a = sets.pop(i)
        if not (a & b):
            return False
        sets.append(a ^ b)
    return True


class Watch:
    """callbacks of a compressed contraction: records every compression (sizes before / bond after)"""

    def __init__(self):
        self.pre = []
        self.post = []

    @staticmethod
    def _sizes(tn, tids):
        t1, t2 = tn.tensor_map[tids[0]], tn.tensor_map[tids[1]]
        bond = 1
        for ix in t1.inds:
            if ix in t2.inds:
                bond *= t1.ind_size(ix)
        return t1.size // bond, bond, t2.size // bond

    def pre_compress(self, tn, tids):
        self.pre.append(self._sizes(tn, tids))

    def post_compress(self, tn, tids):
        self.post.append(self._sizes(tn, tids))

    def rank_safe(self, chi):
        """every compression met a bond whose rank bound min(left, bond, right) is within chi: nothing can be lost"""
        return all(min(l, b, r) <= chi for l, b, r in self.pre) if chi is not None else True

    def kw(self):
        return dict(callback_pre_compress=self.pre_compress, callback_post_compress=self.post_compress)


CC_OPTS = {
    "default": {},
    "late": dict(compress_late=True),
    "basic": dict(compress_mode="basic"),
    "basic-late": dict(compress_mode="basic", compress_late=True),
    "tg0": dict(tree_gauge_distance=0),
    "tg2": dict(tree_gauge_distance=2),
    "tg2-all": dict(tree_gauge_distance=2, gauge_boundary_only=False),
    "canon2": dict(compress_mode="basic", canonize_distance=2, canonize_after_distance=0),
    "span-all": dict(compress_span=False),
    "span2": dict(compress_span=2),
    "nomat": dict(compress_matrices=False),
    "minsize": dict(compress_min_size=9),
    "gauges": dict(gauges=True),
    "gauges-all": dict(gauges=True, gauge_boundary_only=False),
    "eq": dict(equalize_norms=True, compress_mode="basic"),
    "strip": dict(strip_exponent=True, compress_mode="basic"),
    "absorb-left": dict(compress_mode="basic", compress_opts=dict(absorb="left")),
    "full-bond": dict(compress_mode="full-bond"),
}


def _cc_params():
    out = []
    for geom in ("ladder6", "prism6"):
        for chi in (2, 3):
            for opt in ("default", "late", "basic", "tg2", "span-all", "nomat", "gauges"):
                out.append({"geom": geom, "chi": chi, "opt": opt, "_tiers": _T})
    for geom in ("ring4", "chord4", "full4", "ring4open", "tree5"):
        for chi in (2, 3, 4, None):
            for opt in CC_OPTS:
                if chi not in (2, 3) and opt not in ("default", "late", "basic", "gauges"):
                    continue        # with chi >= every product bond nothing is ever compressed: the option is dead
                if chi == 3 and opt not in ("default", "late", "basic", "tg0", "span-all", "gauges"):
                    continue
                q = (geom in ("ring4", "chord4") and opt in ("default", "late", "basic", "tg0") and chi in (2, 3)) or \
                    (geom == "ring4open" and opt == "default" and chi in (4, None))
                out.append({"geom": geom, "chi": chi, "opt": opt, "_tiers": _Q if q else _T})
    return out


@obligation(PROP, params=_cc_params(), **_CERT)
@certified
def contract_compressed_all_paths(mk, geom, chi, opt):
    """TensorNetwork.contract_compressed along EVERY contraction path of a small graph (explicit
    `optimize` paths): whenever every compression met a bond whose rank bound is within the cap,
    the value is exact; every bond that was compressed is within the cap right afterwards"""
    mk.encodes(tc.TensorNetwork.contract_compressed, tc.TensorNetwork._contract_compressed_tid_sequence,
               tc.TensorNetwork._compress_between_tids, tc.TensorNetwork._compress_between_virtual_tree_tids,
               tc.TensorNetwork._compute_tree_gauges, tc.TensorNetwork._canonize_around_tids, tc.TensorNetwork._gauge_local_tids,
               tc.TensorNetwork._contract_between_tids, tc.tensor_compress_bond, tc.tensor_canonize_bond, tc.tensor_fuse_squeeze,
               tc.maybe_unwrap, decomp.compute_oblique_projectors)
    if mk.sym and opt == "gauges-all":
        return _numeric_only(mk, "gauge_all_simple iterates to a numerical tolerance")
    if mk.sym and ((geom in ("chord4", "full4", "ring4open", "ladder6", "prism6") and chi in (2, 3)) or (geom == "full4" and chi == 4)):
        return _numeric_only(mk, "rank-2 compressions of merged tensors (2 x 2 SVD / chained QR with absorbed square roots): "
                                 "no certificate within the engine's degree bound")
    tn, out = graph_tn(mk, geom, kind="real", numkind="cplx")
    want = exact(tn, out)
    n = tn.num_tensors
    paths = list(all_paths(n))
    if mk.sym:
        # symbolic run: every path that never forms an outer product (the certificates of outer-product
        # intermediates with sqrt-absorbed singular values are out of reach); the numeric run takes ALL paths
        paths = [p for p in paths if connected_path(tn, p)]
    if n > 4:
        paths = paths[:: max(1, len(paths) // 12)][:12]
    kw = dict(CC_OPTS[opt])
    nexact = 0
    early = chi is not None and not any(k in kw for k in ("compress_late", "compress_span", "compress_matrices", "compress_min_size", "gauges"))
    for p in each(mk, "path", paths):
        w = Watch()
        # early compression (the default): after every step every bond of the new intermediate is within the cap,
        # except the bond to the tensor it is contracted with next (compress_span=True leaves that one alone)
        groups = [frozenset([f"I{i}"]) for i in range(n)]
        nexts = []
        for i, j in p:
            i, j = sorted((i, j))
            b_ = groups.pop(j)
            a_ = groups.pop(i)
            nexts.append((a_, b_))
            groups.append(a_ | b_)
        step = [0]
        over = []

        def after_step(net, tid, nexts=nexts, step=step, over=over):
            step[0] += 1
            t = net.tensor_map[tid]
            mine = frozenset(x for x in t.tags if x.startswith("I"))
            nxt = nexts[step[0]] if step[0] < len(nexts) else None
            for tidn in net._get_neighbor_tids(tid):
                tnb = net.tensor_map[tidn]
                theirs = frozenset(x for x in tnb.tags if x.startswith("I"))
                if nxt is not None and {mine, theirs} == set(nxt):
                    continue
                sz = 1
                for ix in t.inds:
                    if ix in tnb.inds:
                        sz *= t.ind_size(ix)
                if sz > chi:
                    over.append((step[0], sz))

        late = chi is not None and kw.get("compress_late") is True and not any(
            k in kw for k in ("compress_span", "compress_matrices", "compress_min_size", "gauges"))
        over_late = []

        def before_contract(net, tids, over_late=over_late):
            # late compression: just before two tensors are contracted all their other bonds are within the cap
            for a, b in (tids, tids[::-1]):
                t = net.tensor_map[a]
                for tidn in net._get_neighbor_tids(a):
                    if tidn == b:
                        continue
                    tnb = net.tensor_map[tidn]
                    sz = 1
                    for ix in t.inds:
                        if ix in tnb.inds:
                            sz *= t.ind_size(ix)
                    if sz > chi:
                        over_late.append(sz)

        extra_cb = dict(callback=after_step) if early else (dict(callback_pre_contract=before_contract) if late else {})
        res = tn.contract_compressed(optimize=p, max_bond=chi, cutoff=0.0, output_inds=out or None, **w.kw(), **extra_cb, **kw)
        for l, b, r in w.post:
            mk.same(f"path {p}: a bond just compressed is within the cap {chi}", max(b, chi), chi)
        if early:
            mk.same(f"path {p}: after every step the new intermediate's bonds (except to its next partner) are within the cap {chi}", over, [])
        if late:
            mk.same(f"path {p}: compress_late: just before a contraction the other bonds of both tensors are within the cap {chi}", over_late, [])
        if not w.rank_safe(chi):
            continue                # a genuinely truncating compression happened on this path: exactness is not promised
        nexact += 1
        if isinstance(res, tuple):
            val = (res[0].data if isinstance(res[0], qtn.Tensor) else res[0]) * 10 ** res[1]
        else:
            val = res.transpose(*out).data if isinstance(res, qtn.Tensor) and out else value(res)
        mk.eq(f"contract_compressed(optimize={p}, max_bond={chi}, cutoff=0.0, {opt}) == exact value "
              f"({len(w.pre)} compressions, all rank-safe)", val, want)
    mk.eq("the network is left alone", exact(tn, out), want)


# ---------------------------------------------------------------------- contract_around

CA_OPTS = {
    "default": {},
    "early": dict(compress_late=False),
    "tg0": dict(tree_gauge_distance=0),
    "tg2": dict(tree_gauge_distance=2),
    "basic": dict(compress_opts=dict(mode="basic"), canonize_distance=1, canonize_after_distance=1),
    "all-gauge": dict(gauge_boundary_only=False),
    "span": dict(compress_span=True),
    "eq": dict(equalize_norms=1.0, tree_gauge_distance=0),
}


def _ca_params():
    out = []
    for geom, targets in (("ring4", (["I0"], ["I0", "I1"])), ("chord4", (["I0"], ["I1"], ["I1", "I2"])),
                          ("ladder6", (["I0"], ["I1"], ["I1", "I4"])), ("lat33", (["I1,1"], ["I0,0"], ["X1"])),
                          ("ring4open", (["I0"], ["I1"])), ("lat44", (["I0,0"], ["I1,1"], ["I3,0"]))):
        for tg in targets:
            for chi in (2, 4, None):
                for opt in CA_OPTS:
                    if chi != 2 and opt not in ("default", "early"):
                        continue
                    q = opt in ("default", "early") and chi == 2 and geom in ("ring4", "chord4", "lat33") and tg in (["I0"], ["I1,1"])
                    out.append({"geom": geom, "tags": tuple(tg), "chi": chi, "opt": opt, "_tiers": _Q if q else _T})
    return out


def _ca_network(mk, geom):
    if geom in ("lat33", "lat44"):
        n = int(geom[-1])
        tn = lattice2d(mk, n, n, "rows", kind="real", numkind="cplx")
        return tn, ()
    return graph_tn(mk, geom, kind="real", numkind="cplx")


@obligation(PROP, params=_ca_params(), **_CERT)
@certified
def contract_around_exact(mk, geom, tags, chi, opt):
    """TensorNetwork.contract_around(tags, which='any'): whenever every compression met a bond
    whose rank bound is within the cap the result still denotes the exact value; every bond that
    was compressed is within the cap right afterwards"""
    mk.encodes(tc.TensorNetwork.contract_around, tc.TensorNetwork._contract_around_tids, tc.TensorNetwork.get_tree_span,
               tc.TensorNetwork._contract_compressed_tid_sequence, tc.TensorNetwork._compress_between_tids)
    if mk.sym and chi == 2 and opt in ("span", "eq") and geom != "ring4":
        return _numeric_only(mk, "compressions of pairs that are contracted next / rescaled tensors: no certificate within the engine's degree bound")
    tn, out = _ca_network(mk, geom)
    want = exact(tn, out)
    w = Watch()
    res = tn.contract_around(list(tags), which="any", max_bond=chi, cutoff=0.0, **w.kw(), **CA_OPTS[opt])
    for l, b, r in w.post:
        mk.same(f"a bond just compressed is within the cap {chi}", max(b, chi), chi)
    if w.rank_safe(chi):
        if isinstance(res, qtn.TensorNetwork):
            val = exact(res, out)
        elif isinstance(res, qtn.Tensor):
            val = res.transpose(*out).data if out else res.data
        else:
            val = res
        mk.eq(f"contract_around({list(tags)}, which='any', max_bond={chi}, cutoff=0.0, {opt}) denotes the exact value "
              f"({len(w.pre)} compressions, all rank-safe)", val, want)
    else:
        mk.note("a genuinely truncating compression happened: exactness not promised, cap goals only")
        mk.same("cap goals only", True, True)
    mk.eq("the network is left alone", exact(tn, out), want)


# ---------------------------------------------------------------------- compress_between: local gauge choices

CB_OPTS = {
    "basic": {},
    "absorb-left": dict(absorb="left"),
    "absorb-right": dict(absorb="right"),
    "absorb-none": dict(absorb=None),
    "reduced-false": dict(reduced=False),
    "reduced-left": dict(reduced="left", absorb="right"),
    "reduced-right": dict(reduced="right", absorb="left"),
    "svd": dict(method="svd"),
    "canon1": dict(canonize_distance=1),
    "canon2": dict(canonize_distance=2),
    "canon1-after1": dict(canonize_distance=1, canonize_after_distance=1),
    "canon-incl": dict(canonize_distance=2, canonize_opts=dict(include=None, exclude=None)),
    "eq": dict(equalize_norms=1.0),
    "virtual-tree": dict(mode="virtual-tree", canonize_distance=1),
    "virtual-tree2": dict(mode="virtual-tree", canonize_distance=2),
    "full-bond": dict(mode="full-bond"),
    "full-bond-svd": dict(mode="full-bond", method="svd"),
    "local-fit": dict(mode="local-fit"),
    "gauges": dict(gauges="su"),
}


_CB_NUMERIC_ONLY = {
    "local-fit": "local fit iterates (alternating least squares)",
    "reduced-false": "SVD of the rank-deficient 4 x 4 product: the discarded singular values vanish only by a rank argument",
    "virtual-tree": "oblique projectors from tree gauges: no certificate within the engine's degree bound",
    "virtual-tree2": "oblique projectors from tree gauges: no certificate within the engine's degree bound",
    "gauges": "simple-update gauges are inverted and re-extracted: no certificate within the engine's degree bound",
    "canon1-after1": "local re-gauging after the compression: no certificate within the engine's degree bound",
}


def chain_tn(mk, L=4, kind="real", numkind=None, bond=2, legs=(0, 1, 1, 0)):
    """open chain of L tensors with legs[i] outer labels (dimension 2) on tensor i: each tensor of the
    middle pair has outer size 2 * 2 (leg x neighbour bond) > its bond"""
    k = kind if mk.sym else (numkind or kind)
    ts = []
    for i in range(L):
        inds, shape = [], []
        if i > 0:
            inds.append(f"b{i - 1}{i}")
            shape.append(bond)
        if i < L - 1:
            inds.append(f"b{i}{i + 1}")
            shape.append(bond)
        for c in range(legs[i]):
            inds.append(f"o{i}{c}")
            shape.append(2)
        ts.append(qtn.Tensor(mk.array(f"T{i}", tuple(shape), k), inds, tags=[f"I{i}"]))
    tn = qtn.TensorNetwork(ts)
    out = tuple(f"o{i}{c}" for i in range(L) for c in range(legs[i]))
    return tn, out


def _cb_params():
    out = []
    for opt in CB_OPTS:
        for cap in (2, 3, None):
            q = opt in ("basic", "absorb-right", "canon1", "reduced-false") and cap == 2
            out.append({"opt": opt, "cap": cap, "_tiers": _Q if q else _T})
    return out


@obligation(PROP, params=_cb_params(), **_CERT)
@certified
def compress_between_exact(mk, opt, cap):
    """TensorNetwork.compress_between on the middle bond (size 2) of an open chain whose two
    sides are larger than the cap, cap >= bond size, cutoff 0: every local gauge choice leaves the
    dense tensor of the network unchanged"""
    mk.encodes(tc.TensorNetwork.compress_between, tc.TensorNetwork._compress_between_tids, tc.tensor_compress_bond,
               tc.TensorNetwork._canonize_around_tids, tc.TensorNetwork._gauge_local_tids,
               tc.TensorNetwork._compress_between_virtual_tree_tids, tc.TensorNetwork._compress_between_full_bond_tids,
               tc.TensorNetwork._compress_between_local_fit, tc.TensorNetwork._compute_bond_env, tc.TensorNetwork._compute_tree_gauges)
    if mk.sym and opt in _CB_NUMERIC_ONLY:
        return _numeric_only(mk, _CB_NUMERIC_ONLY[opt])
    L = 4
    tn, out = chain_tn(mk, L, kind="real", numkind="cplx", legs=(0, 1, 1, 0) if mk.sym else (1, 1, 1, 1))
    want = exact(tn, out)
    kw = dict(CB_OPTS[opt])
    info = {}
    if "absorb" in kw and kw["absorb"] is None:
        kw["info"] = info           # absorb=None: the singular values are handed over through `info`
    if kw.get("gauges") == "su":
        kw["gauges"] = {ix: mk.array(f"g{ix}", (2,), "pos") for ix in ("b01", "b12", "b23")}
        # a (network, gauges) pair denotes the network with the gauges inserted on their bonds
        want = ref.sum_of_products(ref.tn_terms(tn) + [(g, (ix,)) for ix, g in kw["gauges"].items()], out)
    with spectrum("pos"):
        tn.compress_between("I1", "I2", max_bond=cap, cutoff=0.0, **kw)
    if cap is not None:
        mk.same("bond within the cap", tn.ind_size("b12") <= cap, True)
    if isinstance(kw.get("gauges"), dict):
        got = ref.sum_of_products(ref.tn_terms(tn) + [(g, (ix,)) for ix, g in kw["gauges"].items()], out)
        if kw.get("equalize_norms"):
            got = got * 10 ** tn.exponent
    elif "singular_values" in info:
        # the network with the returned singular values inserted on the bond
        got = ref.sum_of_products(ref.tn_terms(tn) + [(info["singular_values"], ("b12",))], out)
    else:
        got = exact(tn, out)
    mk.eq(f"compress_between(I1, I2, max_bond={cap}, cutoff=0.0, {opt}): dense tensor unchanged", got, want)


@obligation(PROP, params=[{"opt": o, "chi": c, "_tiers": _Q if (o in ("basic", "virtual-tree", "full-bond") and c == 1) else _T}
                          for o in CB_OPTS for c in (1, 2, 3)], wall_s=300, timeout_s=400, max_paths=64, exc_is_violation=True)
def compress_between_cap(mk, opt, chi):
    """compress_between on a double bond (2 x 2 = 4) with a truncating cap and cutoff 0: afterwards the
    two tensors share a single bond of size <= chi, whatever the local gauge choice"""
    mk.encodes(tc.TensorNetwork.compress_between, tc.TensorNetwork._compress_between_tids, tc.tensor_compress_bond,
               tc.tensor_make_single_bond, decomp._trim_and_renorm_svd_result_numba)
    if mk.sym and opt in ("local-fit", "gauges"):
        return _numeric_only(mk, "iterative / inverse-gauge route")
    k = "real" if mk.sym else "cplx"
    ts = [qtn.Tensor(mk.array("T0", (2, 2), k), ("b01", "o0"), tags="I0"),
          qtn.Tensor(mk.array("T1", (2, 2, 2, 2, 2), k), ("b01", "x", "y", "o1", "p1"), tags="I1"),
          qtn.Tensor(mk.array("T2", (2, 2, 2, 2, 2), k), ("x", "y", "b23", "o2", "p2"), tags="I2"),
          qtn.Tensor(mk.array("T3", (2, 2), k), ("b23", "o3"), tags="I3")]
    tn = qtn.TensorNetwork(ts)
    kw = dict(CB_OPTS[opt])
    if kw.get("gauges") == "su":
        kw["gauges"] = {ix: mk.array(f"g{ix}", (2,), "pos") for ix in ("b01", "b23")}
    seen = []
    with shapes_only():
        tn.compress_between("I1", "I2", max_bond=chi, cutoff=0.0, callback=lambda t, tids: seen.append(tids), **kw)
    shared = [ix for ix in tn["I1"].inds if ix in tn["I2"].inds]
    mk.same(f"compress_between(max_bond={chi}, cutoff=0.0, {opt}): a single bond is left", len(shared), 1)
    mk.same(f"compress_between(max_bond={chi}, cutoff=0.0, {opt}): bond <= {chi}", max(tn.ind_size(shared[0]), chi) if shared else None, chi)
    mk.same("the callback is called once with the pair", len(seen), 1)
    mk.same("outer labels unchanged", sorted(tn.outer_inds()), ["o0", "o1", "o2", "o3", "p1", "p2"])


# ---------------------------------------------------------------------- arbitrary-geometry compression methods

def two_layer_tn(mk, geom, kind="real", numkind=None, pattern=None):
    """two tensors per site (an operator layer acting on a state layer): sites = the nodes of the graph,
    every edge carries one bond per layer (product bond 2 x 2 = 4 between neighbouring sites); one outer
    label per site on the upper layer"""
    n, edges, _ = GRAPHS[geom]
    k = kind if mk.sym else (numkind or kind)
    dim = (lambda e, layer: (pattern or {}).get((e, layer), 1)) if (mk.sym and pattern is not None) else (lambda e, layer: 2)
    ts = []
    for layer in ("A", "B"):
        for i in range(n):
            inds, shape = [], []
            for e in edges:
                if i in e:
                    inds.append(f"{layer}{e[0]}{e[1]}")
                    shape.append(dim(e, layer))
            inds.append(f"m{i}")
            shape.append(2)
            if layer == "B":
                inds.append(f"o{i}")
                shape.append(2)
            ts.append(qtn.Tensor(mk.array(f"{layer}{i}", tuple(shape), k), inds, tags=[f"I{i}", layer]))
    tn = qtn.TensorNetwork(ts)
    out = tuple(f"o{i}" for i in range(n))
    return tn, out, [f"I{i}" for i in range(n)]


AG_OPTS = {
    "local-early": dict(method="local-early"),
    "local-early-nocanon": dict(method="local-early", canonize=False),
    "local-early-basic": dict(method="local-early", mode="basic", tree_gauge_distance=1),
    "local-early-left": dict(method="local-early", canonize=False, absorb="left"),
    "local-early-right": dict(method="local-early", canonize=False, absorb="right"),
    "local-late-right": dict(method="local-late", canonize=False, absorb="right"),
    "local-late": dict(method="local-late"),
    "local-late-nocanon": dict(method="local-late", canonize=False),
    "projector": dict(method="projector"),
    "projector-nocanon": dict(method="projector", canonize=False),
    "projector-lazy": dict(method="projector", canonize=False, lazy=True),
    "superorthogonal": dict(method="superorthogonal"),
    "su-nocanon": dict(method="su", canonize=False),
    "l2bp": dict(method="l2bp"),
    "l2bp-nocanon": dict(method="l2bp", canonize=False),
}
_ABS = "absorb='both' / chained one-sided gauges split square roots of singular values: no certificate within the engine's degree bound"
_AG_NUMERIC_ONLY = {"superorthogonal": "simple-update gauging iterates to a tolerance", "l2bp": "belief propagation iterates to a tolerance",
                    "local-early-nocanon": _ABS, "local-early-basic": _ABS, "local-early-left": _ABS, "local-early-right": _ABS,
                    "local-late-nocanon": _ABS,
                    "local-early": "virtual-tree oblique projectors: no certificate within the engine's degree bound",
                    "local-late": "virtual-tree oblique projectors: no certificate within the engine's degree bound",
                    "projector": "simple-update gauging iterates to a tolerance", "projector-nocanon": "oblique projectors from Gram "
                    "matrices: no certificate within the engine's degree bound", "projector-lazy": "oblique projectors from Gram matrices: "
                    "no certificate within the engine's degree bound", "su-nocanon": "inverse gauges: no certificate within the engine's degree bound",
                    "l2bp-nocanon": "message square roots / inverses: no certificate within the engine's degree bound"}


def _ag_params():
    out = []
    for geom in ("pair2", "path3", "ring3"):
        for opt in AG_OPTS:
            for cap in (4, 6, None):
                q = cap == 4 and geom == "pair2" and opt in ("local-late-right", "local-early-nocanon", "projector-nocanon", "su-nocanon")
                out.append({"geom": geom, "opt": opt, "cap": cap, "_tiers": _Q if q else _T})
    return out


GRAPHS["pair2"] = (2, [(0, 1)], {})
GRAPHS["path3"] = (3, [(0, 1), (1, 2)], {})
GRAPHS["ring3"] = (3, [(0, 1), (1, 2), (0, 2)], {})


@obligation(PROP, params=_ag_params(), **_CERT)
@certified
def ag_compress_exact(mk, geom, opt, cap):
    """tensor_network_ag_compress (each registered method) on a two-layer network with cap >= the product
    bond (4) and cutoff 0: the compressed network denotes the same dense tensor, one tensor per site"""
    mk.encodes(agc.tensor_network_ag_compress, agc.tensor_network_ag_compress_local_early, agc.tensor_network_ag_compress_local_late,
               agc.tensor_network_ag_compress_projector, agc.tensor_network_ag_compress_superorthogonal,
               agc.tensor_network_ag_compress_l2bp, tc.TensorNetwork.compress_all, tc.TensorNetwork._compress_between_tids)
    if mk.sym and opt in _AG_NUMERIC_ONLY:
        return _numeric_only(mk, _AG_NUMERIC_ONLY[opt])
    if mk.sym and cap is None and geom != "pair2":
        return _numeric_only(mk, "no cap: full (untruncated) SVDs of every bond, certificate out of reach")
    pattern = {((0, 1), "A"): 2, ((0, 1), "B"): 2}
    tn, out, sites = two_layer_tn(mk, geom, kind="real", numkind="cplx", pattern=pattern)
    want = exact(tn, out)
    with spectrum("pos"):
        res = agc.tensor_network_ag_compress(tn, max_bond=cap, cutoff=0.0, site_tags=sites, **AG_OPTS[opt])
    mk.same("a new network is returned", res is not tn, True)
    if not AG_OPTS[opt].get("lazy"):
        mk.same("one tensor per site", [len(res.tag_map[s]) for s in sites], [1] * len(sites))
    mk.eq(f"tensor_network_ag_compress(max_bond={cap}, cutoff=0.0, {opt}): dense tensor unchanged", exact(res, out), want)
    mk.eq("the input network is left alone", exact(tn, out), want)


@obligation(PROP, params=[{"geom": g, "opt": o, "chi": c, "_tiers": _Q if (g == "ring3" and c == 3 and "nocanon" in o) else _T}
                          for g in ("path3", "ring3", "ring4") for o in AG_OPTS for c in (1, 2, 3)], wall_s=300, timeout_s=400, max_paths=64, exc_is_violation=True)
def ag_compress_cap(mk, geom, opt, chi):
    """tensor_network_ag_compress with a truncating cap (below the product bond 4) and cutoff 0: afterwards
    no two tensors share more than chi"""
    mk.encodes(agc.tensor_network_ag_compress, agc.tensor_network_ag_compress_local_early, agc.tensor_network_ag_compress_local_late,
               agc.tensor_network_ag_compress_projector, agc.tensor_network_ag_compress_superorthogonal, agc.tensor_network_ag_compress_l2bp)
    if mk.sym and opt in ("superorthogonal", "l2bp", "l2bp-nocanon", "projector", "local-early", "local-late"):
        return _numeric_only(mk, "iterates to a numerical tolerance / gauges by simple update / message square roots")
    tn, out, sites = two_layer_tn(mk, geom, kind="real", numkind="cplx")
    with shapes_only():
        res = agc.tensor_network_ag_compress(tn, max_bond=chi, cutoff=0.0, site_tags=sites, **AG_OPTS[opt])
    if AG_OPTS[opt].get("lazy"):
        # the projectors are left uncontracted: the compressed bonds are those between two projector tensors
        # (the site tensors keep their original bonds to the projectors)
        proj = qtn.TensorNetwork([t for t in res if not any(ix.startswith("m") for ix in t.inds)])
        mk.same("two projectors per edge and layer pair", proj.num_tensors, 2 * len(GRAPHS[geom][1]))
        cap_goal(mk, f"tensor_network_ag_compress(max_bond={chi}, cutoff=0.0, {opt}): projector pairs", proj, chi)
    else:
        cap_goal(mk, f"tensor_network_ag_compress(max_bond={chi}, cutoff=0.0, {opt})", res, chi)
    mk.same("outer labels unchanged", sorted(res.outer_inds()), sorted(out))
    if not AG_OPTS[opt].get("lazy"):
        mk.same("one tensor per site", [len(res.tag_map[s]) for s in sites], [1] * len(sites))


# ---------------------------------------------------------------------- projector schemes: projector2d / CTMRG / HOTRG

# The oblique projectors are built from eigen-decompositions of Gram matrices of two-tensor regions and
# an SVD of the product of the two reduced factors; the certificate that P_l P_r acts as the identity
# between the regions needs multipliers beyond the engine's degree bound as soon as the cut carries a bond
# of dimension 2.  Symbolic instances therefore keep the bonds ACROSS every compressed cut at dimension 1
# ("product cut": the bonds along the sweep direction are 2), which still runs the whole region selection /
# projector insertion / re-tagging / contraction bookkeeping on symbols; the numeric cross-run has bond 2
# everywhere.  The two building blocks are certified separately on the real functions (projector_lemmas).

def _cut_pattern(direction):
    """bonds along the sweep direction of `direction` are 2, the bonds across the compressed cuts are 1"""
    return "cols" if direction[0] == "x" else "rows"


_PROJ_CALLS = {
    "projector2d": lambda tn, cap, seq, kw: tn.contract_boundary(max_bond=cap, cutoff=0.0, mode="projector2d", sequence=seq, **kw),
    "projector2d-lazy": lambda tn, cap, seq, kw: tn.contract_boundary(max_bond=cap, cutoff=0.0, mode="projector2d", sequence=seq,
                                                                     lazy=True, final_contract=False, **kw),
    "ctmrg": lambda tn, cap, seq, kw: tn.contract_ctmrg(max_bond=cap, cutoff=0.0, sequence=seq, **kw),
    "ctmrg-lazy": lambda tn, cap, seq, kw: tn.contract_ctmrg(max_bond=cap, cutoff=0.0, sequence=seq, lazy=True, **kw),
    "ctmrg-strip": lambda tn, cap, seq, kw: tn.contract_ctmrg(max_bond=cap, cutoff=0.0, sequence=seq, strip_exponent=True, **kw),
    "hotrg": lambda tn, cap, seq, kw: tn.contract_hotrg(max_bond=cap, cutoff=0.0, sequence=tuple(d[0] for d in seq), **kw),
    "hotrg-lazy": lambda tn, cap, seq, kw: tn.contract_hotrg(max_bond=cap, cutoff=0.0, sequence=tuple(d[0] for d in seq), lazy=True, **kw),
    "hotrg-eq": lambda tn, cap, seq, kw: tn.contract_hotrg(max_bond=cap, cutoff=0.0, sequence=tuple(d[0] for d in seq), equalize_norms=1.0, **kw),
    "hotrg-cholesky": lambda tn, cap, seq, kw: tn.contract_hotrg(max_bond=cap, cutoff=0.0, sequence=tuple(d[0] for d in seq),
                                                               reduce_opts=dict(method="cholesky"), **kw),
}


def _proj_params():
    out = []
    cells = [((4, 3), ("xmin",), {}), ((4, 3), ("xmax",), {}), ((3, 4), ("ymin",), {}), ((3, 4), ("ymax",), {}),
             ((4, 4), ("xmin", "xmax"), {}), ((4, 4), ("ymax", "ymin"), {}), ((3, 3), ("xmin",), {}), ((3, 3), ("ymax",), {}),
             ((5, 3), ("xmin",), {}), ((4, 4), ("xmin", "ymin"), {"num_only_2d": True})]
    for shape, seq, extra in cells:
        for call in _PROJ_CALLS:
            if call.startswith("hotrg") and seq[0].endswith("max"):
                continue              # HOTRG has lattice directions ('x', 'y'), not sides
            q = shape in ((4, 3), (3, 4)) and seq in (("xmin",), ("ymin",)) and call in ("projector2d", "ctmrg", "hotrg")
            out.append({"shape": shape, "seq": seq, "call": call, "two": bool(extra), "_tiers": _Q if q else _T})
    return out


@obligation(PROP, params=_proj_params(), **_CERT)
@certified
def projector_schemes_exact(mk, shape, seq, call, two):
    """contract_boundary(mode='projector2d') / contract_ctmrg / contract_hotrg (+ lazy, strip_exponent,
    equalize_norms, cholesky reduction) with cap >= exact bond and cutoff 0: the exact value.  Symbolic
    instances: product cut (see above); numeric cross-run: bond 2 everywhere"""
    mk.encodes(c2.TensorNetwork2D.contract_ctmrg, c2.TensorNetwork2D.contract_hotrg, c2.TensorNetwork2D.coarse_grain_hotrg,
               c2.TensorNetwork2D._contract_boundary_projector, c2.TensorNetwork2D._contract_boundary_core_via_1d,
               tc.TensorNetwork.insert_compressor_between_regions, decomp.compute_oblique_projectors,
               decomp.squared_op_to_reduced_factor, c1c.tensor_network_1d_compress)
    Lx, Ly = shape
    if two and mk.sym:
        return _numeric_only(mk, "cuts in both lattice directions: no product-cut instance exists")
    if mk.sym and "strip" in call:
        return _numeric_only(mk, "sign / magnitude split of the final scalar branches on a quantity with a fractional power")
    if mk.sym and (len(seq) > 1 or max(shape) > 4):
        return _numeric_only(mk, "several projector steps: the Gram matrices of already merged regions are out of reach")
    tn = lattice2d(mk, Lx, Ly, _cut_pattern(seq[0]), kind="real", numkind="cplx")
    want = exact(tn)
    kw = {"max_unfinished": 0} if (two and not call.startswith("ctmrg")) else {}      # contract_ctmrg has no max_unfinished
    # lazy projectors of a first sweep belong to both regions of a perpendicular cut: its exact bond is 2**3
    cap = 16 if two else (4 if max(Lx, Ly) < 5 else 8)
    with spectrum("pos"):
        res = _PROJ_CALLS[call](tn, cap, seq, kw)
    if "lazy" in call:
        mk.same("lazy: a network with the projectors left in is returned", isinstance(res, qtn.TensorNetwork), True)
    mk.eq(f"{call}(max_bond>=exact, cutoff=0.0, sequence={seq}) == exact value", value(res), want)
    mk.eq("the network is left alone", exact(tn), want)


@obligation(PROP, params=[{"which": w} for w in ("oblique-2x2", "oblique-absorb", "reduced-right", "reduced-left",
                                                  "reduced-cholesky", "insert-product", "similarity")], **_CERT)
@certified
def projector_lemmas(mk, which):
    """the building blocks of every projector scheme, on the real functions with symbolic operands:
    compute_oblique_projectors (R_l P_l P_r R_r == R_l R_r without truncation), squared_op_to_reduced_factor
    (R^dag R == X^dag X / R R^dag == X X^dag), similarity_compress (C_l C_r == 1 without truncation),
    insert_compressor_between_regions on a product cut"""
    mk.encodes(decomp.compute_oblique_projectors, decomp.squared_op_to_reduced_factor, decomp.similarity_compress,
               tc.TensorNetwork.insert_compressor_between_regions, decomp.safe_inverse)
    k = "real" if mk.sym else "cplx"
    if which.startswith("oblique"):
        shp = {"oblique-2x2": ((2, 2), (2, 2)), "oblique-3x2x3": ((3, 2), (2, 3)), "oblique-absorb": ((2, 2), (2, 2))}[which]
        Rl, Rr = mk.array("L", shp[0], k), mk.array("R", shp[1], k)
        M = ref.matmul(Rl, Rr)
        for absorb in (("both",) if which != "oblique-absorb" else ("left", "right")):
            Pl, Pr = decomp.compute_oblique_projectors(Rl, Rr, max_bond=4, cutoff=0.0, absorb=absorb)
            mk.eq(f"compute_oblique_projectors(absorb={absorb}): R_l P_l P_r R_r == R_l R_r",
                  ref.matmul(ref.matmul(Rl, Pl), ref.matmul(Pr, Rr)), M)
        return
    if which.startswith("reduced"):
        X = mk.array("X", (3, 2), k)
        with spectrum("pos"):
            if which == "reduced-right":
                x2 = ref.matmul(ref.dag(X), X)
                R = decomp.squared_op_to_reduced_factor(x2, 3, 2, right=True)
                mk.eq("squared_op_to_reduced_factor(right=True): R^dag R == X^dag X", ref.matmul(ref.dag(R), R), x2)
            elif which == "reduced-left":
                Y = X.T
                y2 = ref.matmul(Y, ref.dag(Y))
                Lf = decomp.squared_op_to_reduced_factor(y2, 2, 3, right=False)
                mk.eq("squared_op_to_reduced_factor(right=False): L L^dag == Y Y^dag", ref.matmul(Lf, ref.dag(Lf)), y2)
            else:
                x2 = ref.matmul(ref.dag(X), X)
                R = decomp.squared_op_to_reduced_factor(x2, 3, 2, right=True, method="cholesky", shift=False)
                mk.eq("squared_op_to_reduced_factor(method='cholesky'): R^dag R == X^dag X", ref.matmul(ref.dag(R), R), x2)
        return
    if which == "similarity":
        E = mk.array("E", (2, 2), k)
        for method in ("eig", "svd") if not mk.sym else ("svd",):
            Cl, Cr = decomp.similarity_compress(E, 2, method=method)
            mk.eq(f"similarity_compress(max_bond = size, {method}): C_l C_r == 1", ref.matmul(Cl, Cr), ref.eye(2, like=E))
        return
    # insert-product: two regions joined by two bonds of dimension 1 (a product cut) plus outer legs
    A = qtn.Tensor(mk.array("A", (2, 1, 1), k), ("a", "k1", "k2"), tags="A")
    B = qtn.Tensor(mk.array("B", (1, 1, 2), k), ("k1", "k2", "b"), tags="B")
    tn = A | B
    want = exact(tn, ("a", "b"))
    with spectrum("pos"):
        t2 = tn.insert_compressor_between_regions(["A"], ["B"], max_bond=4, cutoff=0.0)
    mk.same("two projector tensors are inserted", t2.num_tensors, 4)
    mk.eq("insert_compressor_between_regions on a product cut: value unchanged", exact(t2, ("a", "b")), want)


def _pcap_params():
    out = []
    for chi in (3, 2, 1):
        for d in ("x", "y", "x-odd", "y-odd"):
            for opt in ("plain", "lazy", "canonize"):
                out.append({"scheme": "coarse_grain_hotrg", "arg": d, "opt": opt, "chi": chi, "_tiers": _Q if (chi == 3 and opt == "plain") else _T})
        for seq in (("x", "y"), ("y", "x"), ("x",), ("y",)):
            out.append({"scheme": "contract_hotrg", "arg": seq, "opt": "plain", "chi": chi, "_tiers": _Q if (chi == 3 and seq == ("x", "y")) else _T})
        for seq in (None, ("xmin",), ("xmax", "ymin"), ("ymax", "xmin", "ymin", "xmax")):
            for opt in ("plain", "lazy"):
                out.append({"scheme": "contract_ctmrg", "arg": seq, "opt": opt, "chi": chi, "_tiers": _Q if (chi == 3 and opt == "plain" and seq is None) else _T})
    return out


@obligation(PROP, params=_pcap_params(), wall_s=500, timeout_s=600, max_paths=64, exc_is_violation=True)
def projector_schemes_cap(mk, scheme, arg, opt, chi):
    """coarse_grain_hotrg / contract_hotrg / contract_ctmrg with a truncating cap and cutoff 0: in the network
    handed over every bond across a compressed cut is <= chi (lazy: the bond of every projector pair), the
    coarse lattice has the documented size"""
    mk.encodes(c2.TensorNetwork2D.coarse_grain_hotrg, c2.TensorNetwork2D.contract_hotrg, c2.TensorNetwork2D.contract_ctmrg,
               tc.TensorNetwork.insert_compressor_between_regions, decomp.compute_oblique_projectors)
    if mk.sym and opt == "canonize":
        return _numeric_only(mk, "gauge_all_simple iterates to a tolerance")
    Lx, Ly = (4, 4) if not mk.sym else ((4, 3) if scheme != "contract_ctmrg" else (3, 3))
    if scheme == "coarse_grain_hotrg" and arg.endswith("-odd"):
        arg = arg[0]
        Lx, Ly = (5, 3) if arg == "x" else (3, 5)       # an odd number of lines: the last one is kept as it is
    elif scheme == "coarse_grain_hotrg" and mk.sym and arg == "y":
        Lx, Ly = 3, 4
    tn = lattice2d(mk, Lx, Ly, "all", kind="real", numkind="cplx")
    lazy = opt == "lazy"
    with shapes_only():
        if scheme == "coarse_grain_hotrg":
            res = tn.coarse_grain_hotrg(arg, max_bond=chi, cutoff=0.0, lazy=lazy, canonize=(opt == "canonize"))
            nx, ny = ((Lx + 1) // 2, Ly) if arg == "x" else (Lx, (Ly + 1) // 2)
            mk.same(f"coarse_grain_hotrg({arg!r}): coarse lattice size", (res.Lx, res.Ly), (nx, ny))
            if not lazy:
                mk.same("one tensor per coarse site", res.num_tensors, nx * ny)
                mk.same("every coarse site tag is present", all(res.site_tag(i, j) in res.tag_map for i in range(nx) for j in range(ny)), True)
        elif scheme == "contract_hotrg":
            seq = arg if not mk.sym else arg[:1]        # symbolic run: the first coarse-graining only
            res = tn.contract_hotrg(max_bond=chi, cutoff=0.0, sequence=seq, final_contract=False,
                                    **({"max_separation": 1, "max_unfinished": 0} if len(seq) > 1 else {}))
        else:
            seq = arg
            if mk.sym:
                seq = (arg or ("xmin",))[:1]            # symbolic run: the first boundary step only
            res = tn.contract_ctmrg(max_bond=chi, cutoff=0.0, sequence=seq, final_contract=False, lazy=lazy)
    mk.same("a network is handed over", isinstance(res, qtn.TensorNetwork), True)
    if lazy:
        orig = set(tn.ind_map)
        bonds = [res.ind_size(ix) for ix in res.inner_inds()
                 if all(not (set(res.tensor_map[tid].inds) & orig) for tid in res.ind_map[ix])]
        mk.same("lazy: every bond between two inserted projectors <= chi", max(bonds + [chi]), chi)
    else:
        cap_goal(mk, f"{scheme}({arg}, max_bond={chi}, cutoff=0.0, {opt})", res, max(chi, 2))


# ---------------------------------------------------------------------- 3D lattices

PAT3D = {
    "all": lambda a, b: 2,
    "x": lambda a, b: 2 if a[0] != b[0] else 1,            # every bond along x
    "y": lambda a, b: 2 if a[1] != b[1] else 1,
    "z": lambda a, b: 2 if a[2] != b[2] else 1,
    "yz": lambda a, b: 2 if a[0] == b[0] else 1,           # every bond inside the x planes
    "xz": lambda a, b: 2 if a[1] == b[1] else 1,
    "xy": lambda a, b: 2 if a[2] == b[2] else 1,
    "path": lambda a, b: 2 if frozenset((a, b)) in _PATH3D else 1,
    "one": lambda a, b: 1,
}
_PATH3D = {frozenset(((0, 0, 0), (1, 0, 0))), frozenset(((1, 0, 0), (1, 1, 0))), frozenset(((1, 1, 0), (1, 1, 1))),
           frozenset(((0, 0, 0), (0, 0, 1))), frozenset(((0, 0, 1), (0, 1, 1)))}


def lattice3d(mk, Lx, Ly, Lz, pattern="all", kind="real", numkind=None):
    pat = PAT3D[pattern] if mk.sym else PAT3D["all"]
    k = kind if mk.sym else (numkind or kind)
    tn = qtn.TensorNetwork3D.new(Lx=Lx, Ly=Ly, Lz=Lz, site_tag_id="I{},{},{}", x_tag_id="X{}", y_tag_id="Y{}", z_tag_id="Z{}")
    L = (Lx, Ly, Lz)
    for i, j, k_ in itertools.product(range(Lx), range(Ly), range(Lz)):
        inds, shape = [], []
        for ax in range(3):
            for step in (-1, 1):
                nb = [i, j, k_]
                nb[ax] += step
                if 0 <= nb[ax] < L[ax]:
                    a, b = sorted(((i, j, k_), tuple(nb)))
                    inds.append(_bname(a, b))
                    shape.append(pat(a, b))
        tn |= qtn.Tensor(mk.array(f"T{i}{j}{k_}", tuple(shape), k), inds, tags=[f"I{i},{j},{k_}", f"X{i}", f"Y{j}", f"Z{k_}"])
    return tn


_DIRS3 = ("xmin", "xmax", "ymin", "ymax", "zmin", "zmax")


def _shape3(direction):
    ax = "xyz".index(direction[0])
    s = [2, 2, 2]
    s[ax] = 3
    return tuple(s)


OPTS3D = {
    "peps": dict(mode="peps"),
    "peps-nocanon": dict(mode="peps", canonize=False),
    "peps-nointerleave": dict(mode="peps", canonize_interleave=False),
    "peps-early": dict(mode="peps", compress_late=False),
    "projector3d": dict(mode="projector3d"),
    "l2bp3d": dict(mode="l2bp3d"),
    "local-early": dict(mode="local-early"),
    "local-late": dict(mode="local-late"),
    "projector": dict(mode="projector"),
    "superorthogonal": dict(mode="superorthogonal"),
    "l2bp": dict(mode="l2bp"),
}

_SYM3D = ("peps", "peps-nocanon", "peps-nointerleave", "peps-early", "ctmrg")


def _b3_params():
    out = []
    for d in _DIRS3:
        for opt in list(OPTS3D) + ["ctmrg", "ctmrg-lazy", "hotrg"]:
            if opt == "hotrg" and d.endswith("max"):
                continue
            q = (opt == "peps" and d in ("xmin", "ymax", "zmin")) or (opt in ("ctmrg", "projector3d") and d == "zmax")
            out.append({"side": d, "opt": opt, "_tiers": _Q if q else _T})
    return out


@obligation(PROP, params=_b3_params(), **_CERT)
@certified
def boundary3d_exact(mk, side, opt):
    """TensorNetwork3D.contract_boundary (every mode) / contract_ctmrg / contract_hotrg, one plane step from
    each of the six sides, cap >= exact bond, cutoff 0: the exact value.  Symbolic instances (modes 'peps' and
    CTMRG): product cut (bond 2 along the sweep axis, 1 inside the planes); numeric: bond 2 everywhere"""
    mk.encodes(c3.TensorNetwork3D.contract_boundary, c3.TensorNetwork3D._contract_interleaved_boundary_sequence,
               c3.TensorNetwork3D.contract_boundary_from, c3.TensorNetwork3D._contract_boundary_core,
               c3.TensorNetwork3D._contract_boundary_projector, c3.TensorNetwork3D._contract_boundary_l2bp,
               c3.TensorNetwork3D._contract_boundary_core_via_2d, c3.TensorNetwork3D.canonize_plane, c3.TensorNetwork3D.compress_plane,
               c3.TensorNetwork3D.contract_ctmrg, c3.TensorNetwork3D.contract_hotrg, c3.TensorNetwork3D.coarse_grain_hotrg, c3.Rotator3D)
    if mk.sym and opt not in _SYM3D:
        return _numeric_only(mk, "projector / message based plane compression: no certificate within the engine's degree bound "
                                 "(or iteration to a tolerance)")
    shape = _shape3(side) if opt != "hotrg" else tuple(4 if c == side[0] else 2 for c in "xyz")
    tn = lattice3d(mk, *shape, pattern=side[0], kind="real", numkind="cplx")
    want = exact(tn)
    cap = 4
    with spectrum("pos"):
        if opt == "ctmrg":
            res = tn.contract_ctmrg(max_bond=cap, cutoff=0.0, sequence=(side,))
        elif opt == "ctmrg-lazy":
            res = tn.contract_ctmrg(max_bond=cap, cutoff=0.0, sequence=(side,), lazy=True)
        elif opt == "hotrg":
            res = tn.contract_hotrg(max_bond=cap, cutoff=0.0, sequence=(side[0],))
        else:
            res = tn.contract_boundary(max_bond=cap, cutoff=0.0, sequence=(side,), **OPTS3D[opt])
    mk.eq(f"3D {opt}(max_bond={cap}, cutoff=0.0, sequence=({side},)) == exact value", value(res), want)
    mk.eq("the network is left alone", exact(tn), want)


@obligation(PROP, params=[{"side": d, "opt": o, "chi": c, "_tiers": _Q if (o in ("peps", "projector3d") and c == 3 and d in ("xmin", "zmax")) else _T}
                          for d in _DIRS3 for o in OPTS3D for c in (3, 2)], wall_s=500, timeout_s=600, max_paths=64, exc_is_violation=True)
def boundary3d_cap(mk, side, opt, chi):
    """3D boundary contraction with a truncating cap (below the merged plane bond 4), cutoff 0, handed over
    with final_contract=False: no two tensors share more than chi"""
    mk.encodes(c3.TensorNetwork3D.contract_boundary, c3.TensorNetwork3D._contract_boundary_core, c3.TensorNetwork3D._contract_boundary_projector,
               c3.TensorNetwork3D._contract_boundary_l2bp, c3.TensorNetwork3D._contract_boundary_core_via_2d, c3.TensorNetwork3D.compress_plane)
    if mk.sym and opt in ("l2bp3d", "l2bp", "superorthogonal", "projector", "local-early", "local-late"):
        return _numeric_only(mk, "iterates to a numerical tolerance / gauges by simple update")
    shape = _shape3(side)
    tn = lattice3d(mk, *shape, pattern="all", kind="real", numkind="cplx")
    with shapes_only():
        res = tn.contract_boundary(max_bond=chi, cutoff=0.0, sequence=(side,), final_contract=False, **OPTS3D[opt])
    mk.same("a network is handed over", isinstance(res, qtn.TensorNetwork), True)
    mk.same("two planes are left", res.num_tensors, 8)
    cap_goal(mk, f"3D contract_boundary(max_bond={chi}, cutoff=0.0, sequence=({side},), {opt}, final_contract=False)", res, chi)


@obligation(PROP, params=[{"mode": m} for m in ("peps", "projector3d")])
def boundary3d_from_returns(mk, mode):
    """TensorNetwork3D.contract_boundary_from(inplace=False): like its 2D counterpart it has to hand the
    contracted copy over (the in-place variant returns the network itself)"""
    mk.encodes(c3.TensorNetwork3D.contract_boundary_from)
    tn = lattice3d(mk, 3, 2, 2, pattern="x", kind="real", numkind="cplx")
    want = exact(tn)
    with spectrum("pos"):
        res = tn.contract_boundary_from(xrange=(0, 1), yrange=(0, 1), zrange=(0, 1), from_which="xmin", max_bond=4, cutoff=0.0, mode=mode)
    mk.same("the input is left alone", tn.num_tensors, 12)
    mk.same(f"3D contract_boundary_from(from_which='xmin', mode={mode!r}, inplace=False) returns the contracted network",
            isinstance(res, qtn.TensorNetwork), True)
    if isinstance(res, qtn.TensorNetwork):
        mk.same("two planes merged", res.num_tensors, 8)


# ---------------------------------------------------------------------- periodic lattices

_CYC = {"y": (False, True), "x": (True, False), "xy": (True, True)}
_CYC_CALLS = {
    "mps": lambda tn, cap, d: tn.contract_boundary(max_bond=cap, cutoff=0.0, sequence=(d,)),
    "mps-default-seq": lambda tn, cap, d: tn.contract_boundary(max_bond=cap, cutoff=0.0),
    "direct": lambda tn, cap, d: tn.contract_boundary(max_bond=cap, cutoff=0.0, sequence=(d,), mode="direct"),
    "projector2d": lambda tn, cap, d: tn.contract_boundary(max_bond=cap, cutoff=0.0, sequence=(d,), mode="projector2d"),
    "ctmrg": lambda tn, cap, d: tn.contract_ctmrg(max_bond=cap, cutoff=0.0, sequence=(d,)),
    "ctmrg-default-seq": lambda tn, cap, d: tn.contract_ctmrg(max_bond=cap, cutoff=0.0),
    "hotrg": lambda tn, cap, d: tn.contract_hotrg(max_bond=cap, cutoff=0.0, sequence=(d[0],)),
}


def _cyc_params():
    out = []
    for cyc in _CYC:
        for d in _DIRS:
            for call in _CYC_CALLS:
                if call == "hotrg" and d.endswith("max"):
                    continue
                if call.endswith("default-seq") and d != "xmin":
                    continue
                q = call in ("mps", "projector2d", "hotrg") and ((cyc, d) in (("y", "xmin"), ("x", "ymin"), ("xy", "xmax")))
                out.append({"cyclic": cyc, "side": d, "call": call, "_tiers": _Q if q else _T})
    return out


@obligation(PROP, params=_cyc_params(), **_CERT)
@certified
def periodic_exact(mk, cyclic, side, call):
    """lattices periodic in y, in x, in both: boundary contraction ('mps', 'direct', 'projector2d'), CTMRG and HOTRG
    with cap >= exact bond and cutoff 0 give the exact value (symbolic instances: product cut)"""
    mk.encodes(c2.TensorNetwork2D.contract_boundary, c2.TensorNetwork2D.contract_ctmrg, c2.TensorNetwork2D.contract_hotrg,
               c2.TensorNetwork2D.is_cyclic_x, c2.TensorNetwork2D.is_cyclic_y, c2.Rotator2D.get_jnext, c2.TensorNetwork2D._contract_boundary_projector,
               c2.TensorNetwork2D.coarse_grain_hotrg)
    if mk.sym and call.endswith("default-seq") and cyclic != "y":
        return _numeric_only(mk, "default sequence sweeps across cuts of both kinds: no product-cut instance")
    if mk.sym and side[0] in cyclic and cyclic != "xy" and call in ("projector2d", "ctmrg", "hotrg", "ctmrg-default-seq"):
        return _numeric_only(mk, "sweep along the periodic direction: the regions' Gram matrices are out of reach")
    if mk.sym and cyclic == "xy" and call in ("projector2d", "ctmrg", "hotrg"):
        return _numeric_only(mk, "doubly periodic lattice: the regions' Gram matrices have no product-cut instance within reach")
    Lx, Ly = (4, 3) if side[0] == "x" else (3, 4)
    if call == "mps-default-seq" or call == "ctmrg-default-seq":
        Lx, Ly = 4, 3
    tn = lattice2d(mk, Lx, Ly, _cut_pattern(side), kind="real", numkind="cplx", cyclic=_CYC[cyclic])
    want = exact(tn)
    with spectrum("pos"):
        res = _CYC_CALLS[call](tn, 8, side)
    mk.eq(f"periodic in {cyclic}: {call}(max_bond=8, cutoff=0.0, from {side}) == exact value", value(res), want)


def _line_cap_goal(mk, label, res, line_tags, chi):
    """bonds between two tensors of the boundary line (any tensor carrying one of its site tags) <= chi"""
    ts = [t for t in res if any(tag in t.tags for tag in line_tags)]
    big = _largest_pair(qtn.TensorNetwork(ts)) if len(ts) > 1 else 1
    mk.same(label + f": largest bond inside the boundary line <= {chi}", max(big, chi), chi)


@obligation(PROP, params=[{"cyclic": c, "side": d, "call": k, "chi": x, "_tiers": _Q if (k == "projector2d" and x == 3 and (c, d) in (("y", "xmin"), ("x", "ymax"))) else _T}
                          for c in _CYC for d in _DIRS for k in ("projector2d", "ctmrg", "hotrg", "mps", "direct") for x in (3, 2)
                          if not (k == "hotrg" and d.endswith("max"))
                          and not (k in ("mps", "direct") and ("y" if d[0] == "x" else "x") in c)], wall_s=500, timeout_s=600, max_paths=64, exc_is_violation=True)
def periodic_cap(mk, cyclic, side, call, chi):
    """periodic lattices, truncating cap, cutoff 0: every bond inside the boundary line that is handed over
    (including the periodic one where the line is a ring) is <= chi.  The 'mps' / 'direct' cores treat the line as
    an OPEN chain: for them only lattices that are not periodic along the line are in the claim"""
    mk.encodes(c2.TensorNetwork2D.contract_boundary, c2.TensorNetwork2D.contract_ctmrg, c2.TensorNetwork2D.coarse_grain_hotrg,
               c2.TensorNetwork2D._contract_boundary_projector, c2.Rotator2D.get_jnext)
    along = "y" if side[0] == "x" else "x"
    if call in ("mps", "direct") and along in cyclic:
        raise Skip("open-chain boundary cores on a line that is a ring: the periodic bond is outside their compression sweep")
    Lx, Ly = (4, 4) if not mk.sym else (3, 3)
    tn = lattice2d(mk, Lx, Ly, "all", kind="real", numkind="cplx", cyclic=_CYC[cyclic])
    with shapes_only():
        if call == "hotrg":
            res = tn.coarse_grain_hotrg(side[0], max_bond=chi, cutoff=0.0)
            line = [res.site_tag(0, j) for j in range(res.Ly)] if side[0] == "x" else [res.site_tag(i, 0) for i in range(res.Lx)]
        else:
            kw = dict(mode="projector2d") if call == "projector2d" else (dict(mode="direct") if call == "direct" else {})
            fn = tn.contract_ctmrg if call == "ctmrg" else tn.contract_boundary
            res = fn(max_bond=chi, cutoff=0.0, sequence=(side,), final_contract=False, **kw)
            first = 0 if side.endswith("min") else ((Lx if side[0] == "x" else Ly) - 1)
            line = [tn.site_tag(first, j) for j in range(Ly)] if side[0] == "x" else [tn.site_tag(i, first) for i in range(Lx)]
    _line_cap_goal(mk, f"periodic in {cyclic}: {call} from {side}, max_bond={chi}, cutoff=0.0", res, line, chi)


# ---------------------------------------------------------------------- contract_boundary(around=...)

def _around_params():
    out = []
    for shape, around in (((4, 4), ((2, 2),)), ((4, 4), ((1, 1),)), ((4, 4), ((1, 2), (2, 2))), ((5, 4), ((2, 1), (2, 2))), ((5, 5), ((2, 2),))):
        for opt in ("mps", "full-bond", "projector2d", "ctmrg"):
            for chi in (None, 3):
                q = shape == (4, 4) and around == ((2, 2),) and opt in ("mps", "projector2d")
                out.append({"shape": shape, "around": around, "opt": opt, "chi": chi, "_tiers": _Q if q else _T})
    return out


@obligation(PROP, params=_around_params(), **_CERT)
@certified
def boundary_around(mk, shape, around, opt, chi):
    """contract_boundary / contract_ctmrg(around=sites): the boundaries stop next to the bounding box of the sites.
    chi=None: cap 16 >= every merged bond, the network handed over denotes the exact value; chi=3: truncating, every
    pair of tensors shares <= 3.  In both cases the sites of the box are left as they were"""
    mk.encodes(c2.TensorNetwork2D.contract_boundary, c2.TensorNetwork2D._contract_interleaved_boundary_sequence, c2.TensorNetwork2D.contract_ctmrg)
    Lx, Ly = shape
    projector = opt in ("projector2d", "ctmrg")
    if mk.sym and chi is None and (projector or max(shape) > 4):
        return _numeric_only(mk, "cuts in both lattice directions (no product-cut instance) / lattice beyond the certificate's reach")
    if mk.sym and chi is not None and (projector or opt == "full-bond"):
        Lx, Ly = min(Lx, 4), min(Ly, 4)
    tn = lattice2d(mk, Lx, Ly, "rows" if chi is None else "all", kind="real", numkind="cplx")
    around = tuple((min(i, Lx - 1), min(j, Ly - 1)) for i, j in around)
    want = exact(tn) if chi is None else None
    kw = dict(sequence=("xmin", "xmax", "ymin", "ymax")) if opt != "ctmrg" else {}
    fn = tn.contract_ctmrg if opt == "ctmrg" else tn.contract_boundary
    mode = {} if opt in ("ctmrg", "mps") else {"mode": opt}
    if chi is None:
        with spectrum("pos"):
            res = fn(max_bond=16, cutoff=0.0, around=around, **mode, **kw)
    elif mk.sym and (projector or opt == "full-bond"):
        return _numeric_only(mk, "truncating multi-side sweep of a Gram-matrix mode: symbolic operands explode")
    else:
        with shapes_only():
            res = fn(max_bond=chi, cutoff=0.0, around=around, **mode, **kw)
    mk.same("around=...: a network is handed over (no final contraction)", isinstance(res, qtn.TensorNetwork), True)
    i0, i1 = min(a[0] for a in around), max(a[0] for a in around)
    j0, j1 = min(a[1] for a in around), max(a[1] for a in around)
    for i in range(i0, i1 + 1):
        for j in range(j0, j1 + 1):
            tids = res.tag_map[res.site_tag(i, j)]
            ok = len(tids) == 1 and sum(t.startswith("I") for t in res.tensor_map[next(iter(tids))].tags) == 1
            mk.same(f"site ({i}, {j}) of the box is left as a lone site tensor", ok, True)
    # the lines next to the box are what is left: rows i0-1 .. i1+1, columns j0-1 .. j1+1 (clipped)
    nx = min(i1 + 1, Lx - 1) - max(i0 - 1, 0) + 1
    ny = min(j1 + 1, Ly - 1) - max(j0 - 1, 0) + 1
    mk.same("tensors left: the box and one line on each side", res.num_tensors, nx * ny)
    if chi is None:
        mk.eq(f"contract_boundary(around={around}, max_bond=16, cutoff=0.0, {opt}): the network handed over denotes the exact value",
              exact(res), want)
    else:
        cap_goal(mk, f"contract_boundary(around={around}, max_bond={chi}, cutoff=0.0, {opt})", res, chi)


# ---------------------------------------------------------------------- environments of two-layer networks

def _lenv_params():
    out = []
    for shape, pat in (((3, 2), "col0"), ((2, 3), "row0")):
        for what in ("lines", "plaq11", "plaq22", "plaq12", "plaq21"):
            for lt in ("KB", None):
                for opt in ("mps", "mps-nocanon", "full-bond"):
                    if opt == "full-bond" and lt is not None:
                        continue
                    q = opt == "mps" and lt == "KB" and what in ("lines", "plaq22")
                    out.append({"shape": shape, "pattern": pat, "what": what, "layers": lt, "opt": opt, "_tiers": _Q if q else _T})
    return out


@obligation(PROP, params=_lenv_params(), **_CERT)
@certified
def layered_environments(mk, shape, pattern, what, layers, opt):
    """<psi|psi> network of a PEPS: row / column environments (sandwich) and plaquette environments computed with
    layer_tags (each layer absorbed separately) or without, untruncating cap: every environment combined with the part
    of the lattice it excludes contracts to <psi|psi>"""
    mk.encodes(c2.TensorNetwork2D.compute_x_environments, c2.TensorNetwork2D.compute_y_environments,
               c2.TensorNetwork2D.compute_plaquette_environments, c2.TensorNetwork2D.compute_environments, *_ENC_BOUNDARY)
    Lx, Ly = shape
    norm, p = norm2d(mk, Lx, Ly, pattern, kind="real", numkind="cplx")
    want = exact(norm)
    kw = dict(OPTS2D[opt])
    if opt != "full-bond":
        kw["layer_tags"] = _LAYERS[layers]
    if what == "lines":
        plane = "x" if Lx >= Ly else "y"
        depth = max(Lx, Ly)
        envs = getattr(norm, f"compute_{plane}_environments")(max_bond=64, cutoff=0.0, **kw)
        for i in range(depth):
            full = qtn.TensorNetwork([envs[plane + "min", i], _lines(norm, plane + "min", [i]), envs[plane + "max", i]])
            closed_eq(mk, f"two layers, compute_{plane}_environments(layer_tags={_LAYERS[layers]}, {opt}): sandwich of line {i} == <psi|psi>", full, want)
        env_goals(mk, norm, envs, plane + "min", want, "two layers, one side")
    else:
        bx, by = int(what[4]), int(what[5])
        penvs = norm.compute_plaquette_environments(x_bsz=bx, y_bsz=by, max_bond=64, cutoff=0.0, **kw)
        plaquette_goals(mk, norm, penvs, bx, by, want,
                        f"two layers, compute_plaquette_environments({bx}, {by}, layer_tags={_LAYERS[layers]}, {opt})")


@obligation(PROP, params=[{"scheme": sc, "axis": a, "odd": o, "chi": c, "_tiers": _Q if (c == 3 and a == "z" and sc == "hotrg") else _T}
                          for sc in ("hotrg", "ctmrg") for a in "xyz" for o in (False, True) for c in (3, 2)],
            wall_s=500, timeout_s=600, max_paths=64, exc_is_violation=True)
def schemes3d_cap(mk, scheme, axis, odd, chi):
    """3D coarse_grain_hotrg(direction) / contract_ctmrg(sequence=(side,), final_contract=False) with a truncating cap and
    cutoff 0: the coarse lattice has the documented size (an odd line count keeps its last plane) and no two tensors of the
    network handed over share more than max(chi, 2)"""
    mk.encodes(c3.TensorNetwork3D.coarse_grain_hotrg, c3.TensorNetwork3D.contract_ctmrg, c3.TensorNetwork3D._contract_boundary_projector,
               tc.TensorNetwork.insert_compressor_between_regions)
    n = (3 if odd else 4) if scheme == "hotrg" else (3 if odd else 4)
    shape = tuple(n if c == axis else 2 for c in "xyz")
    tn = lattice3d(mk, *shape, pattern="all", kind="real", numkind="cplx")
    with shapes_only():
        if scheme == "hotrg":
            res = tn.coarse_grain_hotrg(axis, max_bond=chi, cutoff=0.0)
            want = tuple((n + 1) // 2 if c == axis else 2 for c in "xyz")
            mk.same(f"3D coarse_grain_hotrg({axis!r}) on {shape}: coarse lattice size", (res.Lx, res.Ly, res.Lz), want)
            mk.same("one tensor per coarse site", res.num_tensors, want[0] * want[1] * want[2])
        else:
            side = axis + ("max" if odd else "min")
            if mk.sym:
                shape = tuple(3 if c == axis else 2 for c in "xyz")
                tn = lattice3d(mk, *shape, pattern="all", kind="real", numkind="cplx")
            res = tn.contract_ctmrg(max_bond=chi, cutoff=0.0, sequence=(side,), final_contract=False)
            # one step, then at most max_unfinished=1 axis is still further apart than max_separation: stop
            mk.same("one plane has been absorbed", res.num_tensors, 4 * (max(shape) - 1))
    cap_goal(mk, f"3D {scheme} along {axis} (max_bond={chi}, cutoff=0.0)", res, max(chi, 2))


# ---------------------------------------------------------------------- contract_boundary(around=...): every target site, 2D and 3D

_AR_OPTS = {
    2: {"mps": dict(mode="mps"), "mps-nocanon": dict(mode="mps", canonize=False), "full-bond": dict(mode="full-bond"),
        "projector2d": dict(mode="projector2d"), "ctmrg": None},
    3: {"peps": dict(mode="peps"), "peps-nocanon": dict(mode="peps", canonize=False), "projector3d": dict(mode="projector3d"),
        "projector3d-canon": dict(mode="projector3d", canonize=True), "ctmrg": None},
}
_AR_DRIVERS = {
    "default": {},                                                  # max_separation=1, max_unfinished=1
    "reach-target": dict(max_separation=0, max_unfinished=0),       # every side goes on until it stands next to the target
}


def _ar_seqs(nd):
    sides = [a + m for a in "xyz"[:nd] for m in ("min", "max")]
    return {"default": None, "reversed": tuple(reversed(sides)), "max-first": tuple(s for s in sides if s.endswith("max")) + tuple(s for s in sides if s.endswith("min")),
            "last-axis-only": (sides[-2], sides[-1]), "first-axis-only": (sides[0], sides[1])}


def _ar_params():
    out = []
    quick_shapes = ((2, 1, 3), (1, 2, 3), (3, 1, 2), (2, 3), (3, 2))
    more_shapes = ((2, 2, 3), (3, 2, 1), (2, 1, 4), (2, 2, 4), (3, 3, 4), (4, 3, 3), (3, 4, 3), (3, 4), (4, 3), (4, 4))
    for shape in quick_shapes + more_shapes:
        nd = len(shape)
        for opt in _AR_OPTS[nd]:
            for seq in _ar_seqs(nd):
                for drv in _AR_DRIVERS:
                    if max(shape) > 3 and np.prod(shape) > 16 and (opt not in ("peps", "mps", "projector3d") or seq not in ("default", "reversed")):
                        continue
                    if nd == 2 and opt == "ctmrg" and drv != "default":
                        continue        # 2D contract_ctmrg has no max_unfinished argument
                    q = shape in quick_shapes and ((opt in ("peps", "mps") and seq in ("default", "reversed"))
                                                   or (opt in ("projector3d", "projector2d", "ctmrg") and seq == "default" and drv == ("reach-target" if nd == 3 else "default")))
                    out.append({"shape": shape, "opt": opt, "seq": seq, "drv": drv, "_tiers": _Q if q else _T})
    return out


def _ar_targets(shape):
    sites = list(itertools.product(*(range(n) for n in shape)))
    pairs = []
    for a in sites:
        for ax in range(len(shape)):
            b = list(a)
            b[ax] += 1
            if b[ax] < shape[ax]:
                pairs.append((a, tuple(b)))
    return [(s,) for s in sites] + pairs[::2]


@obligation(PROP, params=_ar_params(), wall_s=500, timeout_s=600, max_paths=64, exc_is_violation=True)
def around_every_target(mk, shape, opt, seq, drv):
    """contract_boundary / contract_ctmrg(around=target) in 2D and 3D on small lattices with unequal sides, for EVERY single
    target site and every second nearest-neighbour pair, several `sequence` orders and both drivers settings (the default
    max_separation / max_unfinished and 'go on until every side stands next to the target'), cap >= every merged bond, cutoff 0:
    the target sites are handed over as lone tensors with their original tags, labels, shape and entries; with the second driver
    exactly the target box and one line / plane on each side of it are left; [numeric-only] the network handed over denotes the
    exact value, and with any other tensor X on a target site it denotes the value of the whole lattice with X on that site
    (environment + excluded site == whole).  Symbolic runs (structure goals): stubs without contracts, every bond 2"""
    nd = len(shape)
    core = c3 if nd == 3 else c2
    cls = core.TensorNetwork3D if nd == 3 else core.TensorNetwork2D
    mk.encodes(cls.contract_boundary, cls._contract_interleaved_boundary_sequence, cls.contract_ctmrg)
    if mk.sym:
        mk.note("numeric-only: the value goals of this cell (projector / multi-side sweeps have no product-cut instance); "
                "the structure goals are decided symbolically")
    make = (lambda: lattice3d(mk, *shape, pattern="all", kind="real", numkind="cplx")) if nd == 3 else \
        (lambda: lattice2d(mk, *shape, "all", kind="real", numkind="cplx"))
    tn = make()
    want = None if mk.sym else exact(tn)
    kw = dict(_AR_DRIVERS[drv])
    s = _ar_seqs(nd)[seq]
    if s is not None:
        kw["sequence"] = s
    for around in _ar_targets(shape):
        lab = f"{nd}D {shape} {opt}(around={around}, sequence={seq}, {drv})"
        fn = tn.contract_ctmrg if opt == "ctmrg" else tn.contract_boundary
        okw = _AR_OPTS[nd][opt] or {}
        if mk.sym:
            with shapes_only():
                res = fn(max_bond=4096, cutoff=0.0, around=around, **okw, **kw)
        else:
            res = fn(max_bond=4096, cutoff=0.0, around=around, **okw, **kw)
        mk.same(f"{lab}: a network is handed over", isinstance(res, qtn.TensorNetwork), True)
        lo = [min(a[ax] for a in around) for ax in range(nd)]
        hi = [max(a[ax] for a in around) for ax in range(nd)]
        box = list(itertools.product(*(range(lo[ax], hi[ax] + 1) for ax in range(nd))))
        intact = True
        for site in box:
            tag = tn.site_tag(*site)
            t0 = tn[tag]
            tids = res.tag_map.get(tag, ())
            ok = len(tids) == 1
            if ok:
                t1 = res.tensor_map[next(iter(tids))]
                ok = (set(t1.tags) == set(t0.tags)) and (set(t1.inds) == set(t0.inds)) and \
                    all(t1.ind_size(ix) == t0.ind_size(ix) for ix in t0.inds)
            mk.same(f"{lab}: site {site} is handed over as a lone tensor with its original tags, labels and shape", ok, True)
            intact &= bool(ok)
        if drv == "reach-target":
            n_left = int(np.prod([min(hi[ax] + 1, shape[ax] - 1) - max(lo[ax] - 1, 0) + 1 for ax in range(nd)]))
            full = s is None or len(s) == 2 * nd
            if full:
                mk.same(f"{lab}: tensors left = the target box and one line / plane on each side", res.num_tensors, n_left)
        if mk.sym or not intact:
            continue
        mk.eq(f"[numeric-only] {lab}: the network handed over denotes the exact value", exact(res) / want, 1.0)
        # environment + any tensor on the excluded sites == the whole lattice with that tensor on the sites
        tn_x, res_x = tn.copy(), res.copy()
        for site in around:
            tag = tn.site_tag(*site)
            t0 = tn_x[tag]
            X = np.asarray(mk.array("X" + "".join(map(str, around[0])) + "".join(map(str, site)) + f"n{len(around)}", t0.shape, "cplx"))
            t0.modify(data=X)
            t1 = res_x[tag]
            t1.modify(data=np.transpose(X, [t0.inds.index(ix) for ix in t1.inds]))
        mk.eq(f"[numeric-only] {lab}: environment + other tensors X on the target sites == whole lattice with X on the sites",
              exact(res_x) / exact(tn_x), 1.0)


# ---------------------------------------------------------------------- rank-deficient (inflated) bonds: mode x canonize grid

def _inflate_bonds(mk, tn):
    """every inner bond (size 2) becomes a size-3 bond of rank 2: A -> A M, B -> N B with M generic (2 x 3) and N = pinv(M),
    M N = 1: the value of the network is unchanged, every bond has a generic null space"""
    for ix in sorted(tn.inner_inds()):
        ta, tb = tn._inds_get(ix)
        M = np.asarray(mk.array("M" + ix, (2, 3), "cplx"))
        N = np.linalg.pinv(M)
        pa, pb = ta.inds.index(ix), tb.inds.index(ix)
        ta.modify(data=np.moveaxis(np.tensordot(ta.data, M, [(pa,), (0,)]), -1, pa))
        tb.modify(data=np.moveaxis(np.tensordot(tb.data, N, [(pb,), (1,)]), -1, pb))
    return tn


_RD_MODES = {
    2: ("mps", "full-bond", "direct", "zipup", "dm", "fit", "projector", "projector2d", "local-early", "local-late", "superorthogonal"),
    3: ("peps", "projector3d", "local-early", "local-late", "projector", "superorthogonal"),
}   # not 'l2bp' / 'l2bp3d': belief-propagation messages approximate the environment; on rank-deficient bonds their projectors are
    # not exact even untruncated (second plane step off by ~10% on the unchanged library): outside the claim, see META


def _rd_params():
    out = []
    for nd in (3, 2):
        for big in (False, True):
            for mode in _RD_MODES[nd]:
                for canonize in (False, True):
                    if (mode == "projector" and canonize) or mode == "dm" or (mode == "superorthogonal" and big and canonize):
                        continue        # gauging to a numerical tolerance before the projectors: not exact on rank-deficient bonds (META)
                    for side in (_DIRS3 if nd == 3 else _DIRS) + ("default",):
                        q = (not big) and ((nd == 3 and mode in ("peps", "projector3d", "projector") and side in ("xmin", "ymax", "zmin"))
                                           or (nd == 2 and mode in ("mps", "projector2d", "full-bond") and side in ("xmin", "ymax")))
                        out.append({"nd": nd, "big": big, "mode": mode, "canonize": canonize, "side": side, "_tiers": _Q if q else _T})
    return out


@obligation(PROP, params=_rd_params(), numeric=True, wall_s=500, timeout_s=600, exc_is_violation=True)
def rank_deficient_bonds_exact(mk, nd, big, mode, canonize, side):
    """[numeric-only] every mode the 2D / 3D boundary cores accept x canonize in (False, True) x every side (and the default
    sequence) on a lattice whose every bond is a size-3 bond of rank 2 (A -> A M, B -> pinv(M) B): with max_bond >= every merged
    bond and cutoff 0 the value is exact (projectors / gauges have to be computed in the basis they are inserted in; for full
    rank bonds an untruncated projector pair is the identity in any basis and hides this)"""
    cls = c3.TensorNetwork3D if nd == 3 else c2.TensorNetwork2D
    mk.encodes(cls.contract_boundary, cls.contract_boundary_from, cls._contract_boundary_projector)
    if mk.sym:
        return _numeric_only(mk, "projector-type / iterative schemes on bonds > 1; pseudo-inverse construction of the instance")
    if nd == 3:
        shape = tuple((3 if not big else 4) if (side == "default" or c == side[0]) and (big or side != "default" or c == "x") else 2 for c in "xyz")
        if big and side == "default":
            shape = (3, 3, 3)
        tn = lattice3d(mk, *shape, pattern="all", kind="cplx")
    else:
        shape = (3, 3) if not big else (4, 4)
        tn = lattice2d(mk, *shape, "all", kind="cplx")
    want = exact(tn)
    _inflate_bonds(mk, tn)
    mk.eq("[numeric-only] inflating the bonds leaves the value alone", exact(tn) / want, 1.0)
    kw = dict(sequence=(side,), max_separation=0) if side != "default" else {}
    res = tn.contract_boundary(max_bond=4096, cutoff=0.0, mode=mode, canonize=canonize, **kw)
    mk.eq(f"[numeric-only] {nd}D {shape} rank-2 bonds of size 3: contract_boundary(mode={mode!r}, canonize={canonize}, "
          f"{'sequence=(%s,), max_separation=0' % side if side != 'default' else 'default sequence'}, max_bond=4096, cutoff=0.0) == exact value",
          value(res) / want, 1.0)
