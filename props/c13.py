"""C13 - every route to a local expectation or reduced state gives the dense answer.

Every available route of the real library (exact contraction, cluster / simple-loop /
generalized-loop expansions whose cluster spans the whole network, 1D canonical and
environment routes, 2D plaquette-environment and boundary routes with an untruncating bond
cap, compressed-contraction routes, operator trace / partial transpose) is run on states whose
tensor entries are symbols (conj-pair complex wherever no LAPACK stub is involved) with
NON-SYMMETRIC COMPLEX symbolic operators, on site tuples in both orders and non-adjacent.
Each result is compared, as a polynomial identity, with <psi|O|psi> (/<psi|psi>) and with the
reduced density matrix computed from the dense state by an independent reference (explicit
index arithmetic, qv/ref.py).

Normalised results are rational functions: the engine represents 1/p by a defined symbol w
with the hypothesis w*p = 1; a normalised value is split as  value = w * X  and the goals
are  X == reference numerator  and  p == reference <psi|psi>  (cross-multiplied form; the
hypothesis on w is then no longer needed and is dropped, so these goals are plain polynomial
identities).  Routes that canonise or compress run on LAPACK contract stubs and their goals
are certified modulo the contracts (Q-CERT).
"""
import numpy as np

import quimb.tensor as qtn
from quimb.tensor import tensor_core as tc
from quimb.tensor.tnag import core as ag
from quimb.tensor.tn1d import core as c1
from quimb.tensor.tn2d import core as c2
from quimb.tensor.tn3d import core as c3

from qv import poly as P
from qv import ref
from qv.harness import obligation

PROP = "C13"
META = {
    "bounds": {
        "quick": {
            "arbitrary geometry": "path3 (phys dims 2,3,2), ring3, star4, ring4 (one site tuple), hyper3 (a bond label on 3 tensors; exact routes only); "
                                  "bond 2; all entries complex symbols",
            "operators": "full symbolic complex non-symmetric d^k x d^k matrices, k = 1..2 (3 in thorough)",
            "site tuples": "single sites, adjacent and non-adjacent pairs in both orders",
            "normalization": "False, True, 'return' / 'local' / 'separate' / 'prod' / 'global' where offered",
            "cluster / loop expansions": "max_distance >= diameter, loopunion, fillin; gloops / sloops = the whole ring (explicit and auto-generated); "
                                         "combine sum and prod; gauges none / all bonds (positive symbols)",
            "1D": "MPS L=3, bond 2: environment routes complex; canonical routes real with the record (c,c) as hypothesis, every centre c; "
                  "[numeric-only] canonical routes WITHOUT a record (centre detected by calc_current_orthog_center) on un-normalised complex "
                  "MPS L=4 bond 2 in left / right / mixed canonical form up to a scalar on any one tensor or on all, generic and product "
                  "states: every site, every ordered pair, normalized False / True",
            "2D normalize": "[numeric-only] normalize() x layer_tags x (balance_bonds, equalize_norms, inplace, mode, canonize) on complex PEPS "
                            "2x2, 3x2, 2x3 (3x3 with one lazy gate) incl. networks with more / fewer tensors than sites (lazy one- and two-site "
                            "gates, split gates, merged sites), then normalized=False expectations on the result",
            "2D": "PEPS 2x2 bond 2 complex (all modes: mps, full-bond, flat, ungrouped, x/y first); 3x2 with one entangled column (QR stubs)",
            "3D": "PEPS3D 2x2x2, bond 2 on a 3-bond path (complex), two site tuples",
            "operators networks": "MPO L=3, rectangular 2-site generic operator, PEPO 2x2",
        },
        "thorough": {
            "adds": "ring4 and star4 with every listed site tuple incl. triples, partial gauges, MPS L=4, record-free canonical routes on "
                    "L=5 bond 3, normalize() on every 3x3 / 2x3 variant, "
                    "every PEPS option x site tuple, 3x2 / 2x3 PEPS with two entangled columns / an entangled row, "
                    "every PEPS3D option x site tuple, cyclic MPO, unit-norm gauges for the global loop normalization",
        },
    },
    "outside": [
        "floating point rounding; truncating bond caps / non-zero cutoffs (approximate by design)",
        "clusters / loops that do not span the network, autoreduce=True on tree-like networks (documented as valid only at a BP fixed point)",
        "simple-loop expansion on networks that are not a single ring (a simple loop cannot cover a chord)",
        "rehearse=..., executor=..., progbar options; sample_configuration_cluster (random)",
        "partial_trace(reduce=True) (documented experimental, 2 sites only)",
        "PEPS.normalize in symbolic mode (takes the power -1/(2N) of <psi|psi>): checked in the numeric cross-run only "
        "(peps_2x2_routes, peps_normalize_numeric)",
        "count_canonized / calc_current_orthog_center in symbolic mode (an allclose decision on concrete environments): the record-free "
        "canonical routes are numeric-only (mps_canonical_routes_calc_numeric)",
        "2D boundary / plaquette routes on lattices with more than 2 rows or columns whose tensor count differs from the site count, other "
        "than lazy one-site gates with layer_tags=None (rejected by the library with KeyError / ValueError); "
        "PEPS.compute_local_expectation (plaquette route) on networks carrying lazy gate tensors (returns a non-scalar Tensor)",
        "PEPS boundary compression with bond > 1 on the compressed bonds in symbolic mode (certificates too large): those instances run "
        "in the numeric cross-run (all bonds 2, complex, real LAPACK); symbolic instances keep bond 2 only on the listed bonds",
        "PEPS3D lattices with a size-1 dimension (PEPS3D.partial_trace raises IndexError), cyclic lattices",
        "cluster / loop routes on states with hyper indices (get_path_between_tids documents that it ignores them); the exact routes "
        "are checked on a hyper-index state",
        "combine='prod' with complex symbols (abs / log10 of a complex polynomial): symbolic runs use strictly positive symbols there, "
        "complex data in the numeric cross-run",
        "MPS.local_expectation / partial_trace (the generic compressed route is disabled on MPS: raises AttributeError by design)",
    ],
    "assumptions": [
        "<psi|psi> != 0 (normalized values divide by it)",
        "LAPACK qr/svd meet their contracts (stubs; positive diagonal / positive singular values) wherever a route canonises or compresses",
        "a (network, gauges) pair denotes the network with each listed gauge vector inserted on its bond "
        "(what gauge_simple_insert does on a cluster that contains both ends of the bond)",
        "descending pair keys of PEPS.compute_local_expectation are supplied through the documented plaquette_map argument "
        "(the automatic map only lists ascending pairs and rejects the others with KeyError)",
    ],
    "timeout_s": {"quick": 300, "thorough": 900},
}

_Q = ("quick", "thorough")
_T = ("thorough",)


# ---------------------------------------------------------------------- generic helpers

def conj(a):
    """entrywise conjugate, object / numeric arrays and scalars alike"""
    if isinstance(a, P.Poly):
        return a.conjugate()
    a = np.asarray(a)
    if a.dtype == object:
        out = np.empty(a.shape, dtype=object)
        for idx in np.ndindex(*a.shape):
            out[idx] = P.lift(a[idx]).conjugate()
        return out
    return np.conj(a)


def expect_ref(psi, G, pos, dims):
    """<psi| G (acting on subsystems `pos`, in that order) |psi>
       = sum_{a, b} conj(psi[a]) G[row(a_pos), col(b_pos)] psi[b],  b equal to a off `pos`;
    row / col are the row-major positions of the sub-configurations taken in the order of `pos`"""
    dims = tuple(dims)
    pos = tuple(pos)
    psi = np.asarray(psi).reshape(dims)
    cpsi = conj(psi)
    dw = [dims[p] for p in pos]
    tot = 0
    for a in np.ndindex(*dims):
        ro = 0
        for p in pos:
            ro = ro * dims[p] + a[p]
        w = 0
        for bw in np.ndindex(*dw):
            co = 0
            b = list(a)
            for p, x in zip(pos, bw):
                co = co * dims[p] + x
                b[p] = x
            w = w + G[ro, co] * psi[tuple(b)]
        tot = tot + cpsi[a] * w
    return tot


def norm2_ref(psi):
    tot = 0
    for x, cx in zip(psi.reshape(-1), conj(psi).reshape(-1)):
        tot = tot + cx * x
    return tot


def rdm_ref(psi, pos):
    """rho[k.., b..] = sum_rest psi[k.., rest] conj(psi[b.., rest]), ordered as `pos`; as a matrix"""
    n = psi.ndim
    inds = tuple(f"k{i}" for i in range(n))
    binds = tuple(f"b{i}" if i in pos else f"k{i}" for i in range(n))
    out = tuple(f"k{i}" for i in pos) + tuple(f"b{i}" for i in pos)
    r = ref.sum_of_products([(psi, inds), (conj(psi), binds)], out)
    dk = int(np.prod([psi.shape[i] for i in pos]))
    return r.reshape(dk, dk)


def _inverse_symbols():
    """defined-inverse symbols of the engine: sid(w) -> p with w = 1/p"""
    return {P.sid(w): P.Poly(dict(key[1])) for key, w in P._DEF_CACHE.items() if key[0] == "inv"}


def split_ratio(x, used=None):
    """symbolic mode: Poly x -> (num, den) with x == num / den (den = 1 if x has no defined inverse).
    Returns None if x is not of the form w * X for one defined inverse w."""
    x = P.lift(x)
    invs = _inverse_symbols()
    present = {s for m in x.t for s, _ in m if s in invs}
    if not present:
        return x, P.ONE
    if len(present) != 1:
        return None
    (w,) = present
    if used is not None:
        used.add(w)
    num = {}
    for m, c in x.t.items():
        e = dict(m).get(w, 0)
        if e != 1:
            return None
        rest = tuple(t for t in m if t[0] != w)
        v = num.get(rest, 0) + c
        if v:
            num[rest] = v
        else:
            num.pop(rest, None)
    return P.Poly(num), invs[w]


def eq_ratio(mk, label, val, num_ref, den_ref, split_mod_hyps=True):
    """goal  val == num_ref / den_ref  (entrywise for arrays; den_ref a scalar)"""
    if not mk.sym:
        mk.eq(label, val, np.asarray(num_ref) / den_ref)
        return
    vals = P.flat_polys(val)
    nums = P.flat_polys(num_ref)
    if len(vals) != len(nums):
        raise AssertionError(f"goal {label}: size mismatch {len(vals)} vs {len(nums)}")
    den_ref = P.lift(den_ref)
    used = set()
    parts = [split_ratio(v, used) for v in vals]
    dens = {frozenset(p[1].t.items()) for p in parts if p is not None and p[0].t}
    if all(p is not None for p in parts) and len(dens) <= 1:
        den = P.Poly(dict(next(iter(dens)))) if dens else den_ref
        xs = [p[0] for p in parts]
        # the inverse symbols have been eliminated from these goals by the split above: their
        # defining hypotheses w*p = 1 are no longer needed (dropping a hypothesis is always
        # sound) and the goals become hypothesis-free polynomial identities (Q-ID)
        names = {"def-inverse:" + P.TAB.names[w] for w in used} | {"def-inverse-conj:" + P.TAB.names[w] for w in used}
        P.HYP[:] = [h for h in P.HYP if h[0] not in names]
        if not (den - den_ref).t:
            # value = X / <psi|psi> with the very denominator of the reference
            mk.eq(label + " [numerator; denominator == reference <psi|psi>]", xs, nums)
            mk.eq(label + " [denominator]", den, den_ref)
            return
        if P.HYP and split_mod_hyps:
            # stub contracts / canonical-form hypotheses present: numerator and denominator are each
            # compared modulo the hypotheses (sufficient for the ratio, and of lower degree than the product)
            mk.eq(label + " [numerator, modulo the contracts]", xs, nums)
            mk.eq(label + " [denominator == reference <psi|psi>, modulo the contracts]", den, den_ref)
            return
        mk.eq(label + " [cross-multiplied]", [x * den_ref for x in xs], [r * den for r in nums])
        return
    # general form: leave the defined inverses to the certificate procedure
    mk.eq(label + " [times reference <psi|psi>]", [v * den_ref for v in vals], nums)


def herm_goal(mk, label, rho):
    rho = np.asarray(rho)
    mk.eq(label, rho, ref.dag(rho))


def as_matrix(x):
    x = np.asarray(x)
    k = x.ndim // 2
    d = int(np.prod(x.shape[:k])) if k else 1
    return x.reshape(d, -1)


# ---------------------------------------------------------------------- arbitrary geometry

GRAPHS = {
    "path3": (3, [(0, 1), (1, 2)]),
    "ring3": (3, [(0, 1), (1, 2), (0, 2)]),
    "star4": (4, [(0, 1), (0, 2), (0, 3)]),
    "ring4": (4, [(0, 1), (1, 2), (2, 3), (0, 3)]),
    "hyper3": (3, [(0, 1, 2), (1, 2)]),          # one bond label shared by three tensors + an ordinary bond
}
# physical dimensions: one geometry with unequal dimensions (pins the reshape of G / rho)
PHYS = {"path3": (2, 3, 2), "ring3": (2, 2, 2), "star4": (2, 2, 2, 2), "ring4": (2, 2, 2, 2), "hyper3": (2, 2, 2)}


def build_vec(mk, geom, kind="cplx", D=2, kinds=None):
    n, edges = GRAPHS[geom]
    inds = {i: [] for i in range(n)}
    for e in edges:
        ix = "b" + "".join(map(str, e))
        for a in e:
            inds[a].append(ix)
    ts = []
    for i in range(n):
        shape = (D,) * len(inds[i]) + (PHYS[geom][i],)
        k = kinds[i] if kinds else kind
        ts.append(qtn.Tensor(mk.array(f"T{i}", shape, k), tuple(inds[i]) + (f"k{i}",), tags=[f"I{i}"]))
    tn = qtn.TensorNetworkGenVector.from_TN(qtn.TensorNetwork(ts), site_tag_id="I{}", site_ind_id="k{}",
                                            sites=tuple(range(n)))
    return tn, n, PHYS[geom]


def dense_vec(tn, sites):
    return ref.tn_dense(tn, tuple(tn.site_ind(s) for s in sites))


def op_for(mk, name, dims, where_pos, kind="cplx"):
    k = int(np.prod([dims[p] for p in where_pos]))
    return mk.array(name, (k, k), kind)


WHERES = {
    "path3": [(1,), (0, 1), (1, 0), (0, 2), (2, 0)],
    "ring3": [(0,), (0, 1), (1, 0), (2, 0)],
    "star4": [(0,), (1, 0), (1, 3), (3, 1)],
    "ring4": [(2,), (0, 1), (1, 0), (0, 2), (2, 0), (3, 1)],
    "hyper3": [(0,), (1, 0), (0, 2)],
}
WHERES_MORE = {
    "path3": [(0,), (2,), (1, 2), (2, 1), (2, 0, 1)],
    "ring3": [(1,), (2,), (1, 2), (2, 1), (0, 2), (1, 2, 0)],
    "star4": [(2,), (0, 1), (2, 1), (3, 0, 1)],
    "ring4": [(0,), (3, 0), (1, 3), (2, 0, 3)],
    "hyper3": [(2,), (0, 1), (2, 1), (2, 0, 1)],
}


def _exact_params():
    out = []
    for g in GRAPHS:
        for w in WHERES[g]:
            out.append({"geom": g, "where": w, "_tiers": _Q if g != "ring4" or w == (1, 0) else _T})
        for w in WHERES_MORE[g]:
            out.append({"geom": g, "where": w, "_tiers": _T})
    return out


@obligation(PROP, params=_exact_params(), wall_s=400, timeout_s=600)
def exact_routes(mk, geom, where):
    """partial_trace_exact / local_expectation_exact / compute_local_expectation_exact on an
    arbitrary-geometry vector network: every `normalized`, `get`, `optimize` option"""
    mk.encodes(ag.TensorNetworkGenVector.make_reduced_density_matrix, ag.TensorNetworkGenVector.partial_trace_exact,
               ag.TensorNetworkGenVector.local_expectation_exact, ag.TensorNetworkGenVector.compute_local_expectation_exact,
               ag._compute_expecs_maybe_in_parallel)
    tn, n, dims = build_vec(mk, geom)
    psi = dense_vec(tn, range(n))
    nrm2 = norm2_ref(psi)
    rho_w = rdm_ref(psi, where)
    G = op_for(mk, "O", dims, where)
    e_w = expect_ref(psi, G, where, dims)
    kdims = tuple(dims[p] for p in where)

    # ---- reduced density matrix
    rho = tn.partial_trace_exact(where, normalized=False)
    mk.same("rdm is a square matrix over the kept sites", tuple(np.shape(rho)), rho_w.shape)
    mk.eq(f"partial_trace_exact({where}, normalized=False) == dense reduced state", rho, rho_w)
    herm_goal(mk, f"partial_trace_exact({where}) Hermitian", rho)
    rho1 = tn.partial_trace_exact(where)          # default: normalized
    eq_ratio(mk, f"partial_trace_exact({where}) normalized == rho / <psi|psi>", rho1, rho_w, nrm2)
    mk.eq(f"trace of partial_trace_exact({where}, normalized=False) == <psi|psi> (so the normalized one has trace 1)",
          ref.trace(as_matrix(rho)), nrm2)
    r, nf = tn.partial_trace_exact(where, normalized="return", optimize="greedy")
    mk.eq(f"partial_trace_exact({where}, normalized='return')[0] unnormalized", r, rho_w)
    mk.eq(f"partial_trace_exact({where}, normalized='return')[1] == <psi|psi>", nf, nrm2)
    a = tn.partial_trace_exact(where, normalized=False, get="array")
    mk.same("get='array' shape (k.., b..)", tuple(np.shape(a)), kdims + kdims)
    mk.eq(f"partial_trace_exact({where}, get='array')", as_matrix(a), rho_w)
    t = tn.partial_trace_exact(where, normalized=False, get="tensor")
    mk.same("get='tensor' index order", tuple(t.inds), tuple(tn.site_ind(s) for s in where) + tuple(f"_bra{s}" for s in where))
    mk.eq(f"partial_trace_exact({where}, get='tensor')", as_matrix(t.data), rho_w)

    # ---- expectation
    mk.eq(f"local_expectation_exact(G, {where}, normalized=False) == <psi|G|psi>",
          tn.local_expectation_exact(G, where, normalized=False), e_w)
    eq_ratio(mk, f"local_expectation_exact(G, {where}) == <psi|G|psi>/<psi|psi>",
             tn.local_expectation_exact(G, where), e_w, nrm2)
    ev, nf = tn.local_expectation_exact(G, where, normalized="return", optimize="greedy")
    mk.eq(f"local_expectation_exact(G, {where}, normalized='return')[0]", ev, e_w)
    mk.eq(f"local_expectation_exact(G, {where}, normalized='return')[1] == <psi|psi>", nf, nrm2)
    Gt = G.reshape(kdims + kdims)
    mk.eq(f"local_expectation_exact(G as a rank-{2 * len(where)} array, {where})",
          tn.local_expectation_exact(Gt, where, normalized=False), e_w)
    # Tr(rho G) with the returned matrix (ties the two conventions together)
    mk.eq(f"Tr(partial_trace_exact({where}) G) == <psi|G|psi>", ref.trace(ref.matmul(rho, G)), e_w)

    # ---- many terms
    w2 = tuple(reversed(where)) if len(where) > 1 else ((where[0] + 1) % n,)
    G2 = op_for(mk, "Q", dims, w2)
    e2 = expect_ref(psi, G2, w2, dims)
    terms = {where: G, w2: G2}
    mk.eq("compute_local_expectation_exact(terms, normalized=False) == sum of <psi|G_i|psi>",
          tn.compute_local_expectation_exact(terms, normalized=False), e_w + e2)
    d = tn.compute_local_expectation_exact(terms, normalized=False, return_all=True, optimize="greedy")
    mk.same("return_all keys", list(d), [where, w2])
    mk.eq("compute_local_expectation_exact(return_all)[where]", d[where], e_w)
    mk.eq("compute_local_expectation_exact(return_all)[where2]", d[w2], e2)
    eq_ratio(mk, "compute_local_expectation_exact(terms) normalized",
             tn.compute_local_expectation_exact(terms), e_w + e2, nrm2)


@obligation(PROP, params=[{"geom": "ring3", "where": (0, 1)}], exc_is_violation=True)
def exact_rdm_as_tensor_normalized(mk, geom, where):
    """partial_trace_exact(get='tensor') with the default normalized=True (documented return:
    a Tensor holding the normalized reduced density matrix)"""
    mk.encodes(ag.TensorNetworkGenVector.partial_trace_exact)
    tn, n, dims = build_vec(mk, geom)
    psi = dense_vec(tn, range(n))
    t = tn.partial_trace_exact(where, get="tensor")
    mk.same("get='tensor' returns a Tensor", isinstance(t, qtn.Tensor), True)
    eq_ratio(mk, f"partial_trace_exact({where}, get='tensor') normalized == rho / <psi|psi>",
             as_matrix(t.data), rdm_ref(psi, where), norm2_ref(psi))


@obligation(PROP, params=[{"geom": g} for g in GRAPHS])
def norms(mk, geom):
    """norm() / norm(squared=True) / make_norm of a vector network == sum |psi_a|^2"""
    mk.encodes(tc.TensorNetwork.norm, tc.TensorNetwork.make_norm)
    tn, n, dims = build_vec(mk, geom)
    psi = dense_vec(tn, range(n))
    nrm2 = norm2_ref(psi)
    mk.eq("norm(squared=True) == <psi|psi>", tn.norm(squared=True), nrm2)
    nr = tn.norm()
    mk.eq("norm()**2 == <psi|psi>", nr * nr, nrm2)
    mk.eq("make_norm() contracted == <psi|psi>", tn.make_norm().contract(all, output_inds=()), nrm2)
    nm, ket, bra = tn.make_norm(return_all=True)
    mk.eq("make_norm(return_all): bra is the conjugate of ket",
          ref.tn_dense(bra, tuple(tn.site_ind(s) for s in range(n))), conj(psi))


# ---------------------------------------------------------------------- cluster / loop expansions

def make_gauges(mk, tn, which="all"):
    """simple-update style bond gauges (positive vectors) on all / all-but-one bonds"""
    bonds = sorted(tn.inner_inds())
    if which == "partial":
        bonds = bonds[:-1]
    return {ix: mk.array(f"g{ix}", (tn.ind_size(ix),), "pos") for ix in bonds}


def dense_gauged(tn, sites, gauges):
    """the state a (network, gauges) pair denotes: the gauge vector of every listed bond is
    inserted on that bond (sum of products with the gauge as a third factor on the label)"""
    terms = ref.tn_terms(tn) + [(g, (ix,)) for ix, g in (gauges or {}).items()]
    return ref.sum_of_products(terms, tuple(tn.site_ind(s) for s in sites))


def _cluster_params():
    out = []
    for g in GRAPHS:
        if g == "hyper3":
            continue          # path finding between sites documents that it ignores hyper indices
        ws = WHERES[g] + WHERES_MORE[g]
        for k, w in enumerate(ws):
            for gz in (None, "all", "partial"):
                quick = (k < 3 and gz in (None, "all") and g != "ring4") or (g == "ring4" and w == (0, 2) and gz is None)
                out.append({"geom": g, "where": w, "gauged": gz, "_tiers": _Q if quick else _T})
    return out


@obligation(PROP, params=_cluster_params(), wall_s=400, timeout_s=600)
def cluster_routes(mk, geom, where, gauged):
    """local_expectation_cluster / partial_trace_cluster / compute_local_expectation_cluster with a
    cluster that spans the whole network (max_distance >= diameter, loop union, fill-in), with
    and without simple-update bond gauges"""
    mk.encodes(ag.TensorNetworkGenVector.get_cluster, ag.TensorNetworkGenVector.partial_trace_cluster,
               ag.TensorNetworkGenVector.local_expectation_cluster, ag.TensorNetworkGenVector.compute_local_expectation_cluster,
               tc.TensorNetwork.gauge_simple_insert, ag.TensorNetworkGenVector.local_expectation_exact)
    tn, n, dims = build_vec(mk, geom)
    gauges = make_gauges(mk, tn, gauged) if gauged else None
    psi = dense_gauged(tn, range(n), gauges)
    nrm2 = norm2_ref(psi)
    G = op_for(mk, "O", dims, where)
    e_w = expect_ref(psi, G, where, dims)
    rho_w = rdm_ref(psi, where)
    gk = lambda: (dict(gauges) if gauges is not None else None)

    mk.eq(f"local_expectation_cluster(G, {where}, max_distance={n}, normalized=False)",
          tn.local_expectation_cluster(G, where, max_distance=n, normalized=False, gauges=gk()), e_w)
    eq_ratio(mk, f"local_expectation_cluster(G, {where}, max_distance={n}) normalized",
             tn.local_expectation_cluster(G, where, max_distance=n, gauges=gk()), e_w, nrm2)
    if geom.startswith("ring"):
        mk.eq(f"local_expectation_cluster(G, {where}, mode='loopunion', max_distance={n})",
              tn.local_expectation_cluster(G, where, mode="loopunion", max_distance=n, normalized=False, gauges=gk()), e_w)
    if geom == "ring4":
        md = 0 if len(where) == 2 and abs(where[0] - where[1]) == 2 else 1
        if len(where) <= 2:
            mk.eq(f"local_expectation_cluster(G, {where}, max_distance={md}, fillin=2)",
                  tn.local_expectation_cluster(G, where, max_distance=md, fillin=2, normalized=False, gauges=gk()), e_w)
    rho = tn.partial_trace_cluster(where, max_distance=n, normalized=False, gauges=gk(), smudge=0.0)
    mk.eq(f"partial_trace_cluster({where}, normalized=False) == dense reduced state", rho, rho_w)
    herm_goal(mk, f"partial_trace_cluster({where}) Hermitian", rho)
    eq_ratio(mk, f"partial_trace_cluster({where}) normalized",
             tn.partial_trace_cluster(where, max_distance=n, gauges=gk(), smudge=0.0), rho_w, nrm2)
    w2 = tuple(reversed(where)) if len(where) > 1 else ((where[0] + 1) % n,)
    G2 = op_for(mk, "Q", dims, w2)
    e2 = expect_ref(psi, G2, w2, dims)
    terms = {where: G, w2: G2}
    mk.eq("compute_local_expectation_cluster(terms, normalized=False)",
          tn.compute_local_expectation_cluster(terms, max_distance=n, normalized=False, gauges=gk()), e_w + e2)
    d = tn.compute_local_expectation_cluster(terms, max_distance=n, normalized=True, gauges=gk(), return_all=True)
    eq_ratio(mk, "compute_local_expectation_cluster(return_all)[where] normalized", d[where], e_w, nrm2)
    eq_ratio(mk, "compute_local_expectation_cluster(return_all)[where2] normalized", d[w2], e2, nrm2)


LOOP_WHERES = {"ring3": [(0,), (0, 1), (1, 0), (2, 0), (1, 2, 0)],
               "ring4": [(2,), (1, 0), (0, 2), (2, 0), (3, 1)],
               "path3": [(1,), (0, 1), (2, 0)],
               "star4": [(0,), (1, 0), (3, 1)]}


def _loop_params():
    out = []
    for g, ws in LOOP_WHERES.items():
        for k, w in enumerate(ws):
            for gz in (None, "all"):
                for comb in ("sum", "prod"):
                    quick = (g in ("ring3", "path3") and k < 3 and (gz is None or k == 1)) or \
                            (g == "ring4" and w == (2, 0) and gz is None and comb == "sum")
                    out.append({"geom": g, "where": w, "gauged": gz, "combine": comb, "_tiers": _Q if quick else _T})
    return out


@obligation(PROP, params=_loop_params(), wall_s=400, timeout_s=600)
def loop_expansion_routes(mk, geom, where, gauged, combine):
    """local_expectation_gloop_expand / _sloop_expand (and compute_*) with a (generalized) loop
    that is the whole network: exact by construction, every combine / normalized option.
    combine='prod' factors every cluster value into phase * magnitude (abs, log10): in symbolic
    mode the entries are then strictly positive symbols (magnitudes are the values themselves),
    the conjugation conventions being pinned by the combine='sum' obligations (same cluster
    values) and by the numeric cross-run, which is complex."""
    mk.encodes(ag.TensorNetworkGenVector.local_expectation_gloop_expand, ag.TensorNetworkGenVector.local_expectation_sloop_expand,
               ag.TensorNetworkGenVector.compute_local_expectation_gloop_expand, ag.TensorNetworkGenVector.compute_local_expectation_sloop_expand,
               ag.TensorNetworkGenVector.get_local_gloops, ag.TensorNetworkGenVector.get_local_sloops,
               ag._combine_expansion_expectations, ag.gloop_remove_dangling, ag.sloop_remove_dangling,
               tc.TensorNetwork.select_path, tc.TensorNetwork.gauge_simple_insert)
    kind = "pos" if (mk.sym and combine == "prod") else "cplx"
    tn, n, dims = build_vec(mk, geom, kind=kind)
    gauges = make_gauges(mk, tn, gauged) if gauged else {}
    psi = dense_gauged(tn, range(n), gauges)
    nrm2 = norm2_ref(psi)
    G = op_for(mk, "O", dims, where, kind=kind)
    e_w = expect_ref(psi, G, where, dims)
    allsites = tuple(range(n))
    loopy = geom.startswith("ring")
    gk = lambda: dict(gauges)
    base = dict(gloops=[allsites], combine=combine, autoreduce=loopy)   # autoreduce strips tree-like parts: not exact on trees

    mk.eq(f"gloop_expand(G, {where}, gloops=[all sites], {combine}, normalized=False)",
          tn.local_expectation_gloop_expand(G, where, gauges=gk(), normalized=False, **base), e_w)
    norms_opts = [True, "local", "separate"] if combine == "sum" else [True, "prod"]
    for nz in norms_opts:
        eq_ratio(mk, f"gloop_expand(G, {where}, gloops=[all sites], {combine}, normalized={nz!r})",
                 tn.local_expectation_gloop_expand(G, where, gauges=gk(), normalized=nz, **base), e_w, nrm2)
    mk.eq(f"gloop_expand(G, {where}, autoreduce=False)",
          tn.local_expectation_gloop_expand(G, where, gloops=[allsites], gauges=gk(), normalized=False, combine=combine,
                                            autoreduce=False), e_w)
    if loopy:
        # automatically generated loops: the only generalized / simple loop is the ring itself
        for gl in (n, None):
            eq_ratio(mk, f"gloop_expand(G, {where}, gloops={gl}, {combine}) normalized",
                     tn.local_expectation_gloop_expand(G, where, gloops=gl, gauges=gk(), combine=combine), e_w, nrm2)
        mk.eq(f"sloop_expand(G, {where}, sloops={n}, {combine}, normalized=False)",
              tn.local_expectation_sloop_expand(G, where, sloops=n, gauges=gk(), combine=combine, normalized=False), e_w)
        for sl in (n, None):
            eq_ratio(mk, f"sloop_expand(G, {where}, sloops={sl}, {combine}) normalized",
                     tn.local_expectation_sloop_expand(G, where, sloops=sl, gauges=gk(), combine=combine), e_w, nrm2)
        eq_ratio(mk, f"sloop_expand(G, {where}, autoreduce=False, intersect=True)",
                 tn.local_expectation_sloop_expand(G, where, sloops=n, gauges=gk(), combine=combine, autoreduce=False,
                                                   intersect=True), e_w, nrm2)
    w2 = tuple(reversed(where)) if len(where) > 1 else ((where[0] + 1) % n,)
    G2 = op_for(mk, "Q", dims, w2, kind=kind)
    e2 = expect_ref(psi, G2, w2, dims)
    terms = {where: G, w2: G2}
    mk.eq("compute_local_expectation_gloop_expand(terms, normalized=False)",
          tn.compute_local_expectation_gloop_expand(terms, gauges=gk(), normalized=False, **base), e_w + e2)
    d = tn.compute_local_expectation_gloop_expand(terms, gauges=gk(), return_all=True, **base)
    eq_ratio(mk, "compute_local_expectation_gloop_expand(return_all)[where]", d[where], e_w, nrm2)
    eq_ratio(mk, "compute_local_expectation_gloop_expand(return_all)[where2]", d[w2], e2, nrm2)
    if loopy:
        mk.eq("compute_local_expectation_sloop_expand(terms, normalized=False)",
              tn.compute_local_expectation_sloop_expand(terms, sloops=n, gauges=gk(), combine=combine, normalized=False), e_w + e2)


_UNIT = [(3 / 5, 4 / 5), (5 / 13, 12 / 13), (8 / 17, 15 / 17), (20 / 29, 21 / 29)]


@obligation(PROP, params=[{"geom": "ring3", "where": (1, 0), "gauge": "unit"}], tiers=_T, mandatory=False, wall_s=800, timeout_s=880,
            rounds=3, solver_timeout_ms=700000)
@obligation(PROP, params=[{"geom": "ring3", "where": (1, 0), "gauge": "free"},
                          {"geom": "path3", "where": (2, 0), "gauge": "free", "_tiers": _T}], wall_s=300)
def gloop_global_normalization(mk, geom, where, gauge):
    """compute_local_expectation_gloop_expand(normalized='global') and norm_gloop_expand with the
    whole network as the only generalized loop: the state is the network with the supplied bond
    gauges inserted; its norm / globally normalized expectation are the dense ones.
    gauge='unit': fixed gauges of 2-norm one (what gauge_all_simple produces); 'free': arbitrary
    positive gauges (the documented input: any dict of bond vectors)."""
    mk.encodes(ag.TensorNetworkGenVector.norm_gloop_expand, ag.TensorNetworkGen.normalize_simple,
               ag.TensorNetworkGenVector.compute_local_expectation_gloop_expand)
    kind = "pos" if mk.sym else "cplx"
    # symbolic mode: bond dimension 1 (the normalisation bookkeeping under test does not depend on
    # it, and the square roots / logarithms taken by normalize_simple stay tractable)
    D = 1 if mk.sym else 2
    tn, n, dims = build_vec(mk, geom, kind=kind, D=D)
    bonds = sorted(tn.inner_inds())
    if gauge == "unit":
        gauges = {ix: mk.const(np.array(_UNIT[k] if D == 2 else (1.0,))) for k, ix in enumerate(bonds)}
    else:
        gauges = make_gauges(mk, tn, "all")
    psi = dense_gauged(tn, range(n), gauges)
    nrm2 = norm2_ref(psi)
    G = op_for(mk, "O", dims, where, kind=kind)
    e_w = expect_ref(psi, G, where, dims)
    allsites = tuple(range(n))
    loopy = geom.startswith("ring")
    nv = tn.norm_gloop_expand(gloops=[allsites], gauges=dict(gauges), autoreduce=loopy)
    mk.eq(f"norm_gloop_expand(gloops=[all sites], gauges {gauge})**2 == <psi|psi> of the gauged state", nv * nv, nrm2)
    val = tn.compute_local_expectation_gloop_expand({where: G}, gloops=[allsites], gauges=dict(gauges), normalized="global",
                                                    autoreduce=loopy)
    eq_ratio(mk, f"compute_local_expectation_gloop_expand(normalized='global', gauges {gauge}) == <psi|G|psi>/<psi|psi>",
             val, e_w, nrm2, split_mod_hyps=False)


# ---------------------------------------------------------------------- 1D routes

def mps_sym(mk, L, kind="cplx", D=2, d=2):
    arrays = []
    for i in range(L):
        shp = (D, d) if i in (0, L - 1) else (D, D, d)
        arrays.append(mk.array(f"T{i}", shp, kind))
    return qtn.MatrixProductState(arrays)


MPS_WHERES = [(1,), (0, 1), (1, 0), (0, 2), (2, 0), (2, 1)]
MPS_WHERES_MORE = [(0,), (2,), (1, 2), (1, 2, 0), (0, 1, 2)]


@obligation(PROP, params=[{"L": 3, "where": w} for w in MPS_WHERES]
            + [{"L": 3, "where": w, "_tiers": _T} for w in MPS_WHERES_MORE]
            + [{"L": 4, "where": w, "_tiers": _T} for w in [(3, 0), (1, 3), (2, 1)]], wall_s=400, timeout_s=600)
def mps_env_and_exact_routes(mk, L, where):
    """MPS routes that need no LAPACK, on a complex symbolic MPS: compute_local_expectation_via_envs
    (left / right environments), compute_local_expectation(method='envs'), the inherited exact /
    cluster routes, norm"""
    mk.encodes(c1.MatrixProductState.compute_local_expectation_via_envs, c1.MatrixProductState.compute_local_expectation,
               c1.TensorNetwork1D.compute_left_environments, c1.TensorNetwork1D.compute_right_environments,
               ag.TensorNetworkGenVector.local_expectation_exact, ag.TensorNetworkGenVector.partial_trace_exact,
               ag.TensorNetworkGenVector.local_expectation_cluster, ag.tensor_network_ag_gate)
    psi_tn = mps_sym(mk, L)
    dims = (2,) * L
    psi = dense_vec(psi_tn, range(L))
    nrm2 = norm2_ref(psi)
    G = op_for(mk, "O", dims, where)
    e_w = expect_ref(psi, G, where, dims)
    w2 = tuple(reversed(where)) if len(where) > 1 else ((where[0] + 1) % L,)
    G2 = op_for(mk, "Q", dims, w2)
    e2 = expect_ref(psi, G2, w2, dims)
    terms = {where: G, w2: G2}
    mk.eq(f"compute_local_expectation_via_envs({{{where}: G}}, normalized=False) == <psi|G|psi>",
          psi_tn.compute_local_expectation_via_envs({where: G}, normalized=False), e_w)
    eq_ratio(mk, f"compute_local_expectation_via_envs({{{where}: G}}) normalized",
             psi_tn.compute_local_expectation_via_envs({where: G}), e_w, nrm2)
    mk.eq("compute_local_expectation_via_envs(two terms, normalized=False) == sum",
          psi_tn.compute_local_expectation_via_envs(terms, normalized=False), e_w + e2)
    d = psi_tn.compute_local_expectation_via_envs(terms, return_all=True)
    mk.same("return_all keys", list(d), [where, w2])
    eq_ratio(mk, "compute_local_expectation_via_envs(return_all)[where] normalized", d[where], e_w, nrm2)
    eq_ratio(mk, "compute_local_expectation_via_envs(return_all)[where2] normalized", d[w2], e2, nrm2)
    mk.eq("compute_local_expectation(method='envs', normalized=False)",
          psi_tn.compute_local_expectation(terms, normalized=False, method="envs"), e_w + e2)
    eq_ratio(mk, "compute_local_expectation(method='envs') normalized",
             psi_tn.compute_local_expectation(terms, method="envs"), e_w + e2, nrm2)
    # inherited generic routes on the MPS class
    mk.eq(f"MPS.local_expectation_exact(G, {where}, normalized=False)",
          psi_tn.local_expectation_exact(G, where, normalized=False), e_w)
    rho = psi_tn.partial_trace_exact(where, normalized=False)
    mk.eq(f"MPS.partial_trace_exact({where}, normalized=False)", rho, rdm_ref(psi, where))
    mk.eq(f"MPS.local_expectation_cluster(G, {where}, max_distance=L, normalized=False)",
          psi_tn.local_expectation_cluster(G, where, max_distance=L, normalized=False), e_w)
    mk.eq("MPS.norm(squared=True)", psi_tn.norm(squared=True), nrm2)


@obligation(PROP, params=[{"insert": None}, {"insert": 0}, {"insert": 1}])
def mps_normalize(mk, insert):
    """MatrixProductState.normalize (in place; documented to return the old <psi|psi>): the state
    afterwards is psi / sqrt(<psi|psi>), a co-vector passed as `bra` gets the same factor"""
    mk.encodes(c1.MatrixProductState.normalize, c1.expec_TN_1D)
    L = 3
    psi_tn = mps_sym(mk, L)
    psi = dense_vec(psi_tn, range(L))
    nrm2 = norm2_ref(psi)
    m2 = psi_tn.copy()
    b2 = psi_tn.H
    old = m2.normalize(bra=b2, insert=insert)
    mk.eq("MPS.normalize() returns the old <psi|psi>", old, nrm2)
    root = P.lift(old).sqrt() if mk.sym else np.sqrt(old)
    mk.eq("MPS.normalize(): state * sqrt(old <psi|psi>) == psi", dense_vec(m2, range(L)) * root, psi)
    mk.eq("MPS.normalize(bra=...): bra * sqrt(old <psi|psi>) == conj(psi)", dense_vec(b2, range(L)) * root, conj(psi))
    mk.eq("MPS.normalize(): <psi'|psi'> * old == old", norm2_ref(dense_vec(m2, range(L))) * old, nrm2)


# NOTE: MPS.compute_local_expectation / _canonical / _via_envs document `dict[int or tuple[int]]`
# term keys but raise TypeError for a bare int key: a rejection, no wrong value -> outside C13.


def _canon_params():
    out = []
    for c in range(3):
        for w in [(1,), (0, 1), (1, 0), (1, 2), (2, 1), (0, 2), (2, 0), (0,), (2,)]:
            for route in ("expec", "rdm", "expec_normalized", "compute"):
                quick = w in [(1,), (1, 0), (2, 0), (2, 1), (0,)]
                out.append({"c": c, "where": w, "route": route, "_tiers": _Q if quick else _T})
    return out


@obligation(PROP, params=_canon_params(), rounds=2, timeout_s=700, max_rows=60000, wall_s=600, solver_timeout_ms=300000)
def mps_canonical_routes(mk, c, where, route):
    """canonical-form routes on an MPS that satisfies the record cur_orthog=(c, c) by hypothesis
    (props.c08.canonical_mps): local_expectation_canonical, partial_trace_to_dense_canonical,
    compute_local_expectation_canonical, compute_local_expectation(method='canonical'), with a
    non-symmetric operator, sites in both orders, normalized or not (one route per obligation:
    every call moves the centre with its own QR stub)"""
    from props.c08 import canonical_mps
    mk.encodes(c1.MatrixProductState.partial_trace_to_dense_canonical, c1.MatrixProductState.local_expectation_canonical,
               c1.MatrixProductState.compute_local_expectation_canonical, c1.MatrixProductState.compute_local_expectation,
               c1.TensorNetwork1DFlat.canonicalize)
    L = 3
    dims = (2,) * L
    psi_tn = canonical_mps(mk, L, c)
    psi = dense_vec(psi_tn, range(L))
    nrm2 = norm2_ref(psi)
    G = op_for(mk, "O", dims, where, kind="real")
    e_w = expect_ref(psi, G, where, dims)
    rec = lambda: {"cur_orthog": (c, c)}
    if route == "expec":
        arg = where[0] if len(where) == 1 and c != 1 else where      # a bare site is a documented `where`
        mk.eq(f"local_expectation_canonical(G, {arg}, normalized=False) == <psi|G|psi>",
              psi_tn.local_expectation_canonical(G, arg, normalized=False, info=rec()), e_w)
    elif route == "rdm":
        rho = psi_tn.partial_trace_to_dense_canonical(where, normalized=False, info=rec())
        mk.eq(f"partial_trace_to_dense_canonical({where}, normalized=False) == dense reduced state", rho, rdm_ref(psi, where))
        herm_goal(mk, f"partial_trace_to_dense_canonical({where}) Hermitian", rho)
    elif route == "expec_normalized":
        eq_ratio(mk, f"local_expectation_canonical(G, {where}) normalized",
                 psi_tn.local_expectation_canonical(G, where, info=rec()), e_w, nrm2)
    else:
        w2 = tuple(reversed(where)) if len(where) > 1 else ((where[0] - 1,) if where[0] > 0 else (1,))
        G2 = op_for(mk, "Q", dims, w2, kind="real")
        e2 = expect_ref(psi, G2, w2, dims)
        terms = {where: G, w2: G2}
        info = rec()
        if c == 1:
            d = psi_tn.compute_local_expectation_canonical(terms, normalized=False, return_all=True, info=info)
        elif c == 0:
            d = psi_tn.compute_local_expectation(terms, normalized=False, return_all=True, method="canonical", info=info)
        else:
            d = psi_tn.compute_local_expectation(terms, normalized=False, return_all=True, method="canonical", info=info, inplace=True)
        mk.same("return_all keys", set(d), {where, w2})
        mk.eq("compute_local_expectation[_canonical](two terms, return_all)[where] == <psi|G|psi>", d[where], e_w)
        mk.eq("compute_local_expectation[_canonical](two terms, return_all)[where2] == <psi|G2|psi>", d[w2], e2)
        if c != 2:
            mk.same("inplace=False leaves the caller's record alone", info, rec())
        if lo_hi_contains(where, c):
            # no centre move needed for the first term: the summed form as well
            # (after the in-place call of the c == 2 variant the record to pass on is the updated one)
            mk.eq("compute_local_expectation_canonical(two terms) == sum",
                  psi_tn.compute_local_expectation_canonical(terms, normalized=False, info=info if c == 2 else rec()), e_w + e2)


def lo_hi_contains(where, c):
    return min(where) <= c <= max(where)


def _iso_defect(t, keep):
    """max |M^dag M - 1| of tensor t seen as a matrix (all other indices) -> (index `keep`)"""
    rows = [ix for ix in t.inds if ix != keep]
    M = np.asarray(t.to_dense(rows, [keep]))
    return float(np.max(np.abs(M.conj().T @ M - np.eye(M.shape[1]))))


def _record_is_valid(mk, label, tn, lo, hi, tol=1e-7):
    """a record (lo, hi) claims: every site < lo is a left isometry, every site > hi a right isometry"""
    bad = [("left", i) for i in range(lo) if _iso_defect(tn[i], tn.bond(i, i + 1)) > tol]
    bad += [("right", i) for i in range(hi + 1, tn.L) if _iso_defect(tn[i], tn.bond(i - 1, i)) > tol]
    mk.same(label, bad, [])


_CALC_FORMS = ("left", "right", "mixed", "generic", "product")


@obligation(PROP, params=[{"form": f, "L": 4, "D": 2} for f in _CALC_FORMS]
            + [{"form": f, "L": 5, "D": 3, "_tiers": _T} for f in _CALC_FORMS], numeric=True, wall_s=500, timeout_s=700)
def mps_canonical_routes_calc_numeric(mk, form, L, D):
    """[numeric-only supplement] the canonical-form routes called WITHOUT a record (info=None, {} or 'calc': the
    orthogonality centre is then detected by calc_current_orthog_center / count_canonized, an allclose test) on
    UN-NORMALISED complex MPS that are in left / right / mixed canonical form up to one per-tensor scalar (every
    position of the scaled tensor, and all tensors scaled), plus generic and product states: every single site and
    every ordered pair, normalized False and True, against the dense state; the detected record is itself checked
    against its meaning (sites outside it are isometries) and canonicalize(cur_orthog='calc') against its
    postcondition (same state, isometries outside the target range)."""
    mk.encodes(c1.TensorNetwork1DFlat.count_canonized, c1.TensorNetwork1DFlat.calc_current_orthog_center,
               c1.TensorNetwork1DFlat.canonicalize, c1.MatrixProductState.partial_trace_to_dense_canonical,
               c1.MatrixProductState.local_expectation_canonical, c1.MatrixProductState.compute_local_expectation_canonical,
               c1.MatrixProductState.compute_local_expectation)
    if mk.sym:
        mk.note("numeric-only: count_canonized decides with allclose on concrete environments; canonical forms need real QR")
        mk.same("numeric-only cell (symbolic run skipped)", True, True)
        return
    dims = (2,) * L
    base = mps_sym(mk, L, kind="cplx", D=1 if form == "product" else D)
    if form == "left":
        base.left_canonicalize_()
    elif form == "right":
        base.right_canonicalize_()
    elif form == "mixed":
        base.left_canonicalize_(stop=L // 2)
        base.right_canonicalize_(stop=L // 2)
    wheres = [(i,) for i in range(L)] + [(i, j) for i in range(L) for j in range(L) if i != j]
    ops = {1: mk.array("O1", (2, 2), "cplx"), 2: mk.array("O2", (4, 4), "cplx")}
    ops2 = {1: mk.array("Q1", (2, 2), "cplx"), 2: mk.array("Q2", (4, 4), "cplx")}
    for k in list(range(L)) + ["each"]:
        s = 1.0 + float(mk.scalar(f"s{k}", "pos"))          # in [1.125, 2.5]: never 1
        psi_tn = base.copy()
        if k == "each":
            psi_tn.multiply_each_(s)
        else:
            psi_tn[k].modify(data=s * psi_tn[k].data)
        tag = f"[numeric-only] {form}-canonical MPS (L={L}), tensor {k} scaled: "
        psi = dense_vec(psi_tn, range(L))
        nrm2 = norm2_ref(psi)
        lo, hi = psi_tn.calc_current_orthog_center()
        _record_is_valid(mk, tag + f"calc_current_orthog_center() = {(lo, hi)}: sites outside are isometries", psi_tn, lo, hi)
        for where in wheres:
            G = ops[len(where)]
            e_w = expect_ref(psi, G, where, dims)
            rho_w = rdm_ref(psi, where)
            w2 = tuple(reversed(where)) if len(where) > 1 else ((where[0] + 1) % L,)
            G2 = ops2[len(w2)]
            e2 = expect_ref(psi, G2, w2, dims)
            q = psi_tn.canonicalize(where, cur_orthog="calc")
            mk.eq(tag + f"canonicalize({where}, cur_orthog='calc') keeps the state", dense_vec(q, range(L)), psi)
            _record_is_valid(mk, tag + f"canonicalize({where}, cur_orthog='calc'): isometries outside the range",
                             q, min(where), max(where))
            for nz in (False, True):
                den = nrm2 if nz else 1.0
                rho = psi_tn.copy().partial_trace_to_dense_canonical(where, normalized=nz)
                mk.eq(tag + f"partial_trace_to_dense_canonical({where}, normalized={nz}) == dense reduced state", rho, rho_w / den)
                info = {}
                p = psi_tn.copy()
                mk.eq(tag + f"local_expectation_canonical(G, {where}, normalized={nz}, info={{}})",
                      p.local_expectation_canonical(G, where, normalized=nz, info=info), e_w / den)
                a, b = info["cur_orthog"]
                mk.same(tag + f"local_expectation_canonical({where}) records a range inside the target sites",
                        min(where) <= a <= b <= max(where), True)
                _record_is_valid(mk, tag + f"local_expectation_canonical({where}): the record left in info holds for the state left behind",
                                 p, a, b)
                mk.eq(tag + f"local_expectation_canonical(G, {where}, normalized={nz}, cur_orthog 'calc' in info)",
                      psi_tn.copy().local_expectation_canonical(G, where, normalized=nz, info={"cur_orthog": "calc"}), e_w / den)
                d = psi_tn.compute_local_expectation({where: G, w2: G2}, normalized=nz, method="canonical", return_all=True)
                mk.eq(tag + f"compute_local_expectation(method='canonical', normalized={nz}, return_all)[{where}]", d[where], e_w / den)
                mk.eq(tag + f"compute_local_expectation(method='canonical', normalized={nz}, return_all)[{w2}]", d[w2], e2 / den)
                mk.eq(tag + f"compute_local_expectation_canonical({{{where}, {w2}}}, normalized={nz}) == sum",
                      psi_tn.compute_local_expectation_canonical({where: G, w2: G2}, normalized=nz), (e_w + e2) / den)
        mk.eq(tag + "the routes left the caller's state alone", dense_vec(psi_tn, range(L)), psi)


# ---------------------------------------------------------------------- 2D routes

def peps_sym(mk, Lx, Ly, kind="cplx", d=2, bond=lambda a, b: 2):
    """PEPS from our own arrays ('urdlp' order, missing edge bonds omitted); bond(a, b) -> dimension"""
    arrays = []
    for i in range(Lx):
        row = []
        for j in range(Ly):
            shape = []
            if i < Lx - 1:
                shape.append(bond((i, j), (i + 1, j)))
            if j < Ly - 1:
                shape.append(bond((i, j), (i, j + 1)))
            if i > 0:
                shape.append(bond((i - 1, j), (i, j)))
            if j > 0:
                shape.append(bond((i, j - 1), (i, j)))
            shape.append(d)
            row.append(mk.array(f"A{i}{j}", tuple(shape), kind))
        arrays.append(row)
    return qtn.PEPS(arrays, shape="urdlp")


def explicit_plaquette_map(keys, autogroup, Lx=2, Ly=2):
    """the documented `plaquette_map` argument, written out for term keys in any order: each key
    is sent to the smallest generated plaquette that contains its sites"""
    sizes = c2.calc_plaquette_sizes(keys, autogroup)
    plaqs = [((i0, j0), (bx, by)) for bx, by in sizes for i0 in range(Lx - bx + 1) for j0 in range(Ly - by + 1)]
    out = {}
    for key in keys:
        coos = [key] if c2.is_lone_coo(key) else list(key)
        ok = [q for q in plaqs if all(q[0][0] <= x < q[0][0] + q[1][0] and q[0][1] <= y < q[0][1] + q[1][1] for x, y in coos)]
        out[key] = min(ok, key=lambda q: (q[1][0] * q[1][1], q))
    return out


PEPS_WHERES = [((0, 1),), ((0, 0), (0, 1)), ((0, 1), (0, 0)), ((0, 0), (1, 0)), ((1, 1), (0, 1)), ((0, 0), (1, 1)), ((1, 0), (0, 1))]
PEPS_OPTS = {
    "default": dict(max_bond=None, cutoff=0.0),
    "nocanon": dict(max_bond=None, cutoff=0.0, canonize=False),
    "fullbond": dict(max_bond=64, cutoff=0.0, mode="full-bond"),
    "flat": dict(max_bond=64, cutoff=0.0, layer_tags=None),
    "ungrouped": dict(max_bond=64, cutoff=0.0, autogroup=False),
    "yfirst": dict(max_bond=64, cutoff=0.0, first_contract="y"),
    "xfirst_dense": dict(max_bond=64, cutoff=0.0, first_contract="x", second_dense=True),
    # norms stripped into the stored exponent while the boundaries are contracted (value form, then redistributing form)
    "equalize1": dict(max_bond=64, cutoff=0.0, equalize_norms=1.0),
    "equalize1_y": dict(max_bond=64, cutoff=0.0, equalize_norms=1.0, first_contract="y"),
    "equalizeT": dict(max_bond=64, cutoff=0.0, equalize_norms=True),
}


def _peps_params():
    out = []
    for k, w in enumerate(PEPS_WHERES):
        for o in PEPS_OPTS:
            quick = (o == "default" and k in (0, 2, 5, 6)) or (k == 3 and o == "fullbond") or (k == 4 and o == "flat") or (k == 1 and o == "yfirst")
            out.append({"where": w, "opts": o, "_tiers": _Q if quick else _T})
    return out


@obligation(PROP, params=_peps_params(), wall_s=500, timeout_s=700)
def peps_2x2_routes(mk, where, opts):
    """2x2 PEPS (bond 2, complex): PEPS.compute_local_expectation via plaquette environments with
    an untruncating bond cap in every mode, against the dense state; the exact routes with
    coordinate sites; compute_norm / norm; normalize (numeric mode only: a fractional power of
    <psi|psi>).  Pairs are keyed ((ia, ja), (ib, jb)); a pair in descending order is looked up
    through an explicit plaquette_map (calc_plaquette_map only lists ascending pairs)."""
    mk.encodes(c2.TensorNetwork2DVector.compute_local_expectation, c2.TensorNetwork2D.compute_plaquette_environments,
               c2.TensorNetwork2D._compute_plaquette_environments_x_first, c2.TensorNetwork2D._compute_plaquette_environments_y_first,
               c2.TensorNetwork2D.compute_environments, c2.calc_plaquette_sizes, c2.calc_plaquette_map, c2.plaquette_to_sites,
               c2.TensorNetwork2DVector.compute_norm, c2.TensorNetwork2DVector.normalize, c2.TensorNetwork2DVector.gate,
               ag.TensorNetworkGenVector.local_expectation_exact, ag.TensorNetworkGenVector.partial_trace_exact)
    p = peps_sym(mk, 2, 2)
    sites = list(p.gen_site_coos())
    mk.same("site order", sites, [(0, 0), (0, 1), (1, 0), (1, 1)])
    dims = (2,) * 4
    psi = dense_vec_2d(p, sites)
    nrm2 = norm2_ref(psi)
    pos = tuple(sites.index(s) for s in where)
    G = op_for(mk, "O", dims, pos)
    e_w = expect_ref(psi, G, pos, dims)
    key = where[0] if len(where) == 1 else where
    kw = dict(PEPS_OPTS[opts])
    if len(where) == 2 and where[0] > where[1]:
        kw["plaquette_map"] = explicit_plaquette_map([key], kw.get("autogroup", True))
    mk.eq(f"compute_local_expectation({{{key}: G}}, normalized=False, {opts}) == <psi|G|psi>",
          p.compute_local_expectation({key: G}, normalized=False, **kw), e_w)
    eq_ratio(mk, f"compute_local_expectation({{{key}: G}}, normalized=True, {opts}) == <psi|G|psi>/<psi|psi>",
             p.compute_local_expectation({key: G}, normalized=True, **kw), e_w, nrm2)
    d = p.compute_local_expectation({key: G}, normalized=True, return_all=True, **kw)
    mk.eq("return_all -> (expectation, local norm): expectation", d[key][0], e_w)
    mk.eq("return_all -> (expectation, local norm): norm == <psi|psi>", d[key][1], nrm2)
    # a second term on another plaquette shape
    w2 = ((1, 0), (1, 1)) if where != ((1, 0), (1, 1)) else ((0, 0), (1, 0))
    pos2 = tuple(sites.index(s) for s in w2)
    G2 = op_for(mk, "Q", dims, pos2)
    e2 = expect_ref(psi, G2, pos2, dims)
    kw2 = dict(kw)
    if "plaquette_map" in kw2:
        kw2["plaquette_map"] = explicit_plaquette_map([key, w2], kw.get("autogroup", True))
    mk.eq("compute_local_expectation(two terms, normalized=False) == sum",
          p.compute_local_expectation({key: G, w2: G2}, normalized=False, **kw2), e_w + e2)
    eq_ratio(mk, "compute_local_expectation(two terms, normalized=True) == sum / <psi|psi>",
             p.compute_local_expectation({key: G, w2: G2}, normalized=True, **kw2), e_w + e2, nrm2)
    if opts == "default":
        # exact routes with coordinates as sites
        mk.eq(f"PEPS.local_expectation_exact(G, {where}, normalized=False)", p.local_expectation_exact(G, where, normalized=False), e_w)
        rho = p.partial_trace_exact(where, normalized=False)
        mk.eq(f"PEPS.partial_trace_exact({where}, normalized=False)", rho, rdm_ref(psi, pos))
        eq_ratio(mk, "PEPS.compute_local_expectation_exact(two terms) normalized",
                 p.compute_local_expectation_exact({where: G, w2: G2}), e_w + e2, nrm2)
        mk.eq(f"PEPS.local_expectation_cluster(G, {where}, max_distance=2, normalized=False)",
              p.local_expectation_cluster(G, where, max_distance=2, normalized=False), e_w)
    nkw = {k: v for k, v in PEPS_OPTS[opts].items() if k in ("max_bond", "cutoff", "canonize", "mode", "layer_tags")}
    mk.eq(f"compute_norm({opts}) == <psi|psi>", p.compute_norm(**nkw), nrm2)
    if not mk.sym:
        pn = p.normalize(**nkw)
        mk.eq(f"normalize({opts}): dense state == psi / sqrt(<psi|psi>)", dense_vec_2d(pn, sites), psi / np.sqrt(nrm2))
        mk.eq("normalize() leaves the original alone", dense_vec_2d(p, sites), psi)


def dense_vec_2d(p, sites):
    return ref.tn_dense(p, tuple(p.site_ind(*s) for s in sites))


BOND_PATTERNS = {
    "col0": lambda a, b: 2 if a[1] == 0 and b[1] == 0 else 1,      # one entangled column, the rest product
    "vert": lambda a, b: 2 if a[1] == b[1] else 1,                  # two entangled columns
    "row0": lambda a, b: 2 if a[0] == 0 and b[0] == 0 else 1,
}


def _peps32_params():
    out = []
    for shape, pat in (((3, 2), "col0"), ((3, 2), "vert"), ((2, 3), "row0")):
        for w in [((0, 0), (0, 1)), ((1, 0), (2, 0)) if shape == (3, 2) else ((0, 1), (0, 2)), ((shape[0] - 1, shape[1] - 1),),
                  ((0, 0), (1, 1)), ((2, 0), (0, 0)) if shape == (3, 2) else ((0, 2), (0, 0))]:
            for o in ("default", "flat", "fullbond", "equalize1", "equalize1_y", "equalizeT"):
                quick = pat == "col0" and w in [((0, 0), (0, 1)), ((2, 1),)] and o in ("default", "flat")
                mand = not (pat == "vert" and o == "default") and not o.startswith("equalize")
                out.append({"shape": shape, "pattern": pat, "where": w, "opts": o, "_tiers": _Q if quick else _T, "_mandatory": mand})
    return out


@obligation(PROP, params=_peps32_params(), rounds=2, wall_s=500, timeout_s=700, max_rows=60000, solver_timeout_ms=240000)
def peps_boundary_routes(mk, shape, pattern, where, opts):
    """3x2 / 2x3 PEPS: the plaquette environments now need a boundary contraction step with
    canonisation + compression (QR / SVD stubs, untruncating cap, cutoff 0).  Symbolic mode: real
    entries, bond dimension 2 on the bonds named by `pattern` and 1 elsewhere (certificates
    stay tractable); numeric mode: every bond 2, complex entries, real LAPACK."""
    mk.encodes(c2.TensorNetwork2DVector.compute_local_expectation, c2.TensorNetwork2D.compute_plaquette_environments,
               c2.TensorNetwork2D.compute_environments, c2.TensorNetwork2D.contract_boundary_from,
               c2.TensorNetwork2D._contract_boundary_core, c2.TensorNetwork2D._contract_boundary_full_bond,
               c2.TensorNetwork2D.canonize_plane, c2.TensorNetwork2D.compress_plane, c2.TensorNetwork2DVector.compute_norm)
    Lx, Ly = shape
    kind = "real" if mk.sym else "cplx"
    p = peps_sym(mk, Lx, Ly, kind=kind, bond=BOND_PATTERNS[pattern] if mk.sym else (lambda a, b: 2))
    sites = list(p.gen_site_coos())
    dims = (2,) * len(sites)
    psi = dense_vec_2d(p, sites)
    nrm2 = norm2_ref(psi)
    pos = tuple(sites.index(s) for s in where)
    G = op_for(mk, "O", dims, pos, kind=kind)
    e_w = expect_ref(psi, G, pos, dims)
    key = where[0] if len(where) == 1 else where
    kw = dict(PEPS_OPTS[opts])
    if len(where) == 2 and where[0] > where[1]:
        kw["plaquette_map"] = explicit_plaquette_map([key], True, Lx, Ly)
    d = p.compute_local_expectation({key: G}, normalized=True, return_all=True, **kw)
    mk.eq(f"compute_local_expectation({{{key}: G}}, {opts}) expectation == <psi|G|psi>", d[key][0], e_w)
    mk.eq(f"compute_local_expectation({{{key}: G}}, {opts}) local norm == <psi|psi>", d[key][1], nrm2)
    if not mk.sym:
        mk.eq(f"compute_local_expectation({{{key}: G}}, normalized=True, {opts})",
              p.compute_local_expectation({key: G}, normalized=True, **kw), e_w / nrm2)
        nkw = {k: v for k, v in PEPS_OPTS[opts].items() if k in ("max_bond", "cutoff", "canonize", "mode", "layer_tags")}
        mk.eq(f"compute_norm({opts}) == <psi|psi>", p.compute_norm(**nkw), nrm2)


@obligation(PROP, params=[{"shape": s} for s in ((3, 2), (2, 3), (3, 3))], numeric=True)
def peps_equalize_norms_numeric(mk, shape):
    """[numeric-only supplement] the boundary routes with equalize_norms (False / value / True) x first_contract x
    second_dense on complex random PEPS: the symbolic cells of peps_boundary_routes[opts=equalize*] run in the
    thorough tier (their certificates are usually out of reach), this cross-run keeps the option grid in the quick tier"""
    if mk.sym:
        mk.same("numeric-only obligation", True, True)
        return
    Lx, Ly = shape
    p = peps_sym(mk, Lx, Ly, kind="cplx", bond=lambda a, b: 2)
    sites = list(p.gen_site_coos())
    dims = (2,) * len(sites)
    psi = dense_vec_2d(p, sites)
    for where in (((0, 0),), ((Lx - 1, Ly - 1),), ((0, 0), (0, 1)), ((1, 0), (0, 0))):
        pos = tuple(sites.index(s) for s in where)
        G = op_for(mk, "O%d" % len(where), dims, pos, kind="cplx")
        e_w = expect_ref(psi, G, pos, dims)
        key = where[0] if len(where) == 1 else where
        for en in (False, 1.0, True):
            for first in ("x", "y"):
                for sd in (None, True, False):
                    kw = dict(max_bond=64, cutoff=0.0, equalize_norms=en, first_contract=first, second_dense=sd)
                    if len(where) == 2 and where[0] > where[1]:
                        kw["plaquette_map"] = explicit_plaquette_map([key], True, Lx, Ly)
                    mk.eq(f"[numeric-only] compute_local_expectation({{{key}: G}}, normalized=False, equalize_norms={en}, first_contract={first}, second_dense={sd})",
                          p.compute_local_expectation({key: G}, normalized=False, **kw), e_w, tol=1e-6)


def dense_einsum(tn, output_inds):
    """[numeric mode] dense array of a network by one explicit numpy einsum over its tensors' own
    (data, inds) - no quimb contraction code; used where the explicit-loop reference is too slow"""
    labels = {}
    args = []
    for t in tn:
        args += [np.asarray(t.data), [labels.setdefault(ix, len(labels)) for ix in t.inds]]
    out = np.einsum(*args, [labels[ix] for ix in output_inds], optimize="greedy")
    return out * 10.0 ** float(getattr(tn, "exponent", 0.0))


# networks of the 2D vector class whose tensor count differs from the site count
_EXTRA_2D = ("none", "g1", "g1same", "g1x2", "g2", "g2split", "g2red", "merge")
_NORMALIZE_OPTS = {"default": dict(), "balance": dict(balance_bonds=True), "equalize": dict(equalize_norms=True),
                   "inplace": dict(inplace=True), "fullbond": dict(mode="full-bond"), "nocanon": dict(canonize=False)}


def _normalize_supported(shape, extra, layer_tags):
    """what the boundary contraction of the unchanged library accepts (the others are rejected with KeyError / ValueError:
    a lattice with more than 2 rows or columns needs exactly one tensor per site and layer)"""
    if extra in ("none", "g2red") or shape == (2, 2):
        return True
    return extra in ("g1", "g1same", "g1x2") and layer_tags is None


def _normalize_params():
    out = []
    for shape in ((2, 2), (3, 2), (2, 3), (3, 3)):
        for extra in _EXTRA_2D:
            if any(_normalize_supported(shape, extra, lt) for lt in (None, ("KET", "BRA"))):
                quick = shape in ((2, 2), (3, 2)) or (shape == (2, 3) and extra in ("g1", "g1x2")) or (shape == (3, 3) and extra == "g1")
                out.append({"shape": shape, "extra": extra, "_tiers": _Q if quick else _T})
    return out


@obligation(PROP, params=_normalize_params(), numeric=True, wall_s=500, timeout_s=700)
def peps_normalize_numeric(mk, shape, extra):
    """[numeric-only supplement] TensorNetwork2DVector.normalize (a fractional power of <psi|psi> spread over the
    tensors) on complex PEPS and on 2D vector networks whose number of tensors differs from the number of sites:
    lazily applied one-site gates (one, two on one site, two on different sites), a lazy / split / reduce-split
    two-site gate, two sites merged into one tensor; x layer_tags (None, two-layer) x every normalize option.
    The result is psi / sqrt(<psi|psi>) as a dense state, so norm == 1 and normalized=False expectations on it are the
    dense <O>/<psi|psi>."""
    mk.encodes(c2.TensorNetwork2DVector.normalize, c2.TensorNetwork2D.contract_boundary, tc.TensorNetwork.multiply_each,
               c2.TensorNetwork2DVector.gate, ag.TensorNetworkGenVector.local_expectation_exact,
               c2.TensorNetwork2DVector.compute_local_expectation)
    if mk.sym:
        mk.note("numeric-only: normalize takes the power -1/(2 N) of <psi|psi>; boundary contraction needs real LAPACK")
        mk.same("numeric-only cell (symbolic run skipped)", True, True)
        return
    Lx, Ly = shape
    p = peps_sym(mk, Lx, Ly, kind="cplx", bond=lambda a, b: 2)
    g = lambda name, k: mk.array(name, (2 ** k, 2 ** k), "cplx")
    if extra == "g1":
        p = p.gate(g("A", 1), (1, 1), contract=False)
    elif extra == "g1same":
        p = p.gate(g("A", 1), (1, 0), contract=False).gate(g("B", 1), (1, 0), contract=False)
    elif extra == "g1x2":
        p = p.gate(g("A", 1), (1, 1), contract=False).gate(g("B", 1), (0, 0), contract=False)
    elif extra == "g2":
        p = p.gate(g("A", 2), ((0, 0), (0, 1)), contract=False)
    elif extra == "g2split":
        p = p.gate(g("A", 2), ((0, 0), (0, 1)), contract="split-gate")
    elif extra == "g2red":
        p = p.gate(g("A", 2), ((0, 0), (0, 1)), contract="reduce-split")
    elif extra == "merge":
        p = p.contract_tags([p.site_tag(0, 0), p.site_tag(0, 1)], which="any")
    mk.same("still a 2D vector network", isinstance(p, c2.TensorNetwork2DVector), True)
    expected_extra = {"none": 0, "g1": 1, "g1same": 2, "g1x2": 2, "g2": 1, "g2split": 2, "g2red": 0, "merge": -1}[extra]
    mk.same("tensor count - site count", p.num_tensors - Lx * Ly, expected_extra)
    sites = list(p.gen_site_coos())
    dims = (2,) * len(sites)
    oinds = tuple(p.site_ind(*s) for s in sites)
    psi = dense_einsum(p, oinds)
    nrm2 = norm2_ref(psi)
    wheres = [((0, 0),), ((Lx - 1, Ly - 1),), ((0, 0), (0, 1)), ((1, 0), (0, 0)), ((0, 0), (Lx - 1, Ly - 1))]
    ops = {1: g("O1", 1), 2: g("O2", 2)}
    ran = 0
    for lt in (None, ("KET", "BRA")):
        if not _normalize_supported(shape, extra, lt):
            continue
        for oname, o in _NORMALIZE_OPTS.items():
            tag = f"[numeric-only] {Lx}x{Ly} PEPS + {extra}: normalize(layer_tags={lt}, {oname})"
            q = p.copy()
            n = q.normalize(max_bond=64, cutoff=0.0, layer_tags=lt, **o)
            ran += 1
            mk.same(tag + ": inplace <=> the same object", n is q, bool(o.get("inplace")))
            if not o.get("inplace"):
                mk.eq(tag + " leaves the original alone", dense_einsum(q, oinds), psi)
            mk.eq(tag + ": dense state == psi / sqrt(<psi|psi>)", dense_einsum(n, oinds), psi / np.sqrt(nrm2), tol=1e-6)
            mk.eq(tag + ": norm() == 1", n.norm(), 1.0, tol=1e-6)
            if oname in ("default", "equalize"):
                for where in wheres:
                    pos = tuple(sites.index(s) for s in where)
                    G = ops[len(where)]
                    e_w = expect_ref(psi, G, pos, dims)
                    mk.eq(tag + f" then local_expectation_exact(G, {where}, normalized=False) == dense <G>/<psi|psi>",
                          n.local_expectation_exact(G, where, normalized=False), e_w / nrm2, tol=1e-6)
                    if expected_extra == 0 and (len(where) == 1 or where[0] < where[1]) and \
                            (len(where) == 1 or max(abs(a - b) for a, b in zip(*where)) <= 1):
                        # plaquette route: one tensor per site, ascending pairs (what the automatic plaquette map lists)
                        key = where[0] if len(where) == 1 else where
                        mk.eq(tag + f" then compute_local_expectation({{{key}: G}}, normalized=False) == dense <G>/<psi|psi>",
                              n.compute_local_expectation({key: G}, normalized=False, max_bond=64, cutoff=0.0, layer_tags=lt),
                              e_w / nrm2, tol=1e-6)
    mk.same("at least one supported configuration ran", ran > 0, True)


# ---------------------------------------------------------------------- operator networks

def _swap_axes_ref(A, dims_up, dims_lo, sys_pos):
    """explicit partial transpose: swap the upper and lower index of every subsystem in sys_pos"""
    n = len(dims_up)
    T = np.asarray(A).reshape(tuple(dims_up) + tuple(dims_lo))
    out_up = [dims_lo[i] if i in sys_pos else dims_up[i] for i in range(n)]
    out_lo = [dims_up[i] if i in sys_pos else dims_lo[i] for i in range(n)]
    out = np.empty(tuple(out_up) + tuple(out_lo), dtype=T.dtype)
    for idx in np.ndindex(*out.shape):
        up, lo = list(idx[:n]), list(idx[n:])
        src_up = [lo[i] if i in sys_pos else up[i] for i in range(n)]
        src_lo = [up[i] if i in sys_pos else lo[i] for i in range(n)]
        out[idx] = T[tuple(src_up) + tuple(src_lo)]
    return out.reshape(int(np.prod(out_up)), int(np.prod(out_lo)))


@obligation(PROP, params=[{"kind": "mpo3"}, {"kind": "gen2"}, {"kind": "pepo2x2"}, {"kind": "mpo3cyc", "_tiers": _T}])
def operator_trace_and_partial_transpose(mk, kind):
    """operator-like networks: to_dense (upper indices are rows), trace, partial_transpose ==
    explicit index arithmetic on the dense operator"""
    mk.encodes(ag.TensorNetworkGenOperator.trace, ag.TensorNetworkGenOperator.partial_transpose,
               ag.TensorNetworkGenOperator.to_dense, tc.TensorNetwork.trace)
    if kind in ("mpo3", "mpo3cyc"):
        L, D, d = 3, 2, 2
        arrays = []
        for i in range(L):
            if kind == "mpo3cyc":
                shp = (D, D, d, d)
            else:
                shp = (D, d, d) if i in (0, L - 1) else (D, D, d, d)
            arrays.append(mk.array(f"W{i}", shp, "cplx"))
        op = qtn.MatrixProductOperator(arrays)
        sites = list(range(L))
        up = [op.upper_ind(i) for i in sites]
        lo = [op.lower_ind(i) for i in sites]
        sys_list = [0, 1, (0, 2), (2, 1), [0, 1, 2]]
    elif kind == "gen2":
        # unequal upper / lower dimensions per site (a rectangular operator), arbitrary labels
        ts = [qtn.Tensor(mk.array("W0", (2, 2, 3), "cplx"), ("x", "u0", "l0"), tags="I0"),
              qtn.Tensor(mk.array("W1", (2, 3, 2), "cplx"), ("x", "u1", "l1"), tags="I1")]
        op = qtn.TensorNetworkGenOperator.from_TN(qtn.TensorNetwork(ts), sites=(0, 1), site_tag_id="I{}",
                                                  upper_ind_id="u{}", lower_ind_id="l{}")
        sites = [0, 1]
        up, lo = ["u0", "u1"], ["l0", "l1"]
        sys_list = [0, (1,), (1, 0)]
    else:
        arrays = [[mk.array(f"W{i}{j}", (2, 2, 2, 2), "cplx" if (i, j) == (0, 1) else "real") for j in range(2)] for i in range(2)]
        op = qtn.PEPO(arrays)          # 2x2: every site has two bonds; order 'urdlbk' minus the missing edges
        sites = list(op.gen_site_coos())
        up = [op.upper_ind(*s) for s in sites]
        lo = [op.lower_ind(*s) for s in sites]
        sys_list = [(0, 1), [(0, 0), (1, 1)], [(1, 0)], [(1, 1), (0, 0), (0, 1)]]
    dup = [op.ind_size(i) for i in up]
    dlo = [op.ind_size(i) for i in lo]
    A = ref.tn_dense(op, tuple(up) + tuple(lo)).reshape(int(np.prod(dup)), int(np.prod(dlo)))
    mk.eq("to_dense() == dense operator (upper = rows, lower = columns)", op.to_dense(), A)
    if A.shape[0] == A.shape[1] and dup == dlo:
        mk.eq("trace() == sum of the diagonal", op.trace(), ref.trace(A))
    else:
        # rectangular per-site factors: only matching-size pairs can be traced; trace over site 0's
        # partner of equal size is not defined -> the dense check above is the obligation
        mk.note("rectangular operator: trace not defined")
    for sysa in sys_list:
        pt = op.partial_transpose(sysa)
        s = [sysa] if (not isinstance(sysa, (list, tuple)) or (kind == "pepo2x2" and isinstance(sysa, tuple))) else list(sysa)
        posn = [sites.index(x) for x in s]
        want = _swap_axes_ref(A, dup, dlo, posn)
        mk.same(f"partial_transpose({sysa}) keeps the class", type(pt), type(op))
        mk.eq(f"partial_transpose({sysa}).to_dense() == explicit index transposition", pt.to_dense(), want)
        if want.shape[0] == want.shape[1] and dup == dlo:
            mk.eq(f"partial_transpose({sysa}).trace() == trace()", pt.trace(), ref.trace(A))
    mk.eq("partial_transpose leaves the original alone", op.to_dense(), A)
    mk.eq("partial_transpose of all sites == transpose", op.partial_transpose(list(sites)).to_dense(), A.T)


# ---------------------------------------------------------------------- compressed-contraction routes

def _compressed_params():
    out = []
    for g in ("path3", "ring3", "ring4"):
        ws = WHERES[g] + (WHERES_MORE[g] if g != "ring4" else [])
        for k, w in enumerate(ws):
            quick = (g in ("path3", "ring3") and k < 4) or (g == "ring4" and w == (2, 0))
            out.append({"geom": g, "where": w, "_tiers": _Q if quick else _T})
    return out


@obligation(PROP, params=_compressed_params(), wall_s=400, timeout_s=600)
def compressed_contraction_routes(mk, geom, where):
    """TensorNetworkGenVector.partial_trace / local_expectation / compute_local_expectation
    (compressed contraction of the flattened overlap network) with a bond cap above every
    intermediate bond and cutoff 0: nothing is truncated, so the dense answer is required"""
    mk.encodes(ag.TensorNetworkGenVector.partial_trace, ag.TensorNetworkGenVector.local_expectation,
               ag.TensorNetworkGenVector.compute_local_expectation, ag.TensorNetworkGenVector.make_reduced_density_matrix,
               tc.TensorNetwork.contract_compressed, tc.TensorNetwork.contract_around)
    tn, n, dims = build_vec(mk, geom)
    psi = dense_vec(tn, range(n))
    nrm2 = norm2_ref(psi)
    G = op_for(mk, "O", dims, where)
    e_w = expect_ref(psi, G, where, dims)
    rho_w = rdm_ref(psi, where)
    cap = dict(max_bond=256, optimize="greedy", cutoff=0.0)
    for fl in (True, False, "all"):
        mk.eq(f"local_expectation(G, {where}, flatten={fl}, normalized=False) == <psi|G|psi>",
              tn.local_expectation(G, where, flatten=fl, normalized=False, **cap), e_w)
    eq_ratio(mk, f"local_expectation(G, {where}) normalized == <psi|G|psi>/<psi|psi>",
             tn.local_expectation(G, where, **cap), e_w, nrm2)
    mk.eq(f"local_expectation(G, {where}, symmetrized=True, normalized=False)",
          tn.local_expectation(G, where, symmetrized=True, normalized=False, **cap), e_w)
    # the cluster routes hand over to the compressed contraction as soon as a bond cap is given
    for kw in (dict(), dict(gauges=None)):
        mk.eq(f"local_expectation_cluster(G, {where}, max_distance={n}, max_bond=256, normalized=False{', gauges=None' if kw else ''})",
              tn.local_expectation_cluster(G, where, max_distance=n, normalized=False, **cap, **kw), e_w)
    eq_ratio(mk, f"local_expectation_cluster(G, {where}, max_distance={n}, max_bond=256) normalized",
             tn.local_expectation_cluster(G, where, max_distance=n, **cap), e_w, nrm2)
    mk.eq(f"compute_local_expectation_cluster(one term, max_bond=256, normalized=False)",
          tn.compute_local_expectation_cluster({where: G}, max_distance=n, normalized=False, **cap), e_w)
    rho = tn.partial_trace(where, normalized=False, **cap)
    mk.eq(f"partial_trace({where}, normalized=False) == dense reduced state", rho, rho_w)
    herm_goal(mk, f"partial_trace({where}) Hermitian", rho)
    eq_ratio(mk, f"partial_trace({where}) normalized", tn.partial_trace(where, **cap), rho_w, nrm2)
    rho = tn.partial_trace(where, normalized=False, method="contract_around", max_bond=256, optimize="greedy", cutoff=0.0)
    mk.eq(f"partial_trace({where}, method='contract_around', normalized=False)", rho, rho_w)
    w2 = tuple(reversed(where)) if len(where) > 1 else ((where[0] + 1) % n,)
    G2 = op_for(mk, "Q", dims, w2)
    e2 = expect_ref(psi, G2, w2, dims)
    mk.eq("compute_local_expectation(two terms, normalized=False) == sum",
          tn.compute_local_expectation({where: G, w2: G2}, normalized=False, **cap), e_w + e2)
    d = tn.compute_local_expectation({where: G, w2: G2}, return_all=True, **cap)
    eq_ratio(mk, "compute_local_expectation(return_all)[where] normalized", d[where], e_w, nrm2)
    eq_ratio(mk, "compute_local_expectation(return_all)[where2] normalized", d[w2], e2, nrm2)


# ---------------------------------------------------------------------- 3D routes

def peps3d_sym(mk, Lx, Ly, Lz, kind, bond, d=2):
    arrays = []
    for i in range(Lx):
        plane = []
        for j in range(Ly):
            line = []
            for k in range(Lz):
                shape = []
                if i < Lx - 1:
                    shape.append(bond((i, j, k), (i + 1, j, k)))
                if j < Ly - 1:
                    shape.append(bond((i, j, k), (i, j + 1, k)))
                if k < Lz - 1:
                    shape.append(bond((i, j, k), (i, j, k + 1)))
                if i > 0:
                    shape.append(bond((i - 1, j, k), (i, j, k)))
                if j > 0:
                    shape.append(bond((i, j - 1, k), (i, j, k)))
                if k > 0:
                    shape.append(bond((i, j, k - 1), (i, j, k)))
                shape.append(d)
                line.append(mk.array(f"A{i}{j}{k}", tuple(shape), kind))
            plane.append(line)
        arrays.append(plane)
    return qtn.PEPS3D(arrays, shape="urfdlbp")


_PATH3D = {frozenset(((0, 0, 0), (1, 0, 0))), frozenset(((1, 0, 0), (1, 1, 0))), frozenset(((1, 1, 0), (1, 1, 1)))}
P3D_OPTS = {"default": dict(), "flat": dict(flatten=True), "nocanon": dict(canonize=False), "nosym": dict(symmetrized=False),
            "cell_compressed": dict(contract_cell_method="compressed")}


def _p3d_params():
    out = []
    ws = [((0, 0, 0), (1, 0, 0)), ((1, 0, 0), (0, 0, 0)), ((1, 1, 1),), ((1, 1, 0), (1, 0, 0)), ((0, 0, 0), (1, 1, 1)), ((1, 1, 1), (1, 0, 0))]
    for k, w in enumerate(ws):
        for o in P3D_OPTS:
            quick = (k == 1 and o == "default") or (k == 3 and o == "flat")
            out.append({"where": w, "opts": o, "_tiers": _Q if quick else _T})
    return out


@obligation(PROP, params=_p3d_params(), wall_s=500, timeout_s=700)
def peps3d_routes(mk, where, opts):
    """2x2x2 PEPS3D (the smallest lattice PEPS3D.partial_trace accepts): partial_trace /
    compute_local_expectation via boundary contraction with an untruncating cap, the cluster and
    exact routes, against the dense state.  Symbolic mode: complex entries, bond dimension 2 on
    a path of three bonds through the lattice and 1 elsewhere (256 amplitudes stay tractable);
    numeric mode: every bond 2."""
    mk.encodes(c3.TensorNetwork3DVector.partial_trace, c3.TensorNetwork3DVector.compute_local_expectation,
               c3.TensorNetwork3DVector.partial_trace_cluster, ag.TensorNetworkGenVector.local_expectation_exact)
    bond = (lambda a, b: 2 if frozenset((a, b)) in _PATH3D else 1) if mk.sym else (lambda a, b: 2)
    p = peps3d_sym(mk, 2, 2, 2, "cplx", bond)
    sites = list(p.gen_site_coos())
    dims = (2,) * 8
    psi = ref.tn_dense(p, tuple(p.site_ind(*s) for s in sites))
    nrm2 = norm2_ref(psi)
    pos = tuple(sites.index(s) for s in where)
    G = op_for(mk, "O", dims, pos)
    e_w = expect_ref(psi, G, pos, dims)
    rho_w = rdm_ref(psi, pos)
    kw = dict(max_bond=64, cutoff=0.0, **P3D_OPTS[opts])
    rho = p.partial_trace(where, normalized=False, **kw)
    mk.eq(f"PEPS3D.partial_trace({where}, normalized=False, {opts}) == dense reduced state", rho, rho_w)
    herm_goal(mk, f"PEPS3D.partial_trace({where}) Hermitian", rho)
    mk.eq(f"PEPS3D.compute_local_expectation({{{where}: G}}, normalized=False, {opts}) == <psi|G|psi>",
          p.compute_local_expectation({where: G}, normalized=False, **kw), e_w)
    eq_ratio(mk, f"PEPS3D.compute_local_expectation({{{where}: G}}, {opts}) normalized",
             p.compute_local_expectation({where: G}, **kw), e_w, nrm2)
    if opts == "default":
        d = p.compute_local_expectation({where: G, ((0, 1, 1),): mk.const(np.array([[0.0, 1.0], [0.0, 0.0]]))}, normalized=False,
                                        return_all=True, max_bond=64, cutoff=0.0)
        mk.eq("return_all[where]", d[where], e_w)
        Sp = mk.const(np.array([[0.0, 1.0], [0.0, 0.0]]))
        mk.eq("return_all[second term] (raising operator on (0,1,1))", d[((0, 1, 1),)], expect_ref(psi, Sp, (sites.index((0, 1, 1)),), dims))
        rho = p.partial_trace_cluster(where, max_bond=64, cutoff=0.0, max_distance=3, normalized=False)
        mk.eq(f"PEPS3D.partial_trace_cluster({where}, max_distance=3, normalized=False)", rho, rho_w)
        mk.eq(f"PEPS3D.local_expectation_exact(G, {where}, normalized=False)", p.local_expectation_exact(G, where, normalized=False), e_w)
