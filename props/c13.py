"""C13 - every route to a local expectation or reduced state gives the dense answer.

Every available route of the real library (exact contraction, cluster / simple-loop /
generalized-loop expansions whose cluster spans the whole network, 1D canonical and
environment routes, 2D plaquette-environment and boundary routes with an untruncating bond
cap, compressed-contraction routes, operator trace / partial transpose) is run on states whose
tensor entries are symbols (conj-pair complex wherever no LAPACK stub is involved) with
NON-SYMMETRIC COMPLEX symbolic operators, on site tuples in both orders and non-adjacent.
Each result is compared, as a polynomial identity, with <psi|O|psi> (/<psi|psi>) and with the
reduced density matrix computed from the dense state by an independent reference (explicit
index arithmetic, qv/ref.py).

Normalised results are rational functions: the engine represents 1/p by a defined symbol w
with the hypothesis w*p = 1; a normalised value is split as  value = w * X  and the goals
are  X == reference numerator  and  p == reference <psi|psi>  (cross-multiplied form).
"""
import itertools

import numpy as np

import quimb.tensor as qtn
from quimb.tensor import tensor_core as tc
from quimb.tensor.tnag import core as ag
from quimb.tensor.tn1d import core as c1
from quimb.tensor.tn2d import core as c2
from quimb.tensor.tn3d import core as c3

from qv import poly as P
from qv import ref
from qv.harness import obligation, Skip

PROP = "C13"
META = {
    "bounds": {},
    "outside": [],
    "assumptions": [],
}

_Q = ("quick", "thorough")
_T = ("thorough",)


# ---------------------------------------------------------------------- generic helpers

def conj(a):
    """entrywise conjugate, object / numeric arrays and scalars alike"""
    if isinstance(a, P.Poly):
        return a.conjugate()
    a = np.asarray(a)
    if a.dtype == object:
        out = np.empty(a.shape, dtype=object)
        for idx in np.ndindex(*a.shape):
            out[idx] = P.lift(a[idx]).conjugate()
        return out
    return np.conj(a)


def _iszero(x):
    if isinstance(x, P.Poly):
        return not x.t
    return x == 0


def expect_ref(psi, G, pos, dims):
    """<psi| G (on subsystems `pos`, in that order) |psi> = sum_ab conj(psi_a) M_ab psi_b"""
    v = psi.reshape(-1)
    M = ref.embed(G, list(dims), tuple(pos))
    cv = conj(v)
    tot = 0
    for a in range(M.shape[0]):
        w = 0
        for b in range(M.shape[1]):
            if not _iszero(M[a, b]):
                w = w + M[a, b] * v[b]
        tot = tot + cv[a] * w
    return tot


def norm2_ref(psi):
    tot = 0
    for x, cx in zip(psi.reshape(-1), conj(psi).reshape(-1)):
        tot = tot + cx * x
    return tot


def rdm_ref(psi, pos):
    """rho[k.., b..] = sum_rest psi[k.., rest] conj(psi[b.., rest]), ordered as `pos`; as a matrix"""
    n = psi.ndim
    inds = tuple(f"k{i}" for i in range(n))
    binds = tuple(f"b{i}" if i in pos else f"k{i}" for i in range(n))
    out = tuple(f"k{i}" for i in pos) + tuple(f"b{i}" for i in pos)
    r = ref.sum_of_products([(psi, inds), (conj(psi), binds)], out)
    dk = int(np.prod([psi.shape[i] for i in pos]))
    return r.reshape(dk, dk)


def _inverse_symbols():
    """defined-inverse symbols of the engine: sid(w) -> p with w = 1/p"""
    return {P.sid(w): P.Poly(dict(key[1])) for key, w in P._DEF_CACHE.items() if key[0] == "inv"}


def split_ratio(x, used=None):
    """symbolic mode: Poly x -> (num, den) with x == num / den (den = 1 if x has no defined inverse).
    Returns None if x is not of the form w * X for one defined inverse w."""
    x = P.lift(x)
    invs = _inverse_symbols()
    present = {s for m in x.t for s, _ in m if s in invs}
    if not present:
        return x, P.ONE
    if len(present) != 1:
        return None
    (w,) = present
    if used is not None:
        used.add(w)
    num = {}
    for m, c in x.t.items():
        e = dict(m).get(w, 0)
        if e != 1:
            return None
        rest = tuple(t for t in m if t[0] != w)
        v = num.get(rest, 0) + c
        if v:
            num[rest] = v
        else:
            num.pop(rest, None)
    return P.Poly(num), invs[w]


def eq_ratio(mk, label, val, num_ref, den_ref):
    """goal  val == num_ref / den_ref  (entrywise for arrays; den_ref a scalar)"""
    if not mk.sym:
        mk.eq(label, val, np.asarray(num_ref) / den_ref)
        return
    vals = P.flat_polys(val)
    nums = P.flat_polys(num_ref)
    if len(vals) != len(nums):
        raise AssertionError(f"goal {label}: size mismatch {len(vals)} vs {len(nums)}")
    den_ref = P.lift(den_ref)
    used = set()
    parts = [split_ratio(v, used) for v in vals]
    dens = {frozenset(p[1].t.items()) for p in parts if p is not None and p[0].t}
    if all(p is not None for p in parts) and len(dens) <= 1:
        den = P.Poly(dict(next(iter(dens)))) if dens else den_ref
        xs = [p[0] for p in parts]
        # the inverse symbols have been eliminated from these goals by the split above: their
        # defining hypotheses w*p = 1 are no longer needed (dropping a hypothesis is always
        # sound) and the goals become hypothesis-free polynomial identities (Q-ID)
        names = {"def-inverse:" + P.TAB.names[w] for w in used} | {"def-inverse-conj:" + P.TAB.names[w] for w in used}
        P.HYP[:] = [h for h in P.HYP if h[0] not in names]
        if not (den - den_ref).t:
            # value = X / <psi|psi> with the very denominator of the reference
            mk.eq(label + " [numerator; denominator == reference <psi|psi>]", xs, nums)
            mk.eq(label + " [denominator]", den, den_ref)
            return
        mk.eq(label + " [cross-multiplied]", [x * den_ref for x in xs], [r * den for r in nums])
        return
    # general form: leave the defined inverses to the certificate procedure
    mk.eq(label + " [times reference <psi|psi>]", [v * den_ref for v in vals], nums)


def herm_goal(mk, label, rho):
    rho = np.asarray(rho)
    mk.eq(label, rho, ref.dag(rho))


def as_matrix(x):
    x = np.asarray(x)
    k = x.ndim // 2
    d = int(np.prod(x.shape[:k])) if k else 1
    return x.reshape(d, -1)


# ---------------------------------------------------------------------- arbitrary geometry

GRAPHS = {
    "path3": (3, [(0, 1), (1, 2)]),
    "ring3": (3, [(0, 1), (1, 2), (0, 2)]),
    "star4": (4, [(0, 1), (0, 2), (0, 3)]),
    "ring4": (4, [(0, 1), (1, 2), (2, 3), (0, 3)]),
}
# physical dimensions: one geometry with unequal dimensions (pins the reshape of G / rho)
PHYS = {"path3": (2, 3, 2), "ring3": (2, 2, 2), "star4": (2, 2, 2, 2), "ring4": (2, 2, 2, 2)}


def build_vec(mk, geom, kind="cplx", D=2, kinds=None):
    n, edges = GRAPHS[geom]
    inds = {i: [] for i in range(n)}
    for a, b in edges:
        ix = f"b{a}{b}"
        inds[a].append(ix)
        inds[b].append(ix)
    ts = []
    for i in range(n):
        shape = (D,) * len(inds[i]) + (PHYS[geom][i],)
        k = kinds[i] if kinds else kind
        ts.append(qtn.Tensor(mk.array(f"T{i}", shape, k), tuple(inds[i]) + (f"k{i}",), tags=[f"I{i}"]))
    tn = qtn.TensorNetworkGenVector.from_TN(qtn.TensorNetwork(ts), site_tag_id="I{}", site_ind_id="k{}",
                                            sites=tuple(range(n)))
    return tn, n, PHYS[geom]


def dense_vec(tn, sites):
    return ref.tn_dense(tn, tuple(tn.site_ind(s) for s in sites))


def op_for(mk, name, dims, where_pos, kind="cplx"):
    k = int(np.prod([dims[p] for p in where_pos]))
    return mk.array(name, (k, k), kind)


WHERES = {
    "path3": [(1,), (0, 1), (1, 0), (0, 2), (2, 0)],
    "ring3": [(0,), (0, 1), (1, 0), (2, 0)],
    "star4": [(0,), (1, 0), (1, 3), (3, 1)],
    "ring4": [(2,), (0, 1), (1, 0), (0, 2), (2, 0), (3, 1)],
}
WHERES_MORE = {
    "path3": [(0,), (2,), (1, 2), (2, 1), (2, 0, 1)],
    "ring3": [(1,), (2,), (1, 2), (2, 1), (0, 2), (1, 2, 0)],
    "star4": [(2,), (0, 1), (2, 1), (3, 0, 1)],
    "ring4": [(0,), (3, 0), (1, 3), (2, 0, 3)],
}


def _exact_params():
    out = []
    for g in GRAPHS:
        for w in WHERES[g]:
            out.append({"geom": g, "where": w, "_tiers": _Q if g != "ring4" or w in [(2,), (1, 0), (0, 2)] else _T})
        for w in WHERES_MORE[g]:
            out.append({"geom": g, "where": w, "_tiers": _T})
    return out


@obligation(PROP, params=_exact_params(), wall_s=400, timeout_s=600)
def exact_routes(mk, geom, where):
    """partial_trace_exact / local_expectation_exact / compute_local_expectation_exact on an
    arbitrary-geometry vector network: every `normalized`, `get`, `optimize` option"""
    mk.encodes(ag.TensorNetworkGenVector.make_reduced_density_matrix, ag.TensorNetworkGenVector.partial_trace_exact,
               ag.TensorNetworkGenVector.local_expectation_exact, ag.TensorNetworkGenVector.compute_local_expectation_exact,
               ag._compute_expecs_maybe_in_parallel)
    tn, n, dims = build_vec(mk, geom)
    psi = dense_vec(tn, range(n))
    nrm2 = norm2_ref(psi)
    rho_w = rdm_ref(psi, where)
    G = op_for(mk, "O", dims, where)
    e_w = expect_ref(psi, G, where, dims)
    kdims = tuple(dims[p] for p in where)

    # ---- reduced density matrix
    rho = tn.partial_trace_exact(where, normalized=False)
    mk.same("rdm is a square matrix over the kept sites", tuple(np.shape(rho)), rho_w.shape)
    mk.eq(f"partial_trace_exact({where}, normalized=False) == dense reduced state", rho, rho_w)
    herm_goal(mk, f"partial_trace_exact({where}) Hermitian", rho)
    rho1 = tn.partial_trace_exact(where)          # default: normalized
    eq_ratio(mk, f"partial_trace_exact({where}) normalized == rho / <psi|psi>", rho1, rho_w, nrm2)
    mk.eq(f"trace of partial_trace_exact({where}, normalized=False) == <psi|psi> (so the normalized one has trace 1)",
          ref.trace(as_matrix(rho)), nrm2)
    r, nf = tn.partial_trace_exact(where, normalized="return", optimize="greedy")
    mk.eq(f"partial_trace_exact({where}, normalized='return')[0] unnormalized", r, rho_w)
    mk.eq(f"partial_trace_exact({where}, normalized='return')[1] == <psi|psi>", nf, nrm2)
    a = tn.partial_trace_exact(where, normalized=False, get="array")
    mk.same("get='array' shape (k.., b..)", tuple(np.shape(a)), kdims + kdims)
    mk.eq(f"partial_trace_exact({where}, get='array')", as_matrix(a), rho_w)
    t = tn.partial_trace_exact(where, normalized=False, get="tensor")
    mk.same("get='tensor' index order", tuple(t.inds), tuple(tn.site_ind(s) for s in where) + tuple(f"_bra{s}" for s in where))
    mk.eq(f"partial_trace_exact({where}, get='tensor')", as_matrix(t.data), rho_w)

    # ---- expectation
    mk.eq(f"local_expectation_exact(G, {where}, normalized=False) == <psi|G|psi>",
          tn.local_expectation_exact(G, where, normalized=False), e_w)
    eq_ratio(mk, f"local_expectation_exact(G, {where}) == <psi|G|psi>/<psi|psi>",
             tn.local_expectation_exact(G, where), e_w, nrm2)
    ev, nf = tn.local_expectation_exact(G, where, normalized="return", optimize="greedy")
    mk.eq(f"local_expectation_exact(G, {where}, normalized='return')[0]", ev, e_w)
    mk.eq(f"local_expectation_exact(G, {where}, normalized='return')[1] == <psi|psi>", nf, nrm2)
    Gt = G.reshape(kdims + kdims)
    mk.eq(f"local_expectation_exact(G as a rank-{2 * len(where)} array, {where})",
          tn.local_expectation_exact(Gt, where, normalized=False), e_w)
    # Tr(rho G) with the returned matrix (ties the two conventions together)
    mk.eq(f"Tr(partial_trace_exact({where}) G) == <psi|G|psi>", ref.trace(ref.matmul(rho, G)), e_w)

    # ---- many terms
    w2 = tuple(reversed(where)) if len(where) > 1 else ((where[0] + 1) % n,)
    G2 = op_for(mk, "Q", dims, w2)
    e2 = expect_ref(psi, G2, w2, dims)
    terms = {where: G, w2: G2}
    mk.eq("compute_local_expectation_exact(terms, normalized=False) == sum of <psi|G_i|psi>",
          tn.compute_local_expectation_exact(terms, normalized=False), e_w + e2)
    d = tn.compute_local_expectation_exact(terms, normalized=False, return_all=True, optimize="greedy")
    mk.same("return_all keys", list(d), [where, w2])
    mk.eq("compute_local_expectation_exact(return_all)[where]", d[where], e_w)
    mk.eq("compute_local_expectation_exact(return_all)[where2]", d[w2], e2)
    eq_ratio(mk, "compute_local_expectation_exact(terms) normalized",
             tn.compute_local_expectation_exact(terms), e_w + e2, nrm2)


@obligation(PROP, params=[{"geom": "ring3", "where": (0, 1)}, {"geom": "path3", "where": (2,)}], exc_is_violation=True)
def exact_rdm_as_tensor_normalized(mk, geom, where):
    """partial_trace_exact(get='tensor') with the default normalized=True (documented return:
    a Tensor holding the normalized reduced density matrix)"""
    mk.encodes(ag.TensorNetworkGenVector.partial_trace_exact)
    tn, n, dims = build_vec(mk, geom)
    psi = dense_vec(tn, range(n))
    t = tn.partial_trace_exact(where, get="tensor")
    mk.same("get='tensor' returns a Tensor", isinstance(t, qtn.Tensor), True)
    eq_ratio(mk, f"partial_trace_exact({where}, get='tensor') normalized == rho / <psi|psi>",
             as_matrix(t.data), rdm_ref(psi, where), norm2_ref(psi))


@obligation(PROP, params=[{"geom": g} for g in GRAPHS])
def norms(mk, geom):
    """norm() / norm(squared=True) / make_norm of a vector network == sum |psi_a|^2"""
    mk.encodes(tc.TensorNetwork.norm, tc.TensorNetwork.make_norm)
    tn, n, dims = build_vec(mk, geom)
    psi = dense_vec(tn, range(n))
    nrm2 = norm2_ref(psi)
    mk.eq("norm(squared=True) == <psi|psi>", tn.norm(squared=True), nrm2)
    nr = tn.norm()
    mk.eq("norm()**2 == <psi|psi>", nr * nr, nrm2)
    mk.eq("make_norm() contracted == <psi|psi>", tn.make_norm().contract(all, output_inds=()), nrm2)
    nm, ket, bra = tn.make_norm(return_all=True)
    mk.eq("make_norm(return_all): bra is the conjugate of ket",
          ref.tn_dense(bra, tuple(tn.site_ind(s) for s in range(n))), conj(psi))


# ---------------------------------------------------------------------- cluster / loop expansions

def make_gauges(mk, tn, which="all"):
    """simple-update style bond gauges (positive vectors) on all / all-but-one bonds"""
    bonds = sorted(tn.inner_inds())
    if which == "partial":
        bonds = bonds[:-1]
    return {ix: mk.array(f"g{ix}", (tn.ind_size(ix),), "pos") for ix in bonds}


def dense_gauged(tn, sites, gauges):
    """the state a (network, gauges) pair denotes: the gauge vector of every listed bond is
    inserted on that bond (sum of products with the gauge as a third factor on the label)"""
    terms = ref.tn_terms(tn) + [(g, (ix,)) for ix, g in (gauges or {}).items()]
    return ref.sum_of_products(terms, tuple(tn.site_ind(s) for s in sites))


def _cluster_params():
    out = []
    for g in GRAPHS:
        ws = WHERES[g] + WHERES_MORE[g]
        for k, w in enumerate(ws):
            for gz in (None, "all", "partial"):
                quick = (k < 3 and gz in (None, "all") and g != "ring4") or (g == "ring4" and w == (0, 2) and gz is None)
                out.append({"geom": g, "where": w, "gauged": gz, "_tiers": _Q if quick else _T})
    return out


@obligation(PROP, params=_cluster_params(), wall_s=400, timeout_s=600)
def cluster_routes(mk, geom, where, gauged):
    """local_expectation_cluster / partial_trace_cluster / compute_local_expectation_cluster with a
    cluster that spans the whole network (max_distance >= diameter, loop union, fill-in), with
    and without simple-update bond gauges"""
    mk.encodes(ag.TensorNetworkGenVector.get_cluster, ag.TensorNetworkGenVector.partial_trace_cluster,
               ag.TensorNetworkGenVector.local_expectation_cluster, ag.TensorNetworkGenVector.compute_local_expectation_cluster,
               tc.TensorNetwork.gauge_simple_insert, ag.TensorNetworkGenVector.local_expectation_exact)
    tn, n, dims = build_vec(mk, geom)
    gauges = make_gauges(mk, tn, gauged) if gauged else None
    psi = dense_gauged(tn, range(n), gauges)
    nrm2 = norm2_ref(psi)
    G = op_for(mk, "O", dims, where)
    e_w = expect_ref(psi, G, where, dims)
    rho_w = rdm_ref(psi, where)
    gk = lambda: (dict(gauges) if gauges is not None else None)

    mk.eq(f"local_expectation_cluster(G, {where}, max_distance={n}, normalized=False)",
          tn.local_expectation_cluster(G, where, max_distance=n, normalized=False, gauges=gk()), e_w)
    eq_ratio(mk, f"local_expectation_cluster(G, {where}, max_distance={n}) normalized",
             tn.local_expectation_cluster(G, where, max_distance=n, gauges=gk()), e_w, nrm2)
    if geom.startswith("ring"):
        mk.eq(f"local_expectation_cluster(G, {where}, mode='loopunion', max_distance={n})",
              tn.local_expectation_cluster(G, where, mode="loopunion", max_distance=n, normalized=False, gauges=gk()), e_w)
    if geom == "ring4":
        md = 0 if len(where) == 2 and abs(where[0] - where[1]) == 2 else 1
        if len(where) <= 2:
            mk.eq(f"local_expectation_cluster(G, {where}, max_distance={md}, fillin=2)",
                  tn.local_expectation_cluster(G, where, max_distance=md, fillin=2, normalized=False, gauges=gk()), e_w)
    rho = tn.partial_trace_cluster(where, max_distance=n, normalized=False, gauges=gk(), smudge=0.0)
    mk.eq(f"partial_trace_cluster({where}, normalized=False) == dense reduced state", rho, rho_w)
    herm_goal(mk, f"partial_trace_cluster({where}) Hermitian", rho)
    eq_ratio(mk, f"partial_trace_cluster({where}) normalized",
             tn.partial_trace_cluster(where, max_distance=n, gauges=gk(), smudge=0.0), rho_w, nrm2)
    w2 = tuple(reversed(where)) if len(where) > 1 else ((where[0] + 1) % n,)
    G2 = op_for(mk, "Q", dims, w2)
    e2 = expect_ref(psi, G2, w2, dims)
    terms = {where: G, w2: G2}
    mk.eq("compute_local_expectation_cluster(terms, normalized=False)",
          tn.compute_local_expectation_cluster(terms, max_distance=n, normalized=False, gauges=gk()), e_w + e2)
    d = tn.compute_local_expectation_cluster(terms, max_distance=n, normalized=True, gauges=gk(), return_all=True)
    eq_ratio(mk, "compute_local_expectation_cluster(return_all)[where] normalized", d[where], e_w, nrm2)
    eq_ratio(mk, "compute_local_expectation_cluster(return_all)[where2] normalized", d[w2], e2, nrm2)


LOOP_WHERES = {"ring3": [(0,), (0, 1), (1, 0), (2, 0), (1, 2, 0)],
               "ring4": [(2,), (1, 0), (0, 2), (2, 0), (3, 1)],
               "path3": [(1,), (0, 1), (2, 0)],
               "star4": [(0,), (1, 0), (3, 1)]}


def _loop_params():
    out = []
    for g, ws in LOOP_WHERES.items():
        for k, w in enumerate(ws):
            for gz in (None, "all"):
                for comb in ("sum", "prod"):
                    quick = (g in ("ring3", "path3") and k < 3 and (gz is None or k == 1)) or \
                            (g == "ring4" and w == (2, 0) and gz is None and comb == "sum")
                    out.append({"geom": g, "where": w, "gauged": gz, "combine": comb, "_tiers": _Q if quick else _T})
    return out


@obligation(PROP, params=_loop_params(), wall_s=400, timeout_s=600)
def loop_expansion_routes(mk, geom, where, gauged, combine):
    """local_expectation_gloop_expand / _sloop_expand (and compute_*) with a (generalized) loop
    that is the whole network: exact by construction, every combine / normalized option.
    combine='prod' factors every cluster value into phase * magnitude (abs, log10): in symbolic
    mode the entries are then strictly positive symbols (magnitudes are the values themselves),
    the conjugation conventions being pinned by the combine='sum' obligations (same cluster
    values) and by the numeric cross-run, which is complex."""
    mk.encodes(ag.TensorNetworkGenVector.local_expectation_gloop_expand, ag.TensorNetworkGenVector.local_expectation_sloop_expand,
               ag.TensorNetworkGenVector.compute_local_expectation_gloop_expand, ag.TensorNetworkGenVector.compute_local_expectation_sloop_expand,
               ag.TensorNetworkGenVector.get_local_gloops, ag.TensorNetworkGenVector.get_local_sloops,
               ag._combine_expansion_expectations, ag.gloop_remove_dangling, ag.sloop_remove_dangling,
               tc.TensorNetwork.select_path, tc.TensorNetwork.gauge_simple_insert)
    kind = "pos" if (mk.sym and combine == "prod") else "cplx"
    tn, n, dims = build_vec(mk, geom, kind=kind)
    gauges = make_gauges(mk, tn, gauged) if gauged else {}
    psi = dense_gauged(tn, range(n), gauges)
    nrm2 = norm2_ref(psi)
    G = op_for(mk, "O", dims, where, kind=kind)
    e_w = expect_ref(psi, G, where, dims)
    allsites = tuple(range(n))
    loopy = geom.startswith("ring")
    gk = lambda: dict(gauges)
    base = dict(gloops=[allsites], combine=combine, autoreduce=loopy)   # autoreduce strips tree-like parts: not exact on trees

    mk.eq(f"gloop_expand(G, {where}, gloops=[all sites], {combine}, normalized=False)",
          tn.local_expectation_gloop_expand(G, where, gauges=gk(), normalized=False, **base), e_w)
    norms_opts = [True, "local", "separate"] if combine == "sum" else [True, "prod"]
    for nz in norms_opts:
        eq_ratio(mk, f"gloop_expand(G, {where}, gloops=[all sites], {combine}, normalized={nz!r})",
                 tn.local_expectation_gloop_expand(G, where, gauges=gk(), normalized=nz, **base), e_w, nrm2)
    mk.eq(f"gloop_expand(G, {where}, autoreduce=False)",
          tn.local_expectation_gloop_expand(G, where, gloops=[allsites], gauges=gk(), normalized=False, combine=combine,
                                            autoreduce=False), e_w)
    if loopy:
        # automatically generated loops: the only generalized / simple loop is the ring itself
        for gl in (n, None):
            eq_ratio(mk, f"gloop_expand(G, {where}, gloops={gl}, {combine}) normalized",
                     tn.local_expectation_gloop_expand(G, where, gloops=gl, gauges=gk(), combine=combine), e_w, nrm2)
        mk.eq(f"sloop_expand(G, {where}, sloops={n}, {combine}, normalized=False)",
              tn.local_expectation_sloop_expand(G, where, sloops=n, gauges=gk(), combine=combine, normalized=False), e_w)
        for sl in (n, None):
            eq_ratio(mk, f"sloop_expand(G, {where}, sloops={sl}, {combine}) normalized",
                     tn.local_expectation_sloop_expand(G, where, sloops=sl, gauges=gk(), combine=combine), e_w, nrm2)
        eq_ratio(mk, f"sloop_expand(G, {where}, autoreduce=False, intersect=True)",
                 tn.local_expectation_sloop_expand(G, where, sloops=n, gauges=gk(), combine=combine, autoreduce=False,
                                                   intersect=True), e_w, nrm2)
    w2 = tuple(reversed(where)) if len(where) > 1 else ((where[0] + 1) % n,)
    G2 = op_for(mk, "Q", dims, w2, kind=kind)
    e2 = expect_ref(psi, G2, w2, dims)
    terms = {where: G, w2: G2}
    mk.eq("compute_local_expectation_gloop_expand(terms, normalized=False)",
          tn.compute_local_expectation_gloop_expand(terms, gauges=gk(), normalized=False, **base), e_w + e2)
    d = tn.compute_local_expectation_gloop_expand(terms, gauges=gk(), return_all=True, **base)
    eq_ratio(mk, "compute_local_expectation_gloop_expand(return_all)[where]", d[where], e_w, nrm2)
    eq_ratio(mk, "compute_local_expectation_gloop_expand(return_all)[where2]", d[w2], e2, nrm2)
    if loopy:
        mk.eq("compute_local_expectation_sloop_expand(terms, normalized=False)",
              tn.compute_local_expectation_sloop_expand(terms, sloops=n, gauges=gk(), combine=combine, normalized=False), e_w + e2)


_UNIT = [(3 / 5, 4 / 5), (5 / 13, 12 / 13), (8 / 17, 15 / 17), (20 / 29, 21 / 29)]


@obligation(PROP, params=[{"geom": "ring3", "where": (1, 0), "gauge": "unit"}, {"geom": "ring3", "where": (1, 0), "gauge": "free"},
                          {"geom": "path3", "where": (2, 0), "gauge": "free", "_tiers": _T}], wall_s=300)
def gloop_global_normalization(mk, geom, where, gauge):
    """compute_local_expectation_gloop_expand(normalized='global') and norm_gloop_expand with the
    whole network as the only generalized loop: the state is the network with the supplied bond
    gauges inserted; its norm / globally normalized expectation are the dense ones.
    gauge='unit': fixed gauges of 2-norm one (what gauge_all_simple produces); 'free': arbitrary
    positive gauges (the documented input: any dict of bond vectors)."""
    mk.encodes(ag.TensorNetworkGenVector.norm_gloop_expand, ag.TensorNetworkGen.normalize_simple,
               ag.TensorNetworkGenVector.compute_local_expectation_gloop_expand)
    kind = "pos" if mk.sym else "cplx"
    tn, n, dims = build_vec(mk, geom, kind=kind)
    bonds = sorted(tn.inner_inds())
    if gauge == "unit":
        gauges = {ix: mk.const(np.array(_UNIT[k])) for k, ix in enumerate(bonds)}
    else:
        gauges = make_gauges(mk, tn, "all")
    psi = dense_gauged(tn, range(n), gauges)
    nrm2 = norm2_ref(psi)
    G = op_for(mk, "O", dims, where, kind=kind)
    e_w = expect_ref(psi, G, where, dims)
    allsites = tuple(range(n))
    loopy = geom.startswith("ring")
    nv = tn.norm_gloop_expand(gloops=[allsites], gauges=dict(gauges), autoreduce=loopy)
    mk.eq(f"norm_gloop_expand(gloops=[all sites], gauges {gauge})**2 == <psi|psi> of the gauged state", nv * nv, nrm2)
    val = tn.compute_local_expectation_gloop_expand({where: G}, gloops=[allsites], gauges=dict(gauges), normalized="global",
                                                    autoreduce=loopy)
    eq_ratio(mk, f"compute_local_expectation_gloop_expand(normalized='global', gauges {gauge}) == <psi|G|psi>/<psi|psi>",
             val, e_w, nrm2)
