"""C17 - eigen / singular / exponential solvers return genuine, correctly *selected* results.

The solvers themselves (LAPACK, ARPACK, LOBPCG, SLEPc, scipy's expm / sqrtm) are FFI: whether
they return genuine eigenpairs is outside the technique.  What is reached is the selection /
sorting / pairing / dispatch / windowing / block-shortcut logic quimb wraps around them:

(a) ``sort_inds``: the real function on symbolic eigenvalues (real, and re + i*im complex) and
    symbolic ``sigma``; ``np.argsort``'s comparisons fork through the solver; oracle = the
    documented key of every code as a z3 formula.
(b) ``eigs_numpy`` / ``eig_numpy`` / ``svds_numpy`` through the public ``qu.eigh / eigvalsh / eig /
    svds / svd``: LAPACK replaced by contract stubs returning a symbolic spectrum (ascending for
    eigh) + eigenvector symbols; goals: the returned values are a k-subset of the stub's spectrum
    extremal for the requested rule, in the documented order; returned vector j is the stub's
    column paired with returned value j (eigen-equation and orthonormality then follow from the
    contract); projector ``P``, generalised ``B`` (local contract stub), general (non-Hermitian)
    route (local contract stub).
(c) ``choose_backend`` on *symbolic* size d and k (unbounded integers), ``eigensystem_partial`` /
    ``eigensystem`` / ``svds`` dispatch with the solver table replaced by recorders: default
    ``which``, argument forwarding, fallback.
(d) ``eigh_window``: dense route on the stub spectrum, sparse route on a model of the partial
    solver: real window arithmetic, trimming, pairing.
(e) ``norm`` variants, ``sqrtm(herm=True)``, ``expm(herm=True)`` modulo the eigh / svd contracts.
(f) autoblock: ``compute_blocks`` == connected components for every zero pattern up to d = 5
    (bounded exhaustive, concrete), ``eigensystem_autoblocked`` on concrete zero patterns with
    symbolic entries: spectrum = union of the per-block stub spectra (+ singleton diagonals),
    ascending, vectors embedded at the block's rows.
(g) eigs_scipy / eigs_lobpcg / svds_scipy with scipy's iterative solvers replaced by recorders that answer with
    symbolic values in arbitrary order: option translation, sorting, pairing, projection.

In numeric mode every harness runs the un-stubbed real code on float matrices built from the
*same named spectrum* (so solver counterexamples replay) and additionally checks the full
statement numerically (residuals, Gram matrices, agreement with numpy's reference spectrum)
for the numpy, scipy (ARPACK) and lobpcg backends.
"""
import itertools
import warnings

import numpy as np
import scipy.linalg as scla
import scipy.sparse as sp
import scipy.sparse.linalg as spla
import z3

import quimb as qu
import quimb.core as qc
from quimb.linalg import autoblock as qab
from quimb.linalg import base_linalg as qbl
from quimb.linalg import numpy_linalg as qnl
from quimb.linalg import scipy_linalg as qsl

from qv import poly as P
from qv import ref, stubs, sx
from qv.harness import obligation, Skip

PROP = "C17"
META = {
    "bounds": {
        "quick": {
            "sort_inds": "n <= 3 symbolic eigenvalues (real: LM SM SA LA SR LR TR, TM with n = 2; complex re + i*im: LM SR LR SI LI TR TI), symbolic sigma, ties included",
            "partial dense (qu.eigh / eigvalsh -> eigs_numpy)": "Hermitian n = 3 (complex) and n = 4 (real), k in {1, 2, n, n+1}, which in {None, SA, LA, LM, SM, TR, TM}, "
                                                                 "sigma symbolic / absent, sort on / off, vectors on / off, ties included (the eigh contract orders by <=)",
            "projector / generalised / general": "n = 3 (4), k <= 2; general route: LM SR LR SI LI TR TI with sort=False",
            "dispatch": "choose_backend: d and k unbounded symbolic integers, dense / matrix-free A / matrix-free B, interior or not, SLEPc importable or not; "
                        "eigensystem_partial: 11 spellings of `backend` x which x sigma; fallback for 6 backends",
            "window": "dense route n in {3, 4}; partial-solver route n = 4 symbolic ascending spectrum, k in {1, 2, 3}; w_0 any real, w_sz > 0 symbolic",
            "norm / sqrtm / expm": "2x2 complex, 3x3 real, 2x3, 3x1",
            "autoblock": "compute_blocks: EVERY symmetric zero pattern with d <= 4 x 3 coordinate orders (192 lists for d = 4); eigensystem: 6 concrete patterns d <= 5, "
                         "real and complex entries",
            "iterative wrappers": "k in {2, 3} symbolic unordered solver answers, with / without projector",
            "numeric cross-run": "Hermitian n = 6 with separated spectrum, k <= 3, every rule, numpy / scipy-ARPACK (dense, sparse, LinearOperator) / lobpcg; "
                                 "compiled autoblock kernels in a JIT-enabled child process",
        },
        "thorough": {"sort_inds": "n = 4 for every real code (TM: 20k paths)", "partial dense": "n = 4 for every rule / k <= 3 / sort / vectors; n = 5 with k = 2",
                     "window": "dense n = 5; partial-solver route n = 5, k in {2, 4}", "autoblock": "compute_blocks: every symmetric pattern with d = 5 x 4 orders (4096 lists); sort=False"},
    },
    "outside": [
        "LAPACK / ARPACK / LOBPCG / PRIMME / SLEPc themselves (FFI): that they return genuine eigenpairs is assumed (contract stubs) in symbolic "
        "mode and only sampled numerically (n = 6) in the numeric cross-run",
        "scipy's shift-invert transformation, spla.expm, sla.sqrtm (herm=False routes: numeric comparison only), expm_multiply (covered under C18)",
        "randomized SVD / rand_linalg.py, approx_spectral.py (statistical estimators), primme (not installed)",
        "floating point rounding, convergence tolerances, non-convergence warnings",
        "exact hits a_i == sigma / a_i == 0 in the reciprocal sort keys (division by zero -> inf is float behaviour; sampled numerically)",
        "ordering of *complex* eigenvalues by np.sort / np.argsort (lexicographic; general route checked with sort=False symbolically, sort=True numerically); "
        "complex 'SM' / 'TM' keys (numeric only)",
        "SLEPc / MPI spawning (slepc4py not importable here: checked that it is never auto-selected, and the selection rule with the flag forced on)",
        "numba's compilation of autoblock.py (the Python source is executed symbolically; the compiled kernels are hit by the numeric cross-run child)",
        "which='SA' etc. combined with an explicit sigma (backend-dependent meaning, not documented)",
    ],
    "assumptions": [
        "np.linalg.eigh / eigvalsh / svd return factors satisfying their documented contracts (qv.stubs); eigh returns ascending eigenvalues (<=)",
        "np.linalg.eig (c17-local stub): A V = V diag(l), l_i = re_i + i*im_i in arbitrary order; scipy.linalg.eigh(a, b) (c17-local stub): "
        "A V = B V diag(w), V^dag B V = 1, w ascending; B positive definite is the caller's precondition",
        "the solver tables of quimb.linalg.numpy_linalg (_DENSE_EIG_METHODS, _NUMPY_EIG_FUNCS) captured numpy's functions at import time: their "
        "entries are replaced by recording wrappers that call the same numpy / scipy function (numeric input) or its contract stub (symbolic input)",
        "object dtype is treated like complex128 by qarray.H (conjugates) and quimb.core.common_type; `.astype(complex)` of exact symbolic eigenvalues is the identity "
        "(symbolic mode only)",
        "autoblock: the float64 output buffer `np.empty(d)` is an object buffer in symbolic mode; np.nonzero on symbolic entries uses generic "
        "position (a symbol is non-zero), zeros are literal",
        "sqrtm(herm=True): positive definite input (eigh spectrum declared positive); expm: exp(w) is a positive generator symbol per eigenvalue",
        "defined symbols reaching a branch carry their definition into the path condition (sx.OPTIONS['def_relations'] = 'monotone'): sqrt(p) as "
        "r^2 = p, r >= 0; a reciprocal w = 1/q through the linear order theory of reciprocals (q != 0, sign w = sign q, |w| < |w'| <=> |q'| < |q|), "
        "which is exact for the comparisons a sort makes among reciprocal keys",
        "eigh_window partial-solver route and the iterative wrappers: the inner solver is replaced by a model / recorder (k nearest to sigma, ascending; "
        "arbitrary-order symbolic answers); dispatch obligations replace the solver table by recorders",
    ],
    "timeout_s": {"quick": 240, "thorough": 900},
}

I_ = lambda mk: (P.I if mk.sym else 1j)


# ====================================================================================
# environment
# ====================================================================================

class _Patches:
    def __init__(self):
        self.saved = []

    def set(self, obj, name, val, item=False):
        if item:
            self.saved.append((obj, name, obj[name], True))
            obj[name] = val
        else:
            self.saved.append((obj, name, obj.__dict__[name] if isinstance(obj, type) else getattr(obj, name), False))
            setattr(obj, name, val)

    def restore(self):
        for obj, name, old, item in reversed(self.saved):
            if item:
                obj[name] = old
            else:
                setattr(obj, name, old)
        self.saved.clear()


def _is_obj(x):
    return isinstance(x, np.ndarray) and x.dtype == object


class _Evals(np.ndarray):
    """eigenvalue vector handed out by the eigh wrapper in symbolic mode: exact reals, so the
    cast `.astype(complex)` (sqrtm) is the identity instead of complex(<symbol>)"""

    def astype(self, dtype, *a, **k):
        if self.dtype == object:
            return self
        return np.ndarray.astype(self, dtype, *a, **k)


def _ascending_into_pc(w):
    c = sx.Ctx.cur
    if c is not None:
        for i in range(len(w) - 1):
            c.add(c.polyvar(P.sid(w[i])) <= c.polyvar(P.sid(w[i + 1])))
        for i in range(len(w)):
            c.polyvar(P.sid(w[i]))


def _eig_stub(A, vecs=True):
    """c17-local contract of numpy.linalg.eig / eigvals: A V = V diag(l); no order, no orthogonality"""
    A = stubs._lift_arr(A)
    n = A.shape[0]
    k = stubs._use("numpy.linalg.eig (c17 local contract stub)")
    l = np.empty(n, dtype=object)
    for i in range(n):
        l[i] = P.real(f"lre{k}_{i}") + P.I * P.real(f"lim{k}_{i}")
    if not vecs:
        return l
    V = stubs._fresh(f"G{k}", (n, n), False)
    W = np.empty((n, n), dtype=object)
    for i in range(n):
        for j in range(n):
            W[i, j] = l[i] if i == j else P.ZERO
    stubs._add_eq(f"eig{k}:AV-VW", A.dot(V) - V.dot(W), False)
    return l, V


def _geigh_stub(A, B, vecs=True):
    """c17-local contract of scipy.linalg.eigh(a, b): A V = B V diag(w), V^dag B V = 1, w ascending"""
    A = stubs._lift_arr(A)
    B = stubs._lift_arr(B)
    n = A.shape[0]
    k = stubs._use("scipy.linalg.eigh(a, b) generalised (c17 local contract stub)")
    w = np.empty(n, dtype=object)
    for i in range(n):
        w[i] = P.real(f"w{k}_{i}")
    _ascending_into_pc(w)
    if not vecs:
        return w
    real = stubs._isreal(A) and stubs._isreal(B)
    V = stubs._fresh(f"E{k}", (n, n), real)
    W = np.empty((n, n), dtype=object)
    for i in range(n):
        for j in range(n):
            W[i, j] = w[i] if i == j else P.ZERO
    stubs._add_eq(f"geigh{k}:AV-BVW", A.dot(V) - B.dot(V).dot(W), real)
    stubs._add_eq(f"geigh{k}:VhBV-I", stubs._dag(V).dot(B).dot(V) - stubs._eye(n), real)
    return w, V


class Env:
    """Recording wrappers around the dense solver tables of quimb.linalg.numpy_linalg (both
    modes: transparent for numeric input) + the object-dtype plumbing (symbolic mode only)."""

    def __init__(self, mk):
        self.mk = mk
        self.calls = []        # (name, A, kwargs, output)
        self.p = _Patches()

    def _rec(self, name, fn):
        def f(A, *a, **k):
            out = fn(A, *a, **k)
            self.calls.append((name, A, dict(k), out))
            return out
        f.__name__ = name
        return f

    def __enter__(self):
        p = self.p
        mk = self.mk

        def eigh(A, *a, **k):
            w, V = np.linalg.eigh(A, *a, **k)
            return (w.view(_Evals) if _is_obj(w) else w), V

        def eig(A, **k):
            return _eig_stub(A) if _is_obj(A) else np.linalg.eig(A, **k)

        def eigvals(A, **k):
            return _eig_stub(A, vecs=False) if _is_obj(A) else np.linalg.eigvals(A, **k)

        def geigh(A, b=None, **k):
            if _is_obj(A) or _is_obj(b):
                return _geigh_stub(A, b)
            return scla.eigh(A, b=b, **k)

        def geigvalsh(A, b=None, **k):
            if _is_obj(A) or _is_obj(b):
                return _geigh_stub(A, b, vecs=False)
            return scla.eigvalsh(A, b=b, **k)

        r_eigh = self._rec("eigh", eigh)
        r_eigvalsh = self._rec("eigvalsh", lambda A, *a, **k: np.linalg.eigvalsh(A, *a, **k))
        r_eig = self._rec("eig", eig)
        r_eigvals = self._rec("eigvals", eigvals)
        r_geigh = self._rec("geigh", geigh)
        r_geigvalsh = self._rec("geigvalsh", geigvalsh)
        T = qnl._DENSE_EIG_METHODS
        p.set(T, (True, True, False), r_eigh, item=True)
        p.set(T, (True, False, False), r_eigvalsh, item=True)
        p.set(T, (False, True, False), r_eig, item=True)
        p.set(T, (False, False, False), r_eigvals, item=True)
        p.set(T, (True, True, True), r_geigh, item=True)
        p.set(T, (True, False, True), r_geigvalsh, item=True)
        F = qnl._NUMPY_EIG_FUNCS
        p.set(F, (True, True), r_eigh, item=True)
        p.set(F, (False, True), r_eigvalsh, item=True)
        p.set(F, (True, False), r_eig, item=True)
        p.set(F, (False, False), r_eigvals, item=True)
        p.set(np.linalg, "svd", self._rec("svd", np.linalg.svd))
        p.set(np.linalg, "eigh", self._rec("np.linalg.eigh", np.linalg.eigh))          # direct calls (autoblock.py)
        p.set(np.linalg, "eigvalsh", self._rec("np.linalg.eigvalsh", np.linalg.eigvalsh))
        if mk.sym:
            def H(self_):
                if self_.dtype == object or issubclass(self_.dtype.type, np.complexfloating):
                    return self_.conjugate().transpose()
                return self_.transpose()

            real_ct = qc.common_type

            def common_type(*arrays):
                if any(a.dtype == object for a in arrays):
                    return object
                return real_ct(*arrays)

            p.set(qc.qarray, "H", property(H))
            p.set(qc, "common_type", common_type)
            p.set(sx.OPTIONS, "def_relations", "monotone", item=True)
        return self

    def __exit__(self, *a):
        self.p.restore()
        return False

    def table_calls(self):
        return [c for c in self.calls if not c[0].startswith("np.linalg.") and c[0] != "svd"]

    def last(self, name):
        for c in reversed(self.calls):
            if c[0] == name:
                return c
        return None


# ====================================================================================
# solver-term helpers (oracles are z3 formulas in symbolic mode, floats in numeric mode)
# ====================================================================================

TOL = 1e-9


def _v(mk, p):
    """oracle-side value: Poly (symbolic) or float (numeric)"""
    return P.lift(p) if mk.sym else float(np.real(p))


def _abs(mk, p):
    """|p| with the sign read off the path condition (forks consistently if still open)"""
    if mk.sym:
        p = P.lift(p)
        return p if bool(p >= 0) else -p
    return abs(p)


def _le(mk, x, y):
    if mk.sym:
        return sx.Ctx.cur.poly_to_z3(P.lift(x) - P.lift(y)) <= 0
    return bool(x <= y + TOL * max(1.0, abs(x), abs(y)))


def _lt(mk, x, y):
    if mk.sym:
        return sx.Ctx.cur.poly_to_z3(P.lift(x) - P.lift(y)) < 0
    return bool(x < y)


def _and(mk, *cs):
    return z3.And(*cs) if mk.sym else all(cs)


def _or(mk, *cs):
    return z3.Or(*cs) if mk.sym else any(cs)


def _implies(mk, a, b):
    return z3.Implies(a, b) if mk.sym else ((not a) or b)


def _chk(mk, cond, label):
    mk.check(sx.SymBool(cond) if mk.sym else bool(cond), label)


def _chk_all(mk, conds, label):
    """one solver query for a family of conditions of the same kind"""
    conds = list(conds)
    if conds:
        _chk(mk, _and(mk, *conds) if len(conds) > 1 else conds[0], label)


def _pair_eq(mk, label, lhs, rhs):
    """pairing goal: lhs must be *the same symbols* as rhs.  Identical -> ordinary (trivial) equality goal; otherwise
    the violation is recorded together with this path's model, so that the replay reproduces the path's ordering"""
    if mk.sym:
        a, b = P.flat_polys(lhs), P.flat_polys(rhs)
        if len(a) != len(b) or not all((x - y).iszero() for x, y in zip(a, b)):
            mk.check(sx.SymBool(z3.BoolVal(False)), label)
            return
    mk.eq(label, lhs, rhs)


def _same_val(mk, a, b):
    if mk.sym:
        return (P.lift(a) - P.lift(b)).iszero()
    return bool(a == b) or abs(a - b) <= 1e-13 * max(1.0, abs(a), abs(b))


def _match(mk, vals, pool, vecs=None, pvecs=None):
    """indices into `pool` of the returned values (identity of symbols / exact floats), each pool
    entry used at most once; None if some value is not in the pool"""
    used, perm = set(), []
    for j, v in enumerate(vals):
        cands = [i for i in range(len(pool)) if i not in used and _same_val(mk, v, pool[i])]
        if not cands:
            return None
        c = cands[0]
        if len(cands) > 1 and vecs is not None and not mk.sym:
            c = min(cands, key=lambda i: float(np.max(np.abs(np.asarray(vecs)[:, j] - np.asarray(pvecs)[:, i]))))
        perm.append(c)
        used.add(c)
    return perm


def _key(mk, code, x, sigma, y=None):
    """documented sort key (ascending) of rule `code` for the eigenvalue x (+ i*y)"""
    code = code.upper()
    if code in ("SA", "SR"):
        return x
    if code in ("LA", "LR"):
        return -x
    if code == "SI":
        return y
    if code == "LI":
        return -y
    if code in ("LM", "SM"):
        m = x * x + (y * y if y is not None else 0)     # |a|^2: same order as |a|
        return -m if code == "LM" else m
    if code == "TR":
        return _abs(mk, x - sigma)
    if code == "TI":
        return _abs(mk, y - sigma)
    if code == "TM":
        assert y is None
        return _abs(mk, _abs(mk, x) - sigma)
    raise KeyError(code)


def _resolved_which(which, sigma):
    """documented default of eigensystem_partial: 'SA', or 'TR' when a target is given"""
    if which is None:
        return "SA" if sigma is None else "TR"
    return which


def _spectrum(mk, n, name, kind="real", ramp=True):
    """numeric mode: n sorted eigenvalues drawn under the *stub's symbol names* (replay of a
    solver model then reproduces the spectrum); random draws are made tie-free by a ramp"""
    vals = []
    for i in range(n):
        nm = f"{name}_{i}"
        v = mk._draw(nm, kind)
        if nm not in mk.env and ramp:
            v = v + i / 128.0
        vals.append(v)
    return np.array(sorted(vals))


def _unitary(mk, n, name="Q", kind="cplx"):
    M = mk.array(name, (n, n), kind) + 2 * np.eye(n)
    return np.linalg.qr(M)[0]


def _herm(mk, n, callno=1, kind="cplx", name="A", spec_kind="real"):
    """symbolic: generic Hermitian / real symmetric matrix; numeric: Q diag(w) Q^dag with the
    spectrum named like the symbols of stub call number `callno`"""
    if mk.sym:
        return mk.herm(name, n) if kind == "cplx" else mk.symm(name, n)
    w = _spectrum(mk, n, f"w{callno}", spec_kind)
    Q = _unitary(mk, n, name + "q", kind)
    A = (Q * w[None, :]) @ Q.conj().T
    A = (A + A.conj().T) / 2
    return A if kind == "cplx" else np.ascontiguousarray(A.real)


def _sigma(mk, use):
    return mk.scalar("sigma", "real") if use else None


# ====================================================================================
# (a) sort_inds
# ====================================================================================

_REAL_CODES = ["LM", "SM", "SA", "LA", "SR", "LR", "TR", "TM"]
_CPLX_CODES = ["LM", "SR", "LR", "SI", "LI", "TR", "TI"]   # complex 'SM' (1/a of a complex symbol): numeric only

_SI_PARAMS = []
for _n in (2, 3, 4):
    for _c in _REAL_CODES:
        _SI_PARAMS.append({"n": _n, "code": _c, "field": "real",
                           "_tiers": ("quick", "thorough") if (_n <= 3 and not (_c == "TM" and _n == 3)) else ("thorough",)})
    for _c in _CPLX_CODES:
        if _n == 4:
            continue
        _SI_PARAMS.append({"n": _n, "code": _c, "field": "cplx",
                           "_tiers": ("quick", "thorough") if (_n <= 2 or _c in ("SR", "LI", "TI", "TR")) else ("thorough",)})


@obligation(PROP, params=_SI_PARAMS, exc_is_violation=True, max_paths=20000, wall_s=600, timeout_s=800)
def sort_inds_rule(mk, n, code, field):
    """sort_inds(a, method, sigma) is a permutation that sorts the documented key of `method`"""
    mk.encodes(qnl.sort_inds)
    target = code[0] == "T"
    x = mk.array("a", (n,), "real")
    y = mk.array("b", (n,), "real") if field == "cplx" else None
    a = x if y is None else x + I_(mk) * y
    sigma = _sigma(mk, True) if target else None
    with Env(mk):
        idx = qnl.sort_inds(a, code if n != 2 else code.lower(), sigma)
        idx = [int(i) for i in idx]
        mk.same("result is a permutation of range(n)", sorted(idx), list(range(n)))
        st = _v(mk, sigma) if target else None
        keys = [_key(mk, code, _v(mk, x[i]), st, None if y is None else _v(mk, y[i])) for i in range(n)]
        _chk_all(mk, [_le(mk, keys[idx[j]], keys[idx[j + 1]]) for j in range(n - 1)],
                 f"'{code}': returned index order sorts the documented key")
    if not mk.sym and field == "cplx" and code == "LM":
        idx = [int(i) for i in qnl.sort_inds(a, "SM")]
        mk.same("'SM' on complex values: ascending modulus", idx, sorted(range(n), key=lambda i: (abs(a[i]), idx.index(i))))
    if not mk.sym and n == 3 and field == "real":
        # exact hits (reciprocal keys divide by zero -> inf): the hit comes first
        with warnings.catch_warnings():
            warnings.simplefilter("ignore")
            if code in ("TR", "TM"):
                mk.same("exact hit of the target sorts first", int(qnl.sort_inds(np.array([1.0, 0.5, 2.0]), code, 0.5)[0]), 1)
            if code == "SM":
                mk.same("exact zero sorts first for 'SM'", int(qnl.sort_inds(np.array([1.0, 0.0, -2.0]), code)[0]), 1)


# ====================================================================================
# (b) dense partial / full solvers around the LAPACK stubs
# ====================================================================================

def _selection_goals(mk, lk, vk, w, V, k, rule, sigma, sort, what="eigenvalue"):
    """lk (, vk): what the real code returned; w (, V): what the solver handed to it"""
    n = len(w)
    m = min(k, n)
    mk.same("number of returned values == min(k, n)", len(lk), m)
    perm = _match(mk, lk, w, vk, V)
    mk.same("every returned value is a distinct member of the solver's spectrum", perm is not None, True)
    if perm is None:
        return None
    wt = [_v(mk, w[i]) for i in range(n)]
    st = _v(mk, sigma) if (sigma is not None and rule[0] == "T") else None
    keys = [_key(mk, rule, wt[i], st) for i in range(n)]
    rest = [j for j in range(n) if j not in perm]
    _chk_all(mk, [_le(mk, keys[i], keys[j]) for i in perm for j in rest],
             f"which={rule}: every returned {what} is at least as extremal as every discarded one")
    if sort:
        _chk_all(mk, [_le(mk, wt[perm[j]], wt[perm[j + 1]]) for j in range(m - 1)], "sort=True: ascending algebraic order")
    else:
        _chk_all(mk, [_le(mk, keys[perm[j]], keys[perm[j + 1]]) for j in range(m - 1)], f"sort=False: in the order of rule {rule}")
    if vk is not None:
        mk.same("eigenvectors come back as a (d, k) qarray", (isinstance(vk, qu.qarray), tuple(vk.shape)), (True, (V.shape[0], m)))
        for j in range(m):
            _pair_eq(mk, f"vector {j} is the solver's column paired with value {j}", np.asarray(vk)[:, j], np.asarray(V)[:, perm[j]])
    return perm


def _ref_select(ev, rule, sigma, k):
    """reference: documented rule applied to numpy's full spectrum (floats)"""
    key = {"SA": lambda x: x, "LA": lambda x: -x, "LM": lambda x: -abs(x), "SM": lambda x: abs(x),
           "TR": lambda x: abs(x - sigma), "TM": lambda x: abs(abs(x) - sigma)}[rule]
    return np.array(sorted(sorted(ev, key=key)[:k]))


def _pairs_ok(mk, label, A, lk, vk, want, B=None, tol=1e-6):
    """full statement on floats: right values, eigen-equation, orthonormality, ascending"""
    lk = np.asarray(lk)
    mk.eq(f"{label}: values == rule applied to numpy's reference spectrum", np.sort(lk), want, tol=tol)
    mk.same(f"{label}: ascending", bool(np.all(np.diff(lk.real) >= -tol)), True)
    if vk is None:
        return
    vk = np.asarray(vk)
    if sp.issparse(A) or isinstance(A, spla.LinearOperator):
        Av = A @ vk
    else:
        Av = np.asarray(A) @ vk
    Bv = vk if B is None else np.asarray(B) @ vk
    res = float(np.max(np.abs(Av - Bv * lk[None, :]))) if lk.size else 0.0
    mk.same(f"{label}: residual |A v - l v| <= {tol}", res <= tol, True)
    G = vk.conj().T @ Bv
    mk.eq(f"{label}: Gram matrix == 1", G, np.eye(len(lk)), tol=tol)


def _numeric_backends(mk, rule, which, sig, k):
    """numeric mode: the same request against every backend / representation, n = 6"""
    N = 6
    k = min(k, 3)
    w = np.array(sorted(mk._draw(f"nw_{i}", "real") / 4 + i - 2.5 for i in range(N)))
    Q = _unitary(mk, N, "nQ", "cplx")
    A = (Q * w[None, :]) @ Q.conj().T
    A = (A + A.conj().T) / 2
    R = _unitary(mk, N, "nR", "real")
    Ar = (R * w[None, :]) @ R.T
    Ar = np.ascontiguousarray((Ar + Ar.T) / 2)
    sigma = (float(mk._draw("nsigma", "real")) + 0.013) if sig else None
    ev = np.linalg.eigvalsh(A)
    want = _ref_select(ev, rule, sigma, k)
    kw = dict(k=k)
    if which is not None:
        kw["which"] = which
    if sigma is not None:
        kw["sigma"] = sigma
    reps = [("numpy/dense", A, "numpy"), ("auto/dense", A, None), ("numpy/sparse", sp.csr_matrix(A), "numpy")]
    if rule in ("SA", "LA", "LM", "SM", "TR"):
        reps += [("scipy/dense", A, "scipy"), ("scipy/sparse", sp.csr_matrix(A), "scipy")]
        if sigma is None:
            reps.append(("scipy/linop", spla.aslinearoperator(A), "scipy"))
            reps.append(("auto/linop", spla.aslinearoperator(A), None))     # matrix-free: the rule must not pick the dense backend
    with warnings.catch_warnings():
        warnings.simplefilter("ignore")
        for label, op, bk in reps:
            lk, vk = qu.eigh(op, backend=bk, **kw)
            _pairs_ok(mk, f"{label} which={which} sigma={'yes' if sig else 'no'} k={k}", A, lk, vk, want)
            lk2 = qu.eigvalsh(op, backend=bk, **kw)
            mk.eq(f"{label}: return_vecs=False gives the same values", lk2, lk, tol=1e-6)
        if rule in ("SA", "LA") and sigma is None:
            # lobpcg: real symmetric problems, extremal eigenvalues (documented as less accurate)
            wantr = _ref_select(np.linalg.eigvalsh(Ar), rule, None, k)
            v0 = np.linalg.qr(mk.array("nv0", (N, k), "real") + np.eye(N)[:, :k])[0]
            lk, vk = qu.eigh(Ar, backend="lobpcg", v0=v0, maxiter=200, tol=1e-10, **kw)
            _pairs_ok(mk, f"lobpcg/dense which={which} k={k}", Ar, lk, vk, wantr, tol=1e-5)


_W_SIG = [(None, False), (None, True), ("SA", False), ("LA", False), ("LM", False), ("SM", False), ("TR", True), ("TM", True)]
_PD_PARAMS = []
for _n in (3, 4, 5):
    for _which, _sig in _W_SIG:
        for _k in (1, 2, 3):
            if _k >= _n:
                continue
            for _sort, _vecs in ((True, True), (False, True), (True, False), (False, False)):
                if _n == 3:
                    quick = (_sort or _vecs) and not (_which == "TM" and not (_sort and _vecs))
                    thorough = True
                elif _n == 4:
                    quick = _k == 2 and _sort and _vecs and _which in (None, "LM", "TR")
                    thorough = _vecs or _sort
                else:
                    quick = False
                    thorough = _k == 2 and _sort and _vecs and _which != "TM"
                if not thorough:
                    continue
                _PD_PARAMS.append({"n": _n, "k": _k, "which": _which, "sig": _sig, "sort": _sort, "vecs": _vecs,
                                   "_tiers": ("quick", "thorough") if quick else ("thorough",)})
# edge cases k >= n
for _k in (3, 4):
    for _which, _sig in ((None, False), ("LM", False), ("TR", True)):
        _PD_PARAMS.append({"n": 3, "k": _k, "which": _which, "sig": _sig, "sort": True, "vecs": True})
        _PD_PARAMS.append({"n": 3, "k": _k, "which": _which, "sig": _sig, "sort": False, "vecs": False, "_tiers": ("thorough",)})


@obligation(PROP, params=_PD_PARAMS, exc_is_violation=True, max_paths=8000, wall_s=700, timeout_s=850)
def partial_dense_select(mk, n, k, which, sig, sort, vecs):
    """qu.eigh / qu.eigvalsh (k >= 0) on a small dense Hermitian operator -> eigensystem_partial ->
    (auto-selected) eigs_numpy -> sort_inds around the eigh contract stub"""
    mk.encodes(qnl.eigs_numpy, qnl.sort_inds, qbl.eigensystem_partial, qbl.eigensystem, qbl.choose_backend)
    A = _herm(mk, n, 1, "cplx" if n <= 3 else "real")
    sigma = _sigma(mk, sig)
    kw = dict(k=k, sort=sort)
    if which is not None:
        kw["which"] = which
    if sigma is not None:
        kw["sigma"] = sigma
    if (n + k) % 2:
        kw["backend"] = "numpy"     # otherwise: automatic selection (small dense -> numpy)
    with Env(mk) as env:
        if vecs:
            lk, vk = qu.eigh(A, **kw)
            w, V = env.last("eigh")[3]
        else:
            lk, vk = qu.eigvalsh(A, **kw), None
            w, V = env.last("eigvalsh")[3], None
        mk.same("exactly one dense solve", len(env.table_calls()), 1)
        rule = _resolved_which(which, sigma)
        _selection_goals(mk, lk, vk, w, V, k, rule, sigma, sort)
    if not mk.sym:
        if vecs and sort:
            want = _ref_select(np.linalg.eigvalsh(A), rule, sigma, min(k, n))
            _pairs_ok(mk, "numpy backend", A, lk, vk, want)
        if vecs and sort and k < n:
            _numeric_backends(mk, rule, which, sig, k)


@obligation(PROP, params=[{"n": 3, "m": 2, "k": 1, "which": "SA", "vecs": True}, {"n": 3, "m": 2, "k": 2, "which": "LM", "vecs": True},
                          {"n": 4, "m": 3, "k": 2, "which": "LA", "vecs": True, "_tiers": ("thorough",)},
                          {"n": 3, "m": 2, "k": 1, "which": "LA", "vecs": False}],
            exc_is_violation=True)
def partial_dense_projector(mk, n, m, k, which, vecs):
    """eigs_numpy(P=...): the solve happens on P^dag A P, the vectors are mapped back with P"""
    mk.encodes(qnl.eigs_numpy, qbl.eigensystem_partial)
    A = _herm(mk, n, 9, "cplx", name="A")      # (spectrum of A itself is irrelevant here)
    Pj = mk.array("P", (n, m), "cplx")
    if not mk.sym:
        Pj = np.linalg.qr(Pj + np.eye(n)[:, :m])[0]
    with Env(mk) as env:
        out = qu.eigh(A, k=k, which=which, backend="numpy", P=Pj) if vecs else qu.eigvalsh(A, k=k, which=which, backend="numpy", P=Pj)
        name, Asub, _, sol = env.last("eigh" if vecs else "eigvalsh")
        mk.eq("the dense solver receives P^dag A P", Asub, ref.matmul(ref.dag(Pj), ref.matmul(A, Pj)))
        w, V = sol if vecs else (sol, None)
        lk, vk = out if vecs else (out, None)
        # selection on the projected spectrum, pairing with P @ (solver's column)
        perm = _selection_goals(mk, lk, None, w, V, k, which, None, True)
        if vecs and perm is not None:
            mk.same("vectors live in the full space", tuple(vk.shape), (n, min(k, m)))
            for j, i in enumerate(perm):
                _pair_eq(mk, f"vector {j} == P @ (solver's column paired with value {j})", np.asarray(vk)[:, j], ref.matmul(Pj, np.asarray(V)[:, i]))
    if not mk.sym and vecs:
        # Ritz pairs of the compressed operator: P^dag (A v - l v) == 0, orthonormal
        vk = np.asarray(vk)
        r = Pj.conj().T @ (A @ vk - vk * np.asarray(lk)[None, :])
        mk.eq("Galerkin residual P^dag (A v - l v) == 0", r, np.zeros_like(r), tol=1e-8)
        mk.eq("Gram matrix == 1", vk.conj().T @ vk, np.eye(vk.shape[1]), tol=1e-8)


@obligation(PROP, params=[{"n": 3, "k": 1, "which": None, "vecs": True}, {"n": 3, "k": 2, "which": "LA", "vecs": True},
                          {"n": 3, "k": 2, "which": "LM", "vecs": True}, {"n": 3, "k": 2, "which": "SA", "vecs": False},
                          {"n": 4, "k": 2, "which": "LA", "vecs": True}, {"n": 4, "k": 2, "which": "SA", "vecs": True, "_tiers": ("thorough",)},
                          {"n": 4, "k": 2, "which": "SM", "vecs": True, "_tiers": ("thorough",)},
                          {"n": 4, "k": 3, "which": "LM", "vecs": True, "_tiers": ("thorough",)}],
            exc_is_violation=True, max_paths=6000, wall_s=600)
def partial_dense_generalized(mk, n, k, which, vecs):
    """generalised problem A v = l B v through the numpy backend: B reaches the solver as the
    metric, selection / pairing as in the standard case"""
    mk.encodes(qnl.eigs_numpy, qbl.eigensystem_partial, qbl.eigensystem)
    if mk.sym:
        A = mk.herm("A", n)
        B = mk.herm("B", n)
    else:
        M = mk.array("Bm", (n, n), "cplx")
        B = M @ M.conj().T + np.eye(n)
        L = np.linalg.cholesky(B)
        w = _spectrum(mk, n, "w1")
        Q = _unitary(mk, n, "Aq", "cplx")
        C = (Q * w[None, :]) @ Q.conj().T
        A = L @ ((C + C.conj().T) / 2) @ L.conj().T          # generalised spectrum of (A, B) is w
    kw = dict(k=k, B=B, backend="numpy")
    if which is not None:
        kw["which"] = which
    with Env(mk) as env:
        out = qu.eigh(A, **kw) if vecs else qu.eigvalsh(A, **kw)
        name, A_, opts, sol = env.last("geigh" if vecs else "geigvalsh")
        mk.same("generalised dense solver selected, called once", (name, len(env.table_calls())), ("geigh" if vecs else "geigvalsh", 1))
        mk.same("B forwarded unchanged as the metric `b`; no other option leaks through", (opts.get("b") is B, sorted(opts)), (True, ["b"]))
        mk.eq("A forwarded unchanged", A_, A)
        w, V = sol if vecs else (sol, None)
        lk, vk = out if vecs else (out, None)
        rule = _resolved_which(which, None)
        _selection_goals(mk, lk, vk, w, V, k, rule, None, True)
    if not mk.sym and vecs:
        Linv = np.linalg.inv(np.linalg.cholesky(B))
        evref = np.linalg.eigvalsh(Linv @ A @ Linv.conj().T)
        _pairs_ok(mk, "generalised", A, lk, vk, _ref_select(evref, rule, None, k), B=B)
        # iterative backend on the same pencil
        if rule in ("SA", "LA") and n >= 4:
            l2, v2 = qu.eigh(A, k=k, B=B, which=rule, backend="scipy")
            _pairs_ok(mk, "generalised/scipy", A, l2, v2, _ref_select(evref, rule, None, k), B=B)


_GEN_CODES = ["LM", "SR", "LR", "SI", "LI", "TR", "TI"]


@obligation(PROP, params=[{"n": n, "k": k, "which": c, "vecs": v, "_tiers": ("quick", "thorough") if (n == 3 and k == 2 and (v or c == "LR")) else ("thorough",)}
                          for n in (3,) for k in (1, 2) for c in _GEN_CODES for v in (True, False)],
            exc_is_violation=True, max_paths=8000, wall_s=600)
def partial_dense_general(mk, n, k, which, vecs):
    """general (non-Hermitian) operator through the numpy backend, sort=False (ordering of
    complex numbers is outside): selection by real / imaginary part / modulus / target"""
    mk.encodes(qnl.eigs_numpy, qnl.sort_inds, qbl.eigensystem_partial)
    target = which[0] == "T"
    sigma = _sigma(mk, target)
    if mk.sym:
        A = mk.array("A", (n, n), "cplx")
    else:
        lre = np.array([mk._draw(f"lre1_{i}", "real") + (i / 128.0 if f"lre1_{i}" not in mk.env else 0) for i in range(n)])
        lim = np.array([mk._draw(f"lim1_{i}", "real") + (i / 64.0 if f"lim1_{i}" not in mk.env else 0) for i in range(n)])
        S = mk.array("S", (n, n), "cplx") + 3 * np.eye(n)
        A = S @ np.diag(lre + 1j * lim) @ np.linalg.inv(S)
    kw = dict(k=k, which=which, sort=False, backend="numpy")
    if target:
        kw["sigma"] = sigma
    with Env(mk) as env:
        out = qu.eig(A, **kw) if vecs else qu.eigvals(A, **kw)
        l, V = env.last("eig")[3] if vecs else (env.last("eigvals")[3], None)
        lk, vk = out if vecs else (out, None)
        m = min(k, n)
        mk.same("number of returned values", len(lk), m)
        perm = _match(mk, lk, l, vk, V)
        mk.same("every returned value is a distinct member of the solver's spectrum", perm is not None, True)
        if perm is None:
            return
        if mk.sym:
            xs = [P.lift(v).real for v in l]
            ys = [P.lift(v).imag for v in l]
        else:
            xs, ys = [float(v.real) for v in l], [float(v.imag) for v in l]
        st = _v(mk, sigma) if target else None
        keys = [_key(mk, which, xs[i], st, ys[i]) for i in range(n)]
        rest = [j for j in range(n) if j not in perm]
        _chk_all(mk, [_le(mk, keys[i], keys[j]) for i in perm for j in rest],
                 f"which={which}: every returned eigenvalue is at least as extremal as every discarded one")
        _chk_all(mk, [_le(mk, keys[perm[j]], keys[perm[j + 1]]) for j in range(m - 1)], f"sort=False: in the order of rule {which}")
        if vecs:
            for j in range(m):
                _pair_eq(mk, f"vector {j} is the solver's column paired with value {j}", np.asarray(vk)[:, j], np.asarray(V)[:, perm[j]])
    if not mk.sym and vecs:
        vk = np.asarray(vk)
        res = float(np.max(np.abs(A @ vk - vk * np.asarray(lk)[None, :])))
        mk.same("residual |A v - l v| <= 1e-8", res <= 1e-8, True)
        # sort=True: numpy's lexicographic ascending order of complex values
        ls = qu.eigvals(A, k=k, which=which, backend="numpy", **({"sigma": sigma} if target else {}))
        mk.eq("sort=True returns the same values in np.sort order", ls, np.sort(np.asarray(lk)), tol=1e-9)


@obligation(PROP, params=[{"n": n, "isherm": h, "sort": s, "form": f,
                           "_tiers": ("quick", "thorough") if (n == 3 or (h and s and f == "pairs")) else ("thorough",)}
                          for n in (3, 4) for h in (True, False) for s in (True, False) for f in ("pairs", "vals", "vecs")
                          if not (not h and s)],
            exc_is_violation=True, max_paths=4000)
def full_dense(mk, n, isherm, sort, form):
    """k < 0 (default): eigensystem -> eig_numpy: the whole spectrum of the solver, ascending when
    sort=True (Hermitian), vectors paired; eig / eigh / eigvals / eigvalsh / eigvecs / eigvecsh"""
    mk.encodes(qnl.eig_numpy, qbl.eigensystem, qbl.eigenvectors)
    if isherm:
        A = _herm(mk, n, 1, "cplx" if n == 3 else "real")
    elif mk.sym:
        A = mk.array("A", (n, n), "cplx")
    else:
        S = mk.array("S", (n, n), "cplx") + 3 * np.eye(n)
        A = S @ np.diag([mk._draw(f"lre1_{i}", "real") + 1j * mk._draw(f"lim1_{i}", "real") + i / 64.0 for i in range(n)]) @ np.linalg.inv(S)
    fn = {("pairs", True): qu.eigh, ("vals", True): qu.eigvalsh, ("vecs", True): qu.eigvecsh,
          ("pairs", False): qu.eig, ("vals", False): qu.eigvals, ("vecs", False): qu.eigvecs}[form, isherm]
    with Env(mk) as env:
        out = fn(A, sort=sort)
        mk.same("exactly one dense solve", len(env.table_calls()), 1)
        name, A_, _, sol = env.table_calls()[0]
        mk.same("solver variant", name, {("pairs", True): "eigh", ("vals", True): "eigvalsh", ("vecs", True): "eigh",
                                         ("pairs", False): "eig", ("vals", False): "eigvals", ("vecs", False): "eig"}[form, isherm])
        w, V = sol if form != "vals" else (sol, None)
        lk, vk = {"pairs": lambda: out, "vals": lambda: (out, None), "vecs": lambda: (None, out)}[form]()
        if lk is not None:
            mk.same("all n eigenvalues returned", len(lk), n)
            perm = _match(mk, lk, w, vk, V)
            mk.same("returned values are the solver's spectrum, each exactly once", perm is not None and sorted(perm) == list(range(n)), True)
            if perm is None:
                return
            if sort:
                _chk_all(mk, [_le(mk, _v(mk, lk[j]), _v(mk, lk[j + 1])) for j in range(n - 1)], "sort=True: ascending")
            else:
                mk.same("sort=False: solver order kept", perm, list(range(n)))
        else:
            perm = list(range(n))     # vectors only: eigh contract order is already ascending
        if vk is not None:
            mk.same("vectors as (d, d) qarray", (isinstance(vk, qu.qarray), tuple(vk.shape)), (True, (n, n)))
            if lk is not None:
                for j in range(n):
                    _pair_eq(mk, f"vector {j} is the solver's column paired with value {j}", np.asarray(vk)[:, j], np.asarray(V)[:, perm[j]])
    if not mk.sym and form == "pairs":
        vk_ = np.asarray(vk)
        lk_ = np.asarray(lk)
        mk.eq("ev @ diag(el) @ ev^-1 == A (documented reconstruction)", (vk_ * lk_[None, :]) @ (vk_.conj().T if isherm else np.linalg.inv(vk_)), A, tol=1e-8)
        if isherm:
            mk.eq("eigenvalues == numpy reference", lk_, np.linalg.eigvalsh(A), tol=1e-9)
            mk.eq("Gram matrix == 1", vk_.conj().T @ vk_, np.eye(n), tol=1e-9)
    if not mk.sym and form == "vecs" and isherm:
        vk_ = np.asarray(vk)
        D = vk_.conj().T @ A @ vk_
        mk.eq("eigvecsh diagonalises A with ascending diagonal", D, np.diag(np.linalg.eigvalsh(A)), tol=1e-8)


@obligation(PROP, params=[{"shape": (3, 3), "k": 1}, {"shape": (3, 3), "k": 2}, {"shape": (2, 2), "k": 2}, {"shape": (2, 2), "k": 1}],
            exc_is_violation=True, rounds=2)
def svds_dense(mk, shape, k):
    """svds (numpy backend, auto-selected for small operators) keeps the k leading triplets of
    the full SVD; svd() returns the full thin decomposition"""
    mk.encodes(qnl.svds_numpy, qbl.svds, qbl.svd, qbl.choose_backend)
    A = mk.array("A", shape, "cplx" if shape[0] <= 2 else "real")
    with Env(mk):
        U, s, VH = qu.svds(A, k, backend="numpy" if k == 1 else "AUTO")
        mk.same("k triplets", (tuple(U.shape), len(s), tuple(VH.shape)), ((shape[0], k), k, (k, shape[1])))
        if mk.sym:
            full = stubs.LAST["svd"]
            mk.eq("the full SVD ran on A itself", full, A)
        s_only = qu.svds(A, k, return_vecs=False)
        Uf, sf, VHf = qu.svd(A)
    r = min(shape)
    if mk.sym:
        # each call is a fresh stub instance: relate within one call
        _chk_all(mk, [_le(mk, _v(mk, s[j + 1]), _v(mk, s[j])) for j in range(k - 1)], "singular values descending")
        mk.same("return_vecs=False: k values", len(s_only), k)
        mk.same("svd(): thin shapes", (tuple(Uf.shape), len(sf), tuple(VHf.shape)), ((shape[0], r), r, (r, shape[1])))
        mk.eq("svd(): U diag(s) VH == A", ref.matmul(Uf * sf[None, :], VHf), A)
        # triplet equations from the contract: A VH^dag == U s  on the kept triplets
        mk.eq("kept triplets: A v_j == s_j u_j", ref.matmul(A, ref.dag(VH)), U * s[None, :])
        mk.eq("kept left vectors orthonormal", ref.matmul(ref.dag(U), U), ref.eye(k, like=U))
    else:
        sref = np.linalg.svd(A, compute_uv=False)
        mk.eq("values == k largest singular values (numpy reference)", s, sref[:k], tol=1e-9)
        mk.eq("return_vecs=False agrees", s_only, sref[:k], tol=1e-9)
        mk.eq("A v_j == s_j u_j", A @ np.asarray(VH).conj().T, np.asarray(U) * s[None, :], tol=1e-9)
        mk.eq("left vectors orthonormal", np.asarray(U).conj().T @ np.asarray(U), np.eye(k), tol=1e-9)
        mk.eq("svd(): U diag(s) VH == A", (np.asarray(Uf) * sf[None, :]) @ np.asarray(VHf), A, tol=1e-9)
        # iterative backend (ARPACK) on a bigger operator, dense / sparse / linear operator
        N = 7
        Bm = mk.array("nB", (N, N - 1), "real") + np.eye(N)[:, :N - 1] * np.arange(1, N)[None, :]
        sb = np.linalg.svd(Bm, compute_uv=False)
        for label, op in (("dense", Bm), ("sparse", sp.csr_matrix(Bm)), ("linop", spla.aslinearoperator(Bm))):
            u2, s2, v2 = qu.svds(op, k, backend="scipy")
            mk.eq(f"scipy/{label}: values == k largest, descending", s2, sb[:k], tol=1e-7)
            mk.eq(f"scipy/{label}: A v == s u", Bm @ np.asarray(v2).T, np.asarray(u2) * s2[None, :], tol=1e-7)


# ====================================================================================
# (c) backend choice and dispatch
# ====================================================================================

class _Op:
    """an operator of which only the (symbolic) size is known"""

    def __init__(self, d):
        self.shape = (d, d)


def _linop(d):
    op = spla.aslinearoperator(np.eye(2))
    op.shape = (d, d)
    return op


def _expected_backend(mk, d, k, int_eps, a_linop=False, b_linop=False, slepc=False, sparse_nnz=None):
    """the selection rule (comments of choose_backend; thresholds are its constants): small
    operator or large requested fraction, d^2 / k < 2000 (10000 for interior targets), and
    neither operator matrix-free -> dense numpy; else SLEPc if importable (MPI pool only for
    sparse operators with > 10000 stored entries; never with a matrix-free B); else scipy"""
    thr = 10000 if int_eps else 2000
    small = bool(d * d < thr * k)
    if small and not (a_linop or b_linop):
        return "NUMPY"
    if slepc and not b_linop:
        return "SLEPC" if (sparse_nnz is not None and sparse_nnz > 10000) else "SLEPC-NOMPI"
    return "SCIPY"


@obligation(PROP, params=[{"int_eps": e, "kind": kd, "slepc": sl} for e in (False, True) for kd in ("array", "linopA", "linopB")
                          for sl in (False, True)], exc_is_violation=True)
def choose_backend_rule(mk, int_eps, kind, slepc):
    """choose_backend on symbolic size d and number of requested pairs k (unbounded integers):
    both sides of the d^2 / k threshold; SLEPc only if importable"""
    mk.encodes(qbl.choose_backend)
    d = mk.int("d", 1, None)
    k = mk.int("k", 1, None)
    A = _linop(d) if kind == "linopA" else _Op(d)
    B = _linop(d) if kind == "linopB" else None
    p = _Patches()
    try:
        if slepc:
            p.set(qbl, "SLEPC4PY_FOUND", True)
        else:
            mk.same("slepc4py is not importable in this environment", qbl.SLEPC4PY_FOUND, False)
        got = qbl.choose_backend(A, k, int_eps, B=B)
    finally:
        p.restore()
    want = _expected_backend(mk, d, k, int_eps, kind == "linopA", kind == "linopB", slepc)
    mk.same(f"backend for int_eps={int_eps}, {kind}, slepc importable={slepc}", got, want)
    if not slepc:
        mk.same("SLEPc never auto-selected when not importable", got in ("SLEPC", "SLEPC-NOMPI"), False)


@obligation(PROP, exc_is_violation=True)
def choose_backend_sparse(mk):
    """concrete sparse operators on both sides of the nnz threshold / size threshold"""
    mk.encodes(qbl.choose_backend)
    p = _Patches()
    rows = []
    for d, nnz, k, int_eps in [(200, 12000, 2, False), (200, 9000, 2, False), (200, 10000, 2, False), (200, 10001, 2, False),
                               (40, 900, 1, False), (40, 900, 1, True), (100, 300, 4, False), (100, 300, 5, False),
                               (100, 300, 6, False), (100, 300, 1, True), (101, 300, 1, True), (200, 12000, 30, False)]:
        ii = np.arange(nnz) // d
        jj = np.arange(nnz) % d
        A = sp.csr_matrix((np.ones(nnz), (ii, jj)), shape=(d, d))
        assert A.nnz == nnz
        for slepc in (False, True):
            try:
                p.set(qbl, "SLEPC4PY_FOUND", slepc)
                got = qbl.choose_backend(A, k, int_eps)
            finally:
                p.restore()
            rows.append(((d, nnz, k, int_eps, slepc), got, _expected_backend(mk, d, k, int_eps, slepc=slepc, sparse_nnz=nnz)))
    mk.same("sparse operators: (d, nnz, k, interior, slepc) -> backend", [(r[0], r[1]) for r in rows], [(r[0], r[2]) for r in rows])
    # svds uses the same rule with the exterior threshold
    d = mk.int("d", 1, None)
    k = mk.int("k", 1, None)
    log = []
    try:
        for name in list(qbl._SVDS_METHODS):
            p.set(qbl._SVDS_METHODS, name, (lambda nm: lambda A, **kw: log.append((nm, A, kw)) or nm)(name), item=True)
        A = _Op(d)
        out = qbl.svds(A, k, ncv=5, return_vecs=False, backend="AUTO", maxiter=3)
        want = _expected_backend(mk, d, k, False)
        mk.same("svds AUTO: backend by the exterior rule, arguments forwarded", (out, log),
                (want, [(want, A, {"k": k, "ncv": 5, "return_vecs": False, "maxiter": 3})]))
        del log[:]
        for bk in ("numpy", "SCIPY", "primme", "slepc-nompi", "slepc"):
            out = qbl.svds(A, 2, backend=bk)
            mk.same(f"svds backend={bk!r} honoured", (out, log[-1][0], log[-1][2]), (bk.upper(), bk.upper(), {"k": 2, "ncv": None, "return_vecs": True}))
    finally:
        p.restore()


class _Boom(RuntimeError):
    pass


def _install_recorders(p, log, failing=()):
    def rec(name):
        def f(A, **kw):
            log.append((name, A, kw))
            if name in failing:
                raise _Boom(name)
            return ("result of", name)
        return f
    for name in list(qbl._EIGS_METHODS):
        p.set(qbl._EIGS_METHODS, name, rec(name), item=True)
    p.set(qbl, "eigs_scipy", rec("SCIPY(fallback)"))


_BACKEND_ARGS = [None, "AUTO", "auto", "numpy", "NumPy", "scipy", "primme", "lobpcg", "LOBPCG", "slepc", "slepc-nompi"]


@obligation(PROP, params=[{"sig": s, "which": w} for s in (False, True) for w in (None, "SA", "LM", "TR")], exc_is_violation=True)
def partial_dispatch(mk, sig, which):
    """eigensystem_partial with the solver table replaced by recorders: backend honoured /
    auto-selected by the rule (symbolic d, k), default `which`, every argument forwarded"""
    mk.encodes(qbl.eigensystem_partial, qbl.choose_backend, qbl.eigensystem)
    d = mk.int("d", 1, None)
    k = mk.int("k", 1, None)
    sigma = mk.sreal("sigma") if sig else None
    A = _Op(d)
    B, v0 = object(), object()
    p = _Patches()
    log = []
    want_which = which if which is not None else ("TR" if sig else "SA")
    try:
        _install_recorders(p, log)
        for bk in _BACKEND_ARGS:
            del log[:]
            kw = dict(B=B, return_vecs=False, ncv=7, tol=1e-3, v0=v0, sort=False, maxiter=11, EPSType="gd")
            if which is not None:
                kw["which"] = which
            if sig:
                kw["sigma"] = sigma
            if bk is not None:
                kw["backend"] = bk
            out = qbl.eigensystem_partial(A, k, True, **kw)
            if bk is None or bk.upper() == "AUTO":
                want = _expected_backend(mk, d, k, sig)
            else:
                want = bk.upper()
            mk.same(f"backend={bk!r}: one solver call, on the expected backend, result handed back", (len(log), log[0][0], out),
                    (1, want, ("result of", want)))
            got = log[0][2]
            mk.same(f"backend={bk!r}: operator and every setting forwarded unchanged (which default -> {want_which})",
                    (log[0][1] is A, sorted(got), got["k"] is k, got["B"] is B, got["which"], got["return_vecs"], got["sigma"] is sigma,
                     got["isherm"], got["ncv"], got["sort"], got["tol"], got["v0"] is v0, got["maxiter"], got["EPSType"]),
                    (True, sorted(["k", "B", "which", "return_vecs", "sigma", "isherm", "ncv", "sort", "tol", "v0", "maxiter", "EPSType"]),
                     True, True, want_which, False, True, True, 7, False, 1e-3, True, 11, "gd"))
        # public partials: isherm / return_vecs flags, k >= 0 -> partial route
        del log[:]
        qu.eigh(A, k=k, backend="scipy")
        qu.eigvalsh(A, k=k, backend="scipy")
        qu.eig(A, k=k, backend="scipy")
        qu.eigvals(A, k=k, backend="scipy")
        mk.same("eigh / eigvalsh / eig / eigvals -> (isherm, return_vecs)", [(c[2]["isherm"], c[2]["return_vecs"]) for c in log],
                [(True, True), (True, False), (False, True), (False, False)])
        del log[:]
        p.set(qbl._EIGS_METHODS, "SCIPY", lambda A, **kw: log.append(kw) or (np.array([1.5]), np.array([[2.0], [3.0]])), item=True)
        gs = qu.groundstate(A, backend="scipy")
        ge = qu.groundenergy(A, backend="scipy")
        lo, hi = qu.bound_spectrum(A, backend="scipy")
        mk.same("groundstate / groundenergy / bound_spectrum request k=1 of SA (LA)",
                [(c["k"], c["which"], c["return_vecs"], c["isherm"]) for c in log],
                [(1, "SA", True, True), (1, "SA", False, True), (1, "SA", False, True), (1, "LA", False, True)])
        mk.same("aliases unpack the solver's answer", (gs.tolist(), float(ge[0]) if np.ndim(ge) else float(ge)), ([[2.0], [3.0]], 1.5))
    finally:
        p.restore()


@obligation(PROP, params=[{"bk": b} for b in (None, "numpy", "scipy", "lobpcg", "primme", "slepc-nompi")], exc_is_violation=True)
def partial_fallback(mk, bk):
    """a failing backend: re-raised unchanged, or (fallback_to_scipy=True and not already scipy)
    one retry on scipy with identical settings and a warning"""
    mk.encodes(qbl.eigensystem_partial)
    A = _Op(mk.int("d", 1, 40))
    p = _Patches()
    log = []
    first = "NUMPY" if bk is None else bk.upper()     # d <= 40, k = 1: the rule picks numpy
    try:
        _install_recorders(p, log, failing=set(qbl._EIGS_METHODS) | {"SCIPY(fallback)"})
        kw = dict(which="LA", sigma=None, tol=1e-5, maxiter=3)
        if bk is not None:
            kw["backend"] = bk
        # no fallback: the backend's own exception propagates
        try:
            qbl.eigensystem_partial(A, 1, True, **kw)
            raised = None
        except _Boom as e:
            raised = e
        mk.same("fallback_to_scipy=False: the backend's exception propagates after a single attempt",
                (type(raised).__name__, str(raised), [c[0] for c in log]), ("_Boom", first, [first]))
        del log[:]
        with warnings.catch_warnings(record=True) as wl:
            warnings.simplefilter("always")
            try:
                out = qbl.eigensystem_partial(A, 1, True, fallback_to_scipy=True, **kw)
                raised = None
            except _Boom as e:
                out, raised = None, e
        if first == "SCIPY":
            mk.same("scipy itself failing: no second attempt, exception propagates", (str(raised), [c[0] for c in log]), ("SCIPY", ["SCIPY"]))
        else:
            mk.same("fallback: failing backend, then scipy exactly once, with a warning",
                    ([c[0] for c in log], len(wl) >= 1, str(raised)), ([first, "SCIPY(fallback)"], True, "SCIPY(fallback)"))
            mk.same("fallback receives the same operator and settings", (log[1][1] is log[0][1], log[1][2] == log[0][2]), (True, True))
        # a working fallback hands its result back
        del log[:]
        p.set(qbl, "eigs_scipy", lambda A_, **k_: log.append(("ok", A_, k_)) or "from scipy")
        if first != "SCIPY":
            with warnings.catch_warnings():
                warnings.simplefilter("ignore")
                mk.same("result of the fallback is returned", qbl.eigensystem_partial(A, 1, True, fallback_to_scipy=True, **kw), "from scipy")
    finally:
        p.restore()


@obligation(PROP, exc_is_violation=True)
def full_vs_partial_route(mk):
    """eigensystem: k < 0 -> full dense solve (eig_numpy), k >= 0 -> partial solve"""
    mk.encodes(qbl.eigensystem)
    k = mk.int("k", -5, 5)
    mk.assume(k != 0)
    p = _Patches()
    log = []
    A = object()
    try:
        p.set(qbl, "eig_numpy", lambda A_, **kw: log.append(("full", A_, kw)) or "full")
        p.set(qbl, "eigensystem_partial", lambda A_, **kw: log.append(("partial", A_, kw)) or "partial")
        out = qbl.eigensystem(A, True, k=k, sort=False, return_vecs=False, autoblock=True)
        if out == "full":
            mk.check(k < 0, "full route only for negative k")
            mk.same("full route: flags forwarded", log, [("full", A, {"isherm": True, "sort": False, "return_vecs": False, "autoblock": True})])
        else:
            mk.check(k >= 0, "partial route only for k >= 0")
            mk.same("partial route: k and flags forwarded", (log[0][0], log[0][1] is A, log[0][2]["k"] is k,
                                                             {a: b for a, b in log[0][2].items() if a != "k"}),
                    ("partial", True, True, {"isherm": True, "sort": False, "return_vecs": False, "autoblock": True}))
    finally:
        p.restore()


# ====================================================================================
# (d) relative-window eigensolve
# ====================================================================================
# documented rule (eigh_window / _rel_window_to_abs_window): with [l_min, l_max] the spectral range,
#   centre  c = l_min + w_0 (l_max - l_min),  window (c - w_sz (l_max - l_min) / 2,  c + w_sz (l_max - l_min) / 2),
# "return mid-spectrum eigenpairs ... around w_0", `k` the target number, `w_sz` the "relative maximum window
# width within which to keep eigenpairs" (default 1.1: everything), `offset_const` a "small fudge factor
# (relative to window range)" added to the target on the partial-solver route.
# Whether the window is open or closed is not documented: the oracle accepts both at exact equality.

def _window(mk, w, w0, wsz):
    lmin, lmax = _v(mk, w[0]), _v(mk, w[-1])
    rng = lmax - lmin
    c0 = lmin + _v(mk, w0) * rng
    half = _v(mk, wsz) * rng * (P.lift(1) / 2 if mk.sym else 0.5)
    return rng, c0, c0 - half, c0 + half, half


def _match_tol(mk, vals, pool, tol=1e-8):
    """numeric: nearest distinct members of the reference spectrum"""
    if mk.sym:
        return _match(mk, vals, pool)
    used, perm = set(), []
    for v in vals:
        cands = [i for i in range(len(pool)) if i not in used and abs(v - pool[i]) <= tol * max(1.0, abs(v))]
        if not cands:
            return None
        c = min(cands, key=lambda i: abs(v - pool[i]))
        perm.append(c)
        used.add(c)
    return perm


def _unpack(form, out):
    return {"pairs": lambda: out, "vals": lambda: (out, None), "vecs": lambda: (None, out)}[form]()


def _window_call(form, A, w0, k, **kw):
    fn = {"pairs": qu.eigh_window, "vals": qu.eigvalsh_window, "vecs": qu.eigvecsh_window}[form]
    return _unpack(form, fn(A, w0, k, **kw))


_WD_PARAMS = [{"n": n, "k": k, "wsz": z, "form": f, "_tiers": ("quick", "thorough") if (n == 3 or (n == 4 and f == "pairs" and z)) else ("thorough",)}
              for n in (3, 4, 5) for k in (1, 2) for z in (True, False) for f in ("pairs", "vals")
              if not (n == 5 and (f == "vals" or not z or k == 1))]


def _window_dense_run(mk, n, k, wsz, form):
    A = _herm(mk, n, 1, "cplx" if n == 3 else "real")
    w0 = mk.scalar("w0", "real")
    sz = mk.scalar("wsz", "pos") if wsz else None
    with Env(mk) as env:
        lk, vk = _window_call(form, A, w0, k, **({"w_sz": sz} if wsz else {}))
        mk.same("dense operator: one full dense solve", [c[0] for c in env.table_calls()], ["eigh" if form != "vals" else "eigvalsh"])
        sol = env.table_calls()[0][3]
    w, V = sol if form != "vals" else (sol, None)
    return A, w0, (sz if wsz else 1.1), lk, vk, w, V


@obligation(PROP, params=_WD_PARAMS, exc_is_violation=True, max_paths=8000, wall_s=600, timeout_s=800)
def window_dense(mk, n, k, wsz, form):
    """eigh_window on a dense operator: exactly the eigenpairs inside the relative window, ascending, paired"""
    mk.encodes(qbl.eigh_window, qbl._rel_window_to_abs_window, qbl.eigvalsh_window)
    A, w0, sz, lk, vk, w, V = _window_dense_run(mk, n, k, wsz, form)
    rng, c0, lo, hi, half = _window(mk, w, w0, sz)
    perm = _match(mk, lk, w, vk, V)
    mk.same("returned values are distinct members of the spectrum, in ascending position", perm is not None and perm == sorted(perm), True)
    if perm is None:
        return
    wt = [_v(mk, x) for x in w]
    _chk_all(mk, [_and(mk, _le(mk, lo, wt[i]), _le(mk, wt[i], hi)) for i in perm], "every returned eigenvalue lies inside the relative window")
    _chk_all(mk, [_or(mk, _le(mk, wt[j], lo), _le(mk, hi, wt[j])) for j in range(n) if j not in perm],
             "no eigenvalue strictly inside the window is dropped (dense operator: all are known)")
    if vk is not None:
        for j, i in enumerate(perm):
            _pair_eq(mk, f"vector {j} is the solver's column paired with value {j}", np.asarray(vk)[:, j], np.asarray(V)[:, i])
    if not mk.sym and vk is not None and len(perm):
        vk_ = np.asarray(vk)
        mk.same("residual |A v - l v| <= 1e-8", float(np.max(np.abs(A @ vk_ - vk_ * np.asarray(lk)[None, :]))) <= 1e-8, True)


# NOTE: for a dense operator `eigh_window` diagonalises fully and returns every eigenvalue inside
# the relative window, whatever `k`; the sparse route returns at most k.  The docstring calls k the
# "target number" of eigenpairs; the statement of C17 only demands "the part of the spectrum ...
# inside a relative window", which both routes return -> no goal on the count for dense input.


class _SpectrumModel:
    """model of the documented contract of qu.eigh / qu.eigvalsh for a Hermitian operator with
    ascending spectrum w and eigenvector columns V (what family (b) establishes for the dense backend)"""

    def __init__(self, mk, w, V):
        self.mk, self.w, self.V, self.calls = mk, w, V, []

    def solve(self, A, return_vecs, k=-1, which=None, sigma=None, backend=None, **kw):
        mk, w = self.mk, self.w
        n = len(w)
        self.calls.append(dict(A=A, k=k, which=which, sigma=sigma, return_vecs=return_vecs, backend=backend, extra=kw))
        if k < 0:
            sel = list(range(n))
        elif sigma is None:
            sel = {"SA": list(range(n))[:k], "LA": list(range(n))[max(n - k, 0):]}[which if which is not None else "SA"]
        else:
            dist = [_abs(mk, _v(mk, w[i]) - _v(mk, sigma)) for i in range(n)]
            order = []
            for i in range(n):          # insertion sort: comparisons fork through the solver
                pos = len(order)
                while pos > 0 and bool(dist[i] < dist[order[pos - 1]]):
                    pos -= 1
                order.insert(pos, i)
            sel = sorted(order[:k])
        lk = np.array([w[i] for i in sel], dtype=w.dtype)
        if not return_vecs:
            return lk
        return lk, self.V[:, sel]


_WP_PARAMS = [{"n": n, "k": k, "wsz": z, "form": f,
               "_tiers": ("quick", "thorough") if (n == 4 and ((f == "pairs" and z) or (f == "vals" and k == 2 and z))) else ("thorough",)}
              for n in (4, 5) for k in (1, 2, 3, 4) for z in (True, False) for f in ("pairs", "vals")
              if not (n == 4 and k == 4) and not (n == 5 and (not z or f == "vals" or k in (1, 3)))]


@obligation(PROP, params=_WP_PARAMS, exc_is_violation=True, max_paths=20000, wall_s=700, timeout_s=850, branch_timeout_ms=60000)
def window_partial_route(mk, n, k, wsz, form):
    """eigh_window on a sparse operator (partial-solver route): spectral bounds, offset target, k nearest,
    trimming to the window; symbolic spectrum, w_0, w_sz"""
    mk.encodes(qbl.eigh_window, qbl._rel_window_to_abs_window, qbl.bound_spectrum, qbl.eigvalsh_window)
    off = 1.0 / 128
    w0 = mk.scalar("w0", "real")
    sz = mk.scalar("wsz", "pos") if wsz else None
    kw = {"offset_const": off}
    if wsz:
        kw["w_sz"] = sz
    if mk.sym:
        w = np.empty(n, dtype=object)
        for i in range(n):
            w[i] = P.real(f"w1_{i}")
            mk.inputs[f"w1_{i}"] = "real"
        _ascending_into_pc(w)
        V = mk.array("V", (n, n), "cplx")
        A = sp.identity(n, format="csr")          # only its sparsity is looked at: the model answers
        model = _SpectrumModel(mk, w, V)
        p = _Patches()
        try:
            p.set(qbl, "eigh", lambda A_, **k_: model.solve(A_, True, **k_))
            p.set(qbl, "eigvalsh", lambda A_, **k_: model.solve(A_, False, **k_))
            p.set(sx.OPTIONS, "def_relations", "monotone", item=True)
            lk, vk = _window_call(form, A, w0, k, backend="scipy", **kw)
        finally:
            p.restore()
        calls = model.calls
        mk.same("spectral bounds asked first (k=1 of SA, then LA), then one partial solve for k pairs",
                [(c["k"], c["which"], c["return_vecs"], c["backend"], c["A"] is A) for c in calls],
                [(1, "SA", False, "scipy", True), (1, "LA", False, "scipy", True), (k, None, form != "vals", "scipy", True)])
        rng, c0, lo, hi, half = _window(mk, w, w0, sz if wsz else 1.1)
        mk.eq("partial solve targets the window centre + offset_const * range", calls[2]["sigma"], c0 + rng * P.lift(off))
    else:
        wv = _spectrum(mk, n, "w1")
        Q = _unitary(mk, n, "Aq", "cplx")
        Ad = (Q * wv[None, :]) @ Q.conj().T
        Ad = (Ad + Ad.conj().T) / 2
        A = sp.csr_matrix(Ad)
        w = np.linalg.eigvalsh(Ad)
        V = None
        lk, vk = _window_call(form, A, w0, k, **kw)
        rng, c0, lo, hi, half = _window(mk, w, w0, sz if wsz else 1.1)
    f2 = rng * (P.lift(2 * off) if mk.sym else 2 * off)
    perm = _match_tol(mk, lk, w)
    mk.same("returned values are distinct members of the spectrum, in ascending position", perm is not None and perm == sorted(perm), True)
    if perm is None:
        return
    wt = [_v(mk, x) for x in w]
    rest = [j for j in range(n) if j not in perm]
    mk.same(f"at most k={k} eigenpairs", len(perm) <= k, True)
    _chk_all(mk, [_and(mk, _le(mk, lo, wt[i]), _le(mk, wt[i], hi)) for i in perm], "every returned eigenvalue lies inside the relative window")
    dist = [_abs(mk, wt[i] - c0) for i in range(n)]
    _chk_all(mk, [_implies(mk, _and(mk, _lt(mk, lo, wt[j]), _lt(mk, wt[j], hi)), _le(mk, dist[i], dist[j] + f2)) for i in perm for j in rest],
             "returned eigenvalues are the ones nearest the window centre (up to the documented offset)")
    if len(perm) < k:
        _chk_all(mk, [_le(mk, half - f2, dist[j]) for j in rest],
                 "fewer than k returned only if nothing else lies inside the window (up to the documented offset)")
    if vk is not None and mk.sym:
        for j, i in enumerate(perm):
            _pair_eq(mk, f"vector {j} is the solver's column paired with value {j}", np.asarray(vk)[:, j], np.asarray(V)[:, i])
    if vk is not None and not mk.sym and len(perm):
        vk_ = np.asarray(vk)
        mk.same("residual |A v - l v| <= 1e-8", float(np.max(np.abs(Ad @ vk_ - vk_ * np.asarray(lk)[None, :]))) <= 1e-8, True)
        mk.eq("Gram matrix == 1", vk_.conj().T @ vk_, np.eye(len(perm)), tol=1e-8)


# ====================================================================================
# (e) norms, square root, exponential (modulo the svd / eigh contracts)
# ====================================================================================

def _abs2_sum(A):
    tot = 0
    for v in np.asarray(A).reshape(-1):
        tot = tot + v * v.conjugate()
    return tot


@obligation(PROP, params=[{"shape": (2, 2), "kind": "cplx"}, {"shape": (2, 3), "kind": "cplx"}, {"shape": (3, 3), "kind": "real"},
                          {"shape": (3, 1), "kind": "cplx"}], exc_is_violation=True, rounds=2, rounds2=3)
def norm_variants(mk, shape, kind):
    """norm(A, ntype): Frobenius == sqrt(sum |a_ij|^2); trace == sum of the singular values; spectral == the
    largest singular value (every alias)"""
    mk.encodes(qbl.norm, qbl.norm_fro_dense, qbl.norm_trace_dense, qbl.norm_2, qbl.svds, qbl.svd, qnl.svds_numpy)
    A = mk.array("A", shape, kind)
    with Env(mk) as env:
        for alias in ("fro", "f"):
            nf = qu.norm(A, alias)
            mk.eq(f"norm(A, {alias!r})^2 == sum |a_ij|^2", nf * nf, _abs2_sum(A))
        if mk.sym and kind == "real":
            mk.same("Frobenius norm is a non-negative quantity", bool(P.lift(nf) >= 0), True)
        for alias in ("tr", "trace", "nuc", "t"):
            del env.calls[:]
            nt = qu.norm(A, alias)
            s = env.last("svd")[3]
            mk.same(f"norm(A, {alias!r}): one values-only SVD of A", (len(env.calls), env.calls[0][2].get("compute_uv"), len(s)), (1, False, min(shape)))
            mk.eq(f"norm(A, {alias!r}) == sum of the singular values", nt, sum(list(s)[1:], s[0]))
        for alias in (2, "2", "spectral"):
            del env.calls[:]
            n2 = qu.norm(A, alias)
            s = env.last("svd")[3]
            mk.eq(f"norm(A, {alias!r}) is the leading singular value", n2, s[0])
            _chk_all(mk, [_le(mk, _v(mk, s[i]), _v(mk, n2)) for i in range(len(s))], "which is the largest one")
            if shape[1] == 1:
                mk.eq("vector: 2-norm^2 == sum |a_i|^2", n2 * n2, _abs2_sum(A))
    if not mk.sym:
        An = np.asarray(A)
        mk.eq("fro == numpy", qu.norm(A, "fro"), np.linalg.norm(An, "fro"))
        mk.eq("trace == numpy nuclear norm", qu.norm(A, "tr"), np.linalg.norm(An, "nuc"))
        mk.eq("spectral == numpy 2-norm", qu.norm(A, 2), np.linalg.norm(An, 2))
        S = sp.csr_matrix(An)
        mk.eq("sparse fro == dense fro", qu.norm(S, "fro"), np.linalg.norm(An, "fro"))
        mk.eq("sparse spectral == dense spectral", qu.norm(S, 2), np.linalg.norm(An, 2))


@obligation(PROP, params=[{"n": 2, "kind": "cplx"}, {"n": 3, "kind": "real"}], exc_is_violation=True, max_paths=4000)
def norm_trace_hermitian(mk, n, kind):
    """norm(A, 'tr', isherm=True) == sum |eigenvalue| (sign forks)"""
    mk.encodes(qbl.norm, qbl.norm_trace_dense, qbl.eigensystem, qnl.eig_numpy)
    A = _herm(mk, n, 1, kind)
    with Env(mk) as env:
        nt = qu.norm(A, "tr", isherm=True)
        w = env.last("eigvalsh")[3]
        mk.same("one values-only Hermitian solve", [c[0] for c in env.table_calls()], ["eigvalsh"])
        tot = 0
        for x in w:
            tot = tot + _abs(mk, _v(mk, x))
        mk.eq("trace norm == sum of |eigenvalues|", nt, tot)
    if not mk.sym:
        mk.eq("== numpy nuclear norm", nt, np.linalg.norm(A, "nuc"))


@obligation(PROP, params=[{"n": 2, "kind": "cplx"}, {"n": 2, "kind": "real"}, {"n": 3, "kind": "real"}],
            exc_is_violation=True, rounds=2, rounds2=3, timeout_s=400)
def sqrtm_hermitian(mk, n, kind):
    """sqrtm(A, herm=True) for positive definite A: R R == A, R Hermitian (modulo the eigh contract)"""
    mk.encodes(qbl.sqrtm, qbl.eigensystem, qnl.eig_numpy)
    stubs.OPTIONS["eigh_spectrum"] = "pos"
    try:
        A = _herm(mk, n, 1, kind, spec_kind="pos")
        with Env(mk):
            R = qu.sqrtm(A, herm=True)
    finally:
        stubs.OPTIONS["eigh_spectrum"] = "real"
    R = np.asarray(R)
    mk.eq("R @ R == A", ref.matmul(R, R), A)
    mk.eq("R == R^dag", R, ref.dag(R))
    if not mk.sym:
        mk.eq("== scipy.linalg.sqrtm", R, scla.sqrtm(A), tol=1e-7)
        mk.eq("herm=False route agrees", np.asarray(qu.sqrtm(A, herm=False)), R, tol=1e-7)
        mk.raises("sparse input is rejected (documented: dense only)", lambda: qu.sqrtm(sp.csr_matrix(A)), (NotImplementedError,))
        # [numeric-only] a Hermitian but INDEFINITE operator: the principal root is complex (sqrt of the negative
        # eigenvalues); the symbolic run assumes a positive spectrum (sqrt of a symbol of unknown sign is not polynomial)
        rng = np.random.default_rng(n + (7 if kind == "cplx" else 0))
        B = rng.normal(size=(n, n)) + (1j * rng.normal(size=(n, n)) if kind == "cplx" else 0)
        Q, _ = np.linalg.qr(B)
        lam = np.array([-1.5, 0.75, 2.0][:n])
        Ai = (Q * lam[None, :]) @ Q.conj().T
        Ri = np.asarray(qu.sqrtm(Ai, herm=True))
        mk.eq("[numeric-only] indefinite Hermitian A: sqrtm(A) @ sqrtm(A) == A", Ri @ Ri, Ai, tol=1e-9)
        Rg = np.asarray(qu.sqrtm(Ai, herm=False))
        mk.eq("[numeric-only] indefinite Hermitian A: the herm=False route is a root as well", Rg @ Rg, Ai, tol=1e-7)


@obligation(PROP, params=[{"n": 2, "kind": "cplx"}, {"n": 3, "kind": "real"}], exc_is_violation=True, rounds=2, rounds2=3, timeout_s=400)
def expm_hermitian(mk, n, kind):
    """expm(A, herm=True) == V diag(e^w) V^dag with the solver's own pairs; commutes with A; Hermitian"""
    mk.encodes(qbl.expm, qbl.eigensystem, qnl.eig_numpy, qc.ldmul)
    A = _herm(mk, n, 1, kind)
    with Env(mk) as env:
        E = np.asarray(qu.expm(A, herm=True))
        w, V = env.last("eigh")[3]
        mk.same("one Hermitian dense solve", [c[0] for c in env.table_calls()], ["eigh"])
    ew = np.exp(np.asarray(w))
    want = ref.matmul(np.asarray(V) * ew[None, :], ref.dag(np.asarray(V)))
    mk.eq("expm(A) == V diag(exp w) V^dag", E, want)
    mk.eq("expm(A) == expm(A)^dag", E, ref.dag(E))
    mk.eq("expm(A) A == A expm(A)", ref.matmul(E, A), ref.matmul(A, E))
    if not mk.sym:
        mk.eq("== scipy.linalg.expm", E, scla.expm(A), tol=1e-8)
        mk.eq("herm=False route agrees", np.asarray(qu.expm(A)), E, tol=1e-8)
        mk.eq("sparse route agrees", qu.expm(sp.csr_matrix(A)).toarray(), E, tol=1e-8)
        mk.eq("expm(A) expm(-A) == 1", E @ np.asarray(qu.expm(-A, herm=True)), np.eye(n), tol=1e-8)


# ====================================================================================
# (f) automatic block diagonalisation
# ====================================================================================

def _components(d, edges):
    """independent reference: connected components by union-find, sorted"""
    parent = list(range(d))

    def find(a):
        while parent[a] != a:
            parent[a] = parent[parent[a]]
            a = parent[a]
        return a

    for i, j in edges:
        ri, rj = find(i), find(j)
        if ri != rj:
            parent[max(ri, rj)] = min(ri, rj)
    comp = {}
    for i in range(d):
        comp.setdefault(find(i), []).append(i)
    return sorted(sorted(c) for c in comp.values())


@obligation(PROP, params=[{"d": d, "_tiers": ("quick", "thorough") if d <= 4 else ("thorough",)} for d in (1, 2, 3, 4, 5)], exc_is_violation=True)
def compute_blocks_components(mk, d):
    """compute_blocks == connected components of the non-zero pattern, for EVERY symmetric pattern of size d
    (bounded exhaustive), several orders of the coordinate list, with / without diagonal entries"""
    mk.encodes(qab.compute_blocks)
    pairs = [(i, j) for i in range(d) for j in range(i + 1, d)]
    bad = []
    count = 0
    for mask in range(2 ** len(pairs)):
        und = [pr for b, pr in enumerate(pairs) if (mask >> b) & 1]
        for variant in range(4 if d >= 5 else 3):
            if variant == 0:       # what np.nonzero yields for a symmetric matrix with full diagonal: row-major, both triangles
                coords = sorted(und + [(j, i) for i, j in und] + [(i, i) for i in range(d)])
            elif variant == 1:     # zero diagonal, one triangle only, reversed order
                coords = list(reversed(und))
            elif variant == 2:     # column-major order, partial diagonal
                coords = sorted(und + [(j, i) for i, j in und] + [(i, i) for i in range(0, d, 2)], key=lambda c: (c[1], c[0]))
            else:                  # interleaved from both ends
                s_ = sorted(und + [(j, i) for i, j in und])
                coords = [s_[t // 2] if t % 2 == 0 else s_[-1 - t // 2] for t in range(len(s_))]
            ix = np.array([c[0] for c in coords], dtype=np.int64)
            jx = np.array([c[1] for c in coords], dtype=np.int64)
            got = [[int(v) for v in g] for g in qab.compute_blocks(ix, jx, d)]
            count += 1
            if got != _components(d, und):
                bad.append((coords, got))
    mk.same(f"every one of the {count} coordinate lists of size d={d} gives the connected components", bad[:3], [])
    if mk.sym:
        # the docstring example of the function (sectors of a 16 x 16 hopping operator)
        H = qu.ham_hubbard_hardcore(4, sparse=True)
        ix, jx = H.nonzero()
        mk.same("docstring example", [[int(v) for v in g] for g in qab.compute_blocks(ix, jx, 16)],
                [[0], [1, 2, 4, 8], [3, 5, 6, 9, 10, 12], [7, 11, 13, 14], [15]])


class _NpObjBuffers:
    """numpy with `empty(d)` (the float64 eigenvalue buffer of autoblock.py) handing out an object buffer"""

    def __getattr__(self, name):
        return getattr(np, name)

    @staticmethod
    def empty(shape, *a, **k):
        return np.empty(shape, dtype=object)


# name -> (d, sectors, edge list or None (= every pair inside a sector is non-zero))
_AB_PATTERNS = {
    "4:02|13": (4, [[0, 2], [1, 3]], None),
    "5:034|1|2": (5, [[0, 3, 4], [1], [2]], None),
    "3:full": (3, [[0, 1, 2]], None),
    "3:diag": (3, [[0], [1], [2]], None),
    "5:04|13|2": (5, [[0, 4], [1, 3], [2]], None),
    # one sector connected only through a chain: np.nonzero's row-major order first builds {0,3} and {1,2}
    # separately, the entry (2,3) then has to merge two multi-member groups
    "5:0123|4 chain": (5, [[0, 1, 2, 3], [4]], [(0, 3), (1, 2), (2, 3)]),
}


def _jit_autoblock(A, vecs):
    """(child process, numba JIT on) the compiled kernels users actually run"""
    import quimb as qu_
    try:
        out = qu_.eigh(A, autoblock=True) if vecs else qu_.eigvalsh(A, autoblock=True)
        return ("ok", (np.asarray(out[0]), np.asarray(out[1])) if vecs else np.asarray(out))
    except Exception as e:          # noqa
        return ("raised", f"{type(e).__name__}: {str(e)[:300]}")


@obligation(PROP, params=[{"pat": pt, "kind": kd, "form": f, "sort": s,
                           "_tiers": ("quick", "thorough") if (s and (kd == "cplx" or pt in ("4:02|13", "5:034|1|2"))) else ("thorough",)}
                          for pt in _AB_PATTERNS for kd in ("real", "cplx") for f in ("pairs", "vals") for s in (True, False)
                          if not (pt.startswith("5:0") and kd == "cplx" and not s)],
            exc_is_violation=True, max_paths=6000, wall_s=600, timeout_s=800)
def autoblock_spectrum(mk, pat, kind, form, sort):
    """eigh / eigvalsh(autoblock=True) on a concrete zero pattern with symbolic entries: sectors == connected
    components; spectrum == union of the per-block spectra (+ singleton diagonals), each exactly once, ascending;
    the vector of a block eigenvalue is the block solver's column embedded at the block's rows"""
    mk.encodes(qab.eigensystem_autoblocked, qab._eigh_autoblocked, qab._eigvalsh_autoblocked, qab.compute_blocks, qab.subselect,
               qab.subselect_set, qnl.eig_numpy)
    d, blocks, elist = _AB_PATTERNS[pat]
    zero = P.ZERO if mk.sym else 0.0
    A = np.empty((d, d), dtype=object if mk.sym else (complex if kind == "cplx" else float))
    A[...] = zero
    edges = []
    cno = 0
    for b in sorted(blocks):
        cno += len(b) > 1
        inside = [(i, j) for x, i in enumerate(b) for j in b[x + 1:] if elist is None or (i, j) in elist]
        edges += inside
        if not mk.sym and elist is None and len(b) > 1:
            # numeric: the sector is built from the spectrum named like block solve number `cno` (replays reproduce)
            wb = _spectrum(mk, len(b), f"w{cno}")
            Qb = _unitary(mk, len(b), f"Bq{cno}", kind)
            Mb = (Qb * wb[None, :]) @ Qb.conj().T
            A[np.ix_(b, b)] = (Mb + Mb.conj().T) / 2 if kind == "cplx" else ((Mb + Mb.T) / 2).real
            continue
        for i in b:
            A[i, i] = mk.scalar(f"A_{i}{i}", "real")
        for i, j in inside:
            z = mk.scalar(f"A_{i}{j}", kind)
            A[i, j] = z
            A[j, i] = z.conjugate()
    mk.same("pattern's connected components are the intended sectors", _components(d, edges), sorted(blocks))
    p = _Patches()
    with Env(mk) as env:
        try:
            if mk.sym:
                p.set(qab, "np", _NpObjBuffers())
            out = qu.eigh(A, autoblock=True, sort=sort) if form == "pairs" else qu.eigvalsh(A, autoblock=True, sort=sort)
        finally:
            p.restore()
    el, ev = out if form == "pairs" else (out, None)
    mk.same("all d eigenvalues returned", len(el), d)
    if mk.sym:
        big = [b for b in sorted(blocks) if len(b) > 1]
        direct = [c for c in env.calls if c[0] == ("np.linalg.eigh" if form == "pairs" else "np.linalg.eigvalsh")]
        sizes = [int(c[1].shape[0]) for c in direct]
        mk.same("one block solve per non-trivial sector (sizes in sector order), none for singletons", sizes, [len(b) for b in big])
        if sizes != [len(b) for b in big]:
            return
        # the block solver ran once per non-trivial sector, on exactly that sub-matrix: read the stub instances back
        pool, pvec = [], []
        cno = 0
        for b in sorted(blocks):
            if len(b) == 1:
                pool.append(P.lift(A[b[0], b[0]]))
                e = np.array([P.ZERO] * d, dtype=object)
                e[b[0]] = P.ONE
                pvec.append(e)
                continue
            cno += 1
            for t in range(len(b)):
                sidx = P.TAB.byname.get(f"w{cno}_{t}")
                mk.same(f"sector {b}: block solve number {cno} of size {len(b)} happened", sidx is not None, True)
                if sidx is None:
                    return
                pool.append(P._mono(sidx))
                e = np.array([P.ZERO] * d, dtype=object)
                for r, row in enumerate(b):
                    e[row] = P._mono(P.TAB.byname[f"E{cno}_{r}{t}"])
                pvec.append(e)
            mk.same(f"sector {b}: no extra eigenvalue symbol", f"w{cno}_{len(b)}" in P.TAB.byname, False)
        mk.same("one block solve per non-trivial sector, none for singletons", stubs.USED.get("linalg.eigh", 0), len(big))
        # each solve received exactly the sector's sub-matrix: contract  A_sub V = V W  is in HYP; check the sub-matrix via the contract labels
        perm = _match(mk, el, pool)
        mk.same("spectrum == union of the sector spectra, each eigenvalue exactly once", perm is not None and sorted(perm) == list(range(d)), True)
        if perm is None:
            return
        if sort:
            _chk_all(mk, [_le(mk, _v(mk, el[j]), _v(mk, el[j + 1])) for j in range(d - 1)], "sort=True: ascending across sectors")
        else:
            mk.same("sort=False: eigenvalue of basis state i sits at position i (sector order)", [perm[i] for i in range(d)],
                    [sum(len(x) for x in sorted(blocks)[:sorted(blocks).index(b)]) + b.index(i) for i in range(d) for b in blocks if i in b])
        if ev is not None:
            for j in range(d):
                _pair_eq(mk, f"vector {j}: the sector solver's column embedded at the sector's rows, zero elsewhere", np.asarray(ev)[:, j], pvec[perm[j]])
        # the sub-matrices handed to the block solver
        for b, c in zip(big, direct):
            mk.eq(f"sector {b}: the block solver receives exactly A[sector, sector]", c[1], A[np.ix_(b, b)])
    else:
        An = np.asarray(A)
        evref = np.linalg.eigvalsh(An)
        if sort:
            mk.eq("spectrum == direct computation (numpy reference)", el, evref, tol=1e-9)
        else:
            mk.eq("spectrum (as a multiset) == direct computation", np.sort(np.asarray(el)), evref, tol=1e-9)
        if ev is not None:
            ev_ = np.asarray(ev)
            mk.same("residual |A v - l v| <= 1e-9", float(np.max(np.abs(An @ ev_ - ev_ * np.asarray(el)[None, :]))) <= 1e-9, True)
            mk.eq("Gram matrix == 1", ev_.conj().T @ ev_, np.eye(d), tol=1e-9)
            for j in range(d):
                sup = {i for i in range(d) if abs(ev_[i, j]) > 1e-12}
                mk.same(f"vector {j} supported inside one sector", any(sup <= set(b) for b in blocks), True)
        direct = qu.eigh(An, sort=True)[0]
        mk.eq("block shortcut and direct quimb route give the same spectrum", np.sort(np.asarray(el)), direct, tol=1e-9)
        if sort and pat == "5:034|1|2":
            # the compiled kernels (numba JIT on), as users run them
            from qv import jitrun
            status, val = jitrun.call("props.c17", "_jit_autoblock", An, form == "pairs")
            mk.same(f"compiled {'eigh' if form == 'pairs' else 'eigvalsh'}(autoblock=True) on a {kind} Hermitian matrix returns (no exception)", (status, val if status != "ok" else ""), ("ok", ""))
            if status == "ok":
                mk.eq("compiled kernel: spectrum == direct computation", val[0] if form == "pairs" else val, evref, tol=1e-9)
    mk.raises("non-Hermitian autoblocking is rejected (documented: not implemented)",
              lambda: qu.eig(np.eye(2), autoblock=True), (NotImplementedError,))


# ====================================================================================
# (g) wrappers around the iterative solvers (scipy eigsh / eigs / svds / lobpcg replaced by recorders
#     that hand back symbolic values in arbitrary order): option mapping, sorting, pairing, projection
# ====================================================================================

_IT_PARAMS = [{"route": r, "k": k, "sort": s, "proj": pj, "vecs": v,
               "_tiers": ("quick", "thorough") if (k == 2 or (k == 3 and s and v and not pj)) else ("thorough",)}
              for r in ("eigsh", "eigs", "lobpcg") for k in (2, 3) for s in (True, False) for pj in (False, True) for v in (True, False)
              if not (r == "eigs" and s) and not (pj and not v)]


@obligation(PROP, params=_IT_PARAMS, exc_is_violation=True, max_paths=4000)
def iterative_wrapper(mk, route, k, sort, proj, vecs):
    """eigs_scipy / eigs_lobpcg: options translated as documented, the solver's (unordered) answer sorted ascending
    with the vectors permuted alongside and mapped back through the projector"""
    mk.encodes(qsl.eigs_scipy, qsl.eigs_lobpcg, qsl.maybe_sort_and_project, qbl.eigensystem_partial)
    d, m = 4, (3 if proj else 4)
    A = qu.qarray(np.diag(np.arange(1.0, d + 1)))
    Pj = mk.array("P", (d, m), "cplx" if route != "lobpcg" else "real") if proj else None
    ls = mk.array("l", (k,), "real")
    vs = mk.array("v", (m, k), "cplx" if route != "lobpcg" else "real")
    B = np.eye(m) * 2.0
    log = []

    def fake(*a, **kw):
        log.append((a, kw))
        if kw.get("return_eigenvectors", True):
            return ls.copy(), vs.copy()
        return ls.copy()

    p = _Patches()
    sigma = 0.25 if route == "eigsh" and k == 3 else None
    which = {("eigsh", 2): "LA", ("eigsh", 3): "TR", ("eigs", 2): "LR", ("eigs", 3): None, ("lobpcg", 2): "LA", ("lobpcg", 3): None}[route, k]
    kw = dict(k=k, isherm=route != "eigs", B=B, return_vecs=vecs, sort=sort, backend="lobpcg" if route == "lobpcg" else "scipy")
    if which is not None:
        kw["which"] = which
    if sigma is not None:
        kw["sigma"] = sigma
    if proj:
        kw["P"] = Pj
    v0 = np.ones((m, k)) if route == "lobpcg" else np.ones(m)
    try:
        p.set(spla, route, fake)
        if mk.sym:
            p.set(sx.OPTIONS, "def_relations", "monotone", item=True)
        out = qbl.eigensystem_partial(A, ncv=9, tol=None, v0=v0, maxiter=None if route == "lobpcg" else 17, **kw)
    finally:
        p.restore()
    mk.same("one call of the iterative solver", len(log), 1)
    a, got = log[0]
    Aeff = A.toarray() if not proj else ref.matmul(ref.dag(Pj), ref.matmul(A.toarray(), Pj))
    if route == "lobpcg":
        mk.same("lobpcg: largest <=> 'LA' (default 'SA'), maxiter default 30, ncv dropped, metric forwarded",
                (got["largest"], got["maxiter"], "ncv" in got, got["B"] is B, bool(np.array_equal(got["X"], v0)), sorted(got)),
                (which == "LA", 30, False, True, True, sorted(["A", "X", "B", "largest", "maxiter", "tol"])))
        mk.eq("lobpcg: operator (projected into the subspace)", got["A"], Aeff)
    else:
        want_which = {"LA": "LA", "TR": "LM", "LR": "LR", None: "SA" if sigma is None else "LM"}[which]
        mk.same(f"{route}: which {which!r} -> {want_which!r} (target rules use shift-invert 'LM'), tol None -> 0, B -> M, options forwarded",
                (got["which"], got["tol"], got["M"] is B, got["sigma"], got["return_eigenvectors"], got["k"], got["ncv"], got["maxiter"], got["v0"] is v0,
                 sorted(got)),
                (want_which, 0, True, sigma, vecs, k, 9, 17, True, sorted(["k", "M", "which", "sigma", "return_eigenvectors", "tol", "ncv", "v0", "maxiter"])))
        mk.eq(f"{route}: operator (projected into the subspace)", a[0], Aeff)
        mk.same("matrix-like qarray is unwrapped to a plain array", type(a[0]) is np.ndarray, True)
    lk, vk = out if vecs else (out, None)
    perm = _match(mk, lk, ls, None, None)
    mk.same("the solver's values, each exactly once", perm is not None and sorted(perm) == list(range(k)), True)
    if perm is None:
        return
    if sort:
        _chk_all(mk, [_le(mk, _v(mk, lk[j]), _v(mk, lk[j + 1])) for j in range(k - 1)], "sort=True: ascending")
    else:
        mk.same("sort=False: solver order kept", perm, list(range(k)))
    if vecs:
        mk.same("vectors as (d, k) qarray in the full space", (isinstance(vk, qu.qarray), tuple(vk.shape)), (True, (d, k)))
        for j in range(k):
            col = np.asarray(vs)[:, perm[j]]
            _pair_eq(mk, f"vector {j} == {'P @ ' if proj else ''}(solver's column paired with value {j})", np.asarray(vk)[:, j],
                  ref.matmul(Pj, col) if proj else col)


@obligation(PROP, params=[{"k": 2, "vecs": True}, {"k": 3, "vecs": True}, {"k": 3, "vecs": False}], exc_is_violation=True)
def svds_wrapper(mk, k, vecs):
    """svds_scipy: the solver's triplets re-ordered by descending singular value, u / v permuted alongside"""
    mk.encodes(qsl.svds_scipy, qbl.svds)
    A = qu.qarray(np.arange(12.0).reshape(4, 3))
    ss = mk.array("s", (k,), "pos")
    us = mk.array("u", (4, k), "cplx")
    vs = mk.array("vt", (k, 3), "cplx")
    log = []

    def fake(A_, **kw):
        log.append((A_, kw))
        return (us.copy(), ss.copy(), vs.copy()) if kw.get("return_singular_vectors", True) else ss.copy()

    p = _Patches()
    try:
        p.set(spla, "svds", fake)
        out = qu.svds(A, k, ncv=7, return_vecs=vecs, backend="scipy", maxiter=5)
    finally:
        p.restore()
    mk.same("options forwarded; qarray unwrapped", (type(log[0][0]) is np.ndarray, log[0][1]),
            (True, {"k": k, "return_singular_vectors": vecs, "ncv": 7, "maxiter": 5}))
    U, s, VH = out if vecs else (None, out, None)
    perm = _match(mk, s, ss)
    mk.same("the solver's values, each exactly once", perm is not None and sorted(perm) == list(range(k)), True)
    if perm is None:
        return
    _chk_all(mk, [_le(mk, _v(mk, s[j + 1]), _v(mk, s[j])) for j in range(k - 1)], "descending singular values")
    if vecs:
        for j in range(k):
            _pair_eq(mk, f"left vector {j} paired with value {j}", np.asarray(U)[:, j], np.asarray(us)[:, perm[j]])
            _pair_eq(mk, f"right vector {j} paired with value {j}", np.asarray(VH)[j, :], np.asarray(vs)[perm[j], :])


@obligation(PROP, params=[{"case": c} for c in ("block", "vector-k1", "vector-k2", "none", "rejects")], exc_is_violation=True)
def lobpcg_initial_space(mk, case):
    """eigs_lobpcg initial subspace: `v0` (d, k) block used as is; a single vector (documented form of `v0` in
    eigensystem_partial) is "fleshed out with random" columns when k > 1; non-Hermitian / interior requests rejected"""
    mk.encodes(qsl.eigs_lobpcg, qbl.eigensystem_partial)
    d = 6
    w = np.arange(d) - 2.0 + np.array([mk._draw(f"nw_{i}", "real") if not mk.sym else 0.0 for i in range(d)]) / 8
    R = np.linalg.qr(np.arange(36.0).reshape(6, 6) % 7 + 3 * np.eye(6))[0]
    A = (R * w[None, :]) @ R.T
    A = (A + A.T) / 2
    if case == "rejects":
        mk.raises("isherm=False is rejected", lambda: qu.eig(A, k=1, backend="lobpcg"), (ValueError,))
        mk.raises("sigma (interior) is rejected", lambda: qu.eigh(A, k=1, sigma=0.1, backend="lobpcg"), (ValueError,))
        return
    k = 1 if case == "vector-k1" else 2
    v0 = {"block": np.eye(d)[:, :2] + 0.1, "vector-k1": np.ones(d), "vector-k2": np.ones(d), "none": None}[case]
    log = []
    real = spla.lobpcg
    p = _Patches()
    try:
        p.set(spla, "lobpcg", lambda **kw: log.append(kw) or real(**kw))
        with warnings.catch_warnings():
            warnings.simplefilter("ignore")
            try:
                lk, vk = qu.eigh(A, k=k, which="SA", backend="lobpcg", v0=v0, tol=1e-10, maxiter=300)
            except TypeError as e:
                mk.same(f"v0 = {case}: the initial space is completed and the solve returns (documented: 'if not enough initial states "
                        "given, flesh out with random')", f"raised TypeError: {e}", "returns")
                return
    finally:
        p.restore()
    X = log[0]["X"]
    mk.same("initial block has shape (d, k)", tuple(X.shape), (d, k))
    if v0 is not None:
        mk.eq("the given vectors are its leading columns", X[:, :np.reshape(v0, (d, -1)).shape[1]], np.reshape(v0, (d, -1)))
    if not mk.sym:
        _pairs_ok(mk, f"lobpcg k={k}", A, lk, vk, np.sort(np.linalg.eigvalsh(A))[:k], tol=1e-5)
    else:
        mk.same("k pairs returned", (len(lk), tuple(vk.shape)), (k, (d, k)))


# ---------------------------------------------------------------------- small wrappers around the solvers

@obligation(PROP)
def lazy_scaling_algebra(mk):
    """third round: a Lazy (unconstructed) operator handed to the solvers denotes (product of all its scalings) * fn(): every
    history of <= 3 scalings drawn from {constructor factor=, L *= x, L * x, x * L} with symbolic complex factors gives that
    matrix; the out-of-place forms return a new object and leave the receiver's denotation unchanged"""
    import itertools
    mk.encodes(qbl.Lazy.__init__, qbl.Lazy.__imul__, qbl.Lazy.__mul__, qbl.Lazy.__rmul__, qbl.Lazy.__call__)
    M = mk.array("M", (2, 2), "cplx")
    fs = [mk.scalar(f"x{i}", "cplx") for i in range(3)]
    if not mk.sym:
        fs = [complex(f) for f in fs]

    def fn(**kw):
        return np.array(M, dtype=M.dtype, copy=True)

    for first in ("plain", "factor="):
        for word in itertools.chain.from_iterable(itertools.product(("imul", "mul", "rmul"), repeat=n) for n in (1, 2, 3)):
            L = qbl.Lazy(fn, shape=(2, 2)) if first == "plain" else qbl.Lazy(fn, shape=(2, 2), factor=fs[2])
            want = 1 if first == "plain" else fs[2]
            lab = f"Lazy({first}) " + " ".join(word)
            for k, op in enumerate(word):
                x = fs[k]
                before_want = want
                if op == "imul":
                    L0 = L
                    L *= x
                    mk.same(f"{lab}: step {k} *= keeps the object", L is L0, True)
                else:
                    old = L
                    L = (L * x) if op == "mul" else (x * L)
                    mk.same(f"{lab}: step {k} returns a new object", L is not old, True)
                    mk.eq(f"{lab}: step {k} leaves the receiver's matrix unchanged", old(), M * before_want)
                want = want * x
                mk.eq(f"{lab}: after step {k} the operator denotes (product of factors) * M", L(), M * want)
            mk.eq(f"{lab}: a second construction gives the same matrix", L(), M * want)


@obligation(PROP)
def wrapper_return_conventions(mk):
    """return / in-place conventions of thin wrappers: rsvd(compute_uv=False) returns only the values in every mode,
    Lazy *= x keeps the object, IdentityLinearOperator.H acts with the conjugated factor"""
    from quimb.linalg import rand_linalg as qrl
    mk.encodes(qrl.rsvd, qbl.Lazy.__imul__, qbl.IdentityLinearOperator._rmatvec)
    rng = np.random.default_rng(5)
    A = rng.normal(size=(12, 9)) @ np.diag(0.5 ** np.arange(9)) @ rng.normal(size=(9, 9))
    sref = np.linalg.svd(A, compute_uv=False)
    for kw in (dict(eps_or_k=4), dict(eps_or_k=1e-3, mode="adapt"), dict(eps_or_k=1e-3, mode="adapt+block")):
        s = qrl.rsvd(A, compute_uv=False, **kw)
        mk.same(f"rsvd(compute_uv=False, {kw}) returns one array of values", isinstance(s, np.ndarray) and s.ndim == 1, True)
        if isinstance(s, np.ndarray) and s.ndim == 1 and not mk.sym:
            # the accuracy of a randomised range finder is outside the claim (it depends on the draw: a 1e-3 agreement
            # demanded here at first failed for some seeds - my false alarm); what IS a theorem for any draw: the values
            # are those of a projection Q^H A with orthonormal Q, hence non-negative, non-increasing and bounded by the
            # true singular values of the same rank
            k = min(len(s), len(sref))
            mk.same(f"[numeric-only] rsvd(compute_uv=False, {kw}): non-negative, non-increasing, each <= the true singular value of its rank",
                    (bool(np.all(s >= 0)), bool(np.all(np.diff(s) <= 1e-12)), bool(np.all(s[:k] <= sref[:k] * (1 + 1e-8) + 1e-12))), (True, True, True))
        U, s2, VH = qrl.rsvd(A, compute_uv=True, **kw)
        mk.same(f"rsvd(compute_uv=True, {kw}) returns a consistent triple", (U.shape[1], VH.shape[0]), (len(s2), len(s2)))
    L = qbl.Lazy(lambda: np.eye(2), shape=(2, 2))
    L0 = L
    L *= 2.0
    L *= 3.0
    mk.same("Lazy *= x keeps the object", L is L0, True)
    if L is L0:
        mk.eq("Lazy *= 2; *= 3 denotes 6 * matrix", mk.const(np.asarray(L())), mk.const(6.0 * np.eye(2)))
    z = mk.scalar("f", "cplx")
    v = mk.array("v", (3,), "cplx")
    I3 = qbl.IdentityLinearOperator(3, 1.0)
    I3.factor = z if mk.sym else complex(z)
    zc = z.conjugate() if mk.sym else np.conj(complex(z))
    mk.eq("IdentityLinearOperator: matvec == f v", I3._matvec(v), v * z)
    mk.eq("IdentityLinearOperator: rmatvec == conj(f) v", I3._rmatvec(v), v * zc)
