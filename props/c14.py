"""C14 - belief propagation is exact on trees and its marginals are consistent.

The real BP classes (D1BP, HD1BP, HV1BP, L1BP, D2BP, L2BP) and their contract_* entry points
are executed on acyclic networks whose tensor entries are symbols.  Message normalisation
divides by non-monomial polynomials: the engine represents 1/p by a defined symbol w with the
hypothesis w*p = 1 and the decision procedure clears these denominators, so every goal below
is a *rational-function identity in the tensor entries*, decided for all values of the symbols.

Goals
  (a) after (diameter + k) rounds `contract()` / `contract_*bp(...)` equals the exact
      contraction value (1-norm flavours) / <psi|psi> (2-norm flavours) computed by an
      independent sum-of-products reference;
  (b) every converged message is proportional to the exact cavity contraction of the sub-tree
      behind it; index / tensor marginals and BP reduced density matrices read from the
      messages equal the exact marginals (cross-multiplied by the exact normaliser);
  (c) sequential (in two tensor orders) / parallel / locally-converged schedules, uniform /
      symbolic initial messages and every normalisation give the same converged messages and
      value; with damping a converged fixed point stays fixed;
  (d) compressing / gauging with converged messages and no truncation leaves the dense tensor
      unchanged (LAPACK stubs, certificates modulo their contracts; the projector identity
      Pr Pl = 1 is certified, Pl Pr = 1 follows for square matrices and is used as a lemma);
  (e) region counting numbers on a tree region graph + combine_local_contractions reproduce
      the exact value.  The packaged expansion routines (contract_gloop_expand) take fractional
      powers of message overlaps: numeric-only supplement (gloop_expand_supplement).
  (f) tensors with several dangling labels (2-norm flavours): the marginal of every dangling label, site reduced density matrices
      and <psi|psi> (d2bp_multi_dangling);
  (g) the result does not depend on the history of run() calls made on one instance (coarse passes that stop as 'converged',
      single rounds, completed runs, message resets -- then a fine run): run_history.

Convergence control: the run loop compares a message distance with `tol`.  In symbolic mode
the documented callable `distance=` is supplied: 0.0 iff the two messages are *identical*
(exact arithmetic: on a tree a message stops changing after finitely many rounds, then old
and new are the same polynomial), 1.0 otherwise; with tol = 0 the loop runs to
`max_iterations` and `local_convergence=True` skips exactly the messages whose inputs are
unchanged.  The numeric cross-run additionally exercises the library's default distance /
normalisation with a small tolerance.
"""
import numpy as np

import quimb.tensor as qtn
from quimb.tensor.belief_propagation import bp_common, d1bp, d2bp, hd1bp, hv1bp, l1bp, l2bp, regions

from qv import decide as D
from qv import poly as P
from qv import ref, stubs
from qv.harness import obligation

PROP = "C14"
META = {
    "bounds": {
        "quick": {
            "1-norm receivers (scalar networks)": "pair, path of 3, star of 4 (centre + 3 leaves); hyper flavours also a label on 3 tensors "
                                                  "(hyper3) and the 5-tensor hyperstar; lazy: 3 sites with inner tensors / a double bond",
            "2-norm receivers (states with physical labels)": "path of 3 (D2BP), 3 lazy sites with an inner tensor / a double bond (L2BP), "
                                                              "pair for gauging / compression",
            "open legs / isolated parts": "hyper flavours: trees with labels on exactly one tensor (on a leaf, on an inner tensor, several, next "
                                          "to a hyper label) and forests with a bond-free tensor with open legs / a scalar tensor; every flavour: "
                                          "forests with an isolated scalar tensor / isolated site (physical label only, inner bonds only, scalar)",
            "dimensions": "bond 2, physical 1-2",
            "entries": "strictly positive symbols (every flavour, value + messages + marginals); signed real and complex symbols "
                       "(messages, marginals, local values; contract() where listed under thorough/outside)",
            "options": "normalize in {L1, L2 (default), Linf, callable sum, callable idempotent L1, callable trace}, update sequential / parallel, "
                       "local_convergence True / False, strip_exponent, symbolic stored exponent, symbolic initial messages (dict / fill "
                       "function), damping (symbolic factor and 1/4) at the fixed point, tensor orders",
            "iterations": "number of tensors (sites) + 1 (+ number of labels for the dense hyper flavour), tol = 0",
            "several dangling labels per tensor (2-norm flavours)": "pair / path of 3 whose tensors carry the site label k{i} plus 0-2 further "
                "dangling labels (operator-like: one extra on every tensor; 3 on a leaf; 3 on the inner tensor), dimension 2 (path of 3: "
                "site labels of dimension 1, extras 2), positive and complex entries: D2BP messages, compute_marginal of every dangling label, "
                "partial_trace of 1 and 2 sites, contract(); L2BP messages, partial_trace, contract()",
            "run() call histories on one instance": "every flavour (D1BP path of 4, HD1BP / HV1BP hyper3, L1BP / L2BP 3 lazy sites, D2BP path of 3) x "
                "update x local_convergence x histories of <= 4 steps from {coarse run (tol above every message distance: stops as converged "
                "after 1 round), single round (tol=0), completed fine run, user reset of all messages to fresh positive symbols} followed by a fine "
                "run and one further run: exact messages + value, rounds performed (counter n), converged flag, info record",
        },
        "thorough": {
            "adds (new cells)": "every (flavour, geometry, extras, kind, update) cell of the several-dangling-labels family and every "
                                "(flavour, history, update, local_convergence) cell of the run() histories",
            "adds": "path of 4, forest (two components, lazy: + a disconnected scalar site), bond 3 and mixed bonds 1/2/3 (D1BP), every "
                    "normalisation x schedule cell per receiver, star / path of 4 / forest for D2BP, lazy star of 4, complex entries for "
                    "gauging / compression, path of 3 for gauging / compression, all gauge entry points",
        },
    },
    "outside": [
        "floating point rounding; networks with cycles (BP is approximate there by design)",
        "the library's built-in message *distance* functions and convergence flags in symbolic mode (they call float() on the distance): "
        "the documented callable `distance=` is supplied (0.0 iff old and new message are identical); built-in distances, tolerances and "
        "the `converged` flag are exercised in the numeric cross-run of the same harnesses ([numeric-only] goals)",
        "HV1BP default `ones` initial messages (allocates float arrays): messages are passed as a dict; numeric cross-run uses the default",
        "smudge_factor=1e-12 (default of HD1BP / HV1BP: added to denominators, perturbs the result by O(1e-12)): symbolic runs use the "
        "documented smudge_factor=0.0, numeric cross-runs the default",
        "contract() on real signed data beyond 5 local regions (2**k sign paths; the non-linear branch feasibility queries time out) and "
        "D2BP / L2BP contract() on signed / complex states (abs() of a real-valued polynomial): numeric-only there; the equivalent "
        "abs-free identity prod(tensor regions) == value * prod(message overlaps) is symbolic",
        "D2BP contract() value on 4 connected tensors in symbolic mode (expanded product of local values > 10**5 terms): numeric-only",
        "contract_gloop_expand / contract_with_loops / contract_loop_series_expansion / normalize_message_pairs / normalize_messages "
        "(fractional powers 1/4, 1/len of overlaps): numeric-only supplements (gloop_expand_supplement; read_history_supplement: every "
        "sequence of <= 3 value reads from one converged D1BP / D2BP / HD1BP object, hyper indices and stored exponents included); the "
        "in-place tensor rescaling they share (D1BP.normalize_tensors) is symbolic. get_gauged_tn (non-symmetric eig), sample_* (random), "
        "diis=True, thread pools: not covered",
        "D2BP power != 1 / smudge != 0 message conditioning, D2BP.gate_, truncating compressions (approximate by design)",
        "run() histories: tolerances strictly between 'above every distance' and 'identical messages only' (the built-in distances call float(); "
        "see above), the rolling-mean criterion (tol_rolling_diff=0.0 is passed to the fine runs), histories that change the tensors between runs "
        "(gate_, power / smudge setters), HV1BP resets (stacked internal messages)",
        "several dangling labels per tensor with all label dimensions 2 on 3 tensors (cleared goals time out: site labels have dimension 1 there)",
        "bond dimension 3 for the hyper / lazy / 2-norm flavours (sizes of the cleared polynomials)",
        "open legs under D1BP (documented: no dangling indices; KeyError) and L1BP (site values are formed without output labels; "
        "TypeError); compute_tensor_marginal of a tensor with a label of its own and L2BP.partial_trace of an isolated site raise "
        "(TypeError / KeyError): rejections, noted, no value to compare",
        "contract() value goals with several open legs in symbolic mode (expanded product of > 10 region values): numeric-only there",
    ],
    "assumptions": [
        "every quantity a message is normalised by and every local region value is non-zero (divisions; generic data)",
        "symbolic Linf normalisation: max(abs(.)) is replaced by an arbitrary positive factor (the results are scale invariant)",
        "LAPACK eigh / svd meet their contracts (stubs); message matrices of a generic state are positive definite (eigenvalues are "
        "positive symbols), singular values positive",
        "square-matrix inverse theorem (Pr Pl = 1 => Pl Pr = 1 for square Pl, Pr) is used as a cited lemma after Pr Pl = 1 has been "
        "certified from the stub contracts (gauging / compression goals)",
        "callable normalisers used in symbolic mode skip the division when the norm is identically 1 (HD1BP / HV1BP normalise already "
        "normalised messages a second time; dividing by 1 is the identity)",
    ],
    "timeout_s": {"quick": 400, "thorough": 900},
}

_Q = ("quick", "thorough")
_T = ("thorough",)


# ---------------------------------------------------------------------- generic helpers

def conj(a):
    if isinstance(a, P.Poly):
        return a.conjugate()
    a = np.asarray(a)
    if a.dtype == object:
        out = np.empty(a.shape, dtype=object)
        for idx in np.ndindex(*a.shape):
            out[idx] = P.lift(a[idx]).conjugate()
        return out
    return np.conj(a)


def sdist(x, y):
    """exact-arithmetic message distance: 0.0 iff identical, else 1.0 (documented callable `distance`)"""
    x = np.asarray(x.data if isinstance(x, qtn.Tensor) else x)
    y = np.asarray(y.data if isinstance(y, qtn.Tensor) else y)
    if x.dtype != object and y.dtype != object:
        return float(np.max(np.abs(x - y))) if x.size else 0.0
    for a, b in zip(x.reshape(-1), y.reshape(-1)):
        if (P.lift(a) - P.lift(b)).t:
            return 1.0
    return 0.0


def _is_one(p):
    """p == 1 identically (modulo the defining relations w*q = 1 of earlier divisions)"""
    if not isinstance(p, P.Poly):
        return p == 1
    d = p - 1
    if not d.t:
        return True
    if not (d.symbols() & set(P.DEF_INV)):
        return False
    try:
        (c,), _ = D.clear_denominators([d])
    except D._TooBig:
        return False
    return not c.t



def make_normalizer(use_abs):
    """documented callable `normalize`: divide by the sum of the (absolute) entries.  A message whose norm is
    identically 1 is returned as is (dividing by an expression equal to 1 is the identity; skipping it keeps
    the symbolic messages small where a flavour normalises an already normalised message again)."""
    def normalize(x):
        tot = 0
        for v in np.asarray(x).reshape(-1):
            tot = tot + (abs(v) if use_abs else v)
        return x if _is_one(tot) else x / tot
    return normalize


nsum = make_normalizer(False)     # no absolute values: usable with signed / complex symbolic data
nl1 = make_normalizer(True)


def ntrace(x):
    """callable `normalize` for matrix (2-norm) messages: divide by the trace"""
    x = np.asarray(x)
    n = int(round(x.size ** 0.5))
    m = x.reshape(n, n)
    tot = 0
    for i in range(n):
        tot = tot + m[i, i]
    return x / tot


def prop_goal(mk, label, m, e):
    """goal: vector m is proportional to e  (m_i e_j == m_j e_i for all i < j);
    for normalised m and e != 0 this pins m completely"""
    m = P.flat_polys(m) if mk.sym else list(np.asarray(m).reshape(-1))
    e = P.flat_polys(e) if mk.sym else list(np.asarray(e).reshape(-1))
    assert len(m) == len(e), (label, len(m), len(e))
    lhs, rhs = [], []
    for i in range(len(m)):
        for j in range(i + 1, len(m)):
            lhs.append(m[i] * e[j])
            rhs.append(m[j] * e[i])
    if not lhs:      # dimension 1
        lhs, rhs = [m[0] * 0], [e[0] * 0]
    if not mk.sym:
        sc = max(1e-300, float(np.max(np.abs(np.asarray(m, dtype=complex)))) * float(np.max(np.abs(np.asarray(e, dtype=complex)))))
        lhs = [v / sc for v in lhs]
        rhs = [v / sc for v in rhs]
    mk.eq(label, lhs, rhs)


def converged_goal(mk, label, info):
    """the last round left every message unchanged: identical polynomials (symbolic) / within 1e-12 (numeric: a flavour that
    divides an already normalised message by its norm again changes the last bits)"""
    if mk.sym:
        mk.same(label, info["max_mdiff"], 0.0)
    else:
        mk.same(label, bool(info["max_mdiff"] <= 1e-12), True)


def value(res):
    """(mantissa, exponent) -> mantissa * 10**exponent; scalars unchanged"""
    if isinstance(res, tuple):
        m, e = res
        return m * 10 ** e
    return res


# ---------------------------------------------------------------------- factor-graph reference

class FG:
    """plain description of a network read off a quimb TensorNetwork (tids, arrays, labels)"""

    def __init__(self, tn):
        self.terms = {tid: (t.data, tuple(t.inds)) for tid, t in tn.tensor_map.items()}
        self.ind_map = {}
        for tid, (_, inds) in self.terms.items():
            for ix in inds:
                self.ind_map.setdefault(ix, []).append(tid)
        e = getattr(tn, "exponent", 0.0)
        self.scale = None if (isinstance(e, float) and e == 0.0) else 10 ** e

    def reach(self, start, blocked_inds=(), blocked_tids=()):
        seen = set(start)
        queue = list(start)
        while queue:
            t = queue.pop()
            for ix in self.terms[t][1]:
                if ix in blocked_inds:
                    continue
                for t2 in self.ind_map[ix]:
                    if t2 not in seen and t2 not in blocked_tids:
                        seen.add(t2)
                        queue.append(t2)
        return seen

    def sop(self, tids, out):
        return ref.sum_of_products([self.terms[t] for t in sorted(tids)], tuple(out))

    def z(self):
        v = self.sop(self.terms, ())[()]
        return v if self.scale is None else v * self.scale

    def marg(self, out):
        """unnormalised exact marginal over labels `out` (without the stored exponent)"""
        return self.sop(self.terms, out)

    def msg_to_tensor(self, ix, tid):
        """exact cavity message arriving at tensor `tid` along label `ix`: contraction of everything
        behind `ix` as seen from `tid` (acyclic factor graph), open on `ix`"""
        start = [t for t in self.ind_map[ix] if t != tid]
        if not start:
            # a label of `tid` alone (open leg summed over): nothing behind it, the cavity message is uniform
            a, inds = self.terms[tid]
            return np.ones(a.shape[inds.index(ix)])
        return self.sop(self.reach(start, blocked_tids=(tid,)), (ix,))

    def msg_from_tensor(self, tid, ix):
        """exact cavity message leaving tensor `tid` along `ix` (hyper flavours: tensor -> index)"""
        return self.sop(self.reach([tid], blocked_inds=(ix,)), (ix,))

    def is_tree(self):
        """the factor graph (tensors + labels shared by >= 2 tensors) has no cycle"""
        nodes = len(self.terms) + sum(1 for ix, ts in self.ind_map.items() if len(ts) >= 2)
        edges = sum(len(ts) for ix, ts in self.ind_map.items() if len(ts) >= 2)
        comps = 0
        seen = set()
        for t in self.terms:
            if t not in seen:
                comps += 1
                seen |= self.reach([t])
        return edges == nodes - comps and all(len(set(inds)) == len(inds) for _, inds in self.terms.values())


# ---------------------------------------------------------------------- 1-norm geometries

GEOMS1 = {
    "pair": [("A", "a"), ("B", "a")],
    "path3": [("A", "a"), ("B", "ab"), ("C", "b")],
    "star4": [("X", "abc"), ("A", "a"), ("B", "b"), ("C", "c")],
    "path4": [("A", "a"), ("B", "ab"), ("C", "bc"), ("D", "c")],
    "forest": [("A", "a"), ("B", "a"), ("C", "b"), ("D", "bc"), ("E", "c")],
    # hyper flavours only: label x on three tensors (incidence graph still a tree)
    "hyper3": [("A", "x"), ("B", "xy"), ("C", "x"), ("D", "y")],
    "hyperstar": [("A", "xy"), ("B", "x"), ("C", "xz"), ("D", "z"), ("E", "y")],
    # open legs (labels on exactly one tensor, summed over by the 1-norm value: contract(all, output_inds=())): on a leaf, on an
    # inner tensor, several at once, next to a hyper label -- flavours that accept them: HD1BP, HV1BP
    "open_leaf": [("A", "ap"), ("B", "ab"), ("C", "b")],
    "open_inner": [("A", "a"), ("B", "abq"), ("C", "b")],
    "open_multi": [("A", "apr"), ("B", "abq"), ("C", "bs")],
    "open_hyper": [("A", "xp"), ("B", "xy"), ("C", "x"), ("D", "yq")],
    # forests with an isolated component that is a single tensor: a scalar (every 1-norm flavour) / a bond-free tensor with open legs
    "iso_scalar": [("A", "a"), ("B", "a"), ("S", "")],
    "iso_open": [("A", "a"), ("B", "ab"), ("C", "b"), ("T", "pq")],
}


def arr(mk, name, shape, kind):
    a = mk.array(name, shape, kind)
    if not mk.sym and kind != "pos":
        # numeric draws come from a small grid (+-k/16): break exact cancellations (a message whose entries
        # sum to exactly zero cannot be normalised -- degenerate input, see META assumptions)
        h = sum(ord(c) for c in name)
        a = a * (1.0 + 0.0173 * ((np.arange(a.size).reshape(a.shape) + h) % 7)) + 0.00391
    return a


def build1(mk, geom, kind="pos", D=2, order=None, expo=None, dims=None):
    spec = GEOMS1[geom]
    ts = []
    for tag, inds in spec:
        shape = tuple((dims or {}).get(i, D) for i in inds)
        ts.append(qtn.Tensor(arr(mk, tag, shape, kind), tuple(inds), tags=[tag]))
    if order is not None:
        ts = [ts[i] for i in order]
    tn = qtn.TensorNetwork(ts)
    if expo == "sym":
        e = mk.scalar("e", "real")
        tn.exponent = e if mk.sym else float(e)
    return tn


def iters_for(tn, hyper=False):
    return tn.num_tensors + (len(tn.ind_map) if hyper else 0) + 1


NORMS = {"L1": "L1", "L2": None, "Linf": "Linf", "sum": nsum, "L1x": nl1}


def run_opts(mk, tn, hyper=False, extra=0):
    """iteration control: symbolic -> exact distance, tol = 0, diameter + k rounds"""
    return dict(max_iterations=iters_for(tn, hyper) + extra, tol=0.0)


# ---------------------------------------------------------------------- D1BP

def d1_messages_exact(mk, bp, fg, tag):
    for (ix, tid), m in bp.messages.items():
        prop_goal(mk, f"{tag}: message {ix}->{bp.tn.tensor_map[tid].tags and sorted(bp.tn.tensor_map[tid].tags)[0]} "
                      f"proportional to the exact cavity contraction", m, fg.msg_to_tensor(ix, tid))


_D1 = []
for g_ in ("path3", "star4", "path4", "forest", "iso_scalar"):
    for nz_ in ("L1", "sum", "L2", "Linf"):
        for up_ in ("sequential", "parallel"):
            quick = (g_ in ("path3", "star4") and nz_ in ("L1", "sum")) or (g_ in ("path4", "forest") and nz_ == "L1" and up_ == "sequential") \
                or (g_ == "path3" and up_ == "sequential") or (g_ == "iso_scalar" and (nz_, up_) in (("L1", "sequential"), ("sum", "parallel")))
            _D1.append({"geom": g_, "norm": nz_, "update": up_, "_tiers": _Q if quick else _T})


@obligation(PROP, params=_D1, wall_s=200, timeout_s=280)
def d1bp_exact(mk, geom, norm, update):
    """D1BP / contract_d1bp on a scalar tree: value, messages, strip_exponent, local convergence"""
    mk.encodes(d1bp.D1BP, d1bp.D1BP.iterate, d1bp.D1BP.contract, d1bp.D1BP.local_tensor_contract,
               d1bp.D1BP.local_message_contract, d1bp.contract_d1bp, d1bp.initialize_messages,
               hd1bp.compute_all_tensor_messages_tree, bp_common.BeliefPropagationCommon.run,
               bp_common.combine_local_contractions)
    tn = build1(mk, geom, "pos", expo="sym" if norm == "L1" else None)
    fg = FG(tn)
    mk.same("receiver is acyclic", fg.is_tree(), True)
    Z = fg.z()
    kw = dict(normalize=NORMS[norm], distance=sdist, update=update)
    ro = run_opts(mk, tn)
    # entry point
    mk.eq(f"contract_d1bp({geom}, normalize={norm}, update={update}) == exact value",
          d1bp.contract_d1bp(tn, **kw, **ro), Z)
    mk.eq("contract_d1bp(strip_exponent=True): mantissa * 10**exponent == exact value",
          value(d1bp.contract_d1bp(tn, strip_exponent=True, **kw, **ro)), Z)
    for lc in (True, False):
        bp = d1bp.D1BP(tn, local_convergence=lc, **kw)
        info = {}
        bp.run(info=info, **ro)
        if norm != "Linf":   # (symbolic Linf: every max() is abstracted by a fresh positive factor, so messages never repeat syntactically)
            converged_goal(mk, f"local_convergence={lc}: last round changed nothing (max_mdiff == 0)", info)
        d1_messages_exact(mk, bp, fg, f"local_convergence={lc}")
        mk.eq(f"D1BP.contract() local_convergence={lc} == exact value", bp.contract(), Z)
        # local values: product of tensor regions == Z * product of message overlaps
        num = 1
        for tid in bp.tn.tensor_map:
            num = num * bp.local_tensor_contract(tid)
        den = 1
        for ix in bp.tn.ind_map:
            den = den * bp.local_message_contract(ix)
        sc = fg.scale if fg.scale is not None else 1
        mk.eq(f"prod local_tensor_contract * 10**exponent == Z * prod local_message_contract (lc={lc})", num * sc, Z * den)
    if not mk.sym:
        # numeric-only supplement: library default distance / normalisation and a small tolerance
        info = {}
        v = d1bp.contract_d1bp(tn, update=update, tol=1e-13, max_iterations=60, info=info)
        mk.same("[numeric-only] default distance: converged flag set on a tree", bool(info["converged"]), True)
        mk.eq("[numeric-only] contract_d1bp with default normalize / distance == exact value", v, Z)



def tag_of(bp, tid):
    return sorted(bp.tn.tensor_map[tid].tags)[0]


def local_product_goal(mk, label, bp, fg, Z):
    num = 1
    for tid in bp.tn.tensor_map:
        num = num * bp.local_tensor_contract(tid)
    den = 1
    for ix in bp.tn.ind_map:
        den = den * bp.local_message_contract(ix)
    sc = fg.scale if fg.scale is not None else 1
    mk.eq(label, num * sc, Z * den)


_D1S = [{"geom": g, "kind": k, "_tiers": _Q if (g == "path3" or (g, k) == ("star4", "cplx")) else _T}
        for g in ("path3", "star4", "path4", "forest") for k in ("real", "cplx")]


@obligation(PROP, params=_D1S, wall_s=500, timeout_s=600, max_paths=600)
def d1bp_signed(mk, geom, kind):
    """D1BP on signed real / complex symbolic data (normalize = callable x / sum(x)): messages,
    local region values, and contract() itself -- combine_local_contractions factors every local
    value into phase * magnitude: sign forks (real) / defined square roots (complex)"""
    mk.encodes(d1bp.D1BP, d1bp.D1BP.iterate, d1bp.D1BP.contract, d1bp.contract_d1bp, bp_common.combine_local_contractions,
               hd1bp.compute_all_tensor_messages_tree)
    tn = build1(mk, geom, kind, expo="sym" if geom == "path3" else None)
    fg = FG(tn)
    Z = fg.z()
    bp = d1bp.D1BP(tn, normalize=nsum, distance=sdist, update="parallel" if geom == "path4" else "sequential")
    info = {}
    bp.run(info=info, **run_opts(mk, tn))
    converged_goal(mk, "last round changed nothing", info)
    d1_messages_exact(mk, bp, fg, kind)
    local_product_goal(mk, f"{kind}: prod local_tensor_contract * 10**exponent == Z * prod local_message_contract", bp, fg, Z)
    if kind == "cplx" or geom in ("path3", "star4"):
        mk.eq(f"D1BP.contract() on {kind} data == exact value", bp.contract(), Z)
        if geom != "star4":
            mk.eq(f"D1BP.contract(strip_exponent=True) on {kind} data", value(bp.contract(strip_exponent=True)), Z)
    else:
        mk.note("real signed data on >= 7 local regions: contract() forks on the sign of every local value (2**7 paths, non-linear "
                "feasibility queries time out); covered by the local-product goal + combine_local_contractions obligations + numeric cross-run")
        if not mk.sym:
            mk.eq(f"[numeric-only] D1BP.contract() on {kind} data == exact value", bp.contract(), Z)
    if not mk.sym:
        v = d1bp.contract_d1bp(tn, tol=1e-13, max_iterations=60)
        mk.eq(f"[numeric-only] contract_d1bp, default ({'L2phased' if kind == 'cplx' else 'L2'}) normalize / distance == exact value", v, Z)


_NT = [{"geom": g, "kind": k, "_tiers": _Q if g == "path3" else _T, "_mandatory": g == "path3"}
       for g in ("path3", "star4") for k in ("pos", "real", "cplx")
       if (g, k) != ("star4", "real")]     # star4 on signed real data: 2**7 sign paths, 500 CPU s without a verdict (measured) - dropped


@obligation(PROP, params=_NT, wall_s=500, timeout_s=600, max_paths=600)
def d1bp_normalize_tensors_then_read(mk, geom, kind):
    """third round: reads from ONE converged D1BP object after it has rescaled its tensors.  normalize_tensors() (public; called by
    contract_with_loops / contract_loop_series_expansion) divides every tensor by its local BP contraction and moves sign and
    magnitude into bp.sign / bp.exponent: afterwards every local tensor contraction is 1 (documented) and every contraction read
    from the same object -- contract(), contract(strip_exponent=True) -- is still the exact value of the tree, for signed real
    (sign forks) and complex data; get_normalized_tn() leaves the object untouched."""
    mk.encodes(d1bp.D1BP.normalize_tensors, d1bp.D1BP.get_normalized_tn, d1bp.D1BP.contract, d1bp.D1BP.local_tensor_contract,
               bp_common.combine_local_contractions)
    tn = build1(mk, geom, kind)
    fg = FG(tn)
    Z = fg.z()
    bp = d1bp.D1BP(tn, normalize=nsum, distance=sdist)
    info = {}
    bp.run(info=info, **run_opts(mk, tn))
    converged_goal(mk, "last round changed nothing", info)
    if hasattr(bp, "get_normalized_tn"):
        before = [np.array(t.data, dtype=t.data.dtype, copy=True) for t in bp.tn]
        s0, e0 = bp.sign, bp.exponent
        out = bp.get_normalized_tn()
        for q_, (t, b0) in enumerate(zip(bp.tn, before)):
            mk.eq(f"get_normalized_tn leaves tensor {q_} of the object untouched", t.data, b0)
        mk.eq("get_normalized_tn leaves sign / exponent of the object untouched", np.array([bp.sign, bp.exponent], dtype=object if mk.sym else None),
              np.array([s0, e0], dtype=object if mk.sym else None))
        del out
    bp.normalize_tensors()
    for tid in bp.tn.tensor_map:
        mk.eq(f"{kind}: after normalize_tensors the local contraction of tensor {tag_of(bp, tid)} is 1", bp.local_tensor_contract(tid), 1)
    mk.eq(f"{kind}: contract() after normalize_tensors == exact value", bp.contract(), Z)
    if kind == "real" or geom != "path3":
        return          # signed real data: every further read forks again on the sign of every local value (2**k paths each)
    mk.eq(f"{kind}: contract(strip_exponent=True) after normalize_tensors == exact value", value(bp.contract(strip_exponent=True)), Z)
    bp.normalize_tensors()
    mk.eq(f"{kind}: contract() after a second normalize_tensors == exact value", bp.contract(), Z)


_RD = [{"flavour": f, "geom": g, "kind": k, "expo": e, "_tiers": _Q if g == "path3" else _T}
       for f in ("D1BP", "D2BP") for g in ("path3", "star4") for k in ("real", "cplx") for e in (0, 1.0) if not (e and k == "cplx")]
# hyper networks (an index shared by 3 tensors, dangling-free): region expansions with explicit covering regions
_RD += [{"flavour": "HD1BP", "geom": g, "kind": k, "expo": e, "_tiers": _Q if g == "hyper3" else _T}
        for g in ("hyper3", "hyperstar", "path3") for k in ("pos", "real") for e in (0, 1.0) if not (e and k == "real")]


@obligation(PROP, params=_RD, wall_s=200, timeout_s=300, numeric=True)
def read_history_supplement(mk, flavour, geom, kind, expo=0):
    """NUMERIC-ONLY supplement (third round): every sequence of <= 3 value reads from one converged D1BP / D2BP object on a tree --
    contract, contract(strip_exponent), contract_loop_series_expansion, contract_with_loops (D1BP), contract_gloop_expand -- returns
    the exact value each time, on signed real and complex data.  The loop / region expansion entry points first rescale messages
    (fractional powers of overlaps) and tensors in place, so a later read sees a mutated object; the rescaling step
    normalize_tensors itself is decided symbolically by d1bp_normalize_tensors_then_read."""
    mk.encodes(d1bp.D1BP.contract_loop_series_expansion, d1bp.D1BP.contract_with_loops, d1bp.D1BP.contract_gloop_expand,
               d2bp.D2BP.contract_loop_series_expansion, d2bp.D2BP.contract_gloop_expand, d2bp.D2BP.normalize_tensors,
               hd1bp.HD1BP.contract_gloop_expand, hd1bp.HD1BP.normalize_messages)
    if mk.sym:
        mk.note("numeric-only: the expansion entry points take fractional powers of message overlaps")
        mk.same("numeric-only cell (symbolic run skipped)", True, True)
        return
    import itertools
    import warnings
    if flavour == "HD1BP":
        tn = build1(mk, geom, kind)
        want = FG(tn).z()
        if expo:
            tn.exponent = expo
            want = want * 10 ** expo
        tids = sorted(tn.tensor_map)
        singles = [(t,) for t in tids]
        nb = tn.get_tid_neighbor_map()
        pairs = [(i, j) for i in tids for j in nb[i] if i < j]
        reads = {"contract": lambda b: b.contract(), "contract_strip": lambda b: value(b.contract(strip_exponent=True)),
                 "gloop_singles": lambda b: b.contract_gloop_expand(gloops=singles),
                 "gloop_pairs+singles": lambda b: b.contract_gloop_expand(gloops=pairs + singles)}
    elif flavour == "D2BP":
        tn, n = build2(mk, geom, kind)
        want = FG2(tn).norm2()
        if expo:
            tn.exponent = expo          # the ket denotes 10**expo times its tensors: the norm carries 10**(2 expo)
            want = want * 10 ** (2 * expo)
        reads = {"contract": lambda b: b.contract(), "contract_strip": lambda b: value(b.contract(strip_exponent=True)),
                 "loop_series": lambda b: b.contract_loop_series_expansion(), "gloop_expand": lambda b: b.contract_gloop_expand()}
    else:
        tn = build1(mk, geom, kind)
        want = FG(tn).z()
        if expo:
            tn.exponent = expo
            want = want * 10 ** expo
        reads = {"contract": lambda b: b.contract(), "contract_strip": lambda b: value(b.contract(strip_exponent=True)),
                 "loop_series": lambda b: b.contract_loop_series_expansion(), "with_loops": lambda b: b.contract_with_loops(),
                 "gloop_expand": lambda b: b.contract_gloop_expand()}
    with warnings.catch_warnings():
        warnings.simplefilter("ignore")
        for seq in itertools.product(sorted(reads), repeat=3):
            if len(set(seq)) == 1 and seq[0].startswith("contract"):
                continue
            if flavour == "D2BP":
                bp = d2bp.D2BP(tn.copy())
            elif flavour == "HD1BP":
                bp = hd1bp.HD1BP(tn.copy(), smudge_factor=0.0)
            else:
                bp = d1bp.D1BP(tn.copy())
            bp.run(tol=1e-13, max_iterations=80)
            for q_, r_ in enumerate(seq):
                mk.eq(f"[numeric-only] {flavour} reads {'>'.join(seq)}: read {q_} ({r_}) == exact value", reads[r_](bp), want, tol=1e-7)


_ORDERS = {"path3": [(2, 0, 1), (1, 2, 0)], "star4": [(3, 1, 0, 2), (1, 2, 3, 0)], "path4": [(2, 0, 3, 1), (3, 2, 1, 0)],
           "forest": [(4, 2, 0, 3, 1), (1, 0, 3, 4, 2)]}


@obligation(PROP, params=[{"geom": g, "_tiers": _Q if g in ("path3", "star4") else _T} for g in _ORDERS], wall_s=300, timeout_s=400)
def d1bp_schedules(mk, geom):
    """schedule / initialisation independence of D1BP on a tree: tensor orders x update x
    local_convergence, symbolic initial messages (dict and fill function), damping at the fixed point"""
    mk.encodes(d1bp.D1BP, d1bp.D1BP.iterate, d1bp.initialize_messages, bp_common.BeliefPropagationCommon.run,
               bp_common.BeliefPropagationCommon.damping)
    base = build1(mk, geom, "pos")
    fg0 = FG(base)
    Z = fg0.z()
    # reference messages by (label, destination tag): exact cavity contractions, L1-normalised
    tagmap = {tid: sorted(t.tags)[0] for tid, t in base.tensor_map.items()}
    exact = {}
    for ix, tids in fg0.ind_map.items():
        for tid in tids:
            e = fg0.msg_to_tensor(ix, tid)
            exact[ix, tagmap[tid]] = e / sum(e.reshape(-1)[1:], e.reshape(-1)[0])
    spec = GEOMS1[geom]
    n = len(spec)
    variants = []
    for order in [tuple(range(n))] + _ORDERS[geom]:
        for up in ("sequential", "parallel"):
            for lc in (True, False):
                variants.append((order, up, lc))
    for order, up, lc in variants:
        tn = qtn.TensorNetwork([base[spec[i][0]] for i in order])
        bp = d1bp.D1BP(tn, normalize="L1", distance=sdist, update=up, local_convergence=lc)
        bp.run(**run_opts(mk, tn))
        got = {(ix, tag_of(bp, tid)): m for (ix, tid), m in bp.messages.items()}
        mk.same(f"order={order} {up} lc={lc}: one message per (bond, tensor)", set(got), set(exact))
        for k in sorted(exact):
            mk.eq(f"order={order} update={up} local_convergence={lc}: converged message {k} == L1-normalised exact cavity message",
                  got[k], exact[k])
        mk.eq(f"order={order} update={up} local_convergence={lc}: contract() == exact value", bp.contract(), Z)
    # initial messages: symbolic positive dict / fill function
    tn = base.copy()
    init = {}
    for ix, tids in tn.ind_map.items():
        for tid in tids:
            init[ix, tid] = mk.array(f"m0_{ix}_{tagmap[tid]}", (tn.ind_size(ix),), "pos")
    for up in ("sequential", "parallel"):
        bp = d1bp.D1BP(tn, messages=dict(init), normalize="L1", distance=sdist, update=up)
        bp.run(**run_opts(mk, tn))
        for (ix, tid), m in bp.messages.items():
            mk.eq(f"symbolic initial messages, {up}: converged message {(ix, tagmap[tid])} independent of them", m, exact[ix, tagmap[tid]])
        mk.eq(f"symbolic initial messages, {up}: contract() == exact value", bp.contract(), Z)
    cnt = [0]

    def fill(shape):
        cnt[0] += 1
        return mk.array(f"f{cnt[0]}", shape, "pos")

    for how in ("messages", "message_init_function"):
        bp = d1bp.D1BP(tn, normalize="L1", distance=sdist, **{how: fill})
        bp.run(**run_opts(mk, tn))
        for (ix, tid), m in bp.messages.items():
            mk.eq(f"{how}=fill function: converged message {(ix, tagmap[tid])}", m, exact[ix, tagmap[tid]])
    # damping: a converged fixed point stays fixed (symbolic damping factor for the messages; contract()
    # with a concrete factor, which keeps every local value structurally positive)
    damp = mk.scalar("damp", "pos")
    if not mk.sym:
        damp = damp / 2.0
    for up in ("sequential", "parallel"):
        for dm in (damp, 0.25):
            fix = {(ix, tid): exact[ix, tagmap[tid]] for (ix, tid) in init}
            # (symbolic factor: messages d*old + (1-d)*new have no structural sign -> normalise by the plain sum)
            bp = d1bp.D1BP(tn, messages=dict(fix), damping=dm, normalize=nsum if dm is damp else "L1", distance=sdist, update=up)
            bp.run(max_iterations=2, tol=0.0)
            lab = "symbolic d" if dm is damp else dm
            for (ix, tid), m in bp.messages.items():
                mk.eq(f"damping={lab}, {up}: fixed point message {(ix, tagmap[tid])} unchanged", m, fix[ix, tid])
            if dm is not damp:
                mk.eq(f"damping={lab}, {up}: contract() at the fixed point == exact value", bp.contract(), Z)


@obligation(PROP, params=[{"geom": "path3", "D": 3}, {"geom": "star4", "D": 3, "_tiers": _T}, {"geom": "path4", "D": 3, "_tiers": _T},
                          {"geom": "star4", "D": "mixed"}, {"geom": "forest", "D": "mixed", "_tiers": _T}], wall_s=300, timeout_s=400)
def d1bp_dims(mk, geom, D):
    """other bond dimensions (3, mixed 1/2/3)"""
    mk.encodes(d1bp.D1BP, d1bp.contract_d1bp)
    dims = dict(a=3, b=1, c=2) if D == "mixed" else None
    tn = build1(mk, geom, "pos", D=3 if D == 3 else 2, dims=dims)
    fg = FG(tn)
    Z = fg.z()
    for up in ("sequential", "parallel"):
        bp = d1bp.D1BP(tn, normalize="L1", distance=sdist, update=up)
        bp.run(**run_opts(mk, tn))
        d1_messages_exact(mk, bp, fg, f"D={D} {up}")
        mk.eq(f"D={D} {up}: contract() == exact value", bp.contract(), Z)


# ---------------------------------------------------------------------- hyper flavours: HD1BP, HV1BP

def hyper_messages_exact(mk, messages, tn, fg, tag):
    tags = {tid: sorted(t.tags)[0] for tid, t in tn.tensor_map.items()}
    n = 0
    for key, m in messages.items():
        a, b = key
        if a in tn.ind_map and b in tn.tensor_map:       # index -> tensor
            prop_goal(mk, f"{tag}: message {a}->{tags[b]} proportional to the exact cavity contraction", m, fg.msg_to_tensor(a, b))
        else:                                             # tensor -> index
            prop_goal(mk, f"{tag}: message {tags[a]}->{b} proportional to the exact cavity contraction", m, fg.msg_from_tensor(a, b))
        n += 1
    mk.same(f"{tag}: two messages per (tensor, label) incidence", n, 2 * sum(len(t.inds) for t in tn.tensor_map.values()))


def marginal_goals(mk, tn, messages, fg, tag):
    """index / tensor marginals read from hyper messages == exact marginals (cross-multiplied by Z)"""
    z0 = fg.sop(fg.terms, ())[()]            # exact normaliser (without the stored exponent)
    margs = bp_common.compute_all_index_marginals_from_messages(tn, messages)
    mk.same(f"{tag}: one marginal per label", set(margs), set(tn.ind_map))
    for ix, p in margs.items():
        mk.eq(f"{tag}: index marginal of {ix} * Z == exact unnormalised marginal", p * z0, fg.marg((ix,)))
        mk.eq(f"{tag}: compute_index_marginal({ix}) agrees", bp_common.compute_index_marginal(tn, ix, messages), p)
    tags = {tid: sorted(t.tags)[0] for tid, t in tn.tensor_map.items()}
    for tid, t in tn.tensor_map.items():
        own = [ix for ix in t.inds if len(tn.ind_map[ix]) == 1]
        try:
            p = bp_common.compute_tensor_marginal(tn, tid, messages)
        except TypeError as e:
            if not own:
                raise
            # rejection, no wrong value: the product over the *other* tensors on a label is taken without an initial value
            mk.note(f"compute_tensor_marginal rejects a tensor that has a label of its own ({own}): {type(e).__name__}: {e}"[:200])
            continue
        mk.same(f"{tag}: tensor marginal shape", tuple(np.shape(p)), tuple(t.shape))
        mk.eq(f"{tag}: tensor marginal of {tags[tid]} * Z == exact unnormalised marginal over its labels", p * z0, fg.marg(t.inds))


def make_batched_normalizer(use_abs):
    """in-place callable `normalize` of HV1BP (stacked messages, last axis = message entries): divide every
    message by the sum of its (absolute) entries.  A message whose norm is identically 1 is left alone:
    HV1BP re-normalises the (already normalised) inputs of its rank-2 labels in place on every round
    (the flipped *view* returned by _compute_all_hyperind_messages_prod_batched); dividing by an
    expression that equals 1 is the identity, skipping it keeps the symbolic messages from growing."""
    def normalize(bx):
        for idx in np.ndindex(*bx.shape[:-1]):
            row = bx[idx]
            tot = 0
            for v in row:
                tot = tot + (abs(v) if use_abs else v)
            if not _is_one(tot):
                bx[idx] = row / tot
    return normalize


nsum_batched = make_batched_normalizer(False)
l1_batched = make_batched_normalizer(True)


HYPER_GEOMS = ("path3", "star4", "hyper3", "hyperstar", "forest", "path4")

_HD = []
for g_ in HYPER_GEOMS:
    for nz_ in ("L1x", "sum", "L1", "L2"):
        for up_ in ("sequential", "parallel"):
            if nz_ in ("L1", "L2") and g_ in ("hyperstar", "path4"):
                continue      # built-in normalisers: every 2-tensor label message is normalised twice (nested inverses): small receivers only
            quick = (g_ in ("hyper3", "path3") and nz_ in ("L1x", "sum")) or (g_ in ("star4", "hyperstar") and nz_ == "L1x" and up_ == "sequential") \
                or (g_ == "path3" and nz_ == "L1" and up_ == "sequential")
            _HD.append({"geom": g_, "norm": nz_, "update": up_, "_tiers": _Q if quick else _T})


@obligation(PROP, params=_HD, wall_s=400, timeout_s=500)
def hd1bp_exact(mk, geom, norm, update):
    """HD1BP / contract_hd1bp / run_belief_propagation_hd1bp on scalar (hyper) trees: value, both message
    directions, index and tensor marginals.  smudge_factor=0.0 (the default 1e-12 added to denominators
    is a floating point device that perturbs the messages by O(1e-12))"""
    mk.encodes(hd1bp.HD1BP, hd1bp.HD1BP.iterate, hd1bp.HD1BP.contract, hd1bp.contract_hd1bp, hd1bp.run_belief_propagation_hd1bp,
               hd1bp.compute_all_hyperind_messages_prod, hd1bp.compute_all_tensor_messages_tree,
               bp_common.initialize_hyper_messages, bp_common.contract_hyper_messages, bp_common.combine_local_contractions,
               bp_common.compute_index_marginal, bp_common.compute_tensor_marginal, bp_common.compute_all_index_marginals_from_messages)
    tn = build1(mk, geom, "pos", expo="sym" if norm == "L1x" else None)
    fg = FG(tn)
    mk.same("receiver is acyclic (incidence graph)", fg.is_tree(), True)
    Z = fg.z()
    kw = dict(normalize=NORMS[norm], distance=sdist, update=update, smudge_factor=0.0)
    ro = run_opts(mk, tn, hyper=True)
    mk.eq(f"contract_hd1bp({geom}, normalize={norm}, update={update}) == exact value", hd1bp.contract_hd1bp(tn, **kw, **ro), Z)
    mk.eq("contract_hd1bp(strip_exponent=True)", value(hd1bp.contract_hd1bp(tn, strip_exponent=True, **kw, **ro)), Z)
    bp = hd1bp.HD1BP(tn, **kw)
    info = {}
    bp.run(info=info, **ro)
    converged_goal(mk, "last round changed nothing (max_mdiff == 0)", info)
    hyper_messages_exact(mk, bp.messages, bp.tn, fg, "HD1BP")
    mk.eq("HD1BP.contract() == exact value", bp.contract(), Z)
    marginal_goals(mk, bp.tn, bp.messages, fg, "HD1BP")
    if norm == "L1x" and update == "sequential":
        # symbolic initial messages (dict) and a fill function
        init = {}
        tags = {tid: sorted(t.tags)[0] for tid, t in tn.tensor_map.items()}
        for tid, t in tn.tensor_map.items():
            for ix in t.inds:
                init[tid, ix] = mk.array(f"u_{tags[tid]}_{ix}", (t.ind_size(ix),), "pos")
                init[ix, tid] = mk.array(f"v_{ix}_{tags[tid]}", (t.ind_size(ix),), "pos")
        bp2 = hd1bp.HD1BP(tn, messages=dict(init), **kw)
        bp2.run(**ro)
        for key in bp.messages:
            mk.eq(f"symbolic initial messages: converged message {key if isinstance(key[0], str) else (tags[key[0]], key[1])} independent of them",
                  bp2.messages[key], bp.messages[key])
        cnt = [0]

        def fill(shape):
            cnt[0] += 1
            return mk.array(f"f{cnt[0]}", shape, "pos")

        bp3 = hd1bp.HD1BP(tn, messages=fill, **kw)
        bp3.run(**ro)
        mk.eq("messages=fill function: contract() == exact value", bp3.contract(), Z)
        # the functional entry point (default smudge in numeric mode only)
        msgs, conv = hd1bp.run_belief_propagation_hd1bp(tn, smudge_factor=0.0, max_iterations=ro["max_iterations"],
                                                        tol=0.0 if mk.sym else 1e-13) if not mk.sym else (None, None)
        if msgs is not None:
            mk.same("[numeric-only] run_belief_propagation_hd1bp converged", bool(conv), True)
            marginal_goals(mk, tn, msgs, fg, "[numeric-only] run_belief_propagation_hd1bp")
        # damping at the fixed point
        bp4 = hd1bp.HD1BP(tn, messages={k: v for k, v in bp.messages.items()}, damping=0.25, **kw)
        bp4.run(max_iterations=2, tol=0.0)
        for key in bp.messages:
            mk.eq(f"damping=0.25: fixed point message {key if isinstance(key[0], str) else (tags[key[0]], key[1])} unchanged",
                  bp4.messages[key], bp.messages[key])
        mk.eq("damping=0.25: contract() at the fixed point == exact value", bp4.contract(), Z)
    if not mk.sym:
        info = {}
        v = hd1bp.contract_hd1bp(tn, update=update, tol=1e-13, max_iterations=80, info=info)
        mk.same("[numeric-only] default distance / smudge: converged flag set on a tree", bool(info["converged"]), True)
        mk.eq("[numeric-only] contract_hd1bp with library defaults (smudge_factor=1e-12) == exact value", v, Z)


@obligation(PROP, params=[{"geom": g, "kind": k, "_tiers": _Q if (g, k) in (("hyper3", "cplx"), ("path3", "real"), ("pair", "real")) else _T}
                          for g in ("pair", "hyper3", "path3", "hyperstar") for k in ("real", "cplx")], wall_s=500, timeout_s=600, max_paths=600)
def hd1bp_signed(mk, geom, kind):
    """HD1BP on signed real / complex data (normalize = callable x / sum(x))"""
    mk.encodes(hd1bp.HD1BP, hd1bp.HD1BP.iterate, hd1bp.HD1BP.contract, bp_common.contract_hyper_messages,
               bp_common.compute_index_marginal, bp_common.compute_tensor_marginal)
    tn = build1(mk, geom, kind)
    fg = FG(tn)
    Z = fg.z()
    bp = hd1bp.HD1BP(tn, normalize=nsum, distance=sdist, smudge_factor=0.0)
    bp.run(**run_opts(mk, tn, hyper=True))
    hyper_messages_exact(mk, bp.messages, bp.tn, fg, f"HD1BP {kind}")
    marginal_goals(mk, bp.tn, bp.messages, fg, f"HD1BP {kind}")
    if (kind == "cplx" and geom != "hyperstar") or geom == "pair":
        mk.eq(f"HD1BP.contract() on {kind} data == exact value", bp.contract(), Z)
    else:
        mk.note("contract() on real signed data forks on the sign of every local value (>= 2**9 paths) and on the complex 5-tensor "
                "receiver takes 20 defined square roots (certificate too large): symbolic on the smaller receivers / positive data, "
                "numeric cross-run here")
        if not mk.sym:
            mk.eq(f"[numeric-only] HD1BP.contract() on {kind} data == exact value", bp.contract(), Z)


_HV = []
for g_ in HYPER_GEOMS:
    for nz_ in ("L1x", "sum", "L1", "L2"):
        if nz_ in ("L1", "L2") and g_ not in ("path3", "hyper3", "forest"):
            continue      # built-in normalisers re-normalise the rank-2 label inputs on every round (nested inverses): small receivers only
        quick = (g_ in ("hyper3", "path3") and nz_ in ("L1x", "sum")) or (g_ in ("star4",) and nz_ == "L1x")
        _HV.append({"geom": g_, "norm": nz_, "_tiers": _Q if quick else _T})


@obligation(PROP, params=_HV, wall_s=400, timeout_s=500)
def hv1bp_exact(mk, geom, norm):
    """HV1BP / contract_hv1bp (vectorised: stacked object arrays) on scalar (hyper) trees.  Messages are
    handed over as a dict / 'dense' (the default `ones` initialisation allocates float arrays that cannot
    hold symbols); smudge_factor=0.0."""
    mk.encodes(hv1bp.HV1BP, hv1bp.HV1BP.iterate, hv1bp.HV1BP.contract, hv1bp.HV1BP.contract_dense, hv1bp.HV1BP.get_messages_dense,
               hv1bp.HV1BP.initialize_messages_batched, hv1bp.contract_hv1bp, hv1bp._compute_all_tensor_messages_tree_batched,
               hv1bp._compute_all_hyperind_messages_prod_batched, hv1bp._update_output_to_input_single_batched, hv1bp._gather_zb,
               hv1bp._contract_index_region_single, hv1bp._contract_tensor_region_single, hv1bp._contract_messages_pair_single,
               bp_common.initialize_hyper_messages)
    tn = build1(mk, geom, "pos", expo="sym" if norm == "L1x" else None)
    fg = FG(tn)
    Z = fg.z()
    nz = {"L1": "L1", "L2": "L2", "sum": nsum_batched, "L1x": l1_batched}[norm]
    ro = dict(max_iterations=tn.num_tensors + 1, tol=0.0)
    init = bp_common.initialize_hyper_messages(tn, smudge_factor=0.0)
    kw = dict(normalize=nz, distance=sdist, smudge_factor=0.0)
    mk.eq(f"contract_hv1bp({geom}, normalize={norm}) == exact value", hv1bp.contract_hv1bp(tn, messages=dict(init), **kw, **ro), Z)
    mk.eq("contract_hv1bp(strip_exponent=True)", value(hv1bp.contract_hv1bp(tn, messages=dict(init), strip_exponent=True, **kw, **ro)), Z)
    bp = hv1bp.HV1BP(tn, messages=dict(init), **kw)
    info = {}
    bp.run(info=info, **ro)
    if norm in ("L1x", "sum"):
        converged_goal(mk, "last round changed nothing (max_mdiff == 0)", info)
    elif not mk.sym:
        # built-in normalisers re-divide the rank-2 label inputs by their (unit) norm on every round: the messages
        # keep changing in the last bits (numeric) / syntactically (symbolic) although they are converged
        mk.same("[numeric-only] built-in normaliser: last round changed the messages by < 1e-12", bool(info["max_mdiff"] < 1e-12), True)
    msgs = bp.get_messages_dense()
    hyper_messages_exact(mk, msgs, bp.tn, fg, "HV1BP")
    mk.eq("HV1BP.contract() == exact value", bp.contract(), Z)
    mk.eq("HV1BP.contract_dense() == exact value", bp.contract_dense(), Z)
    marginal_goals(mk, bp.tn, msgs, fg, "HV1BP")
    if norm == "L1x":
        # symbolic initial messages
        sym = {}
        tags = {tid: sorted(t.tags)[0] for tid, t in tn.tensor_map.items()}
        for tid, t in tn.tensor_map.items():
            for ix in t.inds:
                sym[tid, ix] = mk.array(f"u_{tags[tid]}_{ix}", (t.ind_size(ix),), "pos")
                sym[ix, tid] = mk.array(f"v_{ix}_{tags[tid]}", (t.ind_size(ix),), "pos")
        bp2 = hv1bp.HV1BP(tn, messages=sym, **kw)
        bp2.run(**ro)
        m2 = bp2.get_messages_dense()
        for key in msgs:
            mk.eq(f"symbolic initial messages: converged message {key if isinstance(key[0], str) else (tags[key[0]], key[1])} independent of them",
                  m2[key], msgs[key])
        # damping at the fixed point
        bp4 = hv1bp.HV1BP(tn, messages=dict(msgs), damping=0.25, **kw)
        bp4.run(max_iterations=2, tol=0.0)
        m4 = bp4.get_messages_dense()
        for key in msgs:
            mk.eq(f"damping=0.25: fixed point message {key if isinstance(key[0], str) else (tags[key[0]], key[1])} unchanged", m4[key], msgs[key])
        mk.eq("damping=0.25: contract() at the fixed point == exact value", bp4.contract(), Z)
        # agreement with the dense hyper flavour (same schedule: parallel)
        bpd = hd1bp.HD1BP(tn, messages=dict(init), normalize="L1", distance=sdist, update="parallel", smudge_factor=0.0)
        ro = run_opts(mk, tn, hyper=True)
        bpd.run(**ro)
        for key in msgs:
            mk.eq(f"HV1BP message {key if isinstance(key[0], str) else (tags[key[0]], key[1])} == HD1BP(update='parallel') message", msgs[key], bpd.messages[key])
    if not mk.sym:
        info = {}
        v = hv1bp.contract_hv1bp(tn, tol=1e-13, max_iterations=80, info=info)
        mk.same("[numeric-only] default (ones) initialisation / L2 distance: converged flag set on a tree", bool(info["converged"]), True)
        mk.eq("[numeric-only] contract_hv1bp with library defaults (smudge_factor=1e-12) == exact value", v, Z)
        v = hv1bp.contract_hv1bp(tn, messages="dense", tol=1e-13, max_iterations=80)
        mk.eq("[numeric-only] contract_hv1bp(messages='dense') == exact value", v, Z)


# ---------------------------------------------------------------------- lazy 1-norm: L1BP

# site tag -> list of (tensor tag, labels); the *site* graph is a tree, sites may have inner structure and
# be joined by several bonds (multi-label messages)
LAZY1 = {
    "lpair": {"I0": [("A", "ap"), ("A2", "p")], "I1": [("B", "a")]},
    "lpath3": {"I0": [("A", "ap"), ("A2", "p")], "I1": [("B", "ab")], "I2": [("C", "bq"), ("C2", "q")]},
    "lmulti": {"I0": [("A", "ac")], "I1": [("B", "ap"), ("B2", "cpb")], "I2": [("C", "b")]},
    "lstar4": {"I0": [("X", "abp"), ("X2", "pc")], "I1": [("A", "a")], "I2": [("B", "b")], "I3": [("C", "c")]},
    "lforest": {"I0": [("A", "a")], "I1": [("B", "a")], "I2": [("C", "bp"), ("C2", "p")], "I3": [("D", "b")], "I4": [("E", "")]},
    # isolated sites: one with inner bonds only, one scalar
    "liso": {"I0": [("A", "a")], "I1": [("B", "a")], "I2": [("C", "pq"), ("C2", "p"), ("C3", "q")], "I3": [("E", "")]},
}


def build_lazy1(mk, geom, kind="pos"):
    ts = []
    for site, lst in LAZY1[geom].items():
        for tag, inds in lst:
            ts.append(qtn.Tensor(arr(mk, tag, (2,) * len(inds), kind), tuple(inds), tags=[tag, site]))
    return qtn.TensorNetwork(ts), tuple(LAZY1[geom])


def lazy_messages_exact(mk, bp, tn, fg, tag):
    site_tids = {s: set(tn._get_tids_from_tags(s)) for s in bp.site_tags}
    for (i, j), tm in bp.messages.items():
        bix = bp.edges[(i, j) if i < j else (j, i)]
        sub = fg.reach(site_tids[i], blocked_tids=site_tids[j])
        prop_goal(mk, f"{tag}: message {i}->{j} over {bix} proportional to the exact cavity contraction",
                  tm.transpose(*bix).data, fg.sop(sub, bix))


_L1 = []
for g_ in ("lpath3", "lmulti", "lstar4", "lforest", "liso"):
    for nz_ in ("L1", "sum", "L2"):
        for up_ in ("sequential", "parallel"):
            quick = (g_ in ("lpath3", "lmulti") and nz_ == "L1") or (g_ == "lstar4" and nz_ == "sum" and up_ == "sequential") \
                or (g_ == "liso" and (nz_, up_) in (("L1", "sequential"), ("sum", "parallel"))) or (g_ == "lforest" and (nz_, up_) == ("L1", "parallel"))
            _L1.append({"geom": g_, "norm": nz_, "update": up_, "_tiers": _Q if quick else _T})


@obligation(PROP, params=_L1, wall_s=400, timeout_s=500)
def l1bp_exact(mk, geom, norm, update):
    """L1BP / contract_l1bp: sites with inner structure, multi-bond messages, a disconnected scalar site"""
    mk.encodes(l1bp.L1BP, l1bp.L1BP.iterate, l1bp.L1BP.contract, l1bp.contract_l1bp, bp_common.create_lazy_community_edge_map,
               bp_common.combine_local_contractions, bp_common.BeliefPropagationCommon.run)
    tn, sites = build_lazy1(mk, geom, "pos")
    fg = FG(tn)
    Z = fg.z()
    kw = dict(site_tags=sites, normalize=NORMS[norm], distance=sdist, update=update)
    ro = dict(max_iterations=len(sites) + 1, tol=0.0)
    mk.eq(f"contract_l1bp({geom}, normalize={norm}, update={update}) == exact value", l1bp.contract_l1bp(tn, **kw, **ro), Z)
    mk.eq("contract_l1bp(strip_exponent=True)", value(l1bp.contract_l1bp(tn, strip_exponent=True, **kw, **ro)), Z)
    for lc in (True, False):
        bp = l1bp.L1BP(tn, local_convergence=lc, **kw)
        info = {}
        bp.run(info=info, **ro)
        converged_goal(mk, f"local_convergence={lc}: last round changed nothing (max_mdiff == 0)", info)
        lazy_messages_exact(mk, bp, bp.tn, fg, f"L1BP lc={lc}")
        mk.eq(f"L1BP.contract() local_convergence={lc} == exact value", bp.contract(), Z)
    if norm == "L1":
        cnt = [0]

        def fill(shape):
            cnt[0] += 1
            return mk.array(f"f{cnt[0]}", shape, "pos")

        bp2 = l1bp.L1BP(tn, message_init_function=fill, **kw)
        bp2.run(**ro)
        for key, tm in bp.messages.items():
            mk.eq(f"message_init_function=symbolic fill: converged message {key} independent of it", bp2.messages[key].data, tm.data)
        # damping at the fixed point: L1BP builds its messages itself, so converge first, then switch damping on
        bp.damping = 0.25
        before = {k: tm.data for k, tm in bp.messages.items()}
        bp.run(max_iterations=2, tol=0.0)
        for key, tm in bp.messages.items():
            mk.eq(f"damping=0.25: fixed point message {key} unchanged", tm.data, before[key])
        mk.eq("damping=0.25: contract() at the fixed point == exact value", bp.contract(), Z)
    if not mk.sym:
        info = {}
        v = l1bp.contract_l1bp(tn, site_tags=sites, update=update, tol=1e-13, max_iterations=60, info=info)
        mk.same("[numeric-only] default distance: converged flag set on a tree", bool(info["converged"]), True)
        mk.eq("[numeric-only] contract_l1bp with default normalize / distance == exact value", v, Z)


@obligation(PROP, params=[{"geom": g, "kind": k, "_tiers": _Q if (g, k) in (("lmulti", "cplx"), ("lpair", "real")) else _T}
                          for g in ("lpair", "lpath3", "lmulti") for k in ("real", "cplx")], wall_s=400, timeout_s=500, max_paths=600)
def l1bp_signed(mk, geom, kind):
    mk.encodes(l1bp.L1BP, l1bp.L1BP.iterate, l1bp.L1BP.contract)
    tn, sites = build_lazy1(mk, geom, kind)
    fg = FG(tn)
    Z = fg.z()
    bp = l1bp.L1BP(tn, site_tags=sites, normalize=nsum, distance=sdist)
    bp.run(max_iterations=len(sites) + 1, tol=0.0)
    lazy_messages_exact(mk, bp, bp.tn, fg, f"L1BP {kind}")
    if kind == "cplx" or geom == "lpair":
        mk.eq(f"L1BP.contract() on {kind} data == exact value", bp.contract(), Z)
    else:
        mk.note("real signed data on 3 sites: the sign-fork feasibility queries (non-linear, nested inverses) time out; contract() on real "
                "data is symbolic on the 2-site receiver, numeric here")
        if not mk.sym:
            mk.eq(f"[numeric-only] L1BP.contract() on {kind} data == exact value", bp.contract(), Z)


# ---------------------------------------------------------------------- (e) region counting + combine_local_contractions

REGIONS = {
    # tensor positions (in GEOMS1 order) per generating region
    "path3": [[(0, 1), (1, 2)], [(0, 1, 2)], [(0, 1), (1, 2), (1,)]],
    "star4": [[(0, 1), (0, 2), (0, 3)], [(0, 1, 2), (0, 3)], [(0, 1, 2), (0, 2, 3)]],
    "path4": [[(0, 1), (1, 2), (2, 3)], [(0, 1, 2), (2, 3)], [(0, 1, 2), (1, 2, 3)]],
    "forest": [[(0, 1), (2, 3), (3, 4)], [(0, 1), (2, 3, 4)]],
}


@obligation(PROP, params=[{"geom": g, "_tiers": _Q if g in ("path3", "star4") else _T} for g in REGIONS], wall_s=300, timeout_s=400)
def region_counting(mk, geom):
    """counting numbers of a tree region graph (gen_region_counts / RegionGraph.get_count) with the region
    contractions D1BP.get_cluster(region) at converged messages, combined by combine_local_contractions,
    reproduce the exact value; the counts are balanced (every tensor counted once in total)"""
    mk.encodes(regions.gen_region_counts, regions.RegionGraph, regions.RegionGraph.get_count, regions.RegionGraph.add_region,
               regions.RegionGraph.autocomplete, regions.RegionGraph.isbalanced, d1bp.D1BP.get_cluster, bp_common.combine_local_contractions)
    tn = build1(mk, geom, "pos", expo="sym")
    fg = FG(tn)
    Z = fg.z()
    bp = d1bp.D1BP(tn, normalize="L1", distance=sdist)
    bp.run(**run_opts(mk, tn))
    tids = list(bp.tn.tensor_map)
    for gen in REGIONS[geom]:
        gen_t = [tuple(tids[k] for k in r) for r in gen] + [(t,) for t in tids]
        rc = list(regions.gen_region_counts(gen_t))
        counts = {}
        for r, c in rc:
            for t in r:
                counts[t] = counts.get(t, 0) + c
        mk.same(f"regions {gen}: every tensor has total count 1", counts, {t: 1 for t in tids})
        rg = regions.RegionGraph(gen_t)
        mk.same(f"regions {gen}: RegionGraph counts == gen_region_counts", {r: rg.get_count(r) for r in rg.regions}, dict(rc))
        mk.same(f"regions {gen}: RegionGraph balanced", rg.isbalanced(), True)
        zvals = []
        for r, c in rc:
            zr = bp.get_cluster(sorted(r)).contract(all, output_inds=())
            zvals.append((zr, c))
        got = bp_common.combine_local_contractions(zvals, backend="numpy", mantissa=bp.sign, exponent=bp.exponent)
        mk.eq(f"regions {gen}: prod_r Z_r**c_r (combine_local_contractions) == exact value", got, Z)
        got = bp_common.combine_local_contractions(zvals, backend="numpy", mantissa=bp.sign, exponent=bp.exponent, strip_exponent=True)
        mk.eq(f"regions {gen}: strip_exponent form", value(got), Z)


@obligation(PROP, params=[{"geom": g, "_tiers": _Q if g == "hyper3" else _T} for g in ("hyper3", "path3", "hyperstar")], wall_s=300, timeout_s=400)
def region_counting_hyper(mk, geom):
    """factor-graph regions {tensor + its labels} and their intersections {label} (count 1 - #tensors on it) with
    HD1BP.get_cluster at converged messages"""
    mk.encodes(regions.gen_region_counts, hd1bp.HD1BP.get_cluster, bp_common.combine_local_contractions)
    tn = build1(mk, geom, "pos")
    fg = FG(tn)
    Z = fg.z()
    bp = hd1bp.HD1BP(tn, normalize=nl1, distance=sdist, smudge_factor=0.0)
    bp.run(**run_opts(mk, tn, hyper=True))
    gen = [(tid, *t.inds) for tid, t in bp.tn.tensor_map.items()]
    rc = list(regions.gen_region_counts(gen))
    want = {frozenset(r): 1 for r in gen}
    want.update({frozenset([ix]): 1 - len(ts) for ix, ts in bp.tn.ind_map.items() if len(ts) != 1})
    mk.same("counting numbers: tensor regions 1, label regions 1 - (number of tensors on the label)", dict(rc), want)
    zvals = [(bp.get_cluster(r, virtual=False, autocomplete=False).contract(all, output_inds=()), c) for r, c in rc]
    mk.eq("prod_r Z_r**c_r over factor-graph regions == exact value", bp_common.combine_local_contractions(zvals, backend="numpy"), Z)


def _prod_ref(vals, mant0, expo0):
    tot = mant0 * 10 ** expo0
    for x, p in vals:
        tot = tot * (x ** p if p > 0 else 1 / (x ** (-p)))
    return tot


@obligation(PROP, params=[{"kind": k, "powers": p} for k in ("pos", "real", "cplx") for p in ((1, -1), (1, 1, -1), (2, -1, -2), (1, -1, 1, -1))],
            wall_s=300, timeout_s=400, max_paths=300)
def combine_values(mk, kind, powers):
    """combine_local_contractions on bare symbolic values: == mantissa0 * 10**exponent0 * prod x_i**p_i for positive,
    signed real (sign forks) and complex (phase = x / |x|) values, plain and stripped; zero short-cut"""
    mk.encodes(bp_common.combine_local_contractions)
    vals = [(mk.scalar(f"x{i}", kind), p) for i, p in enumerate(powers)]
    if not mk.sym and kind != "pos":
        vals = [(x + 0.0031 * (i + 1), p) for i, (x, p) in enumerate(vals)]
    m0 = mk.scalar("m0", kind)
    e0 = mk.scalar("e0", "real")
    want = _prod_ref(vals, m0, e0)
    f = bp_common.combine_local_contractions
    mk.eq("combine_local_contractions(values, mantissa, exponent) == mantissa * 10**exponent * prod x**p", f(vals, mantissa=m0, exponent=e0) * 1, want)
    mk.eq("strip_exponent=True: mantissa * 10**exponent", value(f(vals, mantissa=m0, exponent=e0, strip_exponent=True)), want)
    mk.eq("defaults (mantissa 1, exponent 0)", f(vals) * 1, _prod_ref(vals, 1, 0))
    mk.eq("check_zero=False", f(vals, check_zero=False) * 1, _prod_ref(vals, 1, 0))
    if kind == "pos":
        r = f(vals, power=2.0)
        mk.eq("power=2.0: == (prod x**p)**2", r * 1, _prod_ref(vals, 1, 0) ** 2)
        r = f(vals, power=0.5)
        mk.eq("power=0.5: result**2 == prod x**p", r * r, _prod_ref(vals, 1, 0))
    if not mk.sym:
        # (the phase x / |x| is formed before the zero test: 0/0 -> nan + RuntimeWarning numerically, not representable symbolically)
        with np.errstate(all="ignore"):
            mk.same("[numeric-only] a zero value short-cuts to 0.0", f([(vals[0][0], 1), (0.0, 1)]), 0.0)
            mk.same("[numeric-only] a zero value short-cuts to (0.0, 0.0) when stripped", f([(vals[0][0], 1), (0.0, 1)], strip_exponent=True), (0.0, 0.0))


# ---------------------------------------------------------------------- 2-norm flavours: D2BP, L2BP

GEOMS2 = {
    "pair": (2, [(0, 1)]),
    "path3": (3, [(0, 1), (1, 2)]),
    "star4": (4, [(0, 1), (0, 2), (0, 3)]),
    "path4": (4, [(0, 1), (1, 2), (2, 3)]),
    "forest": (4, [(0, 1), (2, 3)]),
    # forest with an isolated site (physical label only) and a free scalar tensor
    "iso": (3, [(0, 1)]),
}


# physical dimensions (kept small on the 4-tensor receivers: the value goals expand polynomials of degree 2 * #tensors)
PHYS2 = {"pair": {0: 2, 1: 2}, "path3": {0: 2, 1: 2, 2: 2}, "star4": {0: 1, 1: 2, 2: 1, 3: 1}, "path4": {0: 2, 1: 1, 2: 1, 3: 2},
         "forest": {0: 2, 1: 2, 2: 2, 3: 2}, "iso": {0: 2, 1: 2, 2: 2}}


def build2(mk, geom, kind="pos", D=2, d=2, phys=None):
    """vector network: site i carries the physical label k{i} (dimension d) and tag I{i}"""
    n, edges = GEOMS2[geom]
    inds = {i: [] for i in range(n)}
    for a, b in edges:
        inds[a].append(f"b{a}{b}")
        inds[b].append(f"b{a}{b}")
    ts = []
    for i in range(n):
        di = (phys or PHYS2[geom]).get(i, d)
        shape = (D,) * len(inds[i]) + (di,)
        ts.append(qtn.Tensor(arr(mk, f"T{i}", shape, kind), tuple(inds[i]) + (f"k{i}",), tags=[f"I{i}"]))
    if geom == "iso":
        ts.append(qtn.Tensor(arr(mk, "S", (), kind), (), tags=["S"]))
    tn = qtn.TensorNetworkGenVector.from_TN(qtn.TensorNetwork(ts), site_tag_id="I{}", site_ind_id="k{}", sites=tuple(range(n)))
    return tn, n


class FG2(FG):
    """norm network <psi|psi> of a vector network, written out: ket terms + conjugated bra terms whose bond labels
    carry a '*' (physical labels shared)"""

    def __init__(self, tn):
        FG.__init__(self, tn)
        self.bonds = {ix for ix, ts in self.ind_map.items() if len(ts) >= 2}

    def bra(self, tid, keep=()):
        a, inds = self.terms[tid]
        return conj(a), tuple(ix + "*" if (ix in self.bonds or ix in keep) else ix for ix in inds)

    def norm_terms(self, tids, keep=()):
        return [self.terms[t] for t in sorted(tids)] + [self.bra(t, keep) for t in sorted(tids)]

    def norm2(self):
        return ref.sum_of_products(self.norm_terms(self.terms), ())[()]

    def msg2(self, ix, tid):
        """exact 2-norm cavity message into `tid` along bond `ix`: matrix [bra, ket]"""
        start = [t for t in self.ind_map[ix] if t != tid]
        sub = self.reach(start, blocked_tids=(tid,))
        return ref.sum_of_products(self.norm_terms(sub), (ix + "*", ix))

    def rdm(self, kix):
        """rho[k.., b..] = sum_rest psi[k.., rest] conj(psi[b.., rest]) over the physical labels kix, as a matrix"""
        kix = tuple(kix)
        r = ref.sum_of_products(self.norm_terms(self.terms, keep=kix), kix + tuple(k + "*" for k in kix))
        dk = int(np.prod(r.shape[:len(kix)])) if kix else 1
        return r.reshape(dk, dk)


def d2_messages_exact(mk, bp, fg, tag):
    for (ix, tid), m in bp.messages.items():
        prop_goal(mk, f"{tag}: message {ix}->{tag_of(bp, tid)} [bra, ket] proportional to the exact cavity contraction of the norm network",
                  m, fg.msg2(ix, tid))


def d2_local_product(mk, label, bp, fg, N2):
    num = 1
    for tid in bp.tn.tensor_map:
        num = num * bp.local_tensor_contract(tid)
    den = 1
    for ix, tids in bp.tn.ind_map.items():
        if len(tids) == 2:
            a, b = tids
            ml, mr = bp.messages[ix, b], bp.messages[ix, a]
            tot = 0
            for x, y in zip(np.asarray(ml).reshape(-1), np.asarray(mr).reshape(-1)):
                tot = tot + x * y
            den = den * tot
    mk.eq(label, num, N2 * den)


NORMS2 = {"L1": "L1", "L2": None, "trace": ntrace}

_D2 = []
for g_ in ("path3", "star4", "path4", "forest", "iso"):
    for nz_ in ("L1", "trace", "L2"):
        for up_ in ("sequential", "parallel"):
            quick = (g_ == "path3" and nz_ in ("L1", "trace")) or (g_ == "star4" and nz_ == "L1" and up_ == "sequential") \
                or (g_ == "path3" and nz_ == "L2" and up_ == "sequential") or (g_ == "iso" and (nz_, up_) in (("L1", "sequential"), ("trace", "parallel")))
            _D2.append({"geom": g_, "norm": nz_, "update": up_, "_tiers": _Q if quick else _T})


@obligation(PROP, params=_D2, wall_s=500, timeout_s=600)
def d2bp_exact(mk, geom, norm, update):
    """D2BP / contract_d2bp / converge_d2bp on a tree-shaped state (positive symbolic entries): <psi|psi>, matrix
    messages, BP reduced density matrices and physical-index marginals, local convergence, initial messages, damping"""
    mk.encodes(d2bp.D2BP, d2bp.D2BP._init_tid, d2bp.D2BP.iterate, d2bp.D2BP.contract, d2bp.D2BP.local_tensor_contract,
               d2bp.D2BP.partial_trace, d2bp.D2BP.get_cluster_norm, d2bp.D2BP.compute_marginal, d2bp.contract_d2bp, d2bp.converge_d2bp,
               bp_common.combine_local_contractions, bp_common.BeliefPropagationCommon.run)
    tn, n = build2(mk, geom, "pos")
    fg = FG2(tn)
    N2 = fg.norm2()
    kw = dict(normalize=NORMS2[norm], distance=sdist, update=update)
    ro = dict(max_iterations=n + 1, tol=0.0)
    # value goals multiply out the product of all local values (each one is <psi|psi> times normalisers): with 4 connected
    # tensors that is > 10**5 terms before denominators are cleared -> numeric-only there (messages / reduced states stay symbolic)
    heavy = mk.sym and geom in ("star4", "path4")
    if heavy:
        mk.note("4 connected tensors: contract() value goals are numeric-only (expanded product of the local values too large); "
                "messages, reduced density matrices and marginals are symbolic")
    else:
        mk.eq(f"contract_d2bp({geom}, normalize={norm}, update={update}) == <psi|psi>", d2bp.contract_d2bp(tn, **kw, **ro), N2)
        mk.eq("contract_d2bp(strip_exponent=True)", value(d2bp.contract_d2bp(tn, strip_exponent=True, **kw, **ro)), N2)
    for lc in (True, False):
        info = {}
        bp = d2bp.converge_d2bp(tn, local_convergence=lc, info=info, **kw, **ro)
        converged_goal(mk, f"local_convergence={lc}: last round changed nothing (max_mdiff == 0)", info)
        d2_messages_exact(mk, bp, fg, f"lc={lc}")
    if not heavy:
        mk.eq("D2BP.contract() == <psi|psi>", bp.contract(), N2)
        d2_local_product(mk, "prod local_tensor_contract == <psi|psi> * prod <m_ab, m_ba>", bp, fg, N2)
    # reduced density matrices / marginals from the messages
    wheres = [(0,), (n - 1,), (0, 1)] + ([(1, 0)] if geom == "path3" else [])
    for where in wheres:
        kix = tuple(f"k{i}" for i in where)
        rho_w = fg.rdm(kix)
        rho = bp.partial_trace(where)
        mk.eq(f"D2BP.partial_trace({where}) (normalized) * <psi|psi> == exact reduced density matrix", rho * N2, rho_w)
        rho_u = bp.partial_trace(where, normalized=False)
        prop_goal(mk, f"D2BP.partial_trace({where}, normalized=False) proportional to the exact reduced density matrix", rho_u, rho_w)
    for i in range(n):
        p = bp.compute_marginal(f"k{i}")
        r_i = fg.rdm((f"k{i}",))
        diag = np.array([r_i[x, x] for x in range(r_i.shape[0])], dtype=object if mk.sym else None)
        mk.eq(f"D2BP.compute_marginal(k{i}) * <psi|psi> == diagonal of the exact reduced density matrix", p * N2, diag)
    if norm == "L1" and update == "sequential" and not heavy:
        # symbolic initial messages
        init = {}
        for ix, tids in tn.ind_map.items():
            if len(tids) == 2:
                for tid in tids:
                    init[ix, tid] = mk.array(f"m0_{ix}_{tid}", (2, 2), "pos")
        bp2 = d2bp.converge_d2bp(tn, messages=dict(init), **kw, **ro)
        for key, m in bp.messages.items():
            mk.eq(f"symbolic initial messages: converged message {key[0]}->{tag_of(bp, key[1])} independent of them", bp2.messages[key], m)
        bp3 = d2bp.converge_d2bp(tn, messages=dict(bp.messages), damping=0.25, normalize="L1", distance=sdist, update=update, max_iterations=2, tol=0.0)
        for key, m in bp.messages.items():
            mk.eq(f"damping=0.25: fixed point message {key[0]}->{tag_of(bp, key[1])} unchanged", bp3.messages[key], m)
    if not mk.sym:
        info = {}
        v = d2bp.contract_d2bp(tn, update=update, tol=1e-13, max_iterations=60, info=info)
        mk.same("[numeric-only] default distance: converged flag set on a tree", bool(info["converged"]), True)
        mk.eq("[numeric-only] contract_d2bp with default normalize / distance == <psi|psi>", v, N2)


@obligation(PROP, params=[{"geom": g, "kind": k, "_tiers": _Q if (g, k) in (("path3", "cplx"), ("pair", "real")) else _T}
                          for g, k in (("pair", "real"), ("pair", "cplx"), ("path3", "real"), ("path3", "cplx"), ("star4", "real"))],
            wall_s=500, timeout_s=600, max_paths=300)
def d2bp_signed(mk, geom, kind):
    """D2BP on signed real / complex states (normalize = callable m / trace(m)): messages, local values, reduced density
    matrices.  contract() takes abs() of every (real-valued, mathematically non-negative) local value: for real data the
    sign-fork feasibility queries (non-linear, nested inverses) time out, with complex symbols the sign of a real-valued
    polynomial in (z, conj z) is outside the branch engine -> contract() on signed / complex states is numeric-only;
    the local-product goal states the same identity without abs()"""
    mk.encodes(d2bp.D2BP, d2bp.D2BP.iterate, d2bp.D2BP.contract, d2bp.D2BP.partial_trace, d2bp.D2BP.local_tensor_contract)
    tn, n = build2(mk, geom, kind)
    fg = FG2(tn)
    N2 = fg.norm2()
    bp = d2bp.converge_d2bp(tn, normalize=ntrace, distance=sdist, max_iterations=n + 1, tol=0.0)
    d2_messages_exact(mk, bp, fg, kind)
    d2_local_product(mk, f"{kind}: prod local_tensor_contract == <psi|psi> * prod <m_ab, m_ba>", bp, fg, N2)
    for where in [(0,), (1, 0)]:
        kix = tuple(f"k{i}" for i in where)
        mk.eq(f"{kind}: D2BP.partial_trace({where}) (normalized) * <psi|psi> == exact reduced density matrix", bp.partial_trace(where) * N2, fg.rdm(kix))
    if not mk.sym:
        mk.eq(f"[numeric-only] D2BP.contract() on {kind} data == <psi|psi>", bp.contract(), N2)
        v = d2bp.contract_d2bp(tn, tol=1e-13, max_iterations=60)
        mk.eq(f"[numeric-only] contract_d2bp on {kind} data, library defaults == <psi|psi>", v, N2)


# number of *extra* dangling labels (q{i}, r{i}, next to the site label k{i}) per site: tensor-network operators ('op': one extra label
# on every tensor), several qubits on one tensor, tensors of different kinds next to each other
EXTRAS2 = {
    "op": {0: 1, 1: 1, 2: 1},
    "mixed": {0: 2, 1: 0, 2: 1},
    "inner": {0: 0, 1: 2, 2: 0},
}


def build2x(mk, geom, extras, kind="pos", D=2, dk=2, dx=2):
    """vector network whose site i carries k{i} and EXTRAS2[extras][i] further dangling labels q{i}, r{i}"""
    n, edges = GEOMS2[geom]
    inds = {i: [] for i in range(n)}
    for a, b in edges:
        inds[a].append(f"b{a}{b}")
        inds[b].append(f"b{a}{b}")
    ts = []
    for i in range(n):
        ex = tuple(f"{c}{i}" for c in "qr"[:EXTRAS2[extras].get(i, 0)])
        shape = (D,) * len(inds[i]) + (dk,) + (dx,) * len(ex)
        ts.append(qtn.Tensor(arr(mk, f"T{i}", shape, kind), tuple(inds[i]) + (f"k{i}",) + ex, tags=[f"I{i}"]))
    tn = qtn.TensorNetworkGenVector.from_TN(qtn.TensorNetwork(ts), site_tag_id="I{}", site_ind_id="k{}", sites=tuple(range(n)))
    return tn, n


_D2X = [{"flavour": f, "geom": g, "extras": e, "kind": k, "update": u,
         "_tiers": _Q if (f, g, e, k, u) in (("D2BP", "pair", "op", "pos", "sequential"), ("D2BP", "pair", "mixed", "pos", "parallel"),
                                              ("D2BP", "pair", "op", "cplx", "sequential"), ("D2BP", "path3", "inner", "pos", "sequential"),
                                              ("D2BP", "path3", "op", "pos", "parallel"), ("D2BP", "path3", "mixed", "cplx", "sequential"),
                                              ("L2BP", "pair", "mixed", "pos", "sequential"), ("L2BP", "path3", "op", "pos", "parallel"),
                                              ("L2BP", "path3", "inner", "cplx", "sequential")) else _T}
        for f in ("D2BP", "L2BP") for g in ("pair", "path3") for e in EXTRAS2 for k in ("pos", "cplx") for u in ("sequential", "parallel")
        if not (g == "pair" and e == "inner") and not (k == "cplx" and u == "parallel")]


@obligation(PROP, params=_D2X, wall_s=300, timeout_s=400)
def d2bp_multi_dangling(mk, flavour, geom, extras, kind, update):
    """2-norm flavours on tree-shaped networks whose tensors carry 1, 2 or 3 dangling labels each (operators with ket and bra
    labels, several qubits on one tensor): matrix messages, the D2BP marginal of EVERY dangling label (all the other dangling
    labels of the same tensor are traced, ket with bra), site reduced density matrices (extra labels traced) and <psi|psi>"""
    mk.encodes(d2bp.D2BP, d2bp.D2BP._init_tid, d2bp.D2BP.iterate, d2bp.D2BP.compute_marginal, d2bp.D2BP.partial_trace,
               d2bp.D2BP.get_cluster_norm, d2bp.D2BP.contract, d2bp.D2BP.local_tensor_contract, d2bp.converge_d2bp,
               l2bp.L2BP, l2bp.L2BP.iterate, l2bp.L2BP.partial_trace, l2bp.L2BP.contract)
    # (path of 3: site labels k{i} of dimension 1, extra labels of dimension 2 -- with all labels of dimension 2 the cleared goals time out)
    tn, n = build2x(mk, geom, extras, kind, dk=1 if geom == "path3" else 2)
    fg = FG2(tn)
    N2 = fg.norm2()
    dangling = sorted(ix for ix, ts in fg.ind_map.items() if len(ts) == 1)
    mk.same("some tensor carries two or more dangling labels",
            max(sum(1 for ix in inds if ix in dangling) for _, inds in fg.terms.values()) >= 2, True)
    nz = "L1" if kind == "pos" else ntrace
    if flavour == "D2BP":
        bp = d2bp.converge_d2bp(tn, normalize=nz, distance=sdist, update=update, max_iterations=n + 1, tol=0.0)
        d2_messages_exact(mk, bp, fg, f"{extras}")
        for ix in dangling:
            r = fg.rdm((ix,))
            diag = np.array([r[x, x] for x in range(r.shape[0])], dtype=object if mk.sym else None)
            mk.eq(f"D2BP.compute_marginal({ix}) * <psi|psi> == diagonal of the exact reduced density matrix (other dangling labels traced)",
                  bp.compute_marginal(ix) * N2, diag)
        for i in range(n):
            mk.eq(f"D2BP.partial_trace(({i},)) (normalized) * <psi|psi> == exact reduced density matrix of k{i} (extra labels traced)",
                  bp.partial_trace((i,)) * N2, fg.rdm((f"k{i}",)))
        if n > 2:
            mk.eq("D2BP.partial_trace((2, 0)) (normalized) * <psi|psi> == exact two-site reduced density matrix (extra labels traced)",
                  bp.partial_trace((2, 0)) * N2, fg.rdm(("k2", "k0")))
    else:
        bp = l2bp.L2BP(tn, site_tags=tuple(f"I{i}" for i in range(n)), normalize=nz, distance=sdist, update=update)
        bp.run(max_iterations=n + 1, tol=0.0)
        l2_messages_exact(mk, bp, bp.tn, fg, f"L2BP {extras}")
        for i in range(n):
            mk.eq(f"L2BP.partial_trace({i}) (normalized) * <psi|psi> == exact reduced density matrix of k{i} (extra labels traced)",
                  bp.partial_trace(i) * N2, fg.rdm((f"k{i}",)))
    if kind == "pos":
        mk.eq(f"{flavour}.contract() == <psi|psi>", value(bp.contract(strip_exponent=True)) if flavour == "L2BP" else bp.contract(), N2)
        if flavour == "D2BP":
            d2_local_product(mk, "prod local_tensor_contract == <psi|psi> * prod <m_ab, m_ba>", bp, fg, N2)
    elif not mk.sym:
        mk.eq(f"[numeric-only] {flavour}.contract() on {kind} data == <psi|psi>", bp.contract(), N2)


LAZY2 = {
    # site tag -> list of (tensor name, bond labels, dimension of the physical label or 0); sizes are kept small:
    # the value goals expand products of all site values (degree 2 * number of tensors)
    "lpair": {"I0": [("T0", "ap", 2), ("T0b", "p", 0)], "I1": [("T1", "a", 2)]},
    "lpath3": {"I0": [("T0", "ap", 1), ("T0b", "p", 0)], "I1": [("T1", "ab", 2)], "I2": [("T2", "b", 1)]},
    "lmulti": {"I0": [("T0", "ac", 2)], "I1": [("T1", "acb", 1)], "I2": [("T2", "b", 1)]},
    "lstar4": {"I0": [("T0", "abc", 1)], "I1": [("T1", "a", 2)], "I2": [("T2", "bp", 1), ("T2b", "p", 0)], "I3": [("T3", "c", 1)]},
    # isolated sites: physical label only / inner bond only / scalar
    "liso": {"I0": [("T0", "a", 2)], "I1": [("T1", "a", 2)], "I2": [("T2", "", 2)], "I3": [("T3", "p", 1), ("T3b", "p", 0)], "I4": [("T4", "", 0)]},
}
LAZY2_DIMS = {"lstar4": {"c": 1}}      # bond c of the star has dimension 1


def build_lazy2(mk, geom, kind="pos"):
    ts = []
    sites = list(LAZY2[geom])
    for s, lst in LAZY2[geom].items():
        i = int(s[1:])
        for name, bonds, phys in lst:
            inds = tuple(bonds) + ((f"k{i}",) if phys else ())
            shape = tuple(LAZY2_DIMS.get(geom, {}).get(b, 2) for b in bonds) + ((phys,) if phys else ())
            ts.append(qtn.Tensor(arr(mk, name, shape, kind), inds, tags=[name, s]))
    tn = qtn.TensorNetworkGenVector.from_TN(qtn.TensorNetwork(ts), site_tag_id="I{}", site_ind_id="k{}", sites=tuple(range(len(sites))))
    return tn, tuple(sites)


def l2_messages_exact(mk, bp, tn, fg, tag):
    site_tids = {s: set(tn._get_tids_from_tags(s)) for s in bp.site_tags}
    for (i, j), tm in bp.messages.items():
        bix = bp.edges[(i, j) if i < j else (j, i)]
        sub = fg.reach(site_tids[i], blocked_tids=site_tids[j])
        want = ref.sum_of_products(fg.norm_terms(sub), tuple(ix + "*" for ix in bix) + tuple(bix))
        mk.same(f"{tag}: message {i}->{j} labels are (bra.., ket..)", tuple(tm.inds[len(bix):]), tuple(bix))
        prop_goal(mk, f"{tag}: message {i}->{j} over {bix} [bra.., ket..] proportional to the exact cavity contraction of the norm network",
                  tm.data, want)


_L2 = []
for g_ in ("lpath3", "lmulti", "lstar4", "liso"):
    for nz_ in ("L1", "trace", "L2"):
        for up_ in ("sequential", "parallel"):
            quick = (g_ == "lpath3" and nz_ == "L1" and up_ == "sequential") or (g_ == "lmulti" and nz_ == "trace" and up_ == "parallel") \
                or (g_ == "liso" and (nz_, up_) in (("L1", "sequential"), ("trace", "parallel")))
            _L2.append({"geom": g_, "norm": nz_, "update": up_, "_tiers": _Q if quick else _T})


@obligation(PROP, params=_L2, wall_s=500, timeout_s=600)
def l2bp_exact(mk, geom, norm, update):
    """L2BP / contract_l2bp on a tree of sites with inner structure and multi-bond messages: <psi|psi>, messages, site
    reduced density matrices"""
    mk.encodes(l2bp.L2BP, l2bp.L2BP.iterate, l2bp.L2BP.contract, l2bp.L2BP.partial_trace, l2bp.contract_l2bp, l2bp.L2BP.symmetrize,
               bp_common.create_lazy_community_edge_map, bp_common.combine_local_contractions)
    tn, sites = build_lazy2(mk, geom, "pos")
    fg = FG2(tn)
    N2 = fg.norm2()
    kw = dict(site_tags=sites, normalize=NORMS2[norm], distance=sdist, update=update)
    ro = dict(max_iterations=len(sites) + 1, tol=0.0)
    mk.eq(f"contract_l2bp({geom}, normalize={norm}, update={update}) == <psi|psi>", l2bp.contract_l2bp(tn, **kw, **ro), N2)
    for lc in (True, False):
        bp = l2bp.L2BP(tn, local_convergence=lc, **kw)
        info = {}
        bp.run(info=info, **ro)
        converged_goal(mk, f"local_convergence={lc}: last round changed nothing (max_mdiff == 0)", info)
        l2_messages_exact(mk, bp, bp.tn, fg, f"L2BP lc={lc}")
    mk.eq("L2BP.contract(strip_exponent=True) == <psi|psi>", value(bp.contract(strip_exponent=True)), N2)
    for i in range(len(sites)):
        if f"k{i}" not in tn.ind_map:
            continue          # site without a physical label
        rho_w = fg.rdm((f"k{i}",))
        try:
            rho = bp.partial_trace(i)
        except KeyError as e:
            if sites[i] in bp.neighbors:
                raise
            # rejection, no wrong value: partial_trace looks the site up among the sites that have neighbours
            mk.note(f"L2BP.partial_trace({i}) of an isolated site is not offered (KeyError {e})")
            continue
        mk.eq(f"L2BP.partial_trace({i}) (normalized) * <psi|psi> == exact reduced density matrix", rho * N2, rho_w)
        prop_goal(mk, f"L2BP.partial_trace({i}, normalized=False) proportional to the exact reduced density matrix",
                  bp.partial_trace(i, normalized=False), rho_w)
    if norm == "L1":
        bp.damping = 0.25
        before = {k: tm.data for k, tm in bp.messages.items()}
        bp.run(max_iterations=2, tol=0.0)
        for key, tm in bp.messages.items():
            mk.eq(f"damping=0.25: fixed point message {key} unchanged", tm.data, before[key])
    if not mk.sym:
        info = {}
        v = l2bp.contract_l2bp(tn, site_tags=sites, update=update, tol=1e-13, max_iterations=60, info=info)
        mk.same("[numeric-only] default distance: converged flag set on a tree", bool(info["converged"]), True)
        mk.eq("[numeric-only] contract_l2bp with default normalize / distance == <psi|psi>", v, N2)


@obligation(PROP, params=[{"geom": g, "kind": k, "_tiers": _Q if (g, k) == ("lpath3", "cplx") else _T}
                          for g in ("lpath3", "lmulti") for k in ("real", "cplx")], wall_s=500, timeout_s=600)
def l2bp_signed(mk, geom, kind):
    """L2BP on signed real / complex states (normalize = callable m / trace(m)); contract() numeric-only (see d2bp_signed)"""
    mk.encodes(l2bp.L2BP, l2bp.L2BP.iterate, l2bp.L2BP.partial_trace, l2bp.L2BP.symmetrize)
    tn, sites = build_lazy2(mk, geom, kind)
    fg = FG2(tn)
    N2 = fg.norm2()
    bp = l2bp.L2BP(tn, site_tags=sites, normalize=ntrace, distance=sdist)
    bp.run(max_iterations=len(sites) + 1, tol=0.0)
    l2_messages_exact(mk, bp, bp.tn, fg, f"L2BP {kind}")
    for i in (0, 1):
        mk.eq(f"{kind}: L2BP.partial_trace({i}) (normalized) * <psi|psi> == exact reduced density matrix", bp.partial_trace(i) * N2, fg.rdm((f"k{i}",)))
    if not mk.sym:
        mk.eq(f"[numeric-only] L2BP.contract() on {kind} data == <psi|psi>", bp.contract(), N2)
        mk.eq(f"[numeric-only] contract_l2bp on {kind} data, library defaults", l2bp.contract_l2bp(tn, site_tags=sites, tol=1e-13, max_iterations=60), N2)


# ---------------------------------------------------------------------- (d) gauging / compressing with BP messages, no truncation

class ProjectorHook:
    """observation hook: records the (Pl, Pr) pairs returned by the real quimb.tensor.decomp.compute_oblique_projectors
    while a compress / gauge routine runs (behaviour unchanged)"""

    def __enter__(self):
        self.rec = []
        self.real = qtn.decomp.compute_oblique_projectors

        def hook(*a, **k):
            r = self.real(*a, **k)
            self.rec.append(r)
            return r

        qtn.decomp.compute_oblique_projectors = hook
        return self

    def __exit__(self, *exc):
        qtn.decomp.compute_oblique_projectors = self.real


def projector_lemmas(mk, rec, tag):
    """for every recorded projector pair: goal  Pr @ Pl == 1  (certified modulo the LAPACK contracts: Pr Pl =
    s^-1/2 U^dag (Rl Rr) V s^-1/2 with U s V^dag the SVD of Rl Rr).  Both are square (no truncation), and a square matrix
    with a left inverse has it as right inverse (finite-dimensional linear algebra): Pl @ Pr == 1 is handed to the
    certificate search as a derived fact -- the reverse direction XY = 1 |- YX = 1 is the 'inversion principle', which has no
    low-degree Nullstellensatz certificate."""
    for k, pr in enumerate(rec):
        Pl, Pr = pr[0], pr[-1]
        n = Pl.shape[0]
        mk.same(f"{tag}: projector pair {k} is square (nothing truncated)", (tuple(Pl.shape), tuple(Pr.shape)), ((n, n), (n, n)))
        mk.eq(f"{tag}: projector pair {k}: Pr @ Pl == identity", ref.matmul(Pr, Pl), ref.eye(n, like=Pl))
        if mk.sym:
            g = ref.matmul(Pl, Pr) - ref.eye(n, like=Pl)
            for idx in np.ndindex(*g.shape):
                P.HYP_DERIVED.append((f"square-inverse lemma {tag} pair {k} {idx}", P.lift(g[idx])))


def dense_state(tn, n):
    return ref.tn_dense(tn, tuple(f"k{i}" for i in range(n)))


def dense_unchanged_goal(mk, label, tn2, n, psi, nbonds):
    """with one gauged bond the goal is a monomial combination of the square-inverse lemma; with several bonds it needs products
    of the per-bond lemmas (non-monomial multipliers, no certificate within the closure bound): numeric-only there, the per-bond
    projector identities stay symbolic"""
    if mk.sym and nbonds > 1:
        mk.note(f"{label}: dense-state goal numeric-only for {nbonds} gauged bonds (per-bond projector identities are symbolic)")
        return
    mk.eq(label if nbonds == 1 else "[numeric-only] " + label, dense_state(tn2, n), psi)


# quick: a real and a complex cell of every operation (transposes vs conjugate transposes of the gauges only differ on complex data)
_DG = [{"op": o, "geom": g, "kind": k, "_tiers": _Q if ((g, k) == ("pair", "real") and o in ("gauge_temp", "compress")) or (g, k) == ("pair", "cplx") else _T}
       for o in ("gauge_temp", "gauge_insert_raw", "gauge_insert_inverse", "compress", "gauge_symmetric")
       for g, k in (("pair", "pos"), ("pair", "real"), ("pair", "cplx"), ("path3", "real"))
       if not (o in ("compress", "gauge_symmetric") and k == "pos")]      # (positive = invertible symbols blow up the quotient closure)


@obligation(PROP, params=_DG, rounds=2, max_rows=60000, wall_s=600, timeout_s=700, solver_timeout_ms=300000)
def d2bp_gauge_compress(mk, op, geom, kind):
    """D2BP gauge_temp / gauge_insert / compress / gauge_symmetric with converged messages and no truncation
    (max_bond=None, cutoff=0): the denoted state is unchanged.  eigh / svd are contract stubs (message matrices are
    positive definite for a generic state: eigenvalues are positive symbols)."""
    mk.encodes(d2bp.D2BP.gauge_insert, d2bp.D2BP.gauge_temp, d2bp.D2BP.compress, d2bp.D2BP.gauge_symmetric,
               qtn.decomp.squared_op_to_reduced_factor, qtn.decomp.compute_oblique_projectors)
    stubs.OPTIONS["eigh_spectrum"] = "pos"
    try:
        tn, n = build2(mk, geom, kind)
        psi = dense_state(tn, n)
        bp = d2bp.converge_d2bp(tn, normalize=ntrace, distance=sdist, max_iterations=n + 1, tol=0.0)
        site = "I1" if geom == "path3" else "I0"
        if op == "gauge_temp":
            # temporary gauging of a sub-network: insert sqrt(message) on its boundary, take it out again
            sub = bp.tn.select_any([site])
            before = {tid: t.data.copy() for tid, t in sub.tensor_map.items()}
            with bp.gauge_temp(sub) as outer:
                mk.same("gauge_temp gauges every boundary bond of the sub-network", sorted(ix for _, ix, _ in outer),
                        sorted(ix for ix in sub.outer_inds() if not ix.startswith("k")))
            for tid, t in sub.tensor_map.items():
                mk.eq(f"gauge_temp({site}) round trip leaves the tensor unchanged", t.data, before[tid])
            mk.eq("gauge_temp: the whole state is unchanged afterwards", dense_state(bp.tn, n), psi)
        elif op in ("gauge_insert_raw", "gauge_insert_inverse"):
            sub = bp.tn.select_any([site]).copy()
            orig = {tid: t.copy() for tid, t in sub.tensor_map.items()}
            how = op.rsplit("_", 1)[1]
            outer = bp.gauge_insert(sub, smudge=0.0, return_gauges=how)
            mk.same("gauge_insert gauges every boundary bond of the sub-network", sorted(ix for _, ix, _ in outer),
                    sorted(ix for ix in sub.outer_inds() if not ix.startswith("k")))
            if how == "raw":
                want = {tid: t.copy() for tid, t in orig.items()}
                for t, ix, g in outer:
                    (tid,) = sub.ind_map[ix]
                    mk.eq(f"gauge_insert: raw gauge on {ix} squares to the message (g^dag g == m)", ref.matmul(ref.dag(g), g), bp.messages[ix, tid])
                    want[tid].gate_(g, ix)
                for tid, t in sub.tensor_map.items():
                    mk.eq("gauge_insert: the gauged tensor is the original with the returned raw gauges applied",
                          t.transpose(*want[tid].inds).data, want[tid].data)
            else:
                for t, ix, ginv in outer:
                    t.gate_(ginv, ix)
                for tid, t in sub.tensor_map.items():
                    mk.eq("gauge_insert: applying the returned inverse gauges restores the tensor", t.transpose(*orig[tid].inds).data, orig[tid].data)
        elif op == "compress":
            with ProjectorHook() as h:
                tn2 = bp.compress(max_bond=None, cutoff=0.0)
            projector_lemmas(mk, h.rec, "compress")
            mk.same("compress keeps the geometry", (tn2.num_tensors, sorted(tn2.outer_inds())), (tn.num_tensors, sorted(tn.outer_inds())))
            dense_unchanged_goal(mk, "D2BP.compress(max_bond=None, cutoff=0.0): dense state unchanged", tn2, n, psi, len(h.rec))
        else:
            with ProjectorHook() as h:
                tn3 = bp.gauge_symmetric()
            projector_lemmas(mk, h.rec, "gauge_symmetric")
            dense_unchanged_goal(mk, "D2BP.gauge_symmetric(): dense state unchanged", tn3, n, psi, len(h.rec))
    finally:
        stubs.OPTIONS["eigh_spectrum"] = "real"


_DE = [{"entry": e, "geom": "pair", "kind": "real", "_tiers": _Q if e in ("compress_d2bp", "gauge_all_belief_propagation") else _T}
       for e in ("compress_d2bp", "gauge_d2bp", "gauge_all_belief_propagation", "compress_l2bp", "L2BP.compress")] + \
      [{"entry": e, "geom": "pair", "kind": "cplx"}
       for e in ("compress_d2bp", "gauge_d2bp", "gauge_all_belief_propagation", "compress_l2bp", "L2BP.compress")] + \
      [{"entry": e, "geom": "path3", "kind": "real", "_tiers": _T} for e in ("compress_d2bp", "compress_l2bp")]


@obligation(PROP, params=_DE, rounds=2, max_rows=60000, wall_s=600, timeout_s=700, solver_timeout_ms=300000)
def bp_gauge_entry_points(mk, entry, geom, kind):
    """compress_d2bp / gauge_d2bp / TensorNetwork.gauge_all_belief_propagation / compress_l2bp / L2BP.compress: BP run + gauge
    in one call, no truncation: the denoted state is unchanged"""
    mk.encodes(d2bp.compress_d2bp, d2bp.gauge_d2bp, qtn.TensorNetwork.gauge_all_belief_propagation, l2bp.compress_l2bp, l2bp.L2BP.compress,
               d2bp.D2BP.compress, qtn.decomp.compute_oblique_projectors, qtn.decomp.squared_op_to_reduced_factor)
    stubs.OPTIONS["eigh_spectrum"] = "pos"
    try:
        tn, n = build2(mk, geom, kind)
        psi = dense_state(tn, n)
        run = dict(normalize=ntrace, distance=sdist, max_iterations=n + 1, tol=0.0)
        sites = tuple(f"I{i}" for i in range(n))
        with ProjectorHook() as h:
            if entry == "compress_d2bp":
                tn2 = d2bp.compress_d2bp(tn, max_bond=None, cutoff=0.0, **run)
            elif entry == "gauge_d2bp":
                tn2 = d2bp.gauge_d2bp(tn, **run)
            elif entry == "gauge_all_belief_propagation":
                tn2 = tn.gauge_all_belief_propagation(**run)
            elif entry == "compress_l2bp":
                tn2 = l2bp.compress_l2bp(tn, max_bond=None, cutoff=0.0, site_tags=sites, normalize=ntrace, distance=sdist,
                                         max_iterations=n + 1, tol=0.0)
            else:
                bp = l2bp.L2BP(tn, site_tags=sites, normalize=ntrace, distance=sdist)
                bp.run(max_iterations=n + 1, tol=0.0)
                tn2 = bp.compress(tn.copy(), max_bond=None, cutoff=0.0)
        projector_lemmas(mk, h.rec, entry)
        mk.same(f"{entry}: one projector pair per bond", len(h.rec), len([ix for ix, ts in tn.ind_map.items() if len(ts) == 2]))
        mk.same(f"{entry}: outer labels kept", sorted(tn2.outer_inds()), sorted(tn.outer_inds()))
        dense_unchanged_goal(mk, f"{entry}(no truncation): dense state unchanged", tn2, n, psi, len(h.rec))
        mk.eq(f"{entry}: the input network is not modified (inplace=False)", dense_state(tn, n), psi)
    finally:
        stubs.OPTIONS["eigh_spectrum"] = "real"


# ---------------------------------------------------------------------- remaining cells

@obligation(PROP, params=[{"geom": g, "kind": k, "_tiers": _Q if (g, k) == ("hyper3", "cplx") else _T}
                          for g in ("pair", "hyper3") for k in ("real", "cplx")], wall_s=400, timeout_s=500, max_paths=300)
def hv1bp_signed(mk, geom, kind):
    """HV1BP on signed real / complex data (in-place callable normaliser without absolute values)"""
    mk.encodes(hv1bp.HV1BP, hv1bp.HV1BP.iterate, hv1bp.HV1BP.contract, hv1bp.HV1BP.get_messages_dense, hv1bp._gather_zb)
    tn = build1(mk, geom, kind)
    fg = FG(tn)
    Z = fg.z()
    init = {}
    tags = {tid: sorted(t.tags)[0] for tid, t in tn.tensor_map.items()}
    for tid, t in tn.tensor_map.items():
        for ix in t.inds:
            init[tid, ix] = arr(mk, f"u_{tags[tid]}_{ix}", (t.ind_size(ix),), kind)
            init[ix, tid] = arr(mk, f"v_{ix}_{tags[tid]}", (t.ind_size(ix),), kind)
    bp = hv1bp.HV1BP(tn, messages=init, normalize=nsum_batched, distance=sdist, smudge_factor=0.0)
    bp.run(max_iterations=tn.num_tensors + 1, tol=0.0)
    msgs = bp.get_messages_dense()
    hyper_messages_exact(mk, msgs, bp.tn, fg, f"HV1BP {kind}")
    marginal_goals(mk, bp.tn, msgs, fg, f"HV1BP {kind}")
    if geom == "pair":
        mk.eq(f"HV1BP.contract() on {kind} data == exact value", bp.contract(), Z)
    elif not mk.sym:
        mk.eq(f"[numeric-only] HV1BP.contract() on {kind} data == exact value", bp.contract(), Z)


_GL = [{"flavour": f, "geom": g, "signs": sg, "_tiers": _Q if g == "path3" else _T}
       for f in ("D1BP", "HD1BP", "D2BP") for g in ("path3", "star4") for sg in ("pos", "negleaf")]


@obligation(PROP, params=_GL, wall_s=200, timeout_s=300)
def gloop_expand_supplement(mk, flavour, geom, signs):
    """NUMERIC-ONLY supplement: contract_gloop_expand (generalised-loop / region expansion entry points) on a tree with
    explicit regions, at the BP fixed point.  These routines first call normalize_message_pairs / normalize_messages, which take
    the powers 1/4 and 1/len of message overlaps: not representable by the polynomial engine.  Their ingredients
    (gen_region_counts, get_cluster, combine_local_contractions) are covered symbolically by region_counting /
    region_counting_hyper.  In symbolic mode this obligation only checks the counting numbers that the routine derives from the
    supplied regions.  signs='pos': positive entries; 'negleaf': positive entries with one leaf tensor negated (real signed
    data whose message overlap on that bond is negative)."""
    mk.encodes(regions.gen_region_counts, d1bp.D1BP.contract_gloop_expand, hd1bp.HD1BP.contract_gloop_expand, d2bp.D2BP.contract_gloop_expand,
               bp_common.normalize_message_pair, d1bp.D1BP.normalize_message_pairs, hd1bp.HD1BP.normalize_messages)
    if flavour == "D2BP":
        tn, n = build2(mk, geom, "pos")
    else:
        tn = build1(mk, geom, "pos")
    leaf = next(t for t in tn.tensor_map.values() if sum(1 for ix in t.inds if len(tn.ind_map[ix]) == 2) == 1)
    if signs == "negleaf":
        leaf.modify(data=leaf.data * (-1))
    want = FG2(tn).norm2() if flavour == "D2BP" else FG(tn).z()
    tids = list(tn.tensor_map)
    _, edges = GEOMS2[geom]
    gl = [tuple(tids[i] for i in e) for e in edges]
    rc = dict(regions.gen_region_counts(gl + [(t,) for t in tids]))
    deg = {t: sum(1 for e in gl if t in e) for t in tids}
    mk.same("counting numbers of the edge regions of a tree: edges 1, tensors 1 - degree",
            rc, {**{frozenset(e): 1 for e in gl}, **{frozenset([t]): 1 - deg[t] for t in tids if deg[t] != 1}})
    if mk.sym:
        mk.note("numeric-only: contract_gloop_expand (fractional powers in normalize_message_pairs / normalize_messages)")
        return
    import warnings
    with warnings.catch_warnings():
        warnings.simplefilter("ignore")
        if flavour == "D1BP":
            def conv():
                bp = d1bp.D1BP(tn)
                bp.run(tol=1e-13, max_iterations=60)
                return bp
            mk.eq("[numeric-only] D1BP.contract() == exact value", conv().contract(), want)
            for ar_ in (False, True):
                for comb in ("prod", "sum"):
                    mk.eq(f"[numeric-only] D1BP.contract_gloop_expand(gloops=edges, autoreduce={ar_}, combine='{comb}') == exact value",
                          conv().contract_gloop_expand(gloops=gl, autoreduce=ar_, combine=comb), want)
            mk.eq("[numeric-only] D1BP.contract_gloop_expand() (no loops on a tree) == exact value", conv().contract_gloop_expand(), want)
            bp = conv()
            bp.normalize_message_pairs()
            for ix in bp.tn.ind_map:
                mk.eq(f"[numeric-only] normalize_message_pairs: <m_i|m_j> == 1 on bond {ix} (documented)", bp.local_message_contract(ix), 1.0)
        elif flavour == "HD1BP":
            bp = hd1bp.HD1BP(tn, smudge_factor=0.0)
            bp.run(tol=1e-13, max_iterations=80)
            mk.eq("[numeric-only] HD1BP.contract() == exact value", bp.contract(), want)
            with np.errstate(all="ignore"):
                got = bp.contract_gloop_expand(gloops=gl + [(t,) for t in tids])
            mk.eq("[numeric-only] HD1BP.contract_gloop_expand(gloops=edges + tensors) == exact value", got, want)
        else:
            bp = d2bp.converge_d2bp(tn, tol=1e-13, max_iterations=60)
            mk.eq("[numeric-only] D2BP.contract_gloop_expand(gloops=edges) == <psi|psi>", bp.contract_gloop_expand(gloops=gl), want)
            bp = d2bp.converge_d2bp(tn, tol=1e-13, max_iterations=60)
            mk.eq("[numeric-only] D2BP.contract_gloop_expand() (no loops on a tree) == <psi|psi>", bp.contract_gloop_expand(), want)


@obligation(PROP, params=[{"flavour": f, "geom": g} for f in ("HD1BP", "HV1BP") for g in ("path3", "hyper3")], tiers=_T, wall_s=400, timeout_s=500)
def hyper_dims(mk, flavour, geom):
    """bond dimension 3 for the hyper flavours"""
    mk.encodes(hd1bp.HD1BP, hv1bp.HV1BP, bp_common.compute_index_marginal, bp_common.compute_tensor_marginal)
    tn = build1(mk, geom, "pos", D=3)
    fg = FG(tn)
    Z = fg.z()
    if flavour == "HD1BP":
        bp = hd1bp.HD1BP(tn, normalize=nl1, distance=sdist, smudge_factor=0.0)
        bp.run(**run_opts(mk, tn, hyper=True))
        msgs = bp.messages
    else:
        bp = hv1bp.HV1BP(tn, messages=bp_common.initialize_hyper_messages(tn, smudge_factor=0.0), normalize=l1_batched, distance=sdist, smudge_factor=0.0)
        bp.run(max_iterations=tn.num_tensors + 1, tol=0.0)
        msgs = bp.get_messages_dense()
    hyper_messages_exact(mk, msgs, bp.tn, fg, f"{flavour} D=3")
    marginal_goals(mk, bp.tn, msgs, fg, f"{flavour} D=3")
    mk.eq(f"{flavour}.contract() with bond dimension 3 == exact value", bp.contract(), Z)


# ---------------------------------------------------------------------- open legs and isolated tensors (hyper flavours)

_OI = []
for g_ in ("open_leaf", "open_inner", "open_multi", "open_hyper", "iso_open", "iso_scalar"):
    for f_, up_ in (("HD1BP", "sequential"), ("HD1BP", "parallel"), ("HV1BP", "parallel")):
        for k_ in ("pos", "cplx"):
            if k_ == "cplx" and g_ not in ("open_multi", "iso_open"):
                continue
            quick = (f_, up_) != ("HD1BP", "parallel") or g_ in ("open_multi", "iso_open")
            _OI.append({"flavour": f_, "geom": g_, "update": up_, "kind": k_, "_tiers": _Q if quick else _T})


def run_rounds(mk, bp, rounds, info, get_messages, cap=4000):
    """bp.run one round at a time (run() may be called repeatedly; with tol = 0 this is the same computation as a single run of
    `rounds` rounds).  Symbolic mode: stop as soon as the messages, taken together, exceed `cap` polynomial terms -- messages on a
    tree settle to small closed forms, messages that keep changing grow with every round; info['max_mdiff'] of the last round
    performed is then non-zero and the convergence goal fails."""
    for _ in range(rounds):
        bp.run(max_iterations=1, tol=0.0, info=info)
        if mk.sym:
            size = sum(len(P.lift(v).t) for m in get_messages().values() for v in np.asarray(m).reshape(-1))
            if size > cap and info["max_mdiff"] != 0.0:
                mk.note(f"stopped after a round with {size} message terms (still changing)")
                break


@obligation(PROP, params=_OI, wall_s=150, timeout_s=200)
def open_and_isolated(mk, flavour, geom, update, kind):
    """hyper flavours on trees with open legs (labels on exactly one tensor: the value sums over them, the message a lone
    label returns is uniform) and on forests with an isolated tensor (bond-free with open legs / a scalar): value, messages in
    both directions, index and tensor marginals -- the same goals as on closed trees.  (D1BP documents 'no dangling indices' and
    L1BP forms its site values without output labels: open legs are outside their domain; isolated scalars / sites are covered
    in d1bp_exact[iso_scalar] / l1bp_exact[liso, lforest].)"""
    mk.encodes(hd1bp.HD1BP, hd1bp.HD1BP.iterate, hd1bp.HD1BP.contract, hd1bp.contract_hd1bp, hd1bp.compute_all_hyperind_messages_prod,
               hd1bp.compute_all_tensor_messages_tree, hv1bp.HV1BP, hv1bp.HV1BP.iterate, hv1bp.HV1BP.contract, hv1bp.HV1BP.contract_dense,
               hv1bp.contract_hv1bp, hv1bp._compute_all_hyperind_messages_prod_batched, bp_common.initialize_hyper_messages,
               bp_common.contract_hyper_messages, bp_common.compute_index_marginal, bp_common.compute_tensor_marginal)
    tn = build1(mk, geom, kind)
    fg = FG(tn)
    mk.same("receiver is acyclic (incidence graph)", fg.is_tree(), True)
    mk.same("receiver has a label on exactly one tensor or a label-free tensor",
            any(len(ts) == 1 for ts in fg.ind_map.values()) or any(not inds for _, inds in fg.terms.values()), True)
    Z = fg.z()
    # one round moves information two steps of the incidence graph (labels, then tensors): #tensors + 2 rounds suffice on a tree
    ro = dict(max_iterations=tn.num_tensors + 2, tol=0.0)
    # every open leg adds a label region and a message-pair region whose values are (normalisers times) the full value: with
    # several open legs the expanded product of all region values is out of reach -> value goals numeric-only there, messages
    # and marginals stay symbolic
    heavy = mk.sym and geom in ("open_multi", "open_hyper")
    if heavy:
        mk.note("several open legs: contract() value goals are numeric-only (expanded product of > 10 region values); "
                "messages and marginals are symbolic")
    info = {}
    if flavour == "HD1BP":
        kw = dict(normalize=nl1 if kind == "pos" else nsum, distance=sdist, update=update, smudge_factor=0.0)
        bp = hd1bp.HD1BP(tn, **kw)
        run_rounds(mk, bp, ro["max_iterations"], info, lambda: bp.messages)
        msgs = bp.messages
    else:
        kw = dict(normalize=l1_batched if kind == "pos" else nsum_batched, distance=sdist, smudge_factor=0.0)
        init = bp_common.initialize_hyper_messages(tn, smudge_factor=0.0)
        bp = hv1bp.HV1BP(tn, messages=dict(init), **kw)
        run_rounds(mk, bp, ro["max_iterations"], info, bp.get_messages_dense)
        msgs = bp.get_messages_dense()
    converged_goal(mk, "last round changed nothing (max_mdiff == 0)", info)
    if mk.sym and info["max_mdiff"] != 0.0:
        # the goal above has failed on this path (messages that keep changing keep growing as expressions): the numeric replay of
        # this harness evaluates every remaining goal; nothing more is added symbolically
        mk.note("messages did not reach a fixed point within #tensors + 2 rounds: remaining goals left to the numeric replay")
        return
    hyper_messages_exact(mk, msgs, bp.tn, fg, flavour)
    if not heavy:
        mk.eq(f"{flavour}.contract() == exact value", bp.contract(), Z)
        if flavour == "HD1BP":
            mk.eq(f"contract_hd1bp({geom}, update={update}) == exact value (open legs summed)", hd1bp.contract_hd1bp(tn, **kw, **ro), Z)
        else:
            mk.eq(f"contract_hv1bp({geom}) == exact value (open legs summed)", hv1bp.contract_hv1bp(tn, messages=dict(init), **kw, **ro), Z)
            mk.eq("HV1BP.contract_dense() == exact value", bp.contract_dense(), Z)
    marginal_goals(mk, bp.tn, msgs, fg, flavour)
    if not mk.sym:
        if flavour == "HD1BP":
            v = hd1bp.contract_hd1bp(tn, update=update, tol=1e-13, max_iterations=80)
        else:
            v = hv1bp.contract_hv1bp(tn, tol=1e-13, max_iterations=80)
        mk.eq(f"[numeric-only] contract_{flavour.lower()} with library defaults == exact value", v, Z)


# ---------------------------------------------------------------------- damping convention

def _msg_arrays(bp):
    out = []
    for m in bp.messages.values():
        out.append(np.asarray(m.data if hasattr(m, "data") and not isinstance(m, np.ndarray) else m))
    return out


def _same_array(a, b, mk):
    a, b = np.asarray(a), np.asarray(b)
    if a.shape != b.shape:
        return False
    if mk.sym:
        return all((P.lift(x) - P.lift(y)).iszero() for x, y in zip(a.reshape(-1), b.reshape(-1)))
    return bool(np.allclose(a.astype(complex), b.astype(complex), rtol=1e-12, atol=1e-14))


@obligation(PROP, params=[{"flavour": f} for f in ("D1BP", "HD1BP", "L1BP", "D2BP", "L2BP")], wall_s=200, timeout_s=300)
def damping_argument_order(mk, flavour):
    """damping may be a callable (old, new) -> mixed, documented as damping * old + (1 - damping) * new:
    in the first parallel round from known messages, the first argument of every call must be a message
    that was stored before the round (every flavour must follow the same convention)"""
    mk.encodes(bp_common.BeliefPropagationCommon.damping, d1bp.D1BP.iterate, hd1bp.HD1BP.iterate, l1bp.L1BP.iterate,
               d2bp.D2BP.iterate, l2bp.L2BP.iterate)
    calls = []

    def damp(old, new):
        calls.append((np.asarray(old), np.asarray(new)))
        return new

    if flavour == "D1BP":
        bp = d1bp.D1BP(build1(mk, "path3", "pos"), normalize="L1", distance=sdist, update="parallel")
    elif flavour == "HD1BP":
        bp = hd1bp.HD1BP(build1(mk, "path3", "pos"), normalize="L1", distance=sdist, update="parallel", smudge_factor=0.0)
    elif flavour == "L1BP":
        tn, sites = build_lazy1(mk, "lpath3", "pos")
        bp = l1bp.L1BP(tn, site_tags=sites, normalize="L1", distance=sdist, update="parallel")
    elif flavour == "D2BP":
        bp = d2bp.D2BP(build2(mk, "path3", "pos")[0], normalize="L1", distance=sdist, update="parallel")
    else:
        tn, sites = build_lazy2(mk, "lpath3", "pos")
        bp = l2bp.L2BP(tn, site_tags=sites, normalize="L1", distance=sdist, update="parallel")
    before = _msg_arrays(bp)
    bp.damping = damp
    bp.run(max_iterations=1, tol=0.0)
    mk.same(f"{flavour}: the damping callable is used", len(calls) >= 1, True)
    for k, (old, new) in enumerate(calls):
        mk.same(f"{flavour}: damping call {k}: first argument is a message stored before the round (old), not the update",
                any(_same_array(old, b, mk) for b in before), True)


# ---------------------------------------------------------------------- call histories of run()

# a history is a list of run() calls / state changes made on ONE instance before the final goals are stated.  Tolerances are
# symbolic names: COARSE is larger than any message distance (the run stops as 'converged' after its first round, wherever the
# messages are), FINE only accepts messages that no longer change (exact distance `sdist`: tol 0.5 between 0.0 and 1.0 in symbolic
# mode, 1e-12 numerically); tol_rolling_diff=0.0 switches the documented rolling-mean criterion off for the fine runs.
HISTORIES = {
    "coarse_fine": ("coarse", "fine"),
    "coarse_coarse_fine": ("coarse", "coarse", "fine"),
    "fine_fine": ("fine", "fine"),
    "fine_reset_fine": ("fine", "reset", "fine"),
    "coarse_reset_coarse_fine": ("coarse", "reset", "coarse", "fine"),
    "rounds_coarse_fine": ("round", "coarse", "round", "fine"),
}

_RH = []
for f_ in ("D1BP", "HD1BP", "HV1BP", "L1BP", "D2BP", "L2BP"):
    for h_ in HISTORIES:
        for up_ in ("parallel", "sequential"):
            for lc_ in (True, False):
                if f_ == "HV1BP" and (up_ == "sequential" or lc_ is False or "reset" in h_):
                    continue          # vectorised flavour: parallel only, no local_convergence option, stacked internal messages
                if f_ == "HD1BP" and lc_ is False:
                    continue          # no local_convergence option
                quick = (h_ == "coarse_fine" and (up_ == "parallel" or lc_)) or (h_ != "coarse_fine" and up_ == "parallel" and lc_) \
                    or (h_ == "fine_reset_fine" and up_ == "sequential" and lc_)
                _RH.append({"flavour": f_, "history": h_, "update": up_, "lc": lc_, "_tiers": _Q if quick else _T})


def _history_subject(mk, flavour, update, lc):
    """-> (bp, rounds, messages_goal(tag), exact value, reset())"""
    cnt = [0]

    def fresh(shape):
        cnt[0] += 1
        return mk.array(f"r{cnt[0]}", tuple(shape), "pos")

    if flavour == "D1BP":
        # (path of 4: the default initial messages are exact on the leaves, one parallel round is not enough from there)
        tn = build1(mk, "path4", "pos")
        fg = FG(tn)
        bp = d1bp.D1BP(tn, normalize="L1", distance=sdist, update=update, local_convergence=lc)

        def reset():
            bp.messages = {k: fresh(np.shape(m)) for k, m in bp.messages.items()}
        return bp, iters_for(tn) + 1, lambda tag: d1_messages_exact(mk, bp, fg, tag), fg.z(), reset
    if flavour == "HD1BP":
        tn = build1(mk, "hyper3", "pos")
        fg = FG(tn)
        bp = hd1bp.HD1BP(tn, normalize=nl1, distance=sdist, update=update, smudge_factor=0.0)

        def reset():
            bp.messages = {k: fresh(np.shape(m)) for k, m in bp.messages.items()}
        return bp, iters_for(tn, hyper=True) + 1, lambda tag: hyper_messages_exact(mk, bp.messages, bp.tn, fg, tag), fg.z(), reset
    if flavour == "HV1BP":
        tn = build1(mk, "hyper3", "pos")
        fg = FG(tn)
        # (symbolic positive initial messages: whatever a coarse pass leaves behind depends on them)
        init = {}
        for tid, t in tn.tensor_map.items():
            for ix in t.inds:
                init[tid, ix] = fresh((t.ind_size(ix),))
                init[ix, tid] = fresh((t.ind_size(ix),))
        bp = hv1bp.HV1BP(tn, messages=init, normalize=l1_batched, distance=sdist, smudge_factor=0.0)
        return bp, tn.num_tensors + 2, lambda tag: hyper_messages_exact(mk, bp.get_messages_dense(), bp.tn, fg, tag), fg.z(), None
    if flavour == "L1BP":
        tn, sites = build_lazy1(mk, "lpath3", "pos")
        fg = FG(tn)
        bp = l1bp.L1BP(tn, site_tags=sites, normalize="L1", distance=sdist, update=update, local_convergence=lc)

        def reset():
            for tm in bp.messages.values():
                tm.modify(data=fresh(tm.shape))
        return bp, len(sites) + 2, lambda tag: lazy_messages_exact(mk, bp, bp.tn, fg, tag), fg.z(), reset
    if flavour == "D2BP":
        tn, n = build2(mk, "path3", "pos", phys={0: 2, 1: 1, 2: 2})
        fg = FG2(tn)
        bp = d2bp.D2BP(tn, normalize="L1", distance=sdist, update=update, local_convergence=lc)

        def reset():
            bp.messages = {k: fresh(np.shape(m)) for k, m in bp.messages.items()}
        return bp, n + 2, lambda tag: d2_messages_exact(mk, bp, fg, tag), fg.norm2(), reset
    tn, sites = build_lazy2(mk, "lpath3", "pos")
    fg = FG2(tn)
    bp = l2bp.L2BP(tn, site_tags=sites, normalize="L1", distance=sdist, update=update, local_convergence=lc)

    def reset():
        for tm in bp.messages.values():
            tm.modify(data=fresh(tm.shape))
    return bp, len(sites) + 2, lambda tag: l2_messages_exact(mk, bp, bp.tn, fg, tag), fg.norm2(), reset


@obligation(PROP, params=_RH, wall_s=300, timeout_s=400, exc_is_violation=True)
def run_history(mk, flavour, history, update, lc):
    """results do not depend on the history of run() calls made on one instance: coarse passes (tol above every message
    distance: each stops as 'converged' after one round), single rounds, completed fine runs and user resets of the messages
    (fresh symbolic positive messages), in the listed orders, followed by a fine run: the messages are the exact cavity
    contractions and contract() is the exact value / <psi|psi>, exactly as after a single fine run on a fresh instance; the
    run that follows a converged run iterates again and fills `info`"""
    mk.encodes(bp_common.BeliefPropagationCommon.run, d1bp.D1BP.iterate, hd1bp.HD1BP.iterate, hv1bp.HV1BP.iterate, l1bp.L1BP.iterate,
               d2bp.D2BP.iterate, l2bp.L2BP.iterate)
    bp, rounds, messages_goal, want, reset = _history_subject(mk, flavour, update, lc)
    coarse = 4.0
    fine = 0.5 if mk.sym else 1e-12
    steps = HISTORIES[history]

    def run(**kw):
        """bp.run(**kw) -> number of rounds performed (public counter `n`)"""
        n0 = bp.n
        bp.run(max_iterations=kw.pop("max_iterations", rounds), **kw)
        return bp.n - n0

    for k, step in enumerate(steps):
        if step == "coarse":
            mk.same(f"step {k} (coarse pass, tol above every message distance): stops as converged after one round",
                    (run(tol=coarse), bool(bp.converged)), (1, True))
        elif step == "round":
            mk.same(f"step {k} (single round, tol=0): one round, not flagged converged", (run(max_iterations=1, tol=0.0), bool(bp.converged)), (1, False))
        elif step == "reset":
            reset()
        else:
            its = run(tol=fine, tol_rolling_diff=0.0)
            mk.same(f"step {k} (fine run): performs at least one round and ends converged on a tree", (its >= 1, bool(bp.converged)), (True, True))
    tag = f"{flavour} after {'+'.join(steps)}"
    messages_goal(tag)
    mk.eq(f"{tag}: contract() == exact value", value(bp.contract(strip_exponent=True)) if flavour == "L2BP" else bp.contract(), want)
    # one more run at the fixed point: it must look at the messages again (one round), find them unchanged and report so
    its = run(tol=fine, tol_rolling_diff=0.0)
    mk.same(f"{tag}: a further run performs one round and ends converged", (its, bool(bp.converged)), (1, True))
    converged_goal(mk, f"{tag}: a further run changes nothing (last recorded max_mdiff == 0)", {"max_mdiff": bp.mdiffs[-1]})
    messages_goal(tag + " + one more run")
    if history == "fine_fine":
        # the documented `info` record of a run that follows a converged run
        info = {}
        bp.run(max_iterations=rounds, tol=fine, tol_rolling_diff=0.0, info=info)
        mk.same(f"{tag}: info of a run after a converged run: converged, one round", (bool(info["converged"]), info["iterations"]), (True, 1))
        converged_goal(mk, f"{tag}: info['max_mdiff'] == 0 at the fixed point", info)
